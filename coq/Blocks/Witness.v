(* C16 witnesses: concrete opcode lists (abstracted from what pytype builds for CPython 3.12, opcode classes
   by NAME so they survive a reordering of opcodes.py) and the closed computations about them. *)
From Coq Require Import List NArith Arith Bool.
From PV Require Import Generated.C16_OpcodeFlags Blocks.Model Blocks.Proofs.
Import ListNotations.

(* async def f(it):
     async for i in it:
       if i: continue
       g(i)                                                                                   *)
Definition async_for_continue : list instr :=
 [mkI 0 op_RETURN_GENERATOR None None None (Some 1) None;
 mkI 1 op_POP_TOP None None None (Some 2) (Some 0);
 mkI 2 op_RESUME None None None (Some 3) (Some 1);
 mkI 3 op_LOAD_FAST None None None (Some 4) (Some 2);
 mkI 4 op_GET_AITER None None None (Some 5) (Some 3);
 mkI 5 op_GET_ANEXT None None None (Some 6) (Some 4);
 mkI 6 op_LOAD_CONST None None None (Some 7) (Some 5);
 mkI 7 op_SEND (Some 11) None None (Some 8) (Some 6);
 mkI 8 op_YIELD_VALUE None None None (Some 9) (Some 7);
 mkI 9 op_RESUME None None None (Some 10) (Some 8);
 mkI 10 op_JUMP_BACKWARD_NO_INTERRUPT (Some 7) None None (Some 11) (Some 9);
 mkI 11 op_END_SEND None None None (Some 12) (Some 10);
 mkI 12 op_STORE_FAST None None None (Some 13) (Some 11);
 mkI 13 op_LOAD_FAST None None None (Some 14) (Some 12);
 mkI 14 op_POP_JUMP_IF_FALSE (Some 16) None None (Some 15) (Some 13);
 mkI 15 op_JUMP_BACKWARD (Some 5) None (Some 23) (Some 16) (Some 14);
 mkI 16 op_LOAD_GLOBAL None None None (Some 17) (Some 15);
 mkI 17 op_LOAD_FAST None None None (Some 18) (Some 16);
 mkI 18 op_CALL None None None (Some 19) (Some 17);
 mkI 19 op_POP_TOP None None None (Some 20) (Some 18);
 mkI 20 op_JUMP_BACKWARD (Some 5) None (Some 23) (Some 21) (Some 19);
 mkI 21 op_CLEANUP_THROW None None None (Some 22) (Some 20);
 mkI 22 op_JUMP_BACKWARD (Some 11) None None (Some 23) (Some 21);
 mkI 23 op_END_ASYNC_FOR None None None (Some 24) (Some 22);
 mkI 24 op_RETURN_CONST None None None (Some 25) (Some 23);
 mkI 25 op_CALL_INTRINSIC_1 None None None (Some 26) (Some 24);
 mkI 26 op_RERAISE None None None None (Some 25)]%N.


Lemma partition_refuted_lemma : exists ops r,
  wf_opsb ops = true /\ compute_order true ops = Ok r /\ ~ NoDup (block_instrs (r_blocks r)).
Proof.
  exists async_for_continue.
  destruct (compute_order true async_for_continue) as [r|] eqn:E; [|vm_compute in E; discriminate].
  exists r. split; [vm_compute; reflexivity|]. split; [reflexivity|].
  apply has_dup_not_NoDup. vm_compute in E. inversion E. vm_compute. reflexivity.
Qed.

Lemma anext_needed_lemma : exists ops bs es o t,
  wf_opsb ops = true /\ plainb ops = true /\ split_bytecode true ops = Ok (bs, es) /\
  In o ops /\ target o = Some t /\ ~ In t (map bid bs).
Proof.
  exists [mkI 0 op_NOP None None None (Some 1%N) None;
          mkI 1 op_GET_ANEXT None None None (Some 2%N) (Some 0%N);
          mkI 2 op_JUMP_BACKWARD (Some 1%N) None None None (Some 1%N)].
  eexists. eexists. exists (mkI 2 op_JUMP_BACKWARD (Some 1%N) None None None (Some 1%N)), 1%N.
  split; [vm_compute; reflexivity|]. split; [vm_compute; reflexivity|].
  split; [vm_compute; reflexivity|]. split; [right; right; left; reflexivity|]. split; [reflexivity|].
  simpl. intros [H|[]]. discriminate.
Qed.

(* def f(xs):
     for x in xs:
       try: g(x)
       except ValueError: continue
     return 1                                                                                  *)
Definition loop_try_except : list instr :=
 [mkI 0 op_RESUME None None None (Some 1) None;
  mkI 1 op_LOAD_FAST None None None (Some 2) (Some 0);
  mkI 2 op_GET_ITER None None None (Some 3) (Some 1);
  mkI 3 op_FOR_ITER (Some 13) None None (Some 4) (Some 2);
  mkI 4 op_STORE_FAST None None None (Some 5) (Some 3);
  mkI 5 op_NOP None None None (Some 6) (Some 4);
  mkI 6 op_SETUP_EXCEPT_311 (Some 15) None None (Some 7) (Some 5);
  mkI 7 op_LOAD_GLOBAL None None None (Some 8) (Some 6);
  mkI 8 op_LOAD_FAST None None None (Some 9) (Some 7);
  mkI 9 op_CALL None None None (Some 10) (Some 8);
  mkI 10 op_POP_TOP None None None (Some 11) (Some 9);
  mkI 11 op_POP_BLOCK None (Some 15) None (Some 12) (Some 10);
  mkI 12 op_JUMP_BACKWARD (Some 3) None None (Some 13) (Some 11);
  mkI 13 op_END_FOR None None None (Some 14) (Some 12);
  mkI 14 op_RETURN_CONST None None None (Some 15) (Some 13);
  mkI 15 op_PUSH_EXC_INFO None None None (Some 16) (Some 14);
  mkI 16 op_LOAD_GLOBAL None None None (Some 17) (Some 15);
  mkI 17 op_CHECK_EXC_MATCH None None None (Some 18) (Some 16);
  mkI 18 op_POP_JUMP_IF_FALSE (Some 22) None None (Some 19) (Some 17);
  mkI 19 op_POP_TOP None None None (Some 20) (Some 18);
  mkI 20 op_POP_EXCEPT None None None (Some 21) (Some 19);
  mkI 21 op_JUMP_BACKWARD (Some 3) None None (Some 22) (Some 20);
  mkI 22 op_RERAISE None None None (Some 23) (Some 21);
  mkI 23 op_COPY None None None (Some 24) (Some 22);
  mkI 24 op_POP_EXCEPT None None None (Some 25) (Some 23);
  mkI 25 op_RERAISE None None None None (Some 24)]%N.


(* async def f(it):
     async for i in it:
       g(i)                                                                                    *)
Definition async_for_simple : list instr :=
 [mkI 0 op_RETURN_GENERATOR None None None (Some 1) None;
  mkI 1 op_POP_TOP None None None (Some 2) (Some 0);
  mkI 2 op_RESUME None None None (Some 3) (Some 1);
  mkI 3 op_LOAD_FAST None None None (Some 4) (Some 2);
  mkI 4 op_GET_AITER None None None (Some 5) (Some 3);
  mkI 5 op_GET_ANEXT None None None (Some 6) (Some 4);
  mkI 6 op_LOAD_CONST None None None (Some 7) (Some 5);
  mkI 7 op_SEND (Some 11) None None (Some 8) (Some 6);
  mkI 8 op_YIELD_VALUE None None None (Some 9) (Some 7);
  mkI 9 op_RESUME None None None (Some 10) (Some 8);
  mkI 10 op_JUMP_BACKWARD_NO_INTERRUPT (Some 7) None None (Some 11) (Some 9);
  mkI 11 op_END_SEND None None None (Some 12) (Some 10);
  mkI 12 op_STORE_FAST None None None (Some 13) (Some 11);
  mkI 13 op_LOAD_GLOBAL None None None (Some 14) (Some 12);
  mkI 14 op_LOAD_FAST None None None (Some 15) (Some 13);
  mkI 15 op_CALL None None None (Some 16) (Some 14);
  mkI 16 op_POP_TOP None None None (Some 17) (Some 15);
  mkI 17 op_JUMP_BACKWARD (Some 5) None (Some 20) (Some 18) (Some 16);
  mkI 18 op_CLEANUP_THROW None None None (Some 19) (Some 17);
  mkI 19 op_JUMP_BACKWARD (Some 11) None None (Some 20) (Some 18);
  mkI 20 op_END_ASYNC_FOR None None None (Some 21) (Some 19);
  mkI 21 op_RETURN_CONST None None None (Some 22) (Some 20);
  mkI 22 op_CALL_INTRINSIC_1 None None None (Some 23) (Some 21);
  mkI 23 op_RERAISE None None None None (Some 22)]%N.
