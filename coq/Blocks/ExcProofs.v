(* C16: lemmas about the model of opcodes.py _add_setup_except / _add_exception_block (Blocks/Model.v).
   Keys: a real instruction at byte offset o has key 2*o+1; offsets are even (wordcode), so real keys are 1 mod 4,
   the synthetic SETUP_EXCEPT_311 keys (key_of start - 1) are 0 mod 4 and the POP_BLOCK keys (last key + 1) are
   2 mod 4: the three kinds can never collide.  (With the synthetic ops at raw offset +-1 this argument is gone.) *)
From Coq Require Import List NArith ZArith Arith Bool Lia Sorted ZifyNat ZifyBool ZifyN.
From PV Require Import Generated.C16_OpcodeFlags Blocks.Model.
Import ListNotations.
Ltac Zify.zify_post_hook ::= Z.div_mod_to_equations.
Local Open Scope N_scope.

Definition keys (l : list xitem) : list N := map x_key l.
Definition kodd (it : xitem) : bool := N.odd (x_key it).
Definition real_item (it : xitem) : Prop := x_key it mod 4 = 1.
Definition lt_all (L : list xitem) (k : N) : Prop := forall h, In h L -> x_key h < k.
Definition sorted (l : list xitem) : Prop := StronglySorted N.lt (keys l).

Lemma sorted_app_inv : forall l1 l2, sorted (l1 ++ l2) ->
  sorted l1 /\ sorted l2 /\ forall a b, In a l1 -> In b l2 -> x_key a < x_key b.
Proof.
  unfold sorted, keys. induction l1 as [|h t IH]; intros l2 H; simpl in *.
  - repeat split; auto. constructor. intros a b [].
  - inversion H as [|? ? Hs Hf]; subst. destruct (IH _ Hs) as [A [B C]].
    rewrite map_app in Hf. rewrite Forall_app in Hf. destruct Hf as [Hf1 Hf2].
    split; [constructor; auto|]. split; [exact B|].
    intros a b [Ha|Ha] Hb.
    + subst a. rewrite Forall_forall in Hf2. apply Hf2. apply in_map. exact Hb.
    + apply C; auto.
Qed.

Lemma sorted_app : forall l1 l2, sorted l1 -> sorted l2 ->
  (forall a b, In a l1 -> In b l2 -> x_key a < x_key b) -> sorted (l1 ++ l2).
Proof.
  unfold sorted, keys. induction l1 as [|h t IH]; intros l2 H1 H2 H; simpl; auto.
  inversion H1 as [|? ? Hs Hf]; subst. constructor.
  - apply IH; auto. intros; apply H; auto. right; auto.
  - rewrite map_app, Forall_app. split; auto. apply Forall_forall. intros k Hk.
    apply in_map_iff in Hk. destruct Hk as [b [E Hb]]. subst k. apply H; auto. left; auto.
Qed.

Lemma sorted_cons_inv : forall a l, sorted (a :: l) -> sorted l /\ forall b, In b l -> x_key a < x_key b.
Proof.
  intros a l H. change (a :: l) with ([a] ++ l) in H. destruct (sorted_app_inv _ _ H) as [_ [B C]].
  split; auto. intros b Hb. apply C; auto. left; auto.
Qed.

Lemma sorted_cons : forall a l, sorted l -> (forall b, In b l -> x_key a < x_key b) -> sorted (a :: l).
Proof.
  intros a l H1 H2. change (a :: l) with ([a] ++ l). apply sorted_app; auto.
  - unfold sorted. simpl. constructor; constructor.
  - intros x b [Hx|[]] Hb. subst. auto.
Qed.

Lemma sorted_keysb_sorted : forall l, sorted_keysb l = true -> sorted l.
Proof.
  induction l as [|a t IH]; intros H.
  - constructor.
  - simpl in H. apply andb_prop in H. destruct H as [H1 H2]. specialize (IH H2).
    apply sorted_cons; auto. intros b Hb. destruct t as [|c t']; [contradiction|].
    apply N.ltb_lt in H1. destruct Hb as [Hb|Hb]; [subst; auto|].
    destruct (sorted_cons_inv _ _ IH) as [_ Hc]. specialize (Hc b Hb). lia.
Qed.

Lemma sorted_key_inj : forall l a b, sorted l -> In a l -> In b l -> x_key a = x_key b -> a = b.
Proof.
  induction l as [|h t IH]; intros a b Hs Ha Hb E; [contradiction|].
  destruct (sorted_cons_inv _ _ Hs) as [Hs' Hlt]. destruct Ha as [Ha|Ha], Hb as [Hb|Hb]; subst; auto.
  - specialize (Hlt b Hb). lia.
  - specialize (Hlt a Ha). lia.
Qed.

(* find_x on a sorted table *)
Lemma find_x_Some : forall k l it, find_x k l = Some it -> In it l /\ x_key it = k.
Proof.
  unfold find_x. intros k l it H. apply find_some in H. destruct H as [H1 H2]. apply N.eqb_eq in H2. auto.
Qed.

Lemma find_x_In : forall l it, sorted l -> In it l -> find_x (x_key it) l = Some it.
Proof.
  intros l it Hs Hin. unfold find_x. destruct (find (fun i => x_key i =? x_key it) l) as [x|] eqn:E.
  - apply find_some in E. destruct E as [E1 E2]. apply N.eqb_eq in E2.
    f_equal. eapply sorted_key_inj; eauto.
  - exfalso. pose proof (find_none _ _ E it Hin) as F. simpl in F. rewrite N.eqb_refl in F. discriminate.
Qed.

Lemma find_x_None : forall k l, find_x k l = None -> forall it, In it l -> x_key it <> k.
Proof.
  unfold find_x. intros k l H it Hin E. pose proof (find_none _ _ H it Hin) as F. simpl in F.
  apply N.eqb_neq in F. auto.
Qed.

(* offset_to_op[k] = op when k is fresh: the new op lands between the smaller and the larger keys *)
Lemma put_x_mid : forall it L1 L2,
  lt_all L1 (x_key it) -> (forall h, In h L2 -> x_key it < x_key h) -> sorted L2 ->
  put_x it (L1 ++ L2) = L1 ++ it :: L2.
Proof.
  induction L1 as [|h t IH]; intros L2 H1 H2 Hs; simpl.
  - destruct L2 as [|h t]; auto. simpl. assert (E : x_key it < x_key h) by (apply H2; left; auto).
    apply N.ltb_lt in E. rewrite E. reflexivity.
  - assert (E : x_key h < x_key it) by (apply H1; left; auto).
    assert (E1 : (x_key it <? x_key h) = false) by (apply N.ltb_ge; lia).
    assert (E2 : (x_key it =? x_key h) = false) by (apply N.eqb_neq; lia).
    rewrite E1, E2. f_equal. apply IH; auto. intros x Hx. apply H1. right; auto.
Qed.

(* max(i for i in offset_to_op if i < k) *)
Lemma max_key_below_spec : forall k l,
  match max_key_below k l with
  | Some m => (exists it, In it l /\ x_key it = m) /\ m < k /\ forall it, In it l -> x_key it < k -> x_key it <= m
  | None => forall it, In it l -> k <= x_key it
  end.
Proof.
  intros k l. unfold max_key_below.
  assert (G : forall l acc (pre : list xitem),
    match acc with
    | Some m => (exists it, In it pre /\ x_key it = m) /\ m < k /\ forall it, In it pre -> x_key it < k -> x_key it <= m
    | None => forall it, In it pre -> k <= x_key it
    end ->
    match fold_left (fun acc it => if x_key it <? k
                                   then Some match acc with Some a => N.max a (x_key it) | None => x_key it end
                                   else acc) l acc with
    | Some m => (exists it, In it (pre ++ l) /\ x_key it = m) /\ m < k /\
                forall it, In it (pre ++ l) -> x_key it < k -> x_key it <= m
    | None => forall it, In it (pre ++ l) -> k <= x_key it
    end).
  { induction l0 as [|h t IH]; intros acc pre Hacc; simpl.
    - rewrite app_nil_r. exact Hacc.
    - replace (pre ++ h :: t) with ((pre ++ [h]) ++ t) by (rewrite <- app_assoc; reflexivity).
      apply IH. destruct (x_key h <? k) eqn:E.
      + apply N.ltb_lt in E. destruct acc as [a|].
        * destruct Hacc as [[x [Hx1 Hx2]] [Hlt Hmax]]. split; [|split].
          -- destruct (N.max_spec a (x_key h)) as [[_ M]|[_ M]]; rewrite M.
             ++ exists h. split; auto. apply in_or_app. right. left. auto.
             ++ exists x. split; auto. apply in_or_app. left. auto.
          -- lia.
          -- intros it Hit Hk. apply in_app_or in Hit. destruct Hit as [Hit|[Hit|[]]].
             ++ specialize (Hmax it Hit Hk). lia.
             ++ subst. lia.
        * split; [|split].
          -- exists h. split; auto. apply in_or_app. right. left. auto.
          -- exact E.
          -- intros it Hit Hk. apply in_app_or in Hit. destruct Hit as [Hit|[Hit|[]]].
             ++ specialize (Hacc it Hit). lia.
             ++ subst. lia.
      + apply N.ltb_ge in E. destruct acc as [a|].
        * destruct Hacc as [[x [Hx1 Hx2]] [Hlt Hmax]]. split; [|split]; auto.
          -- exists x. split; auto. apply in_or_app. left. auto.
          -- intros it Hit Hk. apply in_app_or in Hit. destruct Hit as [Hit|[Hit|[]]]; auto. subst. lia.
        * intros it Hit. apply in_app_or in Hit. destruct Hit as [Hit|[Hit|[]]]; auto. subst. exact E. }
  apply (G l None []). intros it [].
Qed.

(* splitting a sorted list at one of its elements *)
Lemma sorted_split : forall l x, sorted l -> In x l ->
  exists l1 l2, l = l1 ++ x :: l2 /\ lt_all l1 (x_key x) /\ (forall h, In h l2 -> x_key x < x_key h).
Proof.
  intros l x Hs Hin. apply in_split in Hin. destruct Hin as [l1 [l2 E]]. exists l1, l2. split; auto.
  subst l. destruct (sorted_app_inv _ _ Hs) as [_ [H2 H3]]. split.
  - intros h Hh. apply H3; auto. left; auto.
  - apply sorted_cons_inv in H2. tauto.
Qed.

(* brackets *)
Lemma brk_app_real : forall l o rest, Forall real_item l -> brk (keys l ++ rest) o = brk rest o.
Proof.
  induction l as [|h t IH]; intros o rest H; simpl; auto. inversion H; subst. unfold real_item in *.
  assert (E0 : (x_key h mod 4 =? 0) = false) by (apply N.eqb_neq; lia).
  assert (E2 : (x_key h mod 4 =? 2) = false) by (apply N.eqb_neq; lia).
  rewrite E0, E2. apply IH; auto.
Qed.

Lemma brk_open : forall k t, k mod 4 = 0 -> brk (k :: t) false = brk t true.
Proof. intros k t H. cbn [brk]. apply N.eqb_eq in H. rewrite H. reflexivity. Qed.

Lemma brk_close : forall k t, k mod 4 = 2 -> brk (k :: t) true = brk t false.
Proof.
  intros k t H. cbn [brk]. assert (E0 : (k mod 4 =? 0) = false) by (apply N.eqb_neq; lia).
  apply N.eqb_eq in H. rewrite E0, H. reflexivity.
Qed.

Lemma brk_app_closed : forall l1 l2, brk l1 false = true -> brk (l1 ++ l2) false = brk l2 false.
Proof.
  assert (G : forall l1 l2 o, brk l1 o = true -> brk (l1 ++ l2) o = brk l2 false).
  { induction l1 as [|k t IH]; intros l2 o H; simpl in *.
    - destruct o; [discriminate | reflexivity].
    - destruct (k mod 4 =? 0).
      + apply andb_prop in H. destruct H as [H1 H2]. rewrite H1. simpl. apply IH; auto.
      + destruct (k mod 4 =? 2).
        * apply andb_prop in H. destruct H as [H1 H2]. rewrite H1. simpl. apply IH; auto.
        * apply IH; auto. }
  intros. apply G; auto.
Qed.

(* ================================================================================================ *)
(* the invariant of the loop of _add_setup_except: the table is A ++ R, A = the part already finished (with its
   synthetic ops), R = a suffix of the original table *)

Definition is_last (items : list xitem) (e : exc_entry) (k : N) : Prop :=
  (exists it, In it items /\ x_key it = k) /\ k <= key_of (e_end e) /\
  forall it, In it items -> x_key it <= key_of (e_end e) -> x_key it <= k.

Definition entry_ok (items A : list xitem) (e : exc_entry) : Prop :=
  (exists l1 s l2,
     A = l1 ++ mkX (key_of (e_start e) - 1) op_SETUP_EXCEPT_311 (x_line s) (Some (key_of (e_target e))) :: s :: l2 /\
     In s items /\ x_key s = key_of (e_start e)) /\
  (exists l1 lst l2,
     A = l1 ++ lst :: mkX (x_key lst + 1) op_POP_BLOCK (x_line lst) None :: l2 /\
     In lst items /\ is_last items e (x_key lst)).

Lemma entry_ok_app : forall items A X e, entry_ok items A e -> entry_ok items (A ++ X) e.
Proof.
  intros items A X e [[l1 [s [l2 [E H]]]] [m1 [lst [m2 [E' H']]]]]. split.
  - exists l1, s, (l2 ++ X). split; auto. rewrite E. rewrite <- app_assoc. reflexivity.
  - exists m1, lst, (m2 ++ X). split; auto. rewrite E'. rewrite <- app_assoc. reflexivity.
Qed.

Definition keven (it : xitem) : bool := negb (kodd it).

Record inv (items A R : list xitem) (b : N) (done : list exc_entry) : Prop := {
  i_real : items = filter kodd A ++ R;
  i_sorted : sorted (A ++ R);
  i_bound : forall h, In h A -> x_key h < 2 * b \/ (x_key h = 2 * b /\ x_key h mod 4 = 2);
  i_brk : brk (keys A) false = true;
  i_done : forall e, In e done -> entry_ok items A e;
  i_count : length (filter keven A) = (2 * length done)%nat;
  (* every op placed so far is an original instruction or a synthetic op whose class matches its key class *)
  i_shape : forall h, In h A -> (real_item h /\ In h items) \/
                                 (x_key h mod 4 = 0 /\ x_opc h = op_SETUP_EXCEPT_311) \/
                                 (x_key h mod 4 = 2 /\ x_opc h = op_POP_BLOCK)
}.

Lemma kodd_real : forall it, real_item it -> kodd it = true.
Proof.
  intros it H. unfold kodd, real_item in *. apply N.odd_spec. exists (x_key it / 2). lia.
Qed.

Lemma kodd_even_key : forall it, x_key it mod 2 = 0 -> kodd it = false.
Proof.
  intros it H. unfold kodd. destruct (N.odd (x_key it)) eqn:E; auto.
  apply N.odd_spec in E. destruct E as [m E]. lia.
Qed.

Lemma filter_kodd_real : forall l, Forall real_item l -> filter kodd l = l.
Proof.
  induction l as [|h t IH]; intros H; simpl; auto. inversion H; subst.
  rewrite kodd_real by auto. f_equal. auto.
Qed.

Lemma filter_keven_real : forall l, Forall real_item l -> filter keven l = [].
Proof.
  induction l as [|h t IH]; intros H; simpl; auto. inversion H; subst. unfold keven at 1.
  rewrite kodd_real by auto. simpl. auto.
Qed.

Lemma Forall_sub : forall (P : xitem -> Prop) l l', Forall P l -> (forall x, In x l' -> In x l) -> Forall P l'.
Proof. intros P l l' H Hs. apply Forall_forall. intros x Hx. rewrite Forall_forall in H. auto. Qed.

Lemma inv_weaken : forall items A R b b' done, inv items A R b done -> b <= b' -> inv items A R b' done.
Proof.
  intros items A R b b' done [H1 H2 H3 H4 H5 H6 H7] Hb. constructor; auto.
  intros h Hh. destruct (H3 h Hh) as [H|[H H']].
  - left. lia.
  - destruct (N.eq_dec b b') as [E|E]; [subst; right; auto | left; lia].
Qed.

Lemma sorted_insert : forall L1 L2 it, sorted (L1 ++ L2) -> lt_all L1 (x_key it) ->
  (forall h, In h L2 -> x_key it < x_key h) -> sorted (L1 ++ it :: L2).
Proof.
  intros L1 L2 it Hs H1 H2. destruct (sorted_app_inv _ _ Hs) as [A [B C]].
  apply sorted_app; auto.
  - apply sorted_cons; auto.
  - intros a b Ha [Hb|Hb]; [subst; apply H1; auto | apply C; auto].
Qed.

Lemma items_in_table : forall items A R x, items = filter kodd A ++ R -> In x items -> In x (A ++ R).
Proof.
  intros items A R x E H. rewrite E in H. apply in_app_or in H. apply in_or_app. destruct H as [H|H]; auto.
  left. apply filter_In in H. tauto.
Qed.

Lemma head_of_split : forall (s : xitem) Rb Rc lst Rd, s :: Rb = Rc ++ lst :: Rd -> exists Y, Rc ++ [lst] = s :: Y.
Proof.
  intros s Rb Rc lst Rd E. destruct Rc as [|c Rc]; simpl in *; inversion E; subst; eauto.
Qed.

Lemma add_exception_block_step : forall items A R b done e s t,
  Forall real_item items -> inv items A R b done ->
  b <= e_start e -> e_start e <= e_end e ->
  In s items -> x_key s = key_of (e_start e) -> In t items -> x_key t = key_of (e_target e) ->
  exists A' R', add_exception_block (A ++ R) e = Ok (A' ++ R') /\ inv items A' R' (e_end e + 1) (done ++ [e]).
Proof.
  intros items A R b done e s t Hreal [I1 I2 I3 I4 I5 I6 I7] Hb Hse Hs Hks Ht Hkt.
  assert (RsubI : forall x, In x R -> In x items) by (intros x Hx; rewrite I1; apply in_or_app; auto).
  assert (RealR : Forall real_item R) by (eapply Forall_sub; eauto).
  assert (Rs : real_item s) by (rewrite Forall_forall in Hreal; auto).
  pose proof Rs as Rs'. unfold real_item in Rs'. rewrite Hks in Rs'. unfold key_of in *.
  (* s lies in R *)
  assert (HsR : In s R).
  { rewrite I1 in Hs. apply in_app_or in Hs. destruct Hs as [Hs|Hs]; auto. exfalso.
    apply filter_In in Hs. destruct Hs as [Hs _]. destruct (I3 s Hs) as [F|[F _]]; lia. }
  destruct (sorted_app_inv _ _ I2) as [SA [SR CAR]].
  destruct (sorted_split R s SR HsR) as [Ra [Rb [ER [LRa GRb]]]].
  assert (RealRa : Forall real_item Ra).
  { eapply Forall_sub; [exact RealR|]. intros x Hx. rewrite ER. apply in_or_app. auto. }
  assert (RealRb : Forall real_item (s :: Rb)).
  { eapply Forall_sub; [exact RealR|]. intros x Hx. rewrite ER. apply in_or_app. right. exact Hx. }
  set (S := mkX (2 * e_start e + 1 - 1) op_SETUP_EXCEPT_311 (x_line s) (Some (2 * e_target e + 1))).
  assert (KS : x_key S = 2 * e_start e) by (simpl; lia).
  (* the lookups of the start op and the insertion of the SETUP *)
  assert (F1 : find_x (2 * e_start e + 1) (A ++ R) = Some s).
  { rewrite <- Hks. apply find_x_In; auto. eapply items_in_table; eauto. }
  assert (LT1 : lt_all (A ++ Ra) (x_key S)).
  { intros h Hh. rewrite KS. apply in_app_or in Hh. destruct Hh as [Hh|Hh].
    - destruct (I3 h Hh) as [F|[F F']]; lia.
    - specialize (LRa h Hh). rewrite Forall_forall in RealRa. specialize (RealRa h Hh).
      unfold real_item in RealRa. lia. }
  assert (GT1 : forall h, In h (s :: Rb) -> x_key S < x_key h).
  { intros h [Hh|Hh]; rewrite KS; [subst; lia | specialize (GRb h Hh); lia]. }
  assert (SsRb : sorted (s :: Rb)).
  { rewrite ER in SR. apply sorted_app_inv in SR. tauto. }
  assert (P1 : put_x S (A ++ R) = (A ++ Ra) ++ S :: s :: Rb).
  { rewrite ER. rewrite app_assoc. apply put_x_mid; auto. }
  set (T1 := (A ++ Ra) ++ S :: s :: Rb) in *.
  assert (ST1 : sorted T1).
  { unfold T1. apply sorted_insert; auto. rewrite <- app_assoc, <- ER. exact I2. }
  assert (IT1 : forall x, In x items -> In x T1).
  { intros x Hx. apply (items_in_table _ _ _ _ I1) in Hx. rewrite ER in Hx. unfold T1.
    apply in_app_or in Hx. destruct Hx as [Hx|Hx].
    - apply in_or_app. left. apply in_or_app. auto.
    - apply in_app_or in Hx. destruct Hx as [Hx|Hx].
      + apply in_or_app. left. apply in_or_app. auto.
      + apply in_or_app. right. right. exact Hx. }
  assert (F2 : find_x (2 * e_target e + 1) T1 = Some t).
  { rewrite <- Hkt. apply find_x_In; auto. }
  (* elements of T1 at or above the key of s are in s :: Rb *)
  assert (UP : forall x, In x T1 -> x_key s <= x_key x -> In x (s :: Rb)).
  { intros x Hx Hk. unfold T1 in Hx. apply in_app_or in Hx. destruct Hx as [Hx|[Hx|Hx]]; auto.
    - specialize (LT1 x Hx). lia.
    - subst x. lia. }
  (* the op the POP_BLOCK follows *)
  assert (LST : exists lst, In lst (s :: Rb) /\ x_key lst <= 2 * e_end e + 1 /\
                 (forall it, In it T1 -> x_key it <= 2 * e_end e + 1 -> x_key it <= x_key lst) /\
                 match find_x (2 * e_end e + 1) T1 with
                 | Some _ => Some (2 * e_end e + 1)
                 | None => max_key_below (2 * e_end e + 1) T1
                 end = Some (x_key lst)).
  { destruct (find_x (2 * e_end e + 1) T1) as [x|] eqn:E.
    - apply find_x_Some in E. destruct E as [Hx Kx]. exists x. rewrite Kx. repeat split; auto; try lia.
      apply UP; auto. lia.
    - pose proof (max_key_below_spec (2 * e_end e + 1) T1) as M.
      pose proof (find_x_None _ _ E) as NK.
      assert (HsT : In s T1) by (apply IT1; auto).
      destruct (max_key_below (2 * e_end e + 1) T1) as [m|].
      + destruct M as [[x [Hx Kx]] [Mlt Mmax]]. exists x. rewrite Kx.
        assert (x_key s <= m) by (apply Mmax; auto; specialize (NK s HsT); lia).
        repeat split; auto; try lia.
        * apply UP; auto. lia.
        * intros it Hit Hk. apply Mmax; auto. specialize (NK it Hit). lia.
      + exfalso. specialize (M s HsT). specialize (NK s HsT). lia. }
  destruct LST as [lst [HlR [Klst [Mlst Eend]]]].
  assert (F3 : find_x (x_key lst) T1 = Some lst).
  { apply find_x_In; auto. unfold T1. apply in_or_app. right. right. exact HlR. }
  destruct (sorted_split (s :: Rb) lst SsRb HlR) as [Rc [Rd [ERc [LRc GRd]]]].
  assert (Rl : real_item lst) by (rewrite Forall_forall in RealRb; auto).
  set (P := mkX (x_key lst + 1) op_POP_BLOCK (x_line lst) None).
  assert (ET1 : T1 = ((A ++ Ra) ++ S :: Rc ++ [lst]) ++ Rd).
  { unfold T1. rewrite ERc. rewrite <- !app_assoc. simpl. rewrite <- !app_assoc. reflexivity. }
  assert (RealRd : Forall real_item Rd).
  { eapply Forall_sub; [exact RealRb|]. intros x Hx. rewrite ERc. apply in_or_app. right. right. exact Hx. }
  assert (LT2 : lt_all ((A ++ Ra) ++ S :: Rc ++ [lst]) (x_key P)).
  { intros h Hh. simpl. rewrite ET1 in ST1.
    assert (Hle : x_key h <= x_key lst).
    { apply in_app_or in Hh. destruct Hh as [Hh|[Hh|Hh]].
      - specialize (LT1 h Hh). specialize (GT1 lst HlR). lia.
      - subst h. specialize (GT1 lst HlR). lia.
      - apply in_app_or in Hh. destruct Hh as [Hh|[Hh|[]]]; [specialize (LRc h Hh); lia | subst; lia]. }
    lia. }
  assert (GT2 : forall h, In h Rd -> x_key P < x_key h).
  { intros h Hh. simpl. specialize (GRd h Hh). rewrite Forall_forall in RealRd. specialize (RealRd h Hh).
    unfold real_item in *. lia. }
  assert (SRd : sorted Rd).
  { rewrite ERc in SsRb. apply sorted_app_inv in SsRb. destruct SsRb as [_ [X _]]. apply sorted_cons_inv in X. tauto. }
  assert (P2 : put_x P T1 = ((A ++ Ra) ++ S :: Rc ++ [lst]) ++ P :: Rd).
  { rewrite ET1. apply put_x_mid; auto. }
  exists (((A ++ Ra) ++ S :: Rc ++ [lst]) ++ [P]), Rd. split.
  - unfold add_exception_block, key_of. rewrite F1. fold S. rewrite P1. fold T1. rewrite F2.
    rewrite Eend. rewrite F3. fold P. rewrite P2.
    rewrite <- (app_assoc ((A ++ Ra) ++ S :: Rc ++ [lst]) [P] Rd). reflexivity.
  - assert (KoS : kodd S = false) by (apply kodd_even_key; rewrite KS; lia).
    assert (KoP : kodd P = false) by (apply kodd_even_key; simpl; unfold real_item in Rl; lia).
    assert (RealRc : Forall real_item (Rc ++ [lst])).
    { eapply Forall_sub; [exact RealRb|]. intros x Hx. rewrite ERc. apply in_app_or in Hx.
      apply in_or_app. destruct Hx as [Hx|[Hx|[]]]; [left; auto | right; left; auto]. }
    constructor.
    + rewrite !filter_app. simpl. rewrite KoS, KoP. simpl. rewrite app_nil_r.
      rewrite (filter_kodd_real Ra), (filter_kodd_real (Rc ++ [lst])) by auto.
      rewrite I1, ER, ERc. rewrite <- !app_assoc. reflexivity.
    + rewrite <- app_assoc. simpl. apply sorted_insert; auto. rewrite <- ET1. exact ST1.
    + intros h Hh. apply in_app_or in Hh. destruct Hh as [Hh|[Hh|[]]].
      * specialize (LT2 h Hh). simpl in LT2.
        assert (x_key h <= x_key lst) by lia. left.
        destruct (N.eq_dec (x_key h) (x_key lst)) as [E|E]; [|lia].
        unfold real_item in Rl. lia.
      * subst h. change (x_key P) with (x_key lst + 1). unfold real_item in Rl.
        destruct (N.eq_dec (x_key lst + 1) (2 * (e_end e + 1))); [right; split; lia | left; lia].
    + assert (EK : keys (((A ++ Ra) ++ S :: Rc ++ [lst]) ++ [P]) =
                   keys A ++ keys Ra ++ x_key S :: keys (Rc ++ [lst]) ++ [x_key P]).
      { unfold keys. rewrite !map_app. cbn [map]. rewrite !map_app. cbn [map]. rewrite <- !app_assoc.
        cbn [app]. rewrite <- ?app_assoc. reflexivity. }
      rewrite EK. rewrite brk_app_closed by exact I4. rewrite brk_app_real by exact RealRa.
      rewrite brk_open by (rewrite KS; lia). rewrite brk_app_real by exact RealRc.
      unfold real_item in Rl. rewrite brk_close by (change (x_key P) with (x_key lst + 1); lia). reflexivity.
    + intros e' He'. apply in_app_or in He'. destruct He' as [He'|[He'|[]]].
      * replace (((A ++ Ra) ++ S :: Rc ++ [lst]) ++ [P]) with (A ++ (Ra ++ S :: Rc ++ [lst]) ++ [P])
          by (rewrite <- !app_assoc; reflexivity).
        apply entry_ok_app. auto.
      * subst e'. destruct (head_of_split _ _ _ _ _ ERc) as [Y EY]. split.
        -- exists (A ++ Ra), s, (Y ++ [P]). unfold key_of. fold S. split; [|split; auto].
           rewrite EY. rewrite <- !app_assoc. reflexivity.
        -- exists ((A ++ Ra) ++ S :: Rc), lst, []. fold P. split; [|split].
           ++ rewrite <- !app_assoc. simpl. rewrite <- !app_assoc. reflexivity.
           ++ apply RsubI. rewrite ER. apply in_or_app. right. exact HlR.
           ++ unfold is_last, key_of. split; [|split].
              ** exists lst. split; auto. apply RsubI. rewrite ER. apply in_or_app. right. exact HlR.
              ** exact Klst.
              ** intros it Hit Hk. apply Mlst; auto.
    + assert (KeS : keven S = true) by (unfold keven; rewrite KoS; reflexivity).
      assert (KeP : keven P = true) by (unfold keven; rewrite KoP; reflexivity).
      rewrite (filter_app keven ((A ++ Ra) ++ S :: Rc ++ [lst]) [P]).
      rewrite (filter_app keven (A ++ Ra) (S :: Rc ++ [lst])).
      rewrite (filter_app keven A Ra).
      cbn [filter]. rewrite KeS, KeP.
      rewrite (filter_keven_real Ra), (filter_keven_real (Rc ++ [lst])) by auto.
      rewrite !app_length. cbn [length]. rewrite I6. lia.
    + intros h Hh. apply in_app_or in Hh. destruct Hh as [Hh|[Hh|[]]].
      * apply in_app_or in Hh. destruct Hh as [Hh|[Hh|Hh]].
        -- apply in_app_or in Hh. destruct Hh as [Hh|Hh]; [exact (I7 h Hh)|]. left. split.
           ++ rewrite Forall_forall in RealRa. auto.
           ++ apply RsubI. rewrite ER. apply in_or_app. left. exact Hh.
        -- subst h. right. left. split; [rewrite KS; lia | reflexivity].
        -- left. split.
           ++ rewrite Forall_forall in RealRc. auto.
           ++ apply RsubI. rewrite ER. apply in_or_app. right. rewrite ERc.
              apply in_app_or in Hh. apply in_or_app. destruct Hh as [Hh|[Hh|[]]]; [left; auto | right; left; auto].
      * subst h. right. right. split; [change (x_key P) with (x_key lst + 1); unfold real_item in Rl; lia | reflexivity].
Qed.

(* ================================================================================================ *)
(* the loop *)

Definition entry_keys_ok (items : list xitem) (e : exc_entry) : Prop :=
  (exists s, In s items /\ x_key s = key_of (e_start e)) /\
  (exists t, In t items /\ x_key t = key_of (e_target e)).

Lemma loop_inv : forall items, sorted items -> Forall real_item items ->
  forall entries seen A R b done,
  inv items A R b done -> bounded_fromb b entries = true ->
  (forall e, In e entries -> entry_keys_ok items e) ->
  exists A' R' b', add_setup_except_loop entries seen (A ++ R) = Ok (A' ++ R') /\
                   inv items A' R' b' (done ++ kept_loop entries seen items).
Proof.
  intros items Hsorted Hreal. induction entries as [|e rest IH]; intros seen A R b done I Hb Hk.
  - exists A, R, b. simpl. rewrite app_nil_r. auto.
  - simpl in Hb. apply andb_prop in Hb. destruct Hb as [Hb Hb3]. apply andb_prop in Hb. destruct Hb as [Hb1 Hb2].
    apply N.leb_le in Hb1, Hb2.
    destruct (Hk e (or_introl eq_refl)) as [[s [Hs Ks]] [t [Ht Kt]]].
    assert (Hk' : forall e', In e' rest -> entry_keys_ok items e') by (intros; apply Hk; right; auto).
    pose proof (i_real _ _ _ _ _ I) as I1. pose proof (i_sorted _ _ _ _ _ I) as I2.
    assert (Ft : find_x (key_of (e_target e)) (A ++ R) = Some t).
    { rewrite <- Kt. apply find_x_In; auto. eapply items_in_table; eauto. }
    assert (Fs : find_x (key_of (e_start e)) (A ++ R) = Some s).
    { rewrite <- Ks. apply find_x_In; auto. eapply items_in_table; eauto. }
    assert (Ft' : find_x (key_of (e_target e)) items = Some t) by (rewrite <- Kt; apply find_x_In; auto).
    assert (Fs' : find_x (key_of (e_start e)) items = Some s) by (rewrite <- Ks; apply find_x_In; auto).
    cbn [add_setup_except_loop kept_loop]. rewrite Ft, Fs, Ft', Fs'.
    assert (Iw : inv items A R (e_end e + 1) done) by (eapply inv_weaken; eauto; lia).
    destruct (memN (x_opc t) ignored_exception_targets).
    + apply (IH seen A R (e_end e + 1) done); auto.
    + destruct (negb (e_lasti e) && negb (memN (x_line s) seen)).
      * destruct (add_exception_block_step items A R b done e s t Hreal I Hb1 Hb2 Hs Ks Ht Kt)
          as [A1 [R1 [E1 I1']]].
        rewrite E1. cbn [bind].
        destruct (IH (x_line s :: seen) A1 R1 (e_end e + 1) (done ++ [e]) I1' Hb3 Hk') as [A' [R' [b' [E2 I2']]]].
        exists A', R', b'. split; [exact E2|]. rewrite <- app_assoc in I2'. exact I2'.
      * apply (IH seen A R (e_end e + 1) done); auto.
Qed.

Lemma inv_init : forall items, sorted items -> inv items [] items 0 [].
Proof.
  intros items H. constructor; simpl; auto.
  - intros h [].
  - intros e [].
  - intros h [].
Qed.

Lemma wf_excb_spec : forall items entries, wf_excb items entries = true ->
  sorted items /\ Forall real_item items /\ bounded_fromb 0 entries = true /\
  forall e, In e entries -> entry_keys_ok items e.
Proof.
  intros items entries H. unfold wf_excb in H.
  apply andb_prop in H. destruct H as [H H4]. apply andb_prop in H. destruct H as [H H3].
  apply andb_prop in H. destruct H as [H1 H2].
  split; [apply sorted_keysb_sorted; auto|]. split; [|split; auto].
  - apply Forall_forall. intros x Hx. rewrite forallb_forall in H2. specialize (H2 x Hx).
    apply N.eqb_eq in H2. exact H2.
  - intros e He. rewrite forallb_forall in H3. specialize (H3 e He). apply andb_prop in H3.
    destruct H3 as [A B]. unfold has_keyb in A, B. apply existsb_exists in A, B.
    destruct A as [s [Hs Ks]], B as [t [Ht Kt]]. apply N.eqb_eq in Ks, Kt.
    split; [exists s | exists t]; auto.
Qed.

(* everything at once *)
Lemma add_setup_except_spec : forall items entries,
  wf_excb items entries = true ->
  exists A R b, add_setup_except entries items = Ok (A ++ R) /\ inv items A R b (kept_entries entries items).
Proof.
  intros items entries H. destruct (wf_excb_spec _ _ H) as [Hs [Hr [Hb Hk]]].
  destruct (loop_inv items Hs Hr entries [] [] items 0 [] (inv_init items Hs) Hb Hk) as [A [R [b [E I]]]].
  exists A, R, b. split; auto.
Qed.

Lemma inv_R_real : forall items A R b done, Forall real_item items -> inv items A R b done -> Forall real_item R.
Proof.
  intros items A R b done Hr I. eapply Forall_sub; [exact Hr|]. intros x Hx.
  rewrite (i_real _ _ _ _ _ I). apply in_or_app. auto.
Qed.

(* ---- the statements used by Props/C16.v ---- *)

Lemma exception_ops_total_lemma : forall items entries,
  wf_excb items entries = true -> exists out, add_setup_except entries items = Ok out.
Proof. intros items entries H. destruct (add_setup_except_spec _ _ H) as [A [R [b [E _]]]]. eauto. Qed.

Lemma exception_ops_preserve_real_lemma : forall items entries out,
  wf_excb items entries = true -> add_setup_except entries items = Ok out ->
  filter (fun it => N.odd (x_key it)) out = items.
Proof.
  intros items entries out H E. destruct (add_setup_except_spec _ _ H) as [A [R [b [E' I]]]].
  rewrite E in E'. inversion E'; subst out. destruct (wf_excb_spec _ _ H) as [_ [Hr _]].
  change (filter kodd (A ++ R) = items). rewrite filter_app.
  rewrite (filter_kodd_real R) by (eapply inv_R_real; eauto). symmetry. apply (i_real _ _ _ _ _ I).
Qed.

Lemma exception_ops_complete_lemma : forall items entries out,
  wf_excb items entries = true -> add_setup_except entries items = Ok out ->
  StronglySorted N.lt (map x_key out) /\
  length (filter (fun it => N.even (x_key it)) out) = (2 * length (kept_entries entries items))%nat /\
  forall e, In e (kept_entries entries items) ->
    (exists l1 s l2,
       out = l1 ++ mkX (key_of (e_start e) - 1) op_SETUP_EXCEPT_311 (x_line s) (Some (key_of (e_target e))) :: s :: l2 /\
       In s items /\ x_key s = key_of (e_start e)) /\
    (exists l1 lst l2,
       out = l1 ++ lst :: mkX (x_key lst + 1) op_POP_BLOCK (x_line lst) None :: l2 /\
       In lst items /\ x_key lst <= key_of (e_end e) /\
       forall it, In it items -> x_key it <= key_of (e_end e) -> x_key it <= x_key lst).
Proof.
  intros items entries out H E. destruct (add_setup_except_spec _ _ H) as [A [R [b [E' I]]]].
  rewrite E in E'. inversion E'; subst out. destruct (wf_excb_spec _ _ H) as [_ [Hr _]].
  split; [apply (i_sorted _ _ _ _ _ I)|]. split.
  - assert (G : forall l, filter (fun it => N.even (x_key it)) l = filter keven l).
    { intros l. apply filter_ext. intros a. unfold keven, kodd. rewrite <- N.negb_odd. reflexivity. }
    rewrite G, filter_app. rewrite (filter_keven_real R) by (eapply inv_R_real; eauto).
    rewrite app_nil_r. apply (i_count _ _ _ _ _ I).
  - intros e He. pose proof (entry_ok_app items A R e (i_done _ _ _ _ _ I e He)) as [S P]. split; auto.
    destruct P as [l1 [lst [l2 [Eo [Hl [_ [K1 K2]]]]]]]. exists l1, lst, l2. auto.
Qed.

Lemma exception_ops_nested_lemma : forall items entries out,
  wf_excb items entries = true -> add_setup_except entries items = Ok out ->
  brk (map x_key out) false = true.
Proof.
  intros items entries out H E. destruct (add_setup_except_spec _ _ H) as [A [R [b [E' I]]]].
  rewrite E in E'. inversion E'; subst out. destruct (wf_excb_spec _ _ H) as [_ [Hr _]].
  rewrite map_app. fold (keys A). rewrite brk_app_closed by apply (i_brk _ _ _ _ _ I).
  rewrite <- (app_nil_r (map x_key R)). fold (keys R). rewrite brk_app_real by (eapply inv_R_real; eauto).
  reflexivity.
Qed.
