(* C16: lemmas about the model of opcodes.py _add_setup_except / _add_exception_block (Blocks/Model.v).
   Keys: a real instruction at byte offset o has key 2*o+1; offsets are even (wordcode), so real keys are 1 mod 4,
   the synthetic SETUP_EXCEPT_311 keys (key_of start - 1) are 0 mod 4 and the POP_BLOCK keys (last key + 1) are
   2 mod 4: the three kinds can never collide.  (With the synthetic ops at raw offset +-1 this argument is gone.) *)
From Coq Require Import List NArith ZArith Arith Bool Lia Sorted ZifyNat ZifyBool ZifyN.
From PV Require Import Generated.C16_OpcodeFlags Blocks.Model Blocks.Proofs.
Import ListNotations.
Ltac Zify.zify_post_hook ::= Z.div_mod_to_equations.
Local Open Scope N_scope.

Definition keys (l : list xitem) : list N := map x_key l.
Definition kodd (it : xitem) : bool := N.odd (x_key it).
Definition real_item (it : xitem) : Prop := x_key it mod 4 = 1.
Definition lt_all (L : list xitem) (k : N) : Prop := forall h, In h L -> x_key h < k.
Definition sorted (l : list xitem) : Prop := StronglySorted N.lt (keys l).

Lemma sorted_app_inv : forall l1 l2, sorted (l1 ++ l2) ->
  sorted l1 /\ sorted l2 /\ forall a b, In a l1 -> In b l2 -> x_key a < x_key b.
Proof.
  unfold sorted, keys. induction l1 as [|h t IH]; intros l2 H; simpl in *.
  - repeat split; auto. constructor. intros a b [].
  - inversion H as [|? ? Hs Hf]; subst. destruct (IH _ Hs) as [A [B C]].
    rewrite map_app in Hf. rewrite Forall_app in Hf. destruct Hf as [Hf1 Hf2].
    split; [constructor; auto|]. split; [exact B|].
    intros a b [Ha|Ha] Hb.
    + subst a. rewrite Forall_forall in Hf2. apply Hf2. apply in_map. exact Hb.
    + apply C; auto.
Qed.

Lemma sorted_app : forall l1 l2, sorted l1 -> sorted l2 ->
  (forall a b, In a l1 -> In b l2 -> x_key a < x_key b) -> sorted (l1 ++ l2).
Proof.
  unfold sorted, keys. induction l1 as [|h t IH]; intros l2 H1 H2 H; simpl; auto.
  inversion H1 as [|? ? Hs Hf]; subst. constructor.
  - apply IH; auto. intros; apply H; auto. right; auto.
  - rewrite map_app, Forall_app. split; auto. apply Forall_forall. intros k Hk.
    apply in_map_iff in Hk. destruct Hk as [b [E Hb]]. subst k. apply H; auto. left; auto.
Qed.

Lemma sorted_cons_inv : forall a l, sorted (a :: l) -> sorted l /\ forall b, In b l -> x_key a < x_key b.
Proof.
  intros a l H. change (a :: l) with ([a] ++ l) in H. destruct (sorted_app_inv _ _ H) as [_ [B C]].
  split; auto. intros b Hb. apply C; auto. left; auto.
Qed.

Lemma sorted_cons : forall a l, sorted l -> (forall b, In b l -> x_key a < x_key b) -> sorted (a :: l).
Proof.
  intros a l H1 H2. change (a :: l) with ([a] ++ l). apply sorted_app; auto.
  - unfold sorted. simpl. constructor; constructor.
  - intros x b [Hx|[]] Hb. subst. auto.
Qed.

Lemma sorted_keysb_sorted : forall l, sorted_keysb l = true -> sorted l.
Proof.
  induction l as [|a t IH]; intros H.
  - constructor.
  - simpl in H. apply andb_prop in H. destruct H as [H1 H2]. specialize (IH H2).
    apply sorted_cons; auto. intros b Hb. destruct t as [|c t']; [contradiction|].
    apply N.ltb_lt in H1. destruct Hb as [Hb|Hb]; [subst; auto|].
    destruct (sorted_cons_inv _ _ IH) as [_ Hc]. specialize (Hc b Hb). lia.
Qed.

Lemma sorted_key_inj : forall l a b, sorted l -> In a l -> In b l -> x_key a = x_key b -> a = b.
Proof.
  induction l as [|h t IH]; intros a b Hs Ha Hb E; [contradiction|].
  destruct (sorted_cons_inv _ _ Hs) as [Hs' Hlt]. destruct Ha as [Ha|Ha], Hb as [Hb|Hb]; subst; auto.
  - specialize (Hlt b Hb). lia.
  - specialize (Hlt a Ha). lia.
Qed.

(* find_x on a sorted table *)
Lemma find_x_Some : forall k l it, find_x k l = Some it -> In it l /\ x_key it = k.
Proof.
  unfold find_x. intros k l it H. apply find_some in H. destruct H as [H1 H2]. apply N.eqb_eq in H2. auto.
Qed.

Lemma find_x_In : forall l it, sorted l -> In it l -> find_x (x_key it) l = Some it.
Proof.
  intros l it Hs Hin. unfold find_x. destruct (find (fun i => x_key i =? x_key it) l) as [x|] eqn:E.
  - apply find_some in E. destruct E as [E1 E2]. apply N.eqb_eq in E2.
    f_equal. eapply sorted_key_inj; eauto.
  - exfalso. pose proof (find_none _ _ E it Hin) as F. simpl in F. rewrite N.eqb_refl in F. discriminate.
Qed.

Lemma find_x_None : forall k l, find_x k l = None -> forall it, In it l -> x_key it <> k.
Proof.
  unfold find_x. intros k l H it Hin E. pose proof (find_none _ _ H it Hin) as F. simpl in F.
  apply N.eqb_neq in F. auto.
Qed.

(* offset_to_op[k] = op when k is fresh: the new op lands between the smaller and the larger keys *)
Lemma put_x_mid : forall it L1 L2,
  lt_all L1 (x_key it) -> (forall h, In h L2 -> x_key it < x_key h) -> sorted L2 ->
  put_x it (L1 ++ L2) = L1 ++ it :: L2.
Proof.
  induction L1 as [|h t IH]; intros L2 H1 H2 Hs; simpl.
  - destruct L2 as [|h t]; auto. simpl. assert (E : x_key it < x_key h) by (apply H2; left; auto).
    apply N.ltb_lt in E. rewrite E. reflexivity.
  - assert (E : x_key h < x_key it) by (apply H1; left; auto).
    assert (E1 : (x_key it <? x_key h) = false) by (apply N.ltb_ge; lia).
    assert (E2 : (x_key it =? x_key h) = false) by (apply N.eqb_neq; lia).
    rewrite E1, E2. f_equal. apply IH; auto. intros x Hx. apply H1. right; auto.
Qed.

(* max(i for i in offset_to_op if i < k) *)
Lemma max_key_below_spec : forall k l,
  match max_key_below k l with
  | Some m => (exists it, In it l /\ x_key it = m) /\ m < k /\ forall it, In it l -> x_key it < k -> x_key it <= m
  | None => forall it, In it l -> k <= x_key it
  end.
Proof.
  intros k l. unfold max_key_below.
  assert (G : forall l acc (pre : list xitem),
    match acc with
    | Some m => (exists it, In it pre /\ x_key it = m) /\ m < k /\ forall it, In it pre -> x_key it < k -> x_key it <= m
    | None => forall it, In it pre -> k <= x_key it
    end ->
    match fold_left (fun acc it => if x_key it <? k
                                   then Some match acc with Some a => N.max a (x_key it) | None => x_key it end
                                   else acc) l acc with
    | Some m => (exists it, In it (pre ++ l) /\ x_key it = m) /\ m < k /\
                forall it, In it (pre ++ l) -> x_key it < k -> x_key it <= m
    | None => forall it, In it (pre ++ l) -> k <= x_key it
    end).
  { induction l0 as [|h t IH]; intros acc pre Hacc; simpl.
    - rewrite app_nil_r. exact Hacc.
    - replace (pre ++ h :: t) with ((pre ++ [h]) ++ t) by (rewrite <- app_assoc; reflexivity).
      apply IH. destruct (x_key h <? k) eqn:E.
      + apply N.ltb_lt in E. destruct acc as [a|].
        * destruct Hacc as [[x [Hx1 Hx2]] [Hlt Hmax]]. split; [|split].
          -- destruct (N.max_spec a (x_key h)) as [[_ M]|[_ M]]; rewrite M.
             ++ exists h. split; auto. apply in_or_app. right. left. auto.
             ++ exists x. split; auto. apply in_or_app. left. auto.
          -- lia.
          -- intros it Hit Hk. apply in_app_or in Hit. destruct Hit as [Hit|[Hit|[]]].
             ++ specialize (Hmax it Hit Hk). lia.
             ++ subst. lia.
        * split; [|split].
          -- exists h. split; auto. apply in_or_app. right. left. auto.
          -- exact E.
          -- intros it Hit Hk. apply in_app_or in Hit. destruct Hit as [Hit|[Hit|[]]].
             ++ specialize (Hacc it Hit). lia.
             ++ subst. lia.
      + apply N.ltb_ge in E. destruct acc as [a|].
        * destruct Hacc as [[x [Hx1 Hx2]] [Hlt Hmax]]. split; [|split]; auto.
          -- exists x. split; auto. apply in_or_app. left. auto.
          -- intros it Hit Hk. apply in_app_or in Hit. destruct Hit as [Hit|[Hit|[]]]; auto. subst. lia.
        * intros it Hit. apply in_app_or in Hit. destruct Hit as [Hit|[Hit|[]]]; auto. subst. exact E. }
  apply (G l None []). intros it [].
Qed.

(* splitting a sorted list at one of its elements *)
Lemma sorted_split : forall l x, sorted l -> In x l ->
  exists l1 l2, l = l1 ++ x :: l2 /\ lt_all l1 (x_key x) /\ (forall h, In h l2 -> x_key x < x_key h).
Proof.
  intros l x Hs Hin. apply in_split in Hin. destruct Hin as [l1 [l2 E]]. exists l1, l2. split; auto.
  subst l. destruct (sorted_app_inv _ _ Hs) as [_ [H2 H3]]. split.
  - intros h Hh. apply H3; auto. left; auto.
  - apply sorted_cons_inv in H2. tauto.
Qed.

(* brackets *)
Lemma brk_app_real : forall l o rest, Forall real_item l -> brk (keys l ++ rest) o = brk rest o.
Proof.
  induction l as [|h t IH]; intros o rest H; simpl; auto. inversion H; subst. unfold real_item in *.
  assert (E0 : (x_key h mod 4 =? 0) = false) by (apply N.eqb_neq; lia).
  assert (E2 : (x_key h mod 4 =? 2) = false) by (apply N.eqb_neq; lia).
  rewrite E0, E2. apply IH; auto.
Qed.

Lemma brk_app_closed : forall l1 l2, brk l1 false = true -> brk (l1 ++ l2) false = brk l2 false.
Proof.
  assert (G : forall l1 l2 o, brk l1 o = true -> brk (l1 ++ l2) o = brk l2 false).
  { induction l1 as [|k t IH]; intros l2 o H; simpl in *.
    - destruct o; [discriminate | reflexivity].
    - destruct (k mod 4 =? 0).
      + apply andb_prop in H. destruct H as [H1 H2]. rewrite H1. simpl. apply IH; auto.
      + destruct (k mod 4 =? 2).
        * apply andb_prop in H. destruct H as [H1 H2]. rewrite H1. simpl. apply IH; auto.
        * apply IH; auto. }
  intros. apply G; auto.
Qed.
