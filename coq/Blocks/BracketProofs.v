(* C16: composition of the exception-table theorems (Blocks/ExcProofs.v) with the model of add_pop_block_targets
   (Blocks/Apbt.v): the opcode list built from the output of _add_setup_except is bracketed in the sense of
   [brk_ops], the first hypothesis of apbt_total_on_bracketed_input. *)
From Coq Require Import List NArith Arith Bool Lia.
From PV Require Import Generated.C16_OpcodeFlags Blocks.Model Blocks.Proofs Blocks.ExcProofs Blocks.Apbt Blocks.ApbtProofs.
Import ListNotations.

Local Opaque flags_of.

(* every op of the table _add_setup_except returns is an original instruction, or a synthetic op whose class matches
   the class of its key (0 mod 4: SETUP_EXCEPT_311, 2 mod 4: POP_BLOCK) *)
Lemma exception_ops_shape_lemma : forall items entries out,
  wf_excb items entries = true -> add_setup_except entries items = Ok out ->
  forall h, In h out ->
    ((x_key h mod 4 = 1)%N /\ In h items) \/
    ((x_key h mod 4 = 0)%N /\ x_opc h = op_SETUP_EXCEPT_311) \/
    ((x_key h mod 4 = 2)%N /\ x_opc h = op_POP_BLOCK).
Proof.
  intros items entries out H E h Hh. destruct (add_setup_except_spec _ _ H) as [A [R [b [E' I]]]].
  rewrite E in E'. inversion E'; subst out. destruct (wf_excb_spec _ _ H) as [_ [Hr _]].
  apply in_app_or in Hh. destruct Hh as [Hh|Hh].
  - exact (i_shape _ _ _ _ _ I h Hh).
  - left. split.
    + pose proof (inv_R_real _ _ _ _ _ Hr I) as RR. rewrite Forall_forall in RR. exact (RR h Hh).
    + rewrite (i_real _ _ _ _ _ I). apply in_or_app. right. exact Hh.
Qed.

Fixpoint brk_opc (cs : list N) (opened : bool) : bool :=
  match cs with
  | [] => true
  | c :: t => if N.eqb c op_SETUP_EXCEPT_311 then negb opened && brk_opc t true
              else if N.eqb c op_POP_BLOCK then opened && brk_opc t false
              else brk_opc t opened
  end.

Lemma brk_ops_opc : forall ops b, brk_ops ops b = brk_opc (map opc ops) b.
Proof.
  induction ops as [|o t IH]; intros b; [reflexivity|]. cbn [brk_ops map brk_opc]. unfold is_op.
  rewrite !IH. reflexivity.
Qed.

Definition class_agrees (h : xitem) : Prop :=
  ((x_key h mod 4 = 0)%N /\ x_opc h = op_SETUP_EXCEPT_311) \/
  ((x_key h mod 4 = 2)%N /\ x_opc h = op_POP_BLOCK) \/
  ((x_key h mod 4 = 1)%N /\ x_opc h <> op_SETUP_EXCEPT_311 /\ x_opc h <> op_POP_BLOCK).

Lemma brk_transfer : forall xs b, (forall h, In h xs -> class_agrees h) ->
  brk (map x_key xs) b = true -> brk_opc (map x_opc xs) b = true.
Proof.
  induction xs as [|x t IH]; intros b Hall H; [reflexivity|].
  cbn [map brk brk_opc] in *.
  assert (Ht : forall h, In h t -> class_agrees h) by (intros; apply Hall; right; auto).
  destruct (Hall x (or_introl eq_refl)) as [[K C]|[[K C]|[K [C1 C2]]]].
  - rewrite K in H. rewrite C. rewrite N.eqb_refl in *. apply andb_prop in H. destruct H as [H1 H2].
    rewrite H1. simpl. auto.
  - rewrite K in H. rewrite C. change (N.eqb 2 0) with false in H. rewrite N.eqb_refl in H.
    assert (E : N.eqb op_POP_BLOCK op_SETUP_EXCEPT_311 = false) by (apply N.eqb_neq; exact pop_ne_setup311).
    rewrite E, N.eqb_refl. apply andb_prop in H. destruct H as [H1 H2]. rewrite H1. simpl. auto.
  - rewrite K in H. change (N.eqb 1 0) with false in H. change (N.eqb 1 2) with false in H.
    apply N.eqb_neq in C1. apply N.eqb_neq in C2. rewrite C1, C2. auto.
Qed.

(* _make_opcode_list keeps the class sequence (python_version <> (3, 11): nothing is elided) *)
Lemma mol_loop_opc : forall minor, minor <> 11%N -> forall items acc o2i k,
  map opc (map fst (fst (mol_loop minor items acc o2i k))) = rev (map opc (map fst acc)) ++ map iopc items.
Proof.
  intros minor Hm. assert (Hne : forall it rest, should_elide minor it rest = false).
  { intros. unfold should_elide. apply N.eqb_neq in Hm. rewrite Hm. reflexivity. }
  induction items as [|it rest IH]; intros acc o2i k; cbn [mol_loop].
  - cbn [fst map]. rewrite app_nil_r, !map_rev. reflexivity.
  - rewrite Hne. rewrite IH. cbn [map fst opc]. 
    assert (E : map opc (map fst match acc with
                                  | [] => []
                                  | (p, pit) :: t => (set_next p (Some k), pit) :: t
                                  end) = map opc (map fst acc)).
    { destruct acc as [|[p pit] t]; reflexivity. }
    rewrite E. cbn [rev]. rewrite <- app_assoc. reflexivity.
Qed.

Lemma ajt_one_opc : forall n all o2i oi o', ajt_one n all o2i oi = Ok o' -> opc o' = opc (fst oi).
Proof.
  intros n all o2i [o it] o' H. unfold ajt_one in H. cbn [fst].
  destruct (ipreset it).
  - destruct (index_of_item n0 all); inversion H; reflexivity.
  - destruct (has_known_jump o); [|inversion H; reflexivity].
    destruct (iarg it); [|discriminate]. destruct (assocN n0 o2i); [|discriminate].
    destruct (N.to_nat n1 <? n); inversion H; reflexivity.
Qed.

Lemma map_res_opc : forall (f : instr * item -> res instr) l r,
  (forall a b, f a = Ok b -> opc b = opc (fst a)) -> map_res f l = Ok r -> map opc r = map opc (map fst l).
Proof.
  intros f. induction l as [|a t IH]; intros r Hf H; simpl in H.
  - inversion H. reflexivity.
  - destruct (f a) as [b|] eqn:Ea; [|discriminate]. simpl in H.
    destruct (map_res f t) as [bs|] eqn:Et; [|discriminate]. simpl in H. inversion H; subst.
    cbn [map]. rewrite (Hf _ _ Ea), (IH bs Hf eq_refl). reflexivity.
Qed.

Lemma build_ops_opc : forall minor items ops, minor <> 11%N ->
  build_ops minor items = Ok ops -> map opc ops = map iopc items.
Proof.
  intros minor items ops Hm H. unfold build_ops in H.
  pose proof (mol_loop_opc minor Hm items [] [] 0%N) as E.
  destruct (mol_loop minor items [] [] 0%N) as [all o2i]. cbn [fst] in E. simpl in E.
  rewrite <- E. eapply map_res_opc; [|exact H]. intros a b. apply ajt_one_opc.
Qed.

(* the composition *)
Lemma bracket_composition_lemma : forall items entries out minor its ops,
  wf_excb items entries = true ->
  (forall h, In h items -> x_opc h <> op_SETUP_EXCEPT_311 /\ x_opc h <> op_POP_BLOCK) ->
  add_setup_except entries items = Ok out ->
  minor <> 11%N -> map iopc its = map x_opc out -> build_ops minor its = Ok ops ->
  brk_ops ops false = true.
Proof.
  intros items entries out minor its ops Hwf Hnb Ha Hm Hcls Hb.
  rewrite brk_ops_opc, (build_ops_opc _ _ _ Hm Hb), Hcls.
  apply brk_transfer; [|exact (exception_ops_nested_lemma _ _ _ Hwf Ha)].
  intros h Hh. destruct (exception_ops_shape_lemma _ _ _ Hwf Ha h Hh) as [[K Hi]|[S|P]].
  - right. right. split; auto.
  - left. exact S.
  - right. left. exact P.
Qed.

(* end to end: for an opcode list built by _add_setup_except + _make_opcode_list + _add_jump_targets from a well-formed
   offset table / exception table, links, target ranges and the bracket clause of apbt_okb are all proved; what
   remains to be checked on the list are the jump / mark clauses (apbt_ok_from) *)
Lemma apbt_total_from_exception_table_lemma : forall items entries out minor its ops pxb,
  wf_excb items entries = true ->
  (forall h, In h items -> x_opc h <> op_SETUP_EXCEPT_311 /\ x_opc h <> op_POP_BLOCK) ->
  add_setup_except entries items = Ok out ->
  minor <> 11%N -> map iopc its = map x_opc out -> build_ops minor its = Ok ops ->
  apbt_ok_from ops ops pxb 0 = true ->
  exists ops', add_pop_block_targets ops pxb = Ok ops'.
Proof.
  intros items entries out minor its ops pxb Hwf Hnb Ha Hm Hcls Hb Hfrom.
  destruct (build_ops_wf _ _ _ Hb) as [Hl Ht].
  apply apbt_total_lemma; auto.
  unfold apbt_okb. rewrite (bracket_composition_lemma _ _ _ _ _ _ Hwf Hnb Ha Hm Hcls Hb). exact Hfrom.
Qed.
