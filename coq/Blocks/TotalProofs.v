(* C16: on SEND-free well-formed code compute_order raises nothing at all - the KeyErrors of order_nodes /
   compute_predecessors are impossible because every edge compute_order creates ends at a block of the list. *)
From Coq Require Import List NArith Arith Bool Lia Relations.
From PV Require Import Generated.C16_OpcodeFlags Blocks.Model Blocks.Proofs Blocks.FuelProofs.
Import ListNotations.

Local Opaque flags_of.

Lemma first_op_map_vals : forall bs acc fm, first_op_map bs acc = Ok fm ->
  forall k v, In (k, v) fm -> In (k, v) acc \/ In v (map bid bs).
Proof.
  induction bs as [|b t IH]; intros acc fm H k v Hin; simpl in H.
  - inversion H; subst. auto.
  - destruct (code b) as [|o c]; [discriminate|].
    destruct (IH _ _ H k v Hin) as [G|G].
    + destruct G as [G|G]; [inversion G; subst; right; left; reflexivity | auto].
    + right. right. exact G.
Qed.

Definition pres (P : N -> Prop) (r : res (list edge)) : Prop :=
  match r with Ok e => forall x y, In (x, y) e -> P y | Err _ => True end.

Lemma connect_target_pres : forall fm from t st (P : N -> Prop),
  (forall k v, In (k, v) fm -> P v) -> pres P st -> pres P (connect_target fm from t st).
Proof.
  intros fm from t st P Hfm Hst. unfold connect_target. destruct st as [e|c]; simpl; [|exact I].
  destruct t as [t|]; [|exact Hst].
  destruct (assocN t fm) as [b|] eqn:Ea; simpl; [|exact I].
  intros x y [Hin|Hin]; [|eauto]. inversion Hin; subst.
  apply (Hfm t y). apply assocN_In_pair. exact Ea.
Qed.

Lemma connect_loop_pres : forall fm processed rt (P : N -> Prop),
  (forall k v, In (k, v) fm -> P v) ->
  forall bs st, (forall b, In b bs -> P (bid b)) -> pres P st ->
  pres P (connect_loop fm processed rt bs st).
Proof.
  intros fm processed rt P Hfm. induction bs as [|b t IH]; intros st Hbs Hst; simpl.
  - exact Hst.
  - assert (Ht : forall b0, In b0 t -> P (bid b0)) by (intros; apply Hbs; right; auto).
    destruct (memN (bid b) processed); [apply IH; auto|].
    destruct (code b) as [|first c]; [exact I|].
    destruct (rev (first :: c)) as [|last r]; [exact I|].
    apply IH; auto. repeat apply connect_target_pres; auto.
    destruct t as [|nb t']; [exact Hst|]. destruct (negb (no_next last)); [|exact Hst].
    destruct st as [e|c0]; simpl; [|exact I].
    intros x y [Hin|Hin]; [|eauto]. inversion Hin; subst. apply Hbs. right. left. reflexivity.
Qed.

Lemma plain_compute_order_total_lemma : forall pick v ops,
  pick_ok pick -> wf_opsb ops = true -> anext_okb ops = true -> plainb ops = true ->
  exists r, compute_order_gen pick v ops = Ok r.
Proof.
  intros pick v ops Hpick Hwf Han Hpl.
  destruct (plain_connect_total_lemma v ops Hwf Han Hpl) as [bs [fm [es [E1 [E2 [E3 E4]]]]]].
  unfold compute_order_gen. rewrite E1. cbn [bind]. rewrite E2. cbn [bind su_blocks su_edges su_processed su_retarget].
  rewrite E3. cbn [bind]. change (rev (@nil edge)) with (@nil edge). rewrite E4. cbn [bind].
  destruct (order_nodes_total_lemma pick (map bid bs) (rev es) Hpick) as [order Eo].
  - intros x y Hin _. apply in_rev in Hin.
    assert (G : pres (fun n => In n (map bid bs)) (connect_loop fm [] [] bs (Ok []))).
    { apply connect_loop_pres.
      - intros k b Hk. destruct (first_op_map_vals _ _ _ E3 k b Hk) as [[]|G]. exact G.
      - intros b Hb. apply in_map. exact Hb.
      - intros x0 y0 []. }
    rewrite E4 in G. simpl in G. eapply G; eauto.
  - rewrite Eo. cbn [bind]. eauto.
Qed.
