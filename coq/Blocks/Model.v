(* C16 model: pytype/pyc/opcodes.py (_make_opcode_list, _add_jump_targets), pytype/blocks/blocks.py
   (_split_bytecode, _preprocess_async_for_and_yield, _remove_jump_back_block,
   _remove_jmp_to_get_anext_and_merge, compute_order) and pytype/typegraph/cfg_utils.py
   (compute_predecessors, order_nodes).
   Definitions only (no proofs), so the model still evaluates and extracts when a proof breaks.

   Conventions.  An Opcode object is identified by its [idx] field (its position in the list handed to
   compute_order -- that these agree is part of [wf_ops], proved for the output of the opcode-list model
   and monitored on every real list).  A Block object is identified by its [bid] (= code[0].index at
   creation time; Python keeps Block.id fixed when the code list is later mutated, so does the model).
   Python exceptions (KeyError, IndexError, StopIteration, AttributeError, AssertionError) are [Err n].
   The per-opcode flag table and the class ids of the opcodes that blocks.py tests with isinstance() come
   from Generated/C16_OpcodeFlags.v, regenerated from opcodes.py on every run. *)
From Coq Require Import List NArith Arith Bool.
From PV Require Import Generated.C16_OpcodeFlags.
Import ListNotations.

Inductive res (A : Type) : Type := Ok (a : A) | Err (code : nat).
Arguments Ok {A} a.
Arguments Err {A} code.

Definition bind {A B} (r : res A) (f : A -> res B) : res B :=
  match r with Ok a => f a | Err c => Err c end.

(* ---- instructions ---- *)
Record instr := mkI {
  idx : N;                      (* Opcode.index *)
  opc : N;                      (* class id (Generated/C16_OpcodeFlags.v) *)
  target : option N;            (* Opcode.target, as the index of the target opcode *)
  block_target : option N;      (* Opcode.block_target (set by add_pop_block_targets) *)
  eaft : option N;              (* Opcode.end_async_for_target *)
  next : option N;              (* Opcode.next *)
  prev : option N               (* Opcode.prev *)
}.

Definition has_flag (o : instr) (m : N) : bool := negb (N.eqb (N.land (flags_of (opc o)) m) 0%N).
Definition no_next (o : instr) : bool := has_flag o m_no_next.
Definition has_jump (o : instr) : bool := has_flag o m_has_jump.
Definition store_jump (o : instr) : bool := has_flag o m_store_jump.
Definition does_jump (o : instr) : bool := has_jump o && negb (store_jump o).
Definition pops_block (o : instr) : bool := has_flag o m_pops_block.
Definition has_known_jump (o : instr) : bool := has_flag o m_has_known_jump.
Definition is_op (c : N) (o : instr) : bool := N.eqb (opc o) c.

Definition memN (x : N) (l : list N) : bool := existsb (N.eqb x) l.
Definition op_at (ops : list instr) (i : N) : option instr := nth_error ops (N.to_nat i).
Definition opc_at_is (ops : list instr) (c : N) (i : option N) : bool :=
  match i with
  | None => false
  | Some i => match op_at ops i with Some o => is_op c o | None => false end
  end.

(* ---- opcodes.py: _make_opcode_list / _add_jump_targets ------------------------------------------ *)
(* One entry of sorted(offset_to_op.items()): the offset (doubled, so the synthetic x-0.5 / x+0.5
   keys are integers), the class id, the jump argument (argval, a doubled offset) of ops with a known
   jump, and for ops whose .target was already set (SETUP_EXCEPT_311) the offset key of that target. *)
Record item := mkItem { ioff : N; iopc : N; iarg : option N; ipreset : option N }.

Definition item_is (c : N) (it : item) : bool := N.eqb (iopc it) c.

(* _should_elide_opcode(op_items, i, python_version); [minor] is the y of python_version (3, y) *)
Definition should_elide (minor : N) (it : item) (rest : list item) : bool :=
  if N.eqb minor 11 then
    item_is op_JUMP_BACKWARD it &&
    match rest with nx :: _ => item_is op_END_ASYNC_FOR nx | [] => false end
  else false.

Definition set_next (o : instr) (n : option N) : instr :=
  mkI (idx o) (opc o) (target o) (block_target o) (eaft o) n (prev o).
Definition set_target (o : instr) (t : option N) : instr :=
  mkI (idx o) (opc o) t (block_target o) (eaft o) (next o) (prev o).

(* the loop of _make_opcode_list; [acc] is ops reversed (with the item each op came from),
   [o2i] is offset_to_index, [index] is the value `index + 1` would take for the next item *)
Fixpoint mol_loop (minor : N) (items : list item) (acc : list (instr * item)) (o2i : list (N * N))
         (index : N) : list (instr * item) * list (N * N) :=
  match items with
  | [] => (rev acc, o2i)
  | it :: rest =>
    if should_elide minor it rest then
      mol_loop minor rest acc ((ioff it, index) :: o2i) index
    else
      let prev_idx := match acc with [] => None | (p, _) :: _ => Some (idx p) end in
      let op := mkI index (iopc it) None None None None prev_idx in            (* op.prev = prev_op; op.next = None *)
      let acc' := match acc with
                  | [] => []
                  | (p, pit) :: t => (set_next p (Some index), pit) :: t     (* prev_op.next = op *)
                  end in
      mol_loop minor rest ((op, it) :: acc') ((ioff it, index) :: o2i) (index + 1)
  end.

Fixpoint assocN {A} (k : N) (l : list (N * A)) : option A :=
  match l with
  | [] => None
  | (k', v) :: t => if N.eqb k k' then Some v else assocN k t
  end.

(* index of the (non-elided) op created from the item at offset key [k] *)
Fixpoint index_of_item (k : N) (l : list (instr * item)) : option N :=
  match l with
  | [] => None
  | (o, it) :: t => if N.eqb (ioff it) k then Some (idx o) else index_of_item k t
  end.

(* _add_jump_targets for one op *)
Definition ajt_one (n : nat) (all : list (instr * item)) (o2i : list (N * N)) (oi : instr * item) : res instr :=
  let (o, it) := oi in
  match ipreset it with
  | Some k =>                                 (* if op.target: op.arg = op.target.index *)
    match index_of_item k all with
    | Some t => Ok (set_target o (Some t))
    | None => Err 20                          (* target elided / not in the list: outside the model *)
    end
  | None =>
    if has_known_jump o then
      match iarg it with
      | None => Err 21
      | Some a =>
        match assocN a o2i with               (* offset_to_index[op.argval]   (KeyError) *)
        | None => Err 22
        | Some t => if N.to_nat t <? n then Ok (set_target o (Some t)) else Err 23   (* ops[op.arg] *)
        end
      end
    else Ok o
  end.

Fixpoint map_res {A B} (f : A -> res B) (l : list A) : res (list B) :=
  match l with
  | [] => Ok []
  | a :: t => bind (f a) (fun b => bind (map_res f t) (fun bs => Ok (b :: bs)))
  end.

Definition make_opcode_list (minor : N) (items : list item) : list instr :=
  map fst (fst (mol_loop minor items [] [] 0%N)).

Definition build_ops (minor : N) (items : list item) : res (list instr) :=
  let (all, o2i) := mol_loop minor items [] [] 0%N in
  map_res (ajt_one (length all) all o2i) all.

(* ---- blocks.py: Block ---------------------------------------------------------------------------- *)
Record block := mkB { bid : N; code : list instr }.

(* Block(code): id = code[0].index.  Every call site passes a non-empty list (proved). *)
Definition Block (c : list instr) : block :=
  mkB (match c with o :: _ => idx o | [] => 0%N end) c.

Definition edge := (N * N)%type.

(* targets = {op.target for op in bytecode if op.target} *)
Definition targets (ops : list instr) : list N :=
  flat_map (fun o => match target o with Some t => [t] | None => [] end) ops.

(* ---- _split_bytecode + _preprocess_async_for_and_yield as one pass over the list ----------------- *)
(* MYield: inside `next(i for i in range(idx+1, len) if JUMP_BACKWARD_NO_INTERRUPT)`;
   MTail: looking at bytecode[end_block_idx] (CLEANUP_THROW or not). Accumulators are reversed. *)
Inductive smode := MNormal | MYield (send : N) (acc : list instr) | MTail (send : N) (acc : list instr).

Record sst := mkS {
  s_blocks : list block;        (* reversed *)
  s_cur : list instr;           (* `code`, reversed *)
  s_prev : option N;            (* prev_block *)
  s_edges : list edge;          (* connect_outgoing calls made while splitting *)
  s_mode : smode;
  s_err : nat                   (* 0 = no exception so far *)
}.

Definition ends_block (v312 : bool) (ops : list instr) (tg : list N) (op : instr) : bool :=
  no_next op || does_jump op || pops_block op ||
  match next op with
  | None => true                                                     (* op.next is None *)
  | Some n => memN n tg && (negb (opc_at_is ops op_GET_ANEXT (Some n)) || negb v312)
  end.

(* the body of the while loop for an op reached with i pointing at it *)
Definition split_normal (v312 : bool) (ops : list instr) (tg : list N) (st : sst) (op : instr) : sst :=
  if v312 && is_op op_SEND op then
    (* if code: prev_block = Block(code); blocks.append(prev_block); code = [] *)
    let '(bl, pv) := match s_cur st with
                     | [] => (s_blocks st, s_prev st)
                     | _ => let b := Block (rev (s_cur st)) in (b :: s_blocks st, Some (bid b))
                     end in
    let send_block := Block [op] in
    match pv with
    | None => mkS (send_block :: bl) [] pv (s_edges st) (MYield (bid send_block) []) 3   (* None.connect_outgoing *)
    | Some p => mkS (send_block :: bl) [] pv ((p, bid send_block) :: s_edges st) (MYield (bid send_block) []) (s_err st)
    end
  else
    let code' := op :: s_cur st in
    if ends_block v312 ops tg op then
      let b := Block (rev code') in
      mkS (b :: s_blocks st) [] (Some (bid b)) (s_edges st) MNormal (s_err st)
    else mkS (s_blocks st) code' (s_prev st) (s_edges st) MNormal (s_err st).

Definition close_yield (st : sst) (send : N) (acc : list instr) : sst :=
  let yb := Block (rev acc) in
  mkS (yb :: s_blocks st) [] (Some (bid yb)) ((send, bid yb) :: s_edges st) MNormal (s_err st).

Definition split_step (v312 : bool) (ops : list instr) (tg : list N) (st : sst) (op : instr) : sst :=
  match s_mode st with
  | MNormal => split_normal v312 ops tg st op
  | MYield send acc =>
    let acc' := op :: acc in
    if is_op op_JUMP_BACKWARD_NO_INTERRUPT op
    then mkS (s_blocks st) [] (s_prev st) (s_edges st) (MTail send acc') (s_err st)
    else mkS (s_blocks st) [] (s_prev st) (s_edges st) (MYield send acc') (s_err st)
  | MTail send acc =>
    if is_op op_CLEANUP_THROW op then close_yield st send (op :: acc)
    else split_normal v312 ops tg (close_yield st send acc) op
  end.

Definition split_init : sst := mkS [] [] None [] MNormal 0.

Definition split_bytecode (v312 : bool) (ops : list instr) : res (list block * list edge) :=
  let st := fold_left (split_step v312 ops (targets ops)) ops split_init in
  match s_mode st with
  | MYield _ _ => Err 1                       (* StopIteration: no JUMP_BACKWARD_NO_INTERRUPT after SEND *)
  | MTail _ _ => Err 2                        (* IndexError: bytecode[end_block_idx] *)
  | MNormal =>
    match s_err st with
    | 0 => Ok (rev (s_blocks st), rev (s_edges st))      (* a non-empty `code` left over is dropped, as in Python *)
    | e => Err e
    end
  end.

(* ---- _remove_jump_back_block ---------------------------------------------------------------------- *)
Definition is_jump_back_block (ops : list instr) (b : block) : bool :=
  match rev (code b) with
  | last :: snd :: _ =>
    is_op op_JUMP_BACKWARD last && opc_at_is ops op_END_SEND (target last) && is_op op_CLEANUP_THROW snd
  | _ => false
  end.

Definition remove_jump_back_block (ops : list instr) (bs : list block) : list block :=
  filter (fun b => negb (is_jump_back_block ops b)) bs.

(* ---- _remove_jmp_to_get_anext_and_merge ----------------------------------------------------------- *)
Fixpoint upd {A} (i : nat) (x : A) (l : list A) : list A :=
  match l, i with
  | [], _ => []
  | _ :: t, O => x :: t
  | h :: t, S i' => h :: upd i' x t
  end.

(* op_to_block[op]: index of the LAST block containing the op (later dict writes win) *)
Fixpoint find_block_of (i : N) (bs : list block) (pos : nat) (found : option nat) : option nat :=
  match bs with
  | [] => found
  | b :: t => find_block_of i t (S pos)
                (if existsb (fun o => N.eqb (idx o) i) (code b) then Some pos else found)
  end.

Fixpoint merge_list_of (all : list block) (bs : list block) (pos : nat) : res (list (nat * nat)) :=
  match bs with
  | [] => Ok []
  | b :: t =>
    bind (map_res (fun o => match eaft o with
                            | None => Ok None
                            | Some e => match find_block_of e all 0 None with
                                        | Some m => Ok (Some (pos, m))
                                        | None => Err 4                 (* KeyError op_to_block[...] *)
                                        end
                            end) (code b))
         (fun here => bind (merge_list_of all t (S pos))
         (fun rest => Ok (flat_map (fun x => match x with Some p => [p] | None => [] end) here ++ rest)))
  end.

Record mst := mkM {
  m_blocks : list block;
  m_edges : list edge;            (* reversed *)
  m_processed : list N;           (* bids added to processed_blocks *)
  m_map : list (N * N)            (* map_target: popped op -> replacement target (latest first) *)
}.

Definition set_code (b : block) (c : list instr) : block := mkB (bid b) c.

Definition merge_step (st : res mst) (p : nat * nat) : res mst :=
  bind st (fun st =>
  let (bi, mi) := p in
  match nth_error (m_blocks st) bi with
  | None => Err 90
  | Some b =>
    match rev (code b) with
    | [] => Err 5                                              (* pop from empty list *)
    | jb :: r =>
      let bs1 := upd bi (set_code b (rev r)) (m_blocks st) in
      match nth_error bs1 mi with
      | None => Err 91
      | Some m =>
        let b2 := set_code b (rev r ++ code m) in              (* .code.extend(blocks[mi].code) *)
        let bs2 := upd bi b2 bs1 in
        match nth_error bs2 mi with
        | None => Err 92
        | Some m2 =>
          match code m2 with
          | [] => Err 6                                        (* blocks[mi].code[0] *)
          | h :: _ =>
            let edges' :=
              if S mi <? length bs2                            (* mi < len(blocks) - 1 *)
              then match nth_error bs2 (S mi) with
                   | Some nb => (bid b, bid nb) :: m_edges st
                   | None => m_edges st
                   end
              else m_edges st in
            Ok (mkM bs2 edges' (bid b :: m_processed st) ((idx jb, idx h) :: m_map st))
          end
        end
      end
    end
  end).

Fixpoint delete_positions {A} (del : list nat) (l : list A) (pos : nat) : list A :=
  match l with
  | [] => []
  | a :: t => if existsb (Nat.eqb pos) del then delete_positions del t (S pos)
              else a :: delete_positions del t (S pos)
  end.

(* effective target of an op after the `block.code[-1].target = replace_op` mutations so far *)
Definition eff_target (rt : list (N * N)) (o : instr) : option N :=
  match assocN (idx o) rt with Some t => Some t | None => target o end.

Definition retarget_step (mp : list (N * N)) (st : res (list (N * N))) (b : block) : res (list (N * N)) :=
  bind st (fun rt =>
  match rev (code b) with
  | [] => Err 7                                                (* block.code[-1] *)
  | last :: _ =>
    match eff_target rt last with
    | None => Ok rt
    | Some t => match assocN t mp with
                | Some r => Ok ((idx last, r) :: rt)
                | None => Ok rt
                end
    end
  end).

Record surgery := mkSu {
  su_blocks : list block;
  su_edges : list edge;            (* edges added so far, in call order *)
  su_processed : list N;
  su_retarget : list (N * N)
}.

Definition remove_jmp_to_get_anext_and_merge (bs : list block) (edges : list edge) : res surgery :=
  bind (merge_list_of bs bs 0) (fun ml =>
  bind (fold_left merge_step ml (Ok (mkM bs (rev edges) [] []))) (fun st =>
  let bs' := delete_positions (map snd ml) (m_blocks st) 0 in
  bind (fold_left (retarget_step (m_map st)) bs' (Ok [])) (fun rt =>
  Ok (mkSu bs' (rev (m_edges st)) (m_processed st) rt)))).

(* ---- compute_order: the connect loop -------------------------------------------------------------- *)
(* first_op_to_block = {block.code[0]: block for block in blocks}: later blocks win *)
Fixpoint first_op_map (bs : list block) (acc : list (N * N)) : res (list (N * N)) :=
  match bs with
  | [] => Ok acc
  | b :: t => match code b with
              | [] => Err 8                                    (* block.code[0] *)
              | o :: _ => first_op_map t ((idx o, bid b) :: acc)
              end
  end.

Definition connect_target (fm : list (N * N)) (from : N) (t : option N) (st : res (list edge)) : res (list edge) :=
  bind st (fun es =>
  match t with
  | None => Ok es
  | Some t => match assocN t fm with
              | Some b => Ok ((from, b) :: es)
              | None => Err 9                                  (* KeyError first_op_to_block[...] *)
              end
  end).

Fixpoint connect_loop (fm : list (N * N)) (processed : list N) (rt : list (N * N)) (bs : list block)
         (es : res (list edge)) : res (list edge) :=
  match bs with
  | [] => es
  | b :: t =>
    if memN (bid b) processed then connect_loop fm processed rt t es
    else
      match code b, rev (code b) with
      | first :: _, last :: _ =>
        let es1 := match t with
                   | nb :: _ => if negb (no_next last) then bind es (fun e => Ok ((bid b, bid nb) :: e)) else es
                   | [] => es
                   end in
        let es2 := connect_target fm (bid b) (eff_target rt first) es1 in
        let es3 := connect_target fm (bid b) (eff_target rt last) es2 in
        let es4 := connect_target fm (bid b) (block_target last) es3 in
        connect_loop fm processed rt t es4
      | _, _ => Err 8
      end
  end.

(* ---- cfg_utils.py ---------------------------------------------------------------------------------- *)
Fixpoint nodupN (l : list N) (seen : list N) : list N :=
  match l with
  | [] => []
  | x :: t => if memN x seen then nodupN t seen else x :: nodupN t (x :: seen)
  end.

(* node.outgoing, a set: here in order of first insertion *)
Definition outgoing (es : list edge) (n : N) : list N :=
  nodupN (map snd (filter (fun e => N.eqb (fst e) n) es)) [].

(* Python sets of nodes (the values of predecessor_map and of the queue, and `seen`) are kept as strictly
   increasing lists, so that |=, - and len() cost what they cost on hash sets *)
Fixpoint insertN (x : N) (l : list N) : list N :=
  match l with
  | [] => [x]
  | y :: t => if N.ltb x y then x :: l else if N.eqb x y then l else y :: insertN x t
  end.
Fixpoint unionN (a b : list N) {struct a} : list N :=
  let fix aux (b : list N) {struct b} : list N :=
    match a, b with
    | [], _ => b
    | _, [] => a
    | x :: a', y :: b' =>
      if N.ltb x y then x :: unionN a' b else if N.eqb x y then x :: unionN a' b' else y :: aux b'
    end in
  aux b.
(* a - b *)
Fixpoint diffN (a b : list N) {struct a} : list N :=
  let fix aux (b : list N) {struct b} : list N :=
    match a, b with
    | [], _ => []
    | _, [] => a
    | x :: a', y :: b' =>
      if N.ltb x y then x :: diffN a' b else if N.eqb x y then diffN a' b' else aux b'
    end in
  aux b.
Definition removeN (x : N) (l : list N) : list N := filter (fun y => negb (N.eqb x y)) l.
Fixpoint set_assoc {A} (k : N) (v : A) (l : list (N * A)) : list (N * A) :=
  match l with
  | [] => []
  | (k', v') :: t => if N.eqb k k' then (k, v) :: t else (k', v') :: set_assoc k v t
  end.

(* binary fuel: runs [step] until [fin], at most 2^d times *)
Fixpoint run {S} (step : S -> S) (fin : S -> bool) (d : nat) (s : S) : S :=
  match d with
  | O => if fin s then s else step s
  | S d' => let s' := run step fin d' s in if fin s' then s' else run step fin d' s'
  end.
(* the loops below are Python `while` loops; their fuel is derived from the size of the input and is PROVED
   sufficient (Blocks/FuelProofs.v): 2 ^ fuel_for b > b *)
Definition fuel_for (bound : N) : nat := S (N.to_nat (N.log2 bound)).
(* compute_predecessors: at most V starts, each predecessor set grows at most V-1 times, every such event queues
   at most E edges *)
Definition pred_fuel (nodes : list N) (es : list edge) : nat :=
  let v := N.of_nat (length nodes) in fuel_for (v * v * (N.of_nat (length es) + 1)).
(* order_nodes: at most V nodes are scheduled, each scheduling queues at most E nodes *)
Definition order_fuel (nodes : list N) (es : list edge) : nat :=
  let v := N.of_nat (length nodes) in fuel_for (v * (N.of_nat (length es) + 1) + 1).

(* compute_predecessors *)
Record pst := mkP {
  p_map : list (N * list N);       (* predecessors, in `nodes` order *)
  p_disc : list N;                 (* discovered *)
  p_starts : list N;               (* rest of `for start in nodes` *)
  p_todo : list (N * N);           (* unprocessed *)
  p_err : nat
}.

Definition pfin (s : pst) : bool :=
  negb (Nat.eqb (p_err s) 0) ||
  match p_todo s, p_starts s with [], [] => true | _, _ => false end.

Definition pstep (es : list edge) (s : pst) : pst :=
  match p_todo s with
  | (from, node) :: rest =>
    match assocN node (p_map s), assocN from (p_map s) with
    | Some np, Some fp =>
      let np' := unionN np fp in
      if Nat.eqb (length np) (length np') then mkP (p_map s) (p_disc s) (p_starts s) rest (p_err s)
      else mkP (set_assoc node np' (p_map s)) (node :: p_disc s) (p_starts s)
               (rest ++ map (fun n => (node, n)) (outgoing es node)) (p_err s)
    | _, _ => mkP (p_map s) (p_disc s) (p_starts s) rest 10          (* KeyError predecessors[node] *)
    end
  | [] =>
    match p_starts s with
    | [] => s
    | st :: more =>
      if memN st (p_disc s) then mkP (p_map s) (p_disc s) more [] (p_err s)
      else mkP (p_map s) (p_disc s) more (map (fun n => (st, n)) (outgoing es st)) (p_err s)
    end
  end.

Definition compute_predecessors (nodes : list N) (es : list edge) : res (list (N * list N)) :=
  let s := run (pstep es) pfin (pred_fuel nodes es) (mkP (map (fun n => (n, [n])) nodes) [] nodes [] 0) in
  match p_err s with
  | O => if pfin s then Ok (p_map s) else Err 11                   (* fuel *)
  | e => Err e
  end.

(* order_nodes *)
Definition queue := list (N * list N).

(* min((len(predecessors), node.id, node) for node, predecessors in queue.items()) *)
Definition prio_lt (a b : N * list N) : bool :=
  let la := length (snd a) in let lb := length (snd b) in
  (la <? lb) || ((la =? lb) && N.ltb (fst a) (fst b)).
Fixpoint pick_min_from (best : N * list N) (q : queue) : N * list N :=
  match q with
  | [] => best
  | e :: t => pick_min_from (if prio_lt e best then e else best) t
  end.
Definition pick_min (q : queue) : N :=
  match q with [] => 0%N | e :: t => fst (pick_min_from e t) end.

Definition has_key (k : N) (q : queue) : bool := existsb (fun e => N.eqb (fst e) k) q.
Definition del_key (k : N) (q : queue) : queue := filter (fun e => negb (N.eqb (fst e) k)) q.

Record ost := mkO {
  o_queue : queue;
  o_order : list N;                (* reversed *)
  o_seen : list N;
  o_err : nat
}.

Definition ofin (s : ost) : bool :=
  negb (Nat.eqb (o_err s) 0) || match o_queue s with [] => true | _ => false end.

(* for n in node.outgoing: if n not in queue: queue[n] = predecessor_map[n] - seen *)
Definition enqueue (pm : list (N * list N)) (seen : list N) (st : queue * nat) (n : N) : queue * nat :=
  let (q, err) := st in
  if has_key n q then (q, err)
  else match assocN n pm with
       | Some p => (q ++ [(n, diffN p seen)], err)
       | None => (q, 12)                                         (* KeyError predecessor_map[n] *)
       end.

Definition ostep (pick : queue -> N) (pm : list (N * list N)) (es : list edge) (s : ost) : ost :=
  let node := pick (o_queue s) in
  let q1 := del_key node (o_queue s) in
  if memN node (o_seen s) then mkO q1 (o_order s) (o_seen s) (o_err s)
  else
    let seen' := insertN node (o_seen s) in
    let q2 := map (fun e => (fst e, removeN node (snd e))) q1 in
    let (q3, err) := fold_left (enqueue pm seen') (outgoing es node) (q2, o_err s) in
    mkO q3 (node :: o_order s) seen' err.

Definition order_nodes_gen (pick : queue -> N) (nodes : list N) (es : list edge) : res (list N) :=
  match nodes with
  | [] => Ok []
  | root :: _ =>
    bind (compute_predecessors nodes es) (fun pm =>
    match assocN root pm with
    | None => Err 13
    | Some rp =>
      let s := run (ostep pick pm es) ofin (order_fuel nodes es) (mkO [(root, rp)] [] [] 0) in
      match o_err s with
      | O =>
        if ofin s then
          let order := rev (o_order s) in
          let dead := map fst (filter (fun e => negb (memN root (snd e))) pm) in
          (* assert len(set(order) | dead) == len(set(nodes)) *)
          if Nat.eqb (length (nodupN (order ++ dead) [])) (length (nodupN nodes [])) then Ok order else Err 14
        else Err 15                                              (* fuel *)
      | e => Err e
      end
    end)
  end.

Definition order_nodes := order_nodes_gen pick_min.

(* ---- compute_order --------------------------------------------------------------------------------- *)
Record ordered := mkR {
  r_blocks : list block;           (* the list handed to order_nodes *)
  r_edges : list edge;             (* every connect_outgoing call, in call order (duplicates possible) *)
  r_order : list N;                (* bids, in execution order *)
  r_retarget : list (N * N)        (* op index -> new .target (the in-place mutation of the merge pass) *)
}.

Definition compute_order_gen (pick : queue -> N) (v312 : bool) (ops : list instr) : res ordered :=
  bind (split_bytecode v312 ops) (fun se =>
  let (bs0, es0) := se in
  bind (if v312
        then remove_jmp_to_get_anext_and_merge (remove_jump_back_block ops bs0) es0
        else Ok (mkSu bs0 es0 [] [])) (fun su =>
  bind (first_op_map (su_blocks su) []) (fun fm =>
  bind (connect_loop fm (su_processed su) (su_retarget su) (su_blocks su) (Ok (rev (su_edges su)))) (fun es =>
  let edges := rev es in
  bind (order_nodes_gen pick (map bid (su_blocks su)) edges) (fun order =>
  Ok (mkR (su_blocks su) edges order (su_retarget su))))))).

Definition compute_order := compute_order_gen pick_min.

(* ---- well-formedness of an opcode list (monitored on every real list) ------------------------------ *)
Definition optN_eqb (a b : option N) : bool :=
  match a, b with
  | None, None => true
  | Some x, Some y => N.eqb x y
  | _, _ => false
  end.

Fixpoint wf_links (ops : list instr) (pos : nat) (n : nat) : bool :=
  match ops with
  | [] => true
  | o :: t =>
    N.eqb (idx o) (N.of_nat pos) &&
    optN_eqb (next o) (if S pos <? n then Some (N.of_nat (S pos)) else None) &&
    optN_eqb (prev o) (match pos with O => None | S p => Some (N.of_nat p) end) &&
    wf_links t (S pos) n
  end.

Definition in_range (n : nat) (t : option N) : bool :=
  match t with None => true | Some t => N.to_nat t <? n end.

(* indices and next/prev links are consistent; every known jump has a target; all targets, block targets and
   end_async_for targets are opcodes of this list; block targets are jump targets *)
Definition wf_opsb (ops : list instr) : bool :=
  let n := length ops in
  wf_links ops 0 n &&
  forallb (fun o => in_range n (target o) && in_range n (block_target o) && in_range n (eaft o) &&
                    (negb (has_known_jump o) || match target o with Some _ => true | None => false end) &&
                    match block_target o with Some t => memN t (targets ops) | None => true end) ops.

(* the GET_ANEXT exemption of _split_bytecode is harmless: a jump target that is a GET_ANEXT directly follows
   an instruction that ends its block anyway *)
Definition anext_okb (ops : list instr) : bool :=
  forallb (fun o => match next o with
                    | Some n => negb (memN n (targets ops)) || negb (opc_at_is ops op_GET_ANEXT (Some n)) ||
                                no_next o || does_jump o || pops_block o
                    | None => true
                    end) ops.

(* no SEND / async-for surgery applies *)
Definition plainb (ops : list instr) : bool :=
  forallb (fun o => negb (is_op op_SEND o) && negb (is_op op_CLEANUP_THROW o) &&
                    match eaft o with None => true | Some _ => false end) ops.

(* does some element occur twice?  (used to state the refutation of the partition clause) *)
Fixpoint has_dup (l : list N) : bool :=
  match l with
  | [] => false
  | x :: t => memN x t || has_dup t
  end.

(* the instructions of all blocks, by index, in block order *)
Definition block_instrs (bs : list block) : list N := map idx (concat (map code bs)).

(* ---- "simple" merges: every END_ASYNC_FOR block is merged into exactly one loop-back block ---------- *)
Fixpoint nodup_natb (l : list nat) : bool :=
  match l with
  | [] => true
  | x :: t => negb (existsb (Nat.eqb x) t) && nodup_natb t
  end.

Definition simple_mergesb (ml : list (nat * nat)) : bool :=
  nodup_natb (map fst ml) && nodup_natb (map snd ml) &&
  forallb (fun x => negb (existsb (Nat.eqb x) (map snd ml))) (map fst ml).

(* the merge list _remove_jmp_to_get_anext_and_merge would compute for this opcode list is simple *)
Definition merge_simpleb (ops : list instr) : bool :=
  match split_bytecode true ops with
  | Ok (bs0, _) =>
    let bs1 := remove_jump_back_block ops bs0 in
    match merge_list_of bs1 bs1 0 with
    | Ok ml => simple_mergesb ml
    | Err _ => false
    end
  | Err _ => false
  end.

(* ---- opcodes.py: _add_setup_except (the part that inserts opcodes) / _add_exception_block ------------------ *)
(* offset_to_op as a list sorted by key.  Keys: a real opcode at byte offset o has key 2*o+1; the synthetic
   float keys o-0.5 / o+0.5 are 2*o / 2*o+2 (so `key - 0.5` is key-1, `key + 0.5` is key+1, and < is preserved).
   The jump-marking half of _add_setup_except (push_exc_block / pop_exc_block) is not modelled. *)
Record xitem := mkX { x_key : N; x_opc : N; x_line : N (* 0 = None *); x_preset : option N }.
Record exc_entry := mkE { e_start : N; e_end : N (* pycnite's inclusive end *); e_target : N; e_lasti : bool }.

Definition key_of (off : N) : N := 2 * off + 1.

(* offset_to_op[k] = op *)
Fixpoint put_x (it : xitem) (l : list xitem) : list xitem :=
  match l with
  | [] => [it]
  | h :: t => if N.ltb (x_key it) (x_key h) then it :: l
              else if N.eqb (x_key it) (x_key h) then it :: t
              else h :: put_x it t
  end.
Definition find_x (k : N) (l : list xitem) : option xitem := find (fun it => N.eqb (x_key it) k) l.

(* max(i for i in offset_to_op if i < k) *)
Definition max_key_below (k : N) (l : list xitem) : option N :=
  fold_left (fun acc it => if N.ltb (x_key it) k
                           then Some (match acc with Some a => N.max a (x_key it) | None => x_key it end)
                           else acc) l None.

Definition add_exception_block (items : list xitem) (e : exc_entry) : res (list xitem) :=
  match find_x (key_of (e_start e)) items with
  | None => Err 30                                                   (* offset_to_op[e.start] *)
  | Some start_op =>
    let setup := mkX (key_of (e_start e) - 1) op_SETUP_EXCEPT_311 (x_line start_op) (Some (key_of (e_target e))) in
    let items1 := put_x setup items in                               (* offset_to_op[e.start - 0.5] = setup_op *)
    match find_x (key_of (e_target e)) items1 with
    | None => Err 31                                                 (* offset_to_op[e.target] *)
    | Some _ =>
      let endk := match find_x (key_of (e_end e)) items1 with        (* if e.end not in offset_to_op: max(...) *)
                  | Some _ => Some (key_of (e_end e))
                  | None => max_key_below (key_of (e_end e)) items1
                  end in
      match endk with
      | None => Err 32                                               (* max() of an empty sequence *)
      | Some k =>
        match find_x k items1 with
        | None => Err 35
        | Some end_op => Ok (put_x (mkX (k + 1) op_POP_BLOCK (x_line end_op) None) items1)   (* [end + 0.5] = pop_op *)
        end
      end
    end
  end.

Fixpoint add_setup_except_loop (entries : list exc_entry) (seen : list N) (items : list xitem) : res (list xitem) :=
  match entries with
  | [] => Ok items
  | e :: rest =>
    match find_x (key_of (e_target e)) items with
    | None => Err 33
    | Some t =>
      if memN (x_opc t) ignored_exception_targets then add_setup_except_loop rest seen items
      else
        match find_x (key_of (e_start e)) items with
        | None => Err 34
        | Some s =>
          let line := x_line s in
          if negb (e_lasti e) && negb (memN line seen)
          then bind (add_exception_block items e) (add_setup_except_loop rest (line :: seen))
          else add_setup_except_loop rest seen items
        end
    end
  end.

Definition add_setup_except (entries : list exc_entry) (items : list xitem) : res (list xitem) :=
  add_setup_except_loop entries [] items.

(* ---- well-formedness of an offset table + exception table (monitored on every real code object) ------------ *)
Definition has_keyb (k : N) (items : list xitem) : bool := existsb (fun it => N.eqb (x_key it) k) items.

Fixpoint sorted_keysb (l : list xitem) : bool :=
  match l with
  | [] => true
  | a :: t => match t with b :: _ => N.ltb (x_key a) (x_key b) | [] => true end && sorted_keysb t
  end.

(* entries in table order: each starts at or after [b], start <= (inclusive) end, the next one starts after the end *)
Fixpoint bounded_fromb (b : N) (es : list exc_entry) : bool :=
  match es with
  | [] => true
  | e :: r => N.leb b (e_start e) && N.leb (e_start e) (e_end e) && bounded_fromb (e_end e + 1) r
  end.

(* the offset table holds only real instructions (key 2*off+1 with off even, i.e. key mod 4 = 1: wordcode), sorted
   by offset; every entry starts and is handled at an instruction; the entries are sorted and pairwise disjoint *)
Definition wf_excb (items : list xitem) (entries : list exc_entry) : bool :=
  sorted_keysb items &&
  forallb (fun it => N.eqb (x_key it mod 4) 1) items &&
  forallb (fun e => has_keyb (key_of (e_start e)) items && has_keyb (key_of (e_target e)) items) entries &&
  bounded_fromb 0 entries.

(* the entries _add_setup_except keeps: handler not an ignored opcode, not lasti, first kept entry of its line *)
Fixpoint kept_loop (entries : list exc_entry) (seen : list N) (items : list xitem) : list exc_entry :=
  match entries with
  | [] => []
  | e :: rest =>
    match find_x (key_of (e_target e)) items, find_x (key_of (e_start e)) items with
    | Some t, Some s =>
      if memN (x_opc t) ignored_exception_targets then kept_loop rest seen items
      else if negb (e_lasti e) && negb (memN (x_line s) seen)
           then e :: kept_loop rest (x_line s :: seen) items
           else kept_loop rest seen items
    | _, _ => []
    end
  end.
Definition kept_entries (entries : list exc_entry) (items : list xitem) : list exc_entry :=
  kept_loop entries [] items.

(* bracket check along a key sequence: key mod 4 = 0 is a SETUP_EXCEPT_311 (opens), key mod 4 = 2 a POP_BLOCK
   (closes); never two open at once, none open at the end *)
Fixpoint brk (ks : list N) (opened : bool) : bool :=
  match ks with
  | [] => negb opened
  | k :: t => if N.eqb (k mod 4) 0 then negb opened && brk t true
              else if N.eqb (k mod 4) 2 then opened && brk t false
              else brk t opened
  end.
