(* C16 model, part 2: pytype/blocks/blocks.py add_pop_block_targets -- the block-stack walk that sets
   Opcode.block_target.  Definitions only (no proofs).

   Conventions (as in Model.v): an Opcode object is identified by its position in the list (= Opcode.index for
   every list that satisfies wf_links; monitored/proved elsewhere).  `todo` is a Python list used as a stack
   (todo.pop() takes the LAST element): here the head of [a_todo] is the last element, todo.append is cons.
   A block stack is a Python tuple with the innermost block LAST: here a list with the innermost block FIRST, so
   `block_stack[-1]` is the head, `block_stack[0:-1]` the tail, `for b in reversed(block_stack)` a left-to-right
   scan, and `block_stack[0:i]` (everything below the entry found by that scan) the rest after the entry.
   Opcode.push_exc_block (set by the jump-marking half of opcodes._add_setup_except) is the index set [pxb].
   Python exceptions are [Err n]:
     40 fuel exhausted (proved impossible: apbt_fuel_sufficient)
     41 AssertionError "POP_BLOCK without block."         42 AssertionError  assert b.target != op
     43 AssertionError "<op> without target"              44 AttributeError  (a None target reached the loop)
     45 AttributeError  setup_op.prev is None             46 AssertionError "Bad instruction at end of bytecode"
     47 an index that is no position of the list (impossible for Python object references: outside the model)
     48 the .prev chain is longer than the list (cyclic links: Python would not terminate; excluded by wf_links) *)
From Coq Require Import List NArith Arith Bool.
From PV Require Import Generated.C16_OpcodeFlags Blocks.Model.
Import ListNotations.

Definition pushes_block (o : instr) : bool := has_flag o m_pushes_block.
(* setup_except_op = (opcodes.SETUP_FINALLY, opcodes.SETUP_EXCEPT_311) *)
Definition is_setup_except (o : instr) : bool := is_op op_SETUP_FINALLY o || is_op op_SETUP_EXCEPT_311 o.

Definition set_bt (o : instr) (t : option N) : instr :=
  mkI (idx o) (opc o) (target o) t (eaft o) (next o) (prev o).

(* for b in reversed(block_stack): if isinstance(b, setup_except_op): ...; break *)
Fixpoint find_except (st : list instr) : option instr :=
  match st with
  | [] => None
  | b :: t => if is_setup_except b then Some b else find_except t
  end.

(* for i in reversed(range(len(block_stack))): b = block_stack[i]; if isinstance(b, SETUP_LOOP): ... block_stack[0:i] *)
Fixpoint find_loop (st : list instr) : option (instr * list instr) :=
  match st with
  | [] => None
  | b :: t => if is_op op_SETUP_LOOP b then Some (b, t) else find_loop t
  end.

(* setup_op = op.target; while not isinstance(setup_op, setup_except_op): setup_op = setup_op.prev *)
Fixpoint walk_prev (ops : list instr) (fuel : nat) (i : N) : res instr :=
  match fuel with
  | O => Err 48
  | S f =>
    match op_at ops i with
    | None => Err 47
    | Some o => if is_setup_except o then Ok o
                else match prev o with
                     | None => Err 45
                     | Some p => walk_prev ops f p
                     end
    end
  end.

(* what one iteration does with the op at position [i] once it is known to be unseen:
   (new block stack, todo.append calls in program order, the op.block_target assignment if any) *)
Definition aeffect := (list instr * list (option N * list instr) * option (option N))%type.

Definition apbt_case (ops : list instr) (pxb : list N) (i : N) (op : instr) (stack : list instr) : res aeffect :=
  if is_op op_POP_BLOCK op then
    match stack with
    | [] => Err 41                                                  (* assert block_stack *)
    | b :: below => Ok (below, [], Some (target b))                 (* op.block_target = block_stack[-1].target *)
    end
  else if is_op op_RAISE_VARARGS op then
    match find_except stack with
    | Some b => Ok (stack, [], Some (target b))
    | None => Ok (stack, [], None)
    end
  else if is_op op_BREAK_LOOP op then
    match find_loop stack with
    | Some (b, below) =>
      if optN_eqb (target b) (Some i) then Err 42                   (* assert b.target != op *)
      else Ok (stack, [(target b, below)], Some (target b))         (* todo.append((op.block_target, block_stack[0:i])) *)
    | None => Ok (stack, [], None)
    end
  else if is_setup_except op then
    Ok (op :: stack, [(target op, stack)], None)                    (* todo.append((op.target, block_stack)); push *)
  else if pushes_block op then
    match target op with
    | None => Err 43                                                (* assert op.target *)
    | Some _ => Ok (op :: stack, [], None)
    end
  else if does_jump op && match target op with Some _ => true | None => false end then
    if memN i pxb then
      match target op with
      | Some t => bind (walk_prev ops (S (length ops)) t) (fun su =>
                  Ok (su :: stack, [(Some t, su :: stack)], None))
      | None => Ok (stack, [], None)
      end
    else Ok (stack, [(target op, stack)], None)
  else Ok (stack, [], None).

Record ast := mkA {
  a_todo : list (option N * list instr);
  a_seen : list N;
  a_bt : list (N * option N);            (* (position, value) of every op.block_target assignment, latest first *)
  a_err : nat
}.

Definition afin (s : ast) : bool :=
  negb (Nat.eqb (a_err s) 0) || match a_todo s with [] => true | _ => false end.

(* a raised exception ends the loop *)
Definition afail (s : ast) (e : nat) : ast := mkA [] (a_seen s) (a_bt s) e.

Definition astep (ops : list instr) (pxb : list N) (s : ast) : ast :=
  match a_todo s with
  | [] => s
  | (None, _) :: _ => afail s 44                                     (* None.pushes_block() *)
  | (Some i, stack) :: rest =>
    if memN i (a_seen s) then mkA rest (a_seen s) (a_bt s) (a_err s)        (* if op in seen: continue *)
    else
      match op_at ops i with
      | None => afail s 47
      | Some op =>
        match apbt_case ops pxb i op stack with
        | Err e => afail s e
        | Ok (stack', pushes, asg) =>
          let bt' := match asg with Some v => (i, v) :: a_bt s | None => a_bt s end in
          let todo1 := rev pushes ++ rest in
          if no_next op then mkA todo1 (i :: a_seen s) bt' (a_err s)
          else match next op with
               | None => mkA todo1 (i :: a_seen s) bt' 46            (* assert op.next *)
               | Some n => mkA ((Some n, stack') :: todo1) (i :: a_seen s) bt' (a_err s)
               end
        end
      end
  end.

Fixpoint apply_bt (bt : list (N * option N)) (ops : list instr) (pos : N) : list instr :=
  match ops with
  | [] => []
  | o :: t => set_bt o (match assocN pos bt with Some v => v | None => None end) :: apply_bt bt t (pos + 1)
  end.

(* every iteration either drops an entry of todo, or marks a new position seen and appends at most two entries *)
Definition apbt_fuel (ops : list instr) : nat := fuel_for (2 * N.of_nat (length ops) + 2).

Definition apbt_run (ops : list instr) (pxb : list N) : ast :=
  run (astep ops pxb) afin (apbt_fuel ops) (mkA [(Some 0%N, [])] [] [] 0).

Definition add_pop_block_targets (ops : list instr) (pxb : list N) : res (list instr) :=
  match ops with
  | [] => Ok []                                                      (* if not bytecode: return *)
  | _ =>
    let s := apbt_run ops pxb in
    match a_err s with
    | O => if afin s then Ok (apply_bt (a_bt s) ops 0) else Err 40
    | e => Err e
    end
  end.

(* ---- hypotheses under which the walk is proved total ("properly bracketed" input) ------------------------------ *)
(* [inside ops k]: is position k strictly after a SETUP_EXCEPT_311 and at or before its POP_BLOCK, reading the list
   left to right?  [brk_ops] is the list-level reading of Model.brk: a SETUP_EXCEPT_311 only when none is open, a
   POP_BLOCK only when one is open. *)
Fixpoint brk_ops (ops : list instr) (opened : bool) : bool :=
  match ops with
  | [] => true
  | o :: t => if is_op op_SETUP_EXCEPT_311 o then negb opened && brk_ops t true
              else if is_op op_POP_BLOCK o then opened && brk_ops t false
              else brk_ops t opened
  end.

(* opened-flag before each position *)
Fixpoint inside_list (ops : list instr) (opened : bool) : list bool :=
  match ops with
  | [] => []
  | o :: t => opened :: inside_list t (if is_op op_SETUP_EXCEPT_311 o then true
                                       else if is_op op_POP_BLOCK o then false else opened)
  end.
Definition inside (ops : list instr) (k : N) : bool := nth (N.to_nat k) (inside_list ops false) false.

Definition inside_opt (ops : list instr) (t : option N) : bool :=
  match t with Some t => inside ops t | None => false end.

Fixpoint apbt_ok_from (ops all : list instr) (pxb : list N) (pos : N) : bool :=
  match ops with
  | [] => true
  | o :: t =>
    (* no pre-3.8 loop blocks *)
    negb (is_op op_BREAK_LOOP o) &&
    (* block-pushing ops have a target *)
    (negb (is_setup_except o || pushes_block o) || match target o with Some _ => true | None => false end) &&
    (* a handler / unmarked jump target inside a protected range is reached from inside a protected range *)
    (negb (is_setup_except o || (does_jump o && negb (memN pos pxb))) || negb (inside_opt all (target o)) ||
     inside all pos) &&
    (* a jump marked push_exc_block lands inside a protected range *)
    (negb (memN pos pxb && does_jump o) || match target o with Some _ => inside_opt all (target o) | None => true end) &&
    (* only the last instruction may lack a successor *)
    (no_next o || match next o with Some _ => true | None => false end) &&
    apbt_ok_from t all pxb (pos + 1)
  end.

Definition apbt_okb (ops : list instr) (pxb : list N) : bool :=
  brk_ops ops false && apbt_ok_from ops ops pxb 0.
