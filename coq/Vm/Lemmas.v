(* C01 — basic lemmas about the model's data structures: boolean equalities, de-duplication, frames,
   the concretisation [gamma], and the soundness of the compatibility tests (compat_sound & co). *)
From Coq Require Import List ZArith Arith Bool Lia.
From PV Require Import Vm.Model.
Import ListNotations.
Open Scope nat_scope.

(* ---------------- induction principle for the nested type aval ---------------- *)
Section AvalInd.
  Variable P : aval -> Prop.
  Hypothesis HInt : forall c, P (AInt c).
  Hypothesis HFloat : P AFloat.
  Hypothesis HStr : forall k, P (AStr k).
  Hypothesis HBytes : forall c, P (ABytes c).
  Hypothesis HBool : forall c, P (ABool c).
  Hypothesis HNone : P ANone.
  Hypothesis HList : forall el, Forall (Forall P) el -> P (AList el).
  Hypothesis HTuple : forall el, Forall (Forall P) el -> P (ATuple el).
  Hypothesis HSet : forall el, Forall P el -> P (ASet el).
  Hypothesis HDict : forall k ks vs, Forall P ks -> Forall P vs -> P (ADict k ks vs).
  Hypothesis HAny : P AAny.

  Fixpoint aval_ind' (a : aval) : P a :=
    let fl := (fix fl (l : list aval) : Forall P l :=
                 match l with [] => Forall_nil _ | x :: l' => Forall_cons x (aval_ind' x) (fl l') end) in
    let fll := (fix fll (ll : list (list aval)) : Forall (Forall P) ll :=
                  match ll with
                  | [] => Forall_nil _
                  | l :: ll' =>
                      Forall_cons l ((fix fl2 (l : list aval) : Forall P l :=
                                        match l with
                                        | [] => Forall_nil _
                                        | x :: l' => Forall_cons x (aval_ind' x) (fl2 l')
                                        end) l) (fll ll')
                  end) in
    match a with
    | AInt c => HInt c
    | AFloat => HFloat
    | AStr k => HStr k
    | ABytes c => HBytes c
    | ABool c => HBool c
    | ANone => HNone
    | AList el => HList el (fll el)
    | ATuple el => HTuple el (fll el)
    | ASet el => HSet el (fl el)
    | ADict k ks vs => HDict k ks vs (fl ks) (fl vs)
    | AAny => HAny
    end.
End AvalInd.

(* ---------------- boolean equalities decide equality (the direction the proofs need) ---------------- *)

Lemma list_eqb_eq : forall {A} (eqb : A -> A -> bool) (xs ys : list A),
  Forall (fun x => forall y, eqb x y = true -> x = y) xs ->
  list_eqb eqb xs ys = true -> xs = ys.
Proof.
  intros A eqb xs. induction xs as [|x xs IH]; intros [|y ys] HF H; simpl in H; try discriminate; auto.
  inversion HF as [|? ? Hx Hxs]; subst. apply andb_true_iff in H as [E1 E2].
  f_equal; auto.
Qed.

Lemma aval_leqb_eq : forall (xs ys : list aval),
  Forall (fun x => forall y, aval_eqb x y = true -> x = y) xs ->
  (fix leqb (xs ys : list aval) : bool :=
     match xs, ys with
     | [], [] => true
     | x :: xs', y :: ys' => aval_eqb x y && leqb xs' ys'
     | _, _ => false
     end) xs ys = true -> xs = ys.
Proof.
  induction xs as [|x xs IH]; intros [|y ys] HF H; try discriminate; auto.
  inversion HF as [|? ? Hx Hxs]; subst. apply andb_true_iff in H as [E1 E2]. f_equal; auto.
Qed.

Lemma aval_lleqb_eq : forall (xs ys : list (list aval)),
  Forall (Forall (fun x => forall y, aval_eqb x y = true -> x = y)) xs ->
  (fix lleqb (xs ys : list (list aval)) : bool :=
     match xs, ys with
     | [], [] => true
     | x :: xs', y :: ys' =>
         (fix leqb2 (p q : list aval) : bool :=
            match p, q with
            | [], [] => true
            | u :: p', v :: q' => aval_eqb u v && leqb2 p' q'
            | _, _ => false
            end) x y && lleqb xs' ys'
     | _, _ => false
     end) xs ys = true -> xs = ys.
Proof.
  induction xs as [|x xs IH]; intros [|y ys] HF H; try discriminate; auto.
  inversion HF as [|? ? Hx Hxs]; subst. apply andb_true_iff in H as [E1 E2]. f_equal; auto.
  apply aval_leqb_eq; auto.
Qed.

Lemma opt_eqb_eq : forall {A} (eqb : A -> A -> bool) (a b : option A),
  (forall x y, eqb x y = true -> x = y) -> opt_eqb eqb a b = true -> a = b.
Proof. intros A eqb [x|] [y|] H E; simpl in E; try discriminate; auto. f_equal; auto. Qed.

Lemma aval_eqb_eq : forall a b, aval_eqb a b = true -> a = b.
Proof.
  induction a using aval_ind'; intros b E; destruct b; simpl in E; try discriminate; auto.
  - f_equal. apply (opt_eqb_eq Z.eqb); auto. intros; apply Z.eqb_eq; auto.
  - f_equal. apply Nat.eqb_eq; auto.
  - f_equal. apply (opt_eqb_eq Nat.eqb); auto. intros; apply Nat.eqb_eq; auto.
  - f_equal. apply (opt_eqb_eq Bool.eqb); auto. intros; apply eqb_prop; auto.
  - f_equal. apply aval_lleqb_eq; auto.
  - f_equal. apply aval_lleqb_eq; auto.
  - f_equal. apply aval_leqb_eq; auto.
  - apply andb_true_iff in E as [E E3]. apply andb_true_iff in E as [E1 E2].
    f_equal.
    + destruct k, kind; simpl in E1; try discriminate; auto.
    + apply aval_leqb_eq; auto.
    + apply aval_leqb_eq; auto.
Qed.

Lemma frame_eqb_eq : forall a b, frame_eqb a b = true -> a = b.
Proof.
  intros a b. unfold frame_eqb. apply list_eqb_eq.
  apply Forall_forall. intros [x u] _ [y v] H. simpl in H.
  apply andb_true_iff in H as [H1 H2]. apply Nat.eqb_eq in H1. apply aval_eqb_eq in H2. congruence.
Qed.

Lemma world_eqb_eq : forall a b, world_eqb a b = true -> a = b.
Proof.
  intros a b. unfold world_eqb. apply list_eqb_eq.
  apply Forall_forall. intros x _ y. apply frame_eqb_eq.
Qed.

Lemma res_eqb_eq : forall a b, res_eqb a b = true -> a = b.
Proof.
  intros [w a] [w' a'] H. unfold res_eqb in H. simpl in H. apply andb_true_iff in H as [H1 H2].
  apply world_eqb_eq in H1. apply aval_eqb_eq in H2. congruence.
Qed.

Lemma list_eqb_refl : forall {A} (eqb : A -> A -> bool) (xs : list A),
  Forall (fun x => eqb x x = true) xs -> list_eqb eqb xs xs = true.
Proof. induction xs; simpl; intros H; auto. inversion H as [|? ? Hx Hxs]; subst. rewrite Hx; simpl; auto. Qed.

Lemma aval_eqb_refl : forall a, aval_eqb a a = true.
Proof.
  assert (L : forall l, Forall (fun x => aval_eqb x x = true) l ->
     (fix leqb (xs ys : list aval) : bool :=
     match xs, ys with
     | [], [] => true
     | x :: xs', y :: ys' => aval_eqb x y && leqb xs' ys'
     | _, _ => false
     end) l l = true).
  { induction l; intros H; auto. inversion H as [|? ? Hx Hxs]; subst. rewrite Hx. simpl. auto. }
  assert (LL : forall l, Forall (Forall (fun x => aval_eqb x x = true)) l ->
     (fix lleqb (xs ys : list (list aval)) : bool :=
     match xs, ys with
     | [], [] => true
     | x :: xs', y :: ys' =>
         (fix leqb2 (p q : list aval) : bool :=
            match p, q with
            | [], [] => true
            | u :: p', v :: q' => aval_eqb u v && leqb2 p' q'
            | _, _ => false
            end) x y && lleqb xs' ys'
     | _, _ => false
     end) l l = true).
  { induction l; intros H; auto. inversion H as [|? ? Hx Hxs]; subst. rewrite (L a Hx). simpl. auto. }
  induction a using aval_ind'; simpl; auto.
  - destruct c; simpl; auto. apply Z.eqb_refl.
  - apply Nat.eqb_refl.
  - destruct c; simpl; auto. apply Nat.eqb_refl.
  - destruct c; simpl; auto. apply eqb_reflx.
  - rewrite (L ks H), (L vs H0). destruct k; reflexivity.
Qed.

Lemma world_eqb_refl : forall w, world_eqb w w = true.
Proof.
  intros w. unfold world_eqb. apply list_eqb_refl. apply Forall_forall. intros fr _.
  unfold frame_eqb. apply list_eqb_refl. apply Forall_forall. intros [x a] _. simpl.
  rewrite Nat.eqb_refl, aval_eqb_refl. reflexivity.
Qed.

(* ---------------- de-duplication keeps every element ---------------- *)

Lemma dedup_in : forall {A} (eqb : A -> A -> bool) (Heq : forall x y, eqb x y = true -> x = y)
  (l : list A) (x : A), In x l -> In x (dedup eqb l).
Proof.
  intros A eqb Heq l. induction l as [|y l IH]; intros x H; simpl in *; auto.
  destruct H as [->|H].
  - destruct (existsb (eqb x) (dedup eqb l)) eqn:E.
    + apply existsb_exists in E as [z [Hz Ez]]. apply Heq in Ez. subst. auto.
    + left; auto.
  - destruct (existsb (eqb y) (dedup eqb l)); [|right]; auto.
Qed.

Lemma dedup_sub : forall {A} (eqb : A -> A -> bool) (l : list A) (x : A), In x (dedup eqb l) -> In x l.
Proof.
  intros A eqb l. induction l as [|y l IH]; intros x H; simpl in *; auto.
  destruct (existsb (eqb y) (dedup eqb l)); [right; auto|].
  destruct H as [->|H]; auto.
Qed.

Lemma dedupw_in : forall l w, In w l -> In w (dedupw l).
Proof. intros. apply dedup_in; auto. apply world_eqb_eq. Qed.
Lemma dedupa_in : forall l a, In a l -> In a (dedupa l).
Proof. intros. apply dedup_in; auto. apply aval_eqb_eq. Qed.
Lemma dedupr_in : forall l r, In r l -> In r (dedupr l).
Proof. intros. apply dedup_in; auto. apply res_eqb_eq. Qed.

(* ---------------- frames ---------------- *)

Lemma flookup_fset_same : forall x a fr, flookup x (fset x a fr) = Some a.
Proof.
  intros x a fr. induction fr as [|[y b] fr IH]; simpl.
  - rewrite Nat.eqb_refl; auto.
  - destruct (x <? y) eqn:L; simpl.
    + rewrite Nat.eqb_refl; auto.
    + destruct (x =? y) eqn:E; simpl.
      * rewrite Nat.eqb_refl; auto.
      * rewrite Nat.eqb_sym, E. auto.
Qed.

Lemma flookup_fset_other : forall x y a fr, y <> x -> flookup y (fset x a fr) = flookup y fr.
Proof.
  intros x y a fr N. induction fr as [|[z b] fr IH]; simpl.
  - destruct (x =? y) eqn:E; auto. apply Nat.eqb_eq in E. congruence.
  - destruct (x <? z) eqn:L; simpl.
    + destruct (x =? y) eqn:E; auto. apply Nat.eqb_eq in E. congruence.
    + destruct (x =? z) eqn:E; simpl.
      * apply Nat.eqb_eq in E. subst z.
        destruct (x =? y) eqn:E2; auto. apply Nat.eqb_eq in E2. congruence.
      * destruct (z =? y); auto.
Qed.

(* ---------------- gamma in terms of the standard list predicates ---------------- *)

Definition any_gamma (bs : list aval) (x : value) : Prop := exists b, In b bs /\ gamma b x.

Lemma any_of_iff : forall bs x,
  (fix any_of (bs : list aval) (x : value) : Prop :=
     match bs with [] => False | b :: bs' => gamma b x \/ any_of bs' x end) bs x <-> any_gamma bs x.
Proof.
  induction bs as [|b bs IH]; intros x; simpl.
  - split; [tauto|]. intros [b [[] _]].
  - rewrite IH. split.
    + intros [H|[c [Hc Hg]]]; [exists b|exists c]; simpl; auto.
    + intros [c [[->|Hc] Hg]]; [left|right; exists c]; auto.
Qed.

Lemma gamma_list_iff : forall el xs,
  gamma (AList el) (VList xs) <-> Forall2 any_gamma el xs.
Proof.
  intros el. simpl. induction el as [|bs el IH]; intros [|x xs]; simpl.
  - split; auto.
  - split; [tauto|]. intros H; inversion H.
  - split; [tauto|]. intros H; inversion H.
  - rewrite any_of_iff, IH. split.
    + intros [H1 H2]. constructor; auto.
    + intros H. inversion H; subst. auto.
Qed.

Lemma gamma_tuple_iff : forall el xs,
  gamma (ATuple el) (VTuple xs) <-> Forall2 any_gamma el xs.
Proof.
  intros el. simpl. induction el as [|bs el IH]; intros [|x xs]; simpl.
  - split; auto.
  - split; [tauto|]. intros H; inversion H.
  - split; [tauto|]. intros H; inversion H.
  - rewrite any_of_iff, IH. split.
    + intros [H1 H2]. constructor; auto.
    + intros H. inversion H; subst. auto.
Qed.

Lemma all_any_iff : forall bs xs,
  (fix all (xs : list value) : Prop :=
     match xs with
     | [] => True
     | x :: xs' =>
         (fix any_of (bs : list aval) (x : value) : Prop :=
            match bs with [] => False | b :: bs' => gamma b x \/ any_of bs' x end) bs x /\ all xs'
     end) xs <-> Forall (any_gamma bs) xs.
Proof.
  intros bs. induction xs as [|x xs IH]; simpl.
  - split; auto.
  - rewrite any_of_iff, IH. split.
    + intros [H1 H2]; constructor; auto.
    + intros H; inversion H; subst; auto.
Qed.

Lemma gamma_set_iff : forall bs xs, gamma (ASet bs) (VSet xs) <-> Forall (any_gamma bs) xs.
Proof. intros. simpl. apply all_any_iff. Qed.

Lemma gamma_dict_iff : forall kind ks vs cks cvs,
  gamma (ADict kind ks vs) (VDict cks cvs) <->
  Forall (any_gamma ks) cks /\ Forall (any_gamma vs) cvs /\
  match kind with DEmpty => cks = [] | DStr => cks <> [] | DAmb => True end.
Proof. intros. simpl. rewrite !all_any_iff. tauto. Qed.

Lemma gamma_list_inv : forall el v, gamma (AList el) v -> exists xs, v = VList xs /\ Forall2 any_gamma el xs.
Proof. intros el v H. destruct v; try (simpl in H; tauto). exists vs. split; auto. apply gamma_list_iff; auto. Qed.
Lemma gamma_tuple_inv : forall el v, gamma (ATuple el) v -> exists xs, v = VTuple xs /\ Forall2 any_gamma el xs.
Proof. intros el v H. destruct v; try (simpl in H; tauto). exists vs. split; auto. apply gamma_tuple_iff; auto. Qed.
Lemma gamma_set_inv : forall bs v, gamma (ASet bs) v -> exists xs, v = VSet xs /\ Forall (any_gamma bs) xs.
Proof. intros bs v H. destruct v; try (simpl in H; tauto). exists vs. split; auto. apply gamma_set_iff; auto. Qed.
Lemma gamma_dict_inv : forall kind ks vs v, gamma (ADict kind ks vs) v ->
  exists cks cvs, v = VDict cks cvs /\ Forall (any_gamma ks) cks /\ Forall (any_gamma vs) cvs /\
  match kind with DEmpty => cks = [] | DStr => cks <> [] | DAmb => True end.
Proof.
  intros kind ks vs v H. destruct v; try (simpl in H; tauto). exists ks0, vs0. split; auto.
  apply gamma_dict_iff; auto.
Qed.

(* ---------------- soundness of the compatibility tests ---------------- *)

Definition is_vnone (v : value) : bool := match v with VNone => true | _ => false end.

(* compare.compatible_with: the binding of a value is compatible with the value's actual truthiness *)
Lemma compat_sound_lemma : forall a v, gamma a v -> compat a (truthy v) = true.
Proof.
  intros a v H. destruct a.
  - destruct c as [z|]; simpl in H.
    + subst. simpl. apply eqb_reflx.
    + reflexivity.
  - reflexivity.
  - simpl in H. subst. simpl. apply eqb_reflx.
  - destruct c as [k|]; simpl in H; [subst; simpl; apply eqb_reflx | reflexivity].
  - destruct c as [b|]; simpl in H; [subst; simpl; apply eqb_reflx | reflexivity].
  - simpl in H. subst. reflexivity.
  - apply gamma_list_inv in H as [xs [-> H]]. simpl. inversion H; subst; reflexivity.
  - apply gamma_tuple_inv in H as [xs [-> H]]. simpl. inversion H; subst; reflexivity.
  - apply gamma_set_inv in H as [xs [-> H]]. simpl.
    destruct xs as [|x xs]; simpl; auto. inversion H; subst. destruct H2 as [b [Hb _]].
    destruct elems; [destruct Hb | reflexivity].
  - apply gamma_dict_inv in H as [cks [cvs [-> [_ [_ H]]]]]. simpl.
    destruct kind; simpl.
    + subst. reflexivity.
    + destruct cks; [congruence | reflexivity].
    + reflexivity.
  - reflexivity.
Qed.

(* the class of a value is the class of its binding *)
Definition shape (a : aval) (v : value) : Prop :=
  match a with
  | AInt _ => exists z, v = VInt z
  | AFloat => exists k, v = VFloat k
  | AStr _ => exists k, v = VStr k
  | ABytes _ => exists k, v = VBytes k
  | ABool _ => exists b, v = VBool b
  | ANone => v = VNone
  | AList _ => exists xs, v = VList xs
  | ATuple _ => exists xs, v = VTuple xs
  | ASet _ => exists xs, v = VSet xs
  | ADict _ _ _ => exists ks vs, v = VDict ks vs
  | AAny => True
  end.

Lemma gamma_shape : forall a v, gamma a v -> shape a v.
Proof.
  intros a v H. destruct a; simpl.
  - destruct c; simpl in H; eauto.
  - exact H.
  - simpl in H; eauto.
  - destruct c; simpl in H; eauto.
  - destruct c; simpl in H; eauto.
  - exact H.
  - apply gamma_list_inv in H as [xs [-> _]]; eauto.
  - apply gamma_tuple_inv in H as [xs [-> _]]; eauto.
  - apply gamma_set_inv in H as [xs [-> _]]; eauto.
  - apply gamma_dict_inv in H as [cks [cvs [-> _]]]; eauto.
  - exact I.
Qed.

Ltac shape_cases H :=
  match type of H with
  | exists _, _ => let x := fresh "x" in destruct H as [x H]; shape_cases H
  | _ = _ => subst
  | True => idtac
  end.

(* None tests (POP_JUMP_IF_NONE / NOT_NONE): state._match_condition *)
Lemma compat_none_sound_lemma : forall a v, gamma a v ->
  if is_vnone v then compat_none a = true else compat_notnone a = true.
Proof.
  intros a v H. apply gamma_shape in H.
  destruct a; simpl in H; shape_cases H; try reflexivity; destruct v; reflexivity.
Qed.

(* IS_OP against None: state._is_or_is_not_cmp *)
Lemma a_isnone_sound_lemma : forall a v, gamma a v ->
  gamma (ABool (a_isnone a)) (VBool (is_vnone v)).
Proof.
  intros a v H. apply gamma_shape in H.
  destruct a; simpl in H; shape_cases H; simpl; eauto.
Qed.

(* special_builtins.IsInstance *)
Lemma a_isinst_sound_lemma : forall a v c, gamma a v ->
  gamma (ABool (a_isinst a c)) (VBool (isinst v c)).
Proof.
  intros a v c H. apply gamma_shape in H.
  destruct a; simpl in H; shape_cases H; simpl; eauto; destruct c; reflexivity.
Qed.

Lemma discard_concrete_sound : forall a v, gamma a v -> gamma (discard_concrete a) v.
Proof.
  intros a v H. destruct a; simpl in *; auto; destruct c; simpl in *; subst; eauto.
Qed.

Lemma a_int_sound : forall z, gamma (a_int z) (VInt z).
Proof. intros z. unfold a_int. destruct ((-1 <=? z)%Z && (z <=? 12)%Z); simpl; eauto. Qed.

(* a constant in a jump position has the truth value CPython folds it to *)
Lemma lit_truth_sound : forall ccall ft locs st e b v,
  lit_truth e = Some b -> ceval_expr ccall ft locs st e = Some v -> truthy v = b.
Proof.
  intros ccall ft locs st e. induction e; intros b0 v0 HL HE; simpl in HL; try discriminate.
  - inversion HL; subst. simpl in HE. inversion HE; subst. reflexivity.
  - inversion HL; subst. simpl in HE. inversion HE; subst. reflexivity.
  - inversion HL; subst. simpl in HE. inversion HE; subst. reflexivity.
  - inversion HL; subst. simpl in HE. inversion HE; subst. reflexivity.
  - inversion HL; subst. simpl in HE. inversion HE; subst. reflexivity.
  - inversion HL; subst. simpl in HE. inversion HE; subst. reflexivity.
  - (* tuple of constants: truthiness is the length *)
    match type of HL with (if ?c then _ else _) = _ => destruct c end; [|discriminate].
    inversion HL; subst. simpl in HE.
    destruct (cevals_with (fun e1 => ceval_expr ccall ft locs st e1) es) as [vs|] eqn:Es; simpl in HE; [|discriminate].
    inversion HE; subst. simpl.
    destruct es; simpl in Es.
    + inversion Es; subst. reflexivity.
    + destruct (ceval_expr ccall ft locs st e); simpl in Es; [|discriminate].
      destruct (cevals_with (fun e1 => ceval_expr ccall ft locs st e1) es); simpl in Es; [|discriminate].
      inversion Es; subst. reflexivity.
  - destruct (lit_truth e) as [b'|] eqn:L; [|discriminate]. inversion HL; subst.
    simpl in HE. destruct (ceval_expr ccall ft locs st e) as [v'|] eqn:E'; simpl in HE; [|discriminate].
    inversion HE; subst. simpl. f_equal. eapply IHe; eauto.
Qed.
