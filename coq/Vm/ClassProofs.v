(* C01, fragment L1 (classes): soundness of the abstract interpreter of Vm/ClassModel.v w.r.t. its concrete
   semantics, by simulation on top of the L0 simulation of Vm/Proofs.v. *)
From Coq Require Import List ZArith Arith Bool Lia.
From PV Require Import Vm.Model Vm.Lemmas Vm.TypesProofs Vm.Proofs Vm.ClassModel.
From PV Require Mro.Model Mro.Proofs.
Import ListNotations.
Open Scope nat_scope.

(* ---------------- induction principle for nested statement lists ---------------- *)

Section LStmtInd.
  Variable P : lstmt -> Prop.
  Hypothesis HAssign : forall x e, P (LAssign x e).
  Hypothesis HGet : forall x o a, P (LGet x o a).
  Hypothesis HSet : forall o a e, P (LSet o a e).
  Hypothesis HNew : forall o c args, P (LNew o c args).
  Hypothesis HCall : forall x o m args, P (LCall x o m args).
  Hypothesis HSuper : forall x m args, P (LSuper x m args).
  Hypothesis HIf : forall c th el, Forall P th -> Forall P el -> P (LIf c th el).
  Hypothesis HPass : P LPass.
  Hypothesis HReturn : forall e, P (LReturn e).

  Fixpoint lstmt_ind' (s : lstmt) : P s :=
    let fl := fix fl (ss : list lstmt) : Forall P ss :=
                match ss with
                | [] => Forall_nil P
                | s' :: ss' => Forall_cons s' (lstmt_ind' s') (fl ss')
                end in
    match s with
    | LAssign x e => HAssign x e
    | LGet x o a => HGet x o a
    | LSet o a e => HSet o a e
    | LNew o c args => HNew o c args
    | LCall x o m args => HCall x o m args
    | LSuper x m args => HSuper x m args
    | LIf c th el => HIf c th el (fl th) (fl el)
    | LPass => HPass
    | LReturn e => HReturn e
    end.
End LStmtInd.

(* ---------------- decidable equalities used by the de-duplications ---------------- *)

Lemma pair_eqb_eq : forall p q, pair_eqb p q = true -> p = q.
Proof.
  intros [a b] [c d] H. unfold pair_eqb in H. simpl in H. apply andb_true_iff in H as [H1 H2].
  apply Nat.eqb_eq in H1. apply Nat.eqb_eq in H2. subst. reflexivity.
Qed.

Lemma hent_eqb_eq : forall p q, hent_eqb p q = true -> p = q.
Proof.
  intros [a b] [c d] H. unfold hent_eqb in H. simpl in H. apply andb_true_iff in H as [H1 H2].
  apply Nat.eqb_eq in H1. apply frame_eqb_eq in H2. subst. reflexivity.
Qed.

Lemma lworld_eqb_eq : forall a b, lworld_eqb a b = true -> a = b.
Proof.
  intros [w1 o1 h1 b1] [w2 o2 h2 b2] H. unfold lworld_eqb in H. simpl in H.
  apply andb_true_iff in H as [H H4]. apply andb_true_iff in H as [H H3]. apply andb_true_iff in H as [H1 H2].
  apply world_eqb_eq in H1.
  apply list_eqb_eq in H2; [|apply Forall_forall; intros; apply pair_eqb_eq; auto].
  apply list_eqb_eq in H3; [|apply Forall_forall; intros; apply hent_eqb_eq; auto].
  apply eqb_prop in H4. subst. reflexivity.
Qed.

Lemma lres_eqb_eq : forall p q, lres_eqb p q = true -> p = q.
Proof.
  intros [a b] [c d] H. unfold lres_eqb in H. simpl in H. apply andb_true_iff in H as [H1 H2].
  apply lworld_eqb_eq in H1. apply aval_eqb_eq in H2. subst. reflexivity.
Qed.

Lemma key_eqb_eq : forall p q, key_eqb p q = true -> p = q.
Proof.
  intros [a b] [c d] H. unfold key_eqb in H. simpl in H. apply andb_true_iff in H as [H1 H2].
  apply Nat.eqb_eq in H1.
  apply list_eqb_eq in H2; [|apply Forall_forall; intros ? _ ? E; apply Nat.eqb_eq; auto].
  subst. reflexivity.
Qed.

Lemma key_eqb_refl : forall k, key_eqb k k = true.
Proof.
  intros [a b]. unfold key_eqb. simpl. rewrite Nat.eqb_refl. simpl.
  induction b as [|x b IH]; simpl; auto. rewrite Nat.eqb_refl. auto.
Qed.

Lemma dedupl_in : forall l W, In W l -> In W (dedupl l).
Proof. intros. apply dedup_in; auto. apply lworld_eqb_eq. Qed.
Lemma deduplr_in : forall l r, In r l -> In r (deduplr l).
Proof. intros. apply dedup_in; auto. apply lres_eqb_eq. Qed.

(* ---------------- the simulation relation ---------------- *)

Definition fdom (s : store) (fr : frame) : Prop := forall a, slook s a = None -> flookup a fr = None.
Definition hent_rel (cs : cname * store) (cf : cname * frame) : Prop :=
  fst cs = fst cf /\ fmatch (snd cs) (snd cf) /\ fdom (snd cs) (snd cf).

(* unless the world is havocked, the object environments coincide and the heaps agree object by object *)
Definition hrel (h : bool) (co : list (oname * nat)) (ch : list (cname * store))
                (aob : list (oname * nat)) (ahp : list (cname * frame)) : Prop :=
  h = true \/ (co = aob /\ Forall2 hent_rel ch ahp).

Definition lmatch (locs : option (list name)) (st : lstate) (W : lworld) : Prop :=
  wmatch locs (lv st) (aw W) /\ hrel (hv W) (lo st) (lh st) (ao W) (ah W).

Lemma forall2_nth : forall {A B} (P : A -> B -> Prop) l1 l2 i x,
  Forall2 P l1 l2 -> nth_error l1 i = Some x -> exists y, nth_error l2 i = Some y /\ P x y.
Proof.
  intros A B P l1 l2 i x H. revert i. induction H; intros [|i] Hn; simpl in *; try discriminate.
  - inversion Hn; subst. eauto.
  - auto.
Qed.

Lemma forall2_upd : forall {A B} (P : A -> B -> Prop) l1 l2 i x y,
  Forall2 P l1 l2 -> P x y -> Forall2 P (upd i x l1) (upd i y l2).
Proof.
  intros A B P l1 l2 i x y H. revert i. induction H; intros [|i] HP; simpl; constructor; auto.
Qed.

Lemma upd_length : forall {A} i (x : A) l, length (upd i x l) = length l.
Proof. intros A i x l. revert i. induction l; intros [|i]; simpl; auto. Qed.

Lemma flookup_nil : forall a, flookup a [] = None.
Proof. reflexivity. Qed.

Lemma fdom_set : forall s fr a v av, fdom s fr -> fdom (sset a v s) (fset a av fr).
Proof.
  intros s fr a v av H b Hb. unfold sset in Hb. simpl in Hb.
  destruct (a =? b) eqn:E; [discriminate|]. apply Nat.eqb_neq in E.
  rewrite flookup_fset_other; auto.
Qed.

Lemma hent_rel_new : forall c, hent_rel (c, []) (c, []).
Proof.
  intros c. repeat split; simpl; auto.
  intros x v H. discriminate.
Qed.

(* ---------------- re-attaching L0 answers ---------------- *)

Lemma worlds0_in : forall Ws W, In W Ws -> In (aw W) (worlds0 Ws).
Proof. intros. unfold worlds0. apply dedupw_in. apply in_map. auto. Qed.

Lemma lift_in : forall {A} Ws (R : list (world * A)) W x, In W Ws -> In (aw W, x) R -> In (W, x) (lift Ws R).
Proof.
  intros A Ws R W x HW HR. unfold lift. apply in_flat_map. exists W. split; auto.
  apply in_flat_map. exists (aw W, x). split; auto. simpl. rewrite world_eqb_refl. left; auto.
Qed.

Lemma sel_in : forall Ws ws W, In W Ws -> In (aw W) ws -> In W (sel Ws ws).
Proof.
  intros Ws ws W HW Hw. unfold sel. apply filter_In. split; auto.
  apply existsb_exists. exists (aw W). split; auto. apply world_eqb_refl.
Qed.

Lemma bind_res_in : forall x R W a, In (W, a) R -> In (set_aw W (wassign (aw W) x a)) (bind_res x R).
Proof.
  intros x R W a H. unfold bind_res. apply dedupl_in. apply in_map_iff. exists (W, a). auto.
Qed.

Lemma lmatch_assign : forall locs st W x v a,
  lmatch locs st W -> gamma a v ->
  lmatch locs (mkl (cassign locs (lv st) x v) (lo st) (lh st)) (set_aw W (wassign (aw W) x a))
  /\ tl (aw (set_aw W (wassign (aw W) x a))) = tl (aw W).
Proof.
  intros locs st W x v a [HW HH] HG.
  destruct (wmatch_assign locs (lv st) (aw W) x v a HW HG) as [HW' Htl].
  split; [split|]; simpl; auto.
Qed.

(* ---------------- preservation facts of the concrete semantics ---------------- *)

Definition mpres (mcall : ftable -> lstate -> nat -> list cname -> mname -> list value -> option (lstate * value))
  : Prop :=
  forall ft st i cands m vs st' v, mcall ft st i cands m vs = Some (st', v) ->
    lv st' = lv st /\ lo st' = lo st /\ length (lh st') = length (lh st).

Definition out_state (o : loutcome) : lstate := match o with LNormal st => st | LReturned st _ => st end.

Definition msim (mcall : ftable -> lstate -> nat -> list cname -> mname -> list value -> option (lstate * value))
                (amcall : ftable -> list (lworld * list aval) -> nat -> list cname -> mname -> list (lworld * aval))
  : Prop :=
  forall ft st i cands m vs st' v, mcall ft st i cands m vs = Some (st', v) ->
    forall rows W avs, In (W, avs) rows -> Forall2 gamma avs vs ->
      aw W <> [] -> fmatch (cg (lv st)) (last (aw W) []) -> hv W = false ->
      lo st = ao W -> Forall2 hent_rel (lh st) (ah W) ->
      exists W' a, In (W', a) (amcall ft rows i cands m) /\ gamma a v /\ aw W' = aw W
                   /\ hrel (hv W') (lo st') (lh st') (ao W') (ah W').

Section LSim.
  Variable lz : bool.
  Variable ce : cenv.
  Variable fuel0 : nat.
  Variable acall : ftable -> fname -> list (world * list aval) -> list (world * aval).
  Variable mcall : ftable -> lstate -> nat -> list cname -> mname -> list value -> option (lstate * value).
  Variable amcall : ftable -> list (lworld * list aval) -> nat -> list cname -> mname -> list (lworld * aval).
  Variable ft : ftable.
  Hypothesis Hcall : call_sim (ccall_n fuel0) acall.
  Hypothesis Hp : mpres mcall.
  Hypothesis Hm : msim mcall amcall.

  Let LEX := lexec ce fuel0 mcall ft.
  Let LBL := lexec_block ce fuel0 mcall ft.
  Let AST := lastmt lz ce acall amcall ft.
  Let ABL := lablock lz ce acall amcall ft.

  (* inside a method ([slf] is set) the object environment and the number of objects do not change *)
  Definition pres_at (s : lstmt) : Prop :=
    forall slf0 locs st out, LEX (Some slf0) locs st s = Some out ->
      lo (out_state out) = lo st /\ length (lh (out_state out)) = length (lh st).

  Lemma pres_block : forall ss, Forall pres_at ss ->
    forall slf0 locs st out, LBL (Some slf0) locs st ss = Some out ->
      lo (out_state out) = lo st /\ length (lh (out_state out)) = length (lh st).
  Proof.
    induction ss as [|s ss IH]; intros HF slf0 locs st out HE.
    - simpl in HE. inversion HE; subst. simpl. auto.
    - inversion HF as [|? ? Hs Hss]; subst.
      unfold LBL, lexec_block in HE. simpl in HE.
      destruct (lexec ce fuel0 mcall ft (Some slf0) locs st s) as [[st1|st1 v1]|] eqn:Es; try discriminate.
      + destruct (Hs slf0 locs st _ Es) as [A B]. simpl in A, B.
        destruct (IH Hss slf0 locs st1 out HE) as [C D]. split; congruence.
      + inversion HE; subst. apply (Hs slf0 locs st _ Es).
  Qed.

  Lemma pres_stmt : forall s, pres_at s.
  Proof.
    induction s using lstmt_ind'; intros slf0 locs st out HE; unfold LEX in HE.
    - simpl in HE. destruct (ceval_expr (ccall_n fuel0) ft locs (lv st) e); simpl in HE; [|discriminate].
      inversion HE; subst. simpl. auto.
    - simpl in HE. destruct (resolve (Some slf0) (lo st) o); simpl in HE; [|discriminate].
      destruct (nth_error (lh st) n) as [cs|]; simpl in HE; [|discriminate].
      destruct (match slook (snd cs) a with Some v => Some v | None => cattr_val ce (mro_of ce (fst cs)) a end);
        simpl in HE; [|discriminate].
      inversion HE; subst. simpl. auto.
    - simpl in HE. destruct (ceval_expr (ccall_n fuel0) ft locs (lv st) e); simpl in HE; [|discriminate].
      destruct (resolve (Some slf0) (lo st) o); simpl in HE; [|discriminate].
      destruct (nth_error (lh st) n) as [cs|]; simpl in HE; [|discriminate].
      inversion HE; subst. simpl. split; auto. apply upd_length.
    - simpl in HE. discriminate.
    - simpl in HE. destruct (cevals (ccall_n fuel0) ft locs (lv st) args); simpl in HE; [|discriminate].
      destruct (resolve (Some slf0) (lo st) o); simpl in HE; [|discriminate].
      destruct (nth_error (lh st) n) as [cs|]; simpl in HE; [|discriminate].
      destruct (mcall ft st n (mro_of ce (fst cs)) m l) as [[st' v]|] eqn:Em; simpl in HE; [|discriminate].
      inversion HE; subst. simpl. destruct (Hp _ _ _ _ _ _ _ _ Em) as [A [B C]]. auto.
    - simpl in HE. destruct slf0 as [i k].
      destruct (cevals (ccall_n fuel0) ft locs (lv st) args); simpl in HE; [|discriminate].
      destruct (nth_error (lh st) i) as [cs|]; simpl in HE; [|discriminate].
      destruct (mcall ft st i (after k (mro_of ce (fst cs))) m l) as [[st' v]|] eqn:Em; simpl in HE; [|discriminate].
      inversion HE; subst. simpl. destruct (Hp _ _ _ _ _ _ _ _ Em) as [A [B C]]. auto.
    - change (lexec ce fuel0 mcall ft (Some slf0) locs st (LIf c th el)) with
        (obind (ceval_expr (ccall_n fuel0) ft locs (lv st) c)
               (fun vc => if truthy vc then lexec_block ce fuel0 mcall ft (Some slf0) locs st th
                          else lexec_block ce fuel0 mcall ft (Some slf0) locs st el)) in HE.
      destruct (ceval_expr (ccall_n fuel0) ft locs (lv st) c) as [vc|]; simpl in HE; [|discriminate].
      destruct (truthy vc).
      + apply (pres_block th H slf0 locs st out HE).
      + apply (pres_block el H0 slf0 locs st out HE).
    - simpl in HE. inversion HE; subst. simpl. auto.
    - simpl in HE. destruct locs; [|discriminate].
      destruct (ceval_expr (ccall_n fuel0) ft (Some l) (lv st) e); simpl in HE; [|discriminate].
      inversion HE; subst. simpl. auto.
  Qed.

  Lemma pres_block' : forall ss slf0 locs st out, LBL (Some slf0) locs st ss = Some out ->
      lo (out_state out) = lo st /\ length (lh (out_state out)) = length (lh st).
  Proof. intros ss. apply pres_block. apply Forall_forall. intros s _. apply pres_stmt. Qed.

  (* ---------------- class attributes ---------------- *)

  Lemma cattr_sim : forall cands a v, cattr_val ce cands a = Some v ->
    exists av, In av (acattr lz ce cands a) /\ gamma av v.
  Proof.
    intros cands a v H. unfold cattr_val in H. unfold acattr.
    destruct (find_cattr ce cands a) as [e|]; [|discriminate].
    assert (HW0 : wmatch None (mkc [] []) [[]]).
    { simpl. exists []. split; auto. intros y u Hy. discriminate. }
    destruct (expr_sim lz (ccall_n 0) (acall_n lz 0) [] (call_sim_n lz 0 0) e None _ v W0 [[]] H
                (or_introl eq_refl) HW0) as [av [Hin Hg]].
    exists av. split; auto. apply dedupa_in. apply in_map_iff. exists ([[]], av). auto.
  Qed.

  (* ---------------- method invocations from a statement ---------------- *)

  Lemma group_call_in : forall rows kf m W avs k r,
    In (W, avs) rows -> kf W = Some k ->
    In r (amcall ft (filter (fun r0 => okey_is k (kf (fst r0))) rows) (fst k) (snd k) m) ->
    In r (group_call amcall ft rows kf m).
  Proof.
    intros rows kf m W avs k r HI HK HR. unfold group_call. apply in_flat_map. exists k. split; auto.
    apply dedup_in; [apply key_eqb_eq|]. apply in_flat_map. exists (W, avs). split; auto.
    simpl. rewrite HK. left; auto.
  Qed.

  Lemma call_rows_sim : forall st i cands m vs st' v rows W avs kf locs,
    mcall ft st i cands m vs = Some (st', v) -> In (W, avs) rows -> Forall2 gamma avs vs ->
    lmatch locs st W -> (hv W = false -> kf W = Some (i, cands)) ->
    exists W' a, In (W', a) (call_rows amcall ft rows kf m) /\ gamma a v /\ aw W' = aw W
                 /\ hrel (hv W') (lo st') (lh st') (ao W') (ah W').
  Proof.
    intros st i cands m vs st' v rows W avs kf locs HC HI HF [HW HH] HK.
    unfold call_rows. destruct (hv W) eqn:Ehv.
    - exists W, AAny. repeat split; auto.
      + apply in_or_app. left. apply in_map_iff. exists (W, avs). split; auto.
        apply filter_In. split; auto.
      + left. auto.
    - destruct HH as [HH|[Ho Hh]]; [congruence|].
      destruct (wmatch_globals _ _ _ HW) as [Hne Hg].
      set (rows1 := filter (fun r => negb (hv (fst r))) rows).
      assert (HI1 : In (W, avs) rows1).
      { unfold rows1. apply filter_In. split; auto. simpl. rewrite Ehv. auto. }
      specialize (HK eq_refl).
      set (rows2 := filter (fun r0 => okey_is (i, cands) (kf (fst r0))) rows1).
      assert (HI2 : In (W, avs) rows2).
      { unfold rows2. apply filter_In. split; auto. simpl. rewrite HK. simpl. apply key_eqb_refl. }
      destruct (Hm _ _ _ _ _ _ _ _ HC rows2 W avs HI2 HF Hne Hg Ehv Ho Hh) as [W' [a [Hin [Hga [Haw Hrel]]]]].
      exists W', a. repeat split; auto.
      apply in_or_app. right. eapply group_call_in with (k := (i, cands)); eauto.
  Qed.

  (* ---------------- statements ---------------- *)

  Definition lout_sim (locs : option (list name)) (W : lworld) (out : loutcome)
             (res : list lworld * list (lworld * aval)) : Prop :=
    match out with
    | LNormal st' => exists W', In W' (fst res) /\ lmatch locs st' W' /\ tl (aw W') = tl (aw W)
    | LReturned st' v => exists W' a, In (W', a) (snd res) /\ tl (aw W') = tl (aw W) /\ gamma a v
                                      /\ lmatch locs st' W'
    end.

  Definition lstmt_sim_at (s : lstmt) : Prop :=
    forall slf locs st out Ws W,
      LEX slf locs st s = Some out -> In W Ws -> lmatch locs st W ->
      lout_sim locs W out (AST slf locs Ws s).

  Lemma lblock_sim : forall ss, Forall lstmt_sim_at ss ->
    forall slf locs st out Ws W,
      LBL slf locs st ss = Some out -> In W Ws -> lmatch locs st W ->
      lout_sim locs W out (ABL slf locs Ws ss).
  Proof.
    induction ss as [|s ss IH]; intros HF slf locs st out Ws W HE HI HW.
    - simpl in HE. inversion HE; subst. simpl. exists W. auto.
    - inversion HF as [|? ? Hs Hss]; subst.
      unfold LBL, lexec_block in HE. simpl in HE.
      unfold ABL, lablock. simpl.
      destruct (lexec ce fuel0 mcall ft slf locs st s) as [[st1|st1 v1]|] eqn:Es; try discriminate.
      + pose proof (Hs slf locs st _ Ws W Es HI HW) as S1. simpl in S1.
        destruct S1 as [W1 [HW1 [HM1 Htl1]]].
        unfold AST in HW1.
        destruct (lastmt lz ce acall amcall ft slf locs Ws s) as [Ws1 r1]. simpl in HW1.
        pose proof (IH Hss slf locs st1 out Ws1 W1 HE HW1 HM1) as S2.
        unfold ABL, lablock in S2.
        destruct (lablock_with (fun W0 s1 => lastmt lz ce acall amcall ft slf locs W0 s1) Ws1 ss) as [Ws2 r2].
        destruct out as [st'|st' v]; simpl in *.
        * destruct S2 as [W' [Hw' [HW' Htl']]]. exists W'. split; [auto|split; [auto|congruence]].
        * destruct S2 as [W' [a [Hw' [Htl' [Hg HM']]]]]. exists W', a.
          split; [apply in_or_app; auto|split; [congruence|split; auto]].
      + inversion HE; subst.
        pose proof (Hs slf locs st _ Ws W Es HI HW) as S1. simpl in S1.
        destruct S1 as [W' [a [Hw' [Htl' [Hg HM']]]]]. unfold AST in Hw'.
        destruct (lastmt lz ce acall amcall ft slf locs Ws s) as [Ws1 r1].
        destruct (lablock_with (fun W0 s1 => lastmt lz ce acall amcall ft slf locs W0 s1) Ws1 ss) as [Ws2 r2].
        simpl in *. exists W', a. split; [apply in_or_app; auto|split; [auto|split; auto]].
  Qed.

  Lemma ex_sim : forall e locs st v Ws W,
    ceval_expr (ccall_n fuel0) ft locs (lv st) e = Some v -> In W Ws -> lmatch locs st W ->
    exists a, In (W, a) (lift Ws (aexpr lz acall ft locs (worlds0 Ws) e)) /\ gamma a v.
  Proof.
    intros e locs st v Ws W HE HI [HW _].
    destruct (expr_sim lz _ _ ft Hcall e locs _ v (worlds0 Ws) (aw W) HE (worlds0_in _ _ HI) HW) as [a [Ha Hg]].
    exists a. split; auto. apply lift_in; auto.
  Qed.

  Lemma exs_sim : forall es locs st vs Ws W,
    cevals (ccall_n fuel0) ft locs (lv st) es = Some vs -> In W Ws -> lmatch locs st W ->
    exists avs, In (W, avs) (lift Ws (aargs lz acall ft locs (worlds0 Ws) es)) /\ Forall2 gamma avs vs.
  Proof.
    intros es locs st vs Ws W HE HI [HW _].
    assert (HF : Forall (expr_sim_at lz (ccall_n fuel0) acall ft) es).
    { apply Forall_forall. intros e _. apply expr_sim. exact Hcall. }
    destruct (args_sim lz _ _ ft es HF locs _ vs (worlds0 Ws) (aw W) HE (worlds0_in _ _ HI) HW) as [avs [Ha Hg]].
    exists avs. split; auto. apply lift_in; auto.
  Qed.

  Lemma lstmt_sim : forall s, lstmt_sim_at s.
  Proof.
    induction s using lstmt_ind'; intros slf locs st out Ws W HE HI HW; unfold LEX in HE; unfold AST.
    - (* x = e *)
      simpl in HE. destruct (ceval_expr (ccall_n fuel0) ft locs (lv st) e) as [v|] eqn:Ev; simpl in HE; [|discriminate].
      inversion HE; subst.
      destruct (ex_sim e locs st v Ws W Ev HI HW) as [a [Ha Hg]].
      destruct (lmatch_assign locs st W x v a HW Hg) as [HM Htl].
      simpl. exists (set_aw W (wassign (aw W) x a)). repeat split; auto; try apply HM.
      apply bind_res_in. exact Ha.
    - (* x = o.a *)
      simpl in HE. destruct (resolve slf (lo st) o) as [i|] eqn:Er; simpl in HE; [|discriminate].
      destruct (nth_error (lh st) i) as [cs|] eqn:En; simpl in HE; [|discriminate].
      destruct (match slook (snd cs) a with Some v => Some v | None => cattr_val ce (mro_of ce (fst cs)) a end)
        as [v|] eqn:Ea; simpl in HE; [|discriminate].
      inversion HE; subst.
      assert (exists av, gamma av v /\
                In (W, av) (flat_map (fun W1 =>
                  if hv W1 then [(W1, AAny)]
                  else match resolve slf (ao W1) o with
                       | None => []
                       | Some i1 => match nth_error (ah W1) i1 with
                                    | None => []
                                    | Some cf => match flookup a (snd cf) with
                                                 | Some av => [(W1, av)]
                                                 | None => match acattr lz ce (mro_of ce (fst cf)) a with
                                                           | [] => [(W1, AAny)]
                                                           | l => map (fun av => (W1, av)) l
                                                           end
                                                 end
                                    end
                       end) Ws)) as [av [Hg Hin]].
      { destruct HW as [HW0 HH]. destruct (hv W) eqn:Ehv.
        - exists AAny. split; [exact I|]. apply in_flat_map. exists W. split; auto. rewrite Ehv. left; auto.
        - destruct HH as [HH|[Ho Hh]]; [congruence|].
          destruct (forall2_nth _ _ _ _ _ Hh En) as [cf [Hcf [Hc [Hfm Hfd]]]].
          destruct (slook (snd cs) a) as [v0|] eqn:Es.
          + inversion Ea; subst. destruct (Hfm a v Es) as [av [Hl Hg]].
            exists av. split; auto. apply in_flat_map. exists W. split; auto.
            rewrite Ehv, <- Ho, Er, Hcf, Hl. left; auto.
          + destruct (cattr_sim _ _ _ Ea) as [av [Hin Hg]].
            exists av. split; auto. apply in_flat_map. exists W. split; auto.
            rewrite Ehv, <- Ho, Er, Hcf, (Hfd a Es), <- Hc.
            destruct (acattr lz ce (mro_of ce (fst cs)) a) as [|a0 l0] eqn:Eac; [destruct Hin|].
            apply in_map_iff. exists av. auto. }
      destruct (lmatch_assign locs st W x v av HW Hg) as [HM Htl].
      simpl. exists (set_aw W (wassign (aw W) x av)). repeat split; auto; try apply HM.
      apply bind_res_in. exact Hin.
    - (* o.a = e *)
      simpl in HE. destruct (ceval_expr (ccall_n fuel0) ft locs (lv st) e) as [v|] eqn:Ev; simpl in HE; [|discriminate].
      destruct (resolve slf (lo st) o) as [i|] eqn:Er; simpl in HE; [|discriminate].
      destruct (nth_error (lh st) i) as [cs|] eqn:En; simpl in HE; [|discriminate].
      inversion HE; subst.
      destruct (ex_sim e locs st v Ws W Ev HI HW) as [av [Ha Hg]].
      destruct HW as [HW0 HH]. simpl. destruct (hv W) eqn:Ehv.
      + exists W. repeat split; auto.
        * apply dedupl_in. apply in_flat_map. exists (W, av). split; auto. simpl. rewrite Ehv. left; auto.
        * left. auto.
      + destruct HH as [HH|[Ho Hh]]; [congruence|].
        destruct (forall2_nth _ _ _ _ _ Hh En) as [cf [Hcf [Hc [Hfm Hfd]]]].
        exists (mkw (aw W) (ao W) (upd i (fst cf, fset a av (snd cf)) (ah W)) (hv W)). repeat split; auto.
        * apply dedupl_in. apply in_flat_map. exists (W, av). split; auto. simpl.
          rewrite Ehv, <- Ho, Er, Hcf. left; auto.
        * simpl. right. split; auto. apply forall2_upd; auto.
          repeat split; simpl; auto. apply fmatch_set; auto. apply fdom_set; auto.
    - (* o = C(args) *)
      simpl in HE. destruct slf as [sf|]; [discriminate|].
      destruct (cevals (ccall_n fuel0) ft locs (lv st) args) as [vs|] eqn:Ev; simpl in HE; [|discriminate].
      destruct (c <? length (eclasses ce)) eqn:Ec; [|discriminate].
      destruct (exs_sim args locs st vs Ws W Ev HI HW) as [avs [Ha Hg]].
      simpl. rewrite Ec.
      set (alloc := fun r : lworld * list aval =>
                      (mkw (aw (fst r)) (ao (fst r)) (ah (fst r) ++ [(c, [])]) (hv (fst r)), snd r)).
      set (W1 := mkw (aw W) (ao W) (ah W ++ [(c, [])]) (hv W)).
      assert (Hrow : In (W1, avs) (map alloc (lift Ws (aargs lz acall ft locs (worlds0 Ws) args)))).
      { apply in_map_iff. exists (W, avs). split; auto. }
      set (st1 := mkl (lv st) (lo st) (lh st ++ [(c, [])])) in *.
      assert (HM1 : lmatch locs st1 W1).
      { destruct HW as [HW0 HH]. split; auto. simpl. destruct HH as [HH|[Ho Hh]]; [left; auto|].
        right. split; auto. apply Forall2_app; auto. constructor; [apply hent_rel_new|constructor]. }
      destruct (find_meth ce (mro_of ce c) INIT) as [kd|] eqn:Ef.
      + destruct (mcall ft st1 (length (lh st)) (mro_of ce c) INIT vs) as [[st' v]|] eqn:Em; simpl in HE; [|discriminate].
        destruct v; try discriminate. inversion HE; subst.
        assert (HK : hv W1 = false -> (fun W2 : lworld => Some (pred (length (ah W2)), mro_of ce c)) W1
                                     = Some (length (lh st), mro_of ce c)).
        { intros Ehv. destruct HW as [_ [HH|[Ho Hh]]]; [simpl in Ehv; congruence|].
          simpl. rewrite app_length. simpl. rewrite (Forall2_length _ _ _ Hh).
          replace (pred (length (ah W) + 1)) with (length (ah W)) by lia. reflexivity. }
        destruct (call_rows_sim st1 _ _ INIT vs st' VNone _ W1 avs _ locs Em Hrow Hg HM1 HK)
          as [W' [a [Hin [Hga [Haw Hrel]]]]].
        destruct (Hp _ _ _ _ _ _ _ _ Em) as [P1 [P2 P3]].
        exists (mkw (aw W') ((o, pred (length (ah W'))) :: ao W') (ah W') (hv W')). repeat split; simpl.
        * apply dedupl_in. apply in_map_iff. exists (W', a). split; auto.
        * rewrite P1, Haw. destruct HW as [HW0 _]. exact HW0.
        * destruct Hrel as [Hrel|[Ho Hh]]; [left; auto|]. right. split; auto.
          rewrite P2 in Ho. simpl in Ho.
          assert (length (ah W') = length (lh st) + 1).
          { rewrite <- (Forall2_length _ _ _ Hh), P3. unfold st1. simpl. rewrite app_length. reflexivity. }
          replace (pred (length (ah W'))) with (length (lh st)) by lia.
          rewrite P2. simpl. congruence.
        * rewrite Haw. reflexivity.
      + destruct (is_nil vs) eqn:En; [|discriminate]. inversion HE; subst.
        destruct vs; [|discriminate]. inversion Hg; subst.
        exists (mkw (aw W1) ((o, pred (length (ah W1))) :: ao W1) (ah W1) (hv W1)). repeat split; simpl.
        * apply dedupl_in. apply in_map_iff. exists (W1, []). split; auto.
          apply filter_In. split; auto.
        * destruct HW as [HW0 _]. exact HW0.
        * destruct HW as [_ [HH|[Ho Hh]]]; [left; auto|]. right. split.
          -- rewrite app_length. simpl. rewrite (Forall2_length _ _ _ Hh).
             replace (pred (length (ah W) + 1)) with (length (ah W)) by lia. congruence.
          -- apply Forall2_app; auto. constructor; [apply hent_rel_new|constructor].
    - (* x = o.m(args) *)
      simpl in HE.
      destruct (cevals (ccall_n fuel0) ft locs (lv st) args) as [vs|] eqn:Ev; simpl in HE; [|discriminate].
      destruct (resolve slf (lo st) o) as [i|] eqn:Er; simpl in HE; [|discriminate].
      destruct (nth_error (lh st) i) as [cs|] eqn:En; simpl in HE; [|discriminate].
      destruct (mcall ft st i (mro_of ce (fst cs)) m vs) as [[st' v]|] eqn:Em; simpl in HE; [|discriminate].
      inversion HE; subst.
      destruct (exs_sim args locs st vs Ws W Ev HI HW) as [avs [Ha Hg]].
      assert (HK : hv W = false -> obj_key ce slf o W = Some (i, mro_of ce (fst cs))).
      { intros Ehv. destruct HW as [_ [HH|[Ho Hh]]]; [congruence|].
        destruct (forall2_nth _ _ _ _ _ Hh En) as [cf [Hcf [Hc _]]].
        unfold obj_key. rewrite <- Ho, Er, Hcf, Hc. reflexivity. }
      destruct (call_rows_sim st _ _ m vs st' v _ W avs _ locs Em Ha Hg HW HK) as [W' [a [Hin [Hga [Haw Hrel]]]]].
      destruct (Hp _ _ _ _ _ _ _ _ Em) as [P1 [P2 P3]].
      assert (HM' : lmatch locs st' W').
      { split; auto. rewrite P1, Haw. apply HW. }
      destruct (lmatch_assign locs st' W' x v a HM' Hga) as [HM Htl].
      simpl. exists (set_aw W' (wassign (aw W') x a)). repeat split; auto; try apply HM.
      + apply bind_res_in. exact Hin.
      + rewrite Htl, Haw. reflexivity.
    - (* x = super().m(args) *)
      simpl in HE. destruct slf as [[i k]|]; [|discriminate].
      destruct (cevals (ccall_n fuel0) ft locs (lv st) args) as [vs|] eqn:Ev; simpl in HE; [|discriminate].
      destruct (nth_error (lh st) i) as [cs|] eqn:En; simpl in HE; [|discriminate].
      destruct (mcall ft st i (after k (mro_of ce (fst cs))) m vs) as [[st' v]|] eqn:Em; simpl in HE; [|discriminate].
      inversion HE; subst.
      destruct (exs_sim args locs st vs Ws W Ev HI HW) as [avs [Ha Hg]].
      assert (HK : hv W = false -> super_key ce (Some (i, k)) W = Some (i, after k (mro_of ce (fst cs)))).
      { intros Ehv. destruct HW as [_ [HH|[Ho Hh]]]; [congruence|].
        destruct (forall2_nth _ _ _ _ _ Hh En) as [cf [Hcf [Hc _]]].
        unfold super_key. rewrite Hcf, Hc. reflexivity. }
      destruct (call_rows_sim st _ _ m vs st' v _ W avs _ locs Em Ha Hg HW HK) as [W' [a [Hin [Hga [Haw Hrel]]]]].
      destruct (Hp _ _ _ _ _ _ _ _ Em) as [P1 [P2 P3]].
      assert (HM' : lmatch locs st' W').
      { split; auto. rewrite P1, Haw. apply HW. }
      destruct (lmatch_assign locs st' W' x v a HM' Hga) as [HM Htl].
      simpl. exists (set_aw W' (wassign (aw W') x a)). repeat split; auto; try apply HM.
      + apply bind_res_in. exact Hin.
      + rewrite Htl, Haw. reflexivity.
    - (* if *)
      change (lexec ce fuel0 mcall ft slf locs st (LIf c th el)) with
        (obind (ceval_expr (ccall_n fuel0) ft locs (lv st) c)
               (fun vc => if truthy vc then lexec_block ce fuel0 mcall ft slf locs st th
                          else lexec_block ce fuel0 mcall ft slf locs st el)) in HE.
      destruct (ceval_expr (ccall_n fuel0) ft locs (lv st) c) as [vc|] eqn:Ec; simpl in HE; [|discriminate].
      change (lastmt lz ce acall amcall ft slf locs Ws (LIf c th el)) with
        (let (tw, fw) := acond lz acall ft locs (worlds0 Ws) c in
         let (w1, r1) := lablock lz ce acall amcall ft slf locs (sel Ws tw) th in
         let (w2, r2) := lablock lz ce acall amcall ft slf locs (sel Ws fw) el in (dedupl (w1 ++ w2), r1 ++ r2)).
      pose proof (cond_sim lz _ _ ft Hcall c locs _ vc (worlds0 Ws) (aw W) Ec (worlds0_in _ _ HI) (proj1 HW)) as C.
      destruct (acond lz acall ft locs (worlds0 Ws) c) as [tw fw]. simpl in C.
      destruct (truthy vc).
      + pose proof (lblock_sim th H slf locs st out (sel Ws tw) W HE (sel_in _ _ _ HI C) HW) as S.
        unfold ABL in S.
        destruct (lablock lz ce acall amcall ft slf locs (sel Ws tw) th) as [w1 r1].
        destruct (lablock lz ce acall amcall ft slf locs (sel Ws fw) el) as [w2 r2].
        destruct out as [st'|st' v]; simpl in *.
        * destruct S as [W' [Hw' R]]. exists W'. split; auto. apply dedupl_in. apply in_or_app. auto.
        * destruct S as [W' [a [Hw' R]]]. exists W', a. split; auto. apply in_or_app. auto.
      + pose proof (lblock_sim el H0 slf locs st out (sel Ws fw) W HE (sel_in _ _ _ HI C) HW) as S.
        unfold ABL in S.
        destruct (lablock lz ce acall amcall ft slf locs (sel Ws tw) th) as [w1 r1].
        destruct (lablock lz ce acall amcall ft slf locs (sel Ws fw) el) as [w2 r2].
        destruct out as [st'|st' v]; simpl in *.
        * destruct S as [W' [Hw' R]]. exists W'. split; auto. apply dedupl_in. apply in_or_app. auto.
        * destruct S as [W' [a [Hw' R]]]. exists W', a. split; auto. apply in_or_app. auto.
    - (* pass *)
      simpl in HE. inversion HE; subst. simpl. exists W. auto.
    - (* return *)
      simpl in HE. destruct locs as [L|]; [|discriminate].
      destruct (ceval_expr (ccall_n fuel0) ft (Some L) (lv st) e) as [v|] eqn:Ev; simpl in HE; [|discriminate].
      inversion HE; subst.
      destruct (ex_sim e (Some L) st v Ws W Ev HI HW) as [a [Ha Hg]].
      simpl. exists W, a. auto.
  Qed.

  Lemma lblock_sim' : forall ss slf locs st out Ws W,
      LBL slf locs st ss = Some out -> In W Ws -> lmatch locs st W ->
      lout_sim locs W out (ABL slf locs Ws ss).
  Proof. intros ss. apply lblock_sim. apply Forall_forall. intros s _. apply lstmt_sim. Qed.
End LSim.

(* ---------------- method invocations ---------------- *)

Lemma mcall_n_pres : forall ce fuel0 n, mpres (mcall_n ce fuel0 n).
Proof.
  intros ce fuel0. induction n as [|n IH]; intros ft st i cands m vs st' v HC.
  - simpl in HC. discriminate.
  - simpl in HC. destruct (find_meth ce cands m) as [[k [params body]]|]; [|discriminate].
    destruct (negb (length params =? length vs)); [discriminate|].
    match type of HC with
    | match ?X with _ => _ end = _ => destruct X as [[st2|st2 v2]|] eqn:EB; [| |discriminate]
    end.
    + inversion HC; subst. simpl.
      destruct (pres_block' ce fuel0 _ ft IH body (i, k) _ _ _ EB) as [A B]. simpl in A, B. auto.
    + inversion HC; subst. simpl.
      destruct (pres_block' ce fuel0 _ ft IH body (i, k) _ _ _ EB) as [A B]. simpl in A, B. auto.
Qed.

Lemma amcall_n_S : forall lz ce m ft rows i cands mn,
  amcall_n lz ce (S m) ft rows i cands mn =
  match find_meth ce cands mn with
  | None => []
  | Some (k, (params, body)) =>
      let R' := filter (fun r => length params =? length (snd r)) rows in
      let W2 := dedupl (map (fun r => set_aw (fst r) (mkframe params (snd r) :: aw (fst r))) R') in
      let (cont, rets) := lablock lz ce (acall_n lz m) (amcall_n lz ce m) ft (Some (i, k))
                                  (Some (params ++ lassigned_block body)) W2 body in
      deduplr (map (fun r => (set_aw (fst r) (tl (aw (fst r))), snd r))
                   (rets ++ map (fun W => (W, ANone)) cont))
  end.
Proof. reflexivity. Qed.

(* every concrete method invocation is described by one of the abstract results of the analysed invocation *)
Lemma msim_n : forall lz ce fuel0 n m, msim (mcall_n ce fuel0 n) (amcall_n lz ce m).
Proof.
  intros lz ce fuel0. induction n as [|n IH]; intros m ft st i cands mn vs st' v HC rows W avs HI HF Hne HG Ehv Ho Hh.
  - simpl in HC. discriminate.
  - destruct m as [|m].
    + (* depth cut-off: Any, heap havocked *)
      exists (mkw (aw W) (ao W) (ah W) true), AAny. repeat split; auto.
      * simpl. apply in_map_iff. exists W. split; auto. apply dedupl_in. apply in_map_iff. exists (W, avs); auto.
      * left. reflexivity.
    + simpl in HC. rewrite amcall_n_S.
      destruct (find_meth ce cands mn) as [[k [params body]]|]; [|discriminate]. cbv zeta.
      destruct (length params =? length vs) eqn:EL; simpl in HC; [|discriminate].
      apply Nat.eqb_eq in EL.
      assert (ELa : length params =? length avs = true).
      { apply Nat.eqb_eq. apply Forall2_length in HF. lia. }
      set (L := params ++ lassigned_block body) in *.
      set (st0 := mkl (mkc (cg (lv st)) (bind_params params vs)) (lo st) (lh st)) in *.
      set (Wp := set_aw W (mkframe params avs :: aw W)).
      match goal with |- context [lablock lz ce (acall_n lz m) (amcall_n lz ce m) ft (Some (i, k)) (Some L) ?X body] =>
        set (W2 := X) end.
      assert (HW2 : In Wp W2).
      { unfold W2. apply dedupl_in. apply in_map_iff. exists (W, avs). split; auto. apply filter_In. auto. }
      assert (HM : lmatch (Some L) st0 Wp).
      { split.
        - simpl. exists (mkframe params avs), (aw W). repeat split; auto.
          unfold bind_params, mkframe. apply bind_params_match; auto. intros x u Hx. discriminate.
        - simpl. right. auto. }
      assert (Hrel' : hrel (hv Wp) (lo st0) (lh st0) (ao Wp) (ah Wp)) by apply HM.
      destruct (lexec_block ce fuel0 (mcall_n ce fuel0 n) ft (Some (i, k)) (Some L) st0 body) as [[st2|st2 rv]|] eqn:EB;
        [| |discriminate].
      * inversion HC; subst.
        pose proof (lblock_sim' lz ce fuel0 (acall_n lz m) (mcall_n ce fuel0 n) (amcall_n lz ce m) ft
                      (call_sim_n lz fuel0 m) (mcall_n_pres ce fuel0 n) (IH m)
                      body (Some (i, k)) (Some L) st0 _ W2 Wp EB HW2 HM) as S.
        simpl in S. destruct S as [W' [Hw' [[HWm Hr] Htl]]].
        destruct (pres_block' ce fuel0 _ ft (mcall_n_pres ce fuel0 n) body (i, k) _ _ _ EB) as [A B]. simpl in A, B.
        destruct (lablock lz ce (acall_n lz m) (amcall_n lz ce m) ft (Some (i, k)) (Some L) W2 body) as [cont rets].
        simpl in *.
        exists (set_aw W' (tl (aw W'))), ANone. split; [|split; [exact eq_refl|split]].
        -- apply deduplr_in. apply in_map_iff. exists (W', ANone). simpl. split; auto.
           apply in_or_app. right. apply in_map_iff. exists W'; auto.
        -- simpl. exact Htl.
        -- simpl. destruct Hr as [Hr|[Hr1 Hr2]]; [left; auto|]. right. split; auto. congruence.
      * inversion HC; subst.
        pose proof (lblock_sim' lz ce fuel0 (acall_n lz m) (mcall_n ce fuel0 n) (amcall_n lz ce m) ft
                      (call_sim_n lz fuel0 m) (mcall_n_pres ce fuel0 n) (IH m)
                      body (Some (i, k)) (Some L) st0 _ W2 Wp EB HW2 HM) as S.
        simpl in S. destruct S as [W' [a [Hw' [Htl [Hg [HWm Hr]]]]]].
        destruct (pres_block' ce fuel0 _ ft (mcall_n_pres ce fuel0 n) body (i, k) _ _ _ EB) as [A B]. simpl in A, B.
        destruct (lablock lz ce (acall_n lz m) (amcall_n lz ce m) ft (Some (i, k)) (Some L) W2 body) as [cont rets].
        simpl in *.
        exists (set_aw W' (tl (aw W'))), a. split; [|split; [exact Hg|split]].
        -- apply deduplr_in. apply in_map_iff. exists (W', a). simpl. split; auto.
           apply in_or_app. left. auto.
        -- simpl. exact Htl.
        -- simpl. destruct Hr as [Hr|[Hr1 Hr2]]; [left; auto|]. right. split; auto. congruence.
Qed.

(* ---------------- whole programs ---------------- *)

Lemma lrun_sim : forall lz ce fuel p ft st st' Ws W,
  lrun ce fuel ft st p = Some st' -> In W Ws -> lmatch None st W ->
  exists W', In W' (larun lz ce ft Ws p) /\ lmatch None st' W'.
Proof.
  intros lz ce fuel. induction p as [|t p IH]; intros ft st st' Ws W HR HI HW.
  - simpl in HR. inversion HR; subst. exists W. auto.
  - destruct t as [f ps b|s]; simpl in HR; simpl.
    + eapply IH; eauto.
    + destruct (lexec ce fuel (mcall_n ce fuel fuel) ft None None st s) as [[st1|st1 rv]|] eqn:Es; try discriminate.
      pose proof (lstmt_sim lz ce fuel (acall_n lz MAX_DEPTH) (mcall_n ce fuel fuel) (amcall_n lz ce MAX_DEPTH) ft
                    (call_sim_n lz fuel MAX_DEPTH) (mcall_n_pres ce fuel fuel) (msim_n lz ce fuel fuel MAX_DEPTH)
                    s None None st _ Ws W Es HI HW) as S.
      simpl in S. destruct S as [W1 [HW1 [HM1 _]]].
      eapply IH; eauto.
Qed.

Lemma acenv_agree : forall p M,
  Mro.Model.wf_table (bases_table p) = true -> Mro.Model.mros_c (bases_table p) = Mro.Model.TableOk M ->
  acenv p = mkce (pclasses p) M.
Proof.
  intros p M Hwf HM. unfold acenv. rewrite Mro.Proofs.mro_agree_fixed_lemma by auto. rewrite HM. reflexivity.
Qed.

Lemma leval_sim : forall lz fuel p st,
  leval fuel p = Some st -> exists W', In W' (exit_lworlds lz p) /\ lmatch None st W'.
Proof.
  intros lz fuel p st HE. unfold leval in HE.
  destruct (Mro.Model.wf_table (bases_table p)) eqn:Hwf; simpl in HE; [|discriminate].
  destruct (cattrs_ok (pclasses p)); [|discriminate].
  destruct (Mro.Model.mros_c (bases_table p)) as [M|M f|M f] eqn:HM; try discriminate.
  unfold exit_lworlds. rewrite (acenv_agree p M Hwf HM).
  assert (HW0 : lmatch None st_init (mkw [[]] [] [] false)).
  { split; simpl.
    - exists []. split; auto. intros y u Hy. discriminate.
    - right. split; auto. }
  apply (lrun_sim lz _ fuel (pbody p) [] st_init st LW0 _ HE (or_introl eq_refl) HW0).
Qed.

(* module-level value names *)
Lemma linfer_mode_sound_lemma : forall lz fuel p st x v,
  leval fuel p = Some st -> slook (cg (lv st)) x = Some v -> admits (linfer_mode lz p x) v.
Proof.
  intros lz fuel p st x v HE HS.
  destruct (leval_sim lz fuel p st HE) as [W' [Hin [HW _]]].
  simpl in HW. destruct HW as [fr [Haw HM]].
  destruct (HM x v HS) as [a [Ha Hg]].
  unfold linfer_mode. apply opt_widens. apply tjoin_admits with (t := ty_of a).
  - apply in_map. unfold lvalues_of. eapply values_of_in with (w := aw W').
    + apply in_map. exact Hin.
    + rewrite Haw. simpl. exact Ha.
  - apply ty_of_sound_lemma; auto.
Qed.

Lemma attr_vals_in : forall c a Ws W cf i av,
  In W Ws -> hv W = false -> nth_error (ah W) i = Some cf -> fst cf = c -> flookup a (snd cf) = Some av ->
  In av (attr_vals c a Ws).
Proof.
  intros c a Ws W cf i av HI Ehv Hn Hc Hl. unfold attr_vals. apply dedupa_in. apply in_flat_map.
  exists W. split; auto. rewrite Ehv. apply in_flat_map. exists cf. split.
  - eapply nth_error_In; eauto.
  - destruct cf as [c0 fr]. simpl in *. subst c. rewrite Nat.eqb_refl, Hl. left; auto.
Qed.

(* instance attributes: every attribute value of every object that exists when the module has run to completion
   is admitted by the type declared for that attribute on the object's class *)
Lemma attr_sound_lemma : forall lz fuel p st i c s a v,
  leval fuel p = Some st -> nth_error (lh st) i = Some (c, s) -> slook s a = Some v ->
  admits (infer_attr lz p c a) v.
Proof.
  intros lz fuel p st i c s a v HE Hn Hs.
  destruct (leval_sim lz fuel p st HE) as [W' [Hin [_ HH]]].
  unfold infer_attr, infer_attr_of. apply opt_widens.
  destruct (hv W') eqn:Ehv.
  - apply tjoin_admits with (t := TAny); [|exact I].
    apply in_map_iff. exists AAny. split; auto. apply in_or_app. left.
    unfold attr_vals. apply dedupa_in. apply in_flat_map. exists W'. split; auto. rewrite Ehv. left; auto.
  - destruct HH as [HH|[Ho Hh]]; [congruence|].
    destruct (forall2_nth _ _ _ _ _ Hh Hn) as [cf [Hcf [Hc [Hfm _]]]]. simpl in Hc, Hfm.
    destruct (Hfm a v Hs) as [av [Hl Hg]].
    apply tjoin_admits with (t := ty_of av).
    + apply in_map. apply in_or_app. left. eapply attr_vals_in; eauto.
    + apply ty_of_sound_lemma; auto.
Qed.

(* ---------------- the declared return type, under the hypothesis that the canonical world describes the
   receiver ---------------- *)

Lemma anys_gamma : forall vs, Forall2 gamma (anys (length vs)) vs.
Proof. induction vs; simpl; constructor; simpl; auto. Qed.

Lemma declared_ret_partial_lemma : forall (lz : bool) (p : lprog) (c : cname) (m : mname) (params : list name)
  (body : list lstmt) (fuel0 n : nat) (st st' : lstate) (i : nat) (vs : list value) (v : value) (W : lworld),
  alook (cmeths (nth c (pclasses p) dflt_class)) m = Some (params, body) ->
  mcall_n (acenv p) fuel0 n (ftable_of [] (pbody p)) st i [c] m vs = Some (st', v) ->
  length vs = length params ->
  In W (canon_worlds lz p c) -> i = pred (length (ah W)) ->
  aw W <> [] -> fmatch (cg (lv st)) (last (aw W) []) -> hv W = false ->
  lo st = ao W -> Forall2 hent_rel (lh st) (ah W) ->
  admits (declared_ret lz p c m) v.
Proof.
  intros lz p c m params body fuel0 n st st' i vs v W Hal HC Hlen HI Hi Hne HG Ehv Ho Hh.
  unfold declared_ret. apply opt_widens.
  set (rows := map (fun W0 : lworld => (W0, anys (length params))) (canon_worlds lz p c)).
  set (kf := fun W0 : lworld => Some (pred (length (ah W0)), [c])).
  set (rows1 := filter (fun r : lworld * list aval => negb (hv (fst r))) rows).
  set (rows2 := filter (fun r0 : lworld * list aval => okey_is (i, [c]) (kf (fst r0))) rows1).
  assert (H1 : In (W, anys (length params)) rows1).
  { unfold rows1. apply filter_In. split.
    - unfold rows. apply in_map_iff. exists W. auto.
    - simpl. rewrite Ehv. reflexivity. }
  assert (H2 : In (W, anys (length params)) rows2).
  { unfold rows2. apply filter_In. split; auto. simpl. rewrite <- Hi. apply key_eqb_refl. }
  assert (HF : Forall2 gamma (anys (length params)) vs).
  { rewrite <- Hlen. apply anys_gamma. }
  destruct (msim_n lz (acenv p) fuel0 n MAX_DEPTH _ _ _ _ _ _ _ _ HC rows2 W _ H2 HF Hne HG Ehv Ho Hh)
    as [W' [a [Hin [Hg _]]]].
  apply tjoin_admits with (t := ty_of a); [|apply ty_of_sound_lemma; auto].
  apply in_map. unfold canon_rets, canon_rets_of. rewrite Hal. apply dedupa_in. apply in_map_iff. exists (W', a). split; auto.
  unfold call_rows. apply in_or_app. right.
  eapply group_call_in with (k := (i, [c])) (W := W) (avs := anys (length params)); eauto.
  simpl. rewrite <- Hi. reflexivity.
Qed.
