(* C01 — the loop-free language L0, its concrete semantics (a CPython reference evaluator) and the abstract
   interpreter that mirrors how pytype analyses this fragment.  MODEL ONLY: no proofs in this file.

   What is modelled (anchors in /repo/pytype):
   * values and their abstraction: convert.py `_constant_to_value` (ints in -1..12, str, bytes, bool, None are
     concrete constants; other ints and all floats are plain instances), abstract.List/Tuple/Dict/set instances
     built by BUILD_LIST/BUILD_TUPLE/BUILD_MAP/BUILD_SET hold one *variable* per element (a set of bindings);
   * truthiness / None / isinstance compatibility of a binding: compare.py `compatible_with`,
     `compatible_with_none`, state.py `_match_condition`, special_builtins.IsInstance;
   * if-splitting: vm_utils.jump_if + state.restrict_condition on the bytecode CPython's `compiler_jump_if`
     emits for `not` / `and` / `or` / conditional expressions / `is None` in test position ([acond_with]);
     UNARY_NOT, IS_OP, `and`/`or` in value position ([aexpr]);
   * calls of module-level functions: InterpreterFunction.call re-analyses the body with the argument variables,
     up to the depth cut-off (analyze.INIT_MAXIMUM_DEPTH = 4 nested frames, beyond which the call returns Any);
     globals read inside a function lose their concrete value (vm.load_global, discard_concrete_values);
   * output: output.py value_to_pytd_type on the visible bindings at the exit point, pytd_utils.JoinTypes and
     the passes of pytd/optimize.Optimize that matter here (CombineContainers incl. tuple homogenisation,
     SimplifyUnionsWithSuperclasses for bool <= int, CollapseLongUnions(7)) ([ty_of], [tjoin], [optimize]);
   * the "unsatisfiable fall-through" quirk of vm._run_frame_blocks: when the not-jumping side of a conditional
     jump is unsatisfiable the pre-branch node becomes a return node of the module frame, so the bindings
     visible there stay visible at the exit ([lk_run]).

   DESIGN NOTE (visibility).  pytype does not keep environments: every name is one typegraph Variable whose
   bindings carry origins/source sets, LOAD_NAME takes the *reaching definitions* (Variable::Prune, no
   conditions), and only the final `Filter(exitpoint)` asks the solver which bindings have an explaining path.
   The model replaces the typegraph + solver by two runs of the same interpreter over sets of *worlds*
   (a world = one consistent choice of a binding per name, i.e. one explaining path):
     - mode [lz = false] ("strict"): a world follows a branch only if its own value of the condition is
       compatible with it.  This is the declarative semantics the solver approximates from above:  by solver
       completeness (property C07, theorem solver_complete: a combination of bindings that has an explaining
       CFG path is never rejected) every binding the strict run finds at the exit is printed by pytype.
     - mode [lz = true] ("lazy"): a branch is entered by *all* worlds as soon as one reaching definition is
       compatible (what restrict_condition decides on the Prune'd bindings).  Its final environment is the
       reaching-definitions result, which bounds what the solver can leave visible from above.
   Hence   gamma(infer_mode false p x)  <=  gamma(pytype's printed type of x)  <=  gamma(infer_mode true p x),
   and the two bounds coincide for the overwhelming majority of names; harness/props/c01.py checks exactly this
   sandwich (equality where the bounds coincide) against real pytype output on every run.  The soundness
   theorem (Props/C01.v) is proved for both modes.  No hypothesis about the solver is used in any theorem.

   Outside the model: (1) pytype's call cache (_call_cache keyed by argument data): [repeated_call_key] tells
   the harness on which programs it can matter, and the lower bound is not required there; (2) CPython's and
   pytype's folding of all-constant set/dict displays with Python-equal elements (the generator never emits two
   equal literal keys/elements in one display); (3) the fall-back of builtin calls (isinstance, the __setitem__
   of a dict display) to Any arguments when the deep binding product of an argument exceeds 1024 (the generator
   keeps those operands at most one container deep); (4) everything that is not L0: classes, attributes,
   closures, comprehensions, exceptions, builtin signatures - covered only by the e2e differential against
   CPython, which is search, not proof.  The theorems below hold for every L0 program regardless of (1)-(3):
   those only delimit where the correspondence with real pytype output is demanded. *)
From Coq Require Import List ZArith Arith Bool Lia.
Import ListNotations.
Open Scope nat_scope.

Definition name := nat.
Definition fname := nat.

Inductive cls := Cint | Cfloat | Cstr | Cbytes | Cbool | Clist | Ctuple | Cdict | Cset | Cobject.

(* float literal k denotes k/2; str/bytes literal k denotes "" for 0 and a distinct non-empty string otherwise *)
Inductive expr :=
| EInt (z : Z) | EFloat (k : Z) | EStr (k : nat) | EBytes (k : nat) | EBool (b : bool) | ENone
| EName (x : name)
| EList (es : list expr) | ETuple (es : list expr) | ESet (es : list expr)
| EDict (ks vs : list expr)                 (* {k1: v1, ...}: the printer always emits equal lengths *)
| ENot (e : expr) | EIsNone (e : expr) | EIsNotNone (e : expr) | EIsInst (e : expr) (c : cls)
| EAnd (a b : expr) | EOr (a b : expr) | EIf (c a b : expr)      (* a if c else b *)
| ECall (f : fname) (args : list expr)
| ESub (e i : expr).                        (* e[i]: subscript of a list/tuple value by an int/bool value *)

Inductive stmt :=
| SAssign (x : name) (e : expr)
| SIf (c : expr) (th el : list stmt)
| SPass
| SReturn (e : expr).

Inductive top := TDef (f : fname) (params : list name) (body : list stmt) | TStmt (s : stmt).
Definition prog := list top.
Definition ftable := list (fname * (list name * list stmt)).

Fixpoint flook (ft : ftable) (f : fname) : option (list name * list stmt) :=
  match ft with [] => None | (g, d) :: ft' => if g =? f then Some d else flook ft' f end.

Definition is_nil {A} (l : list A) : bool := match l with [] => true | _ => false end.
Definition memn (x : nat) (l : list nat) : bool := existsb (Nat.eqb x) l.

(* names assigned anywhere in a body: these (and the parameters) are the function's locals *)
Fixpoint assigned (s : stmt) : list name :=
  match s with
  | SAssign x _ => [x]
  | SIf _ th el => (fix go ss := match ss with [] => [] | s' :: ss' => assigned s' ++ go ss' end) th
                   ++ (fix go ss := match ss with [] => [] | s' :: ss' => assigned s' ++ go ss' end) el
  | _ => []
  end.
Definition assigned_block (ss : list stmt) : list name := flat_map assigned ss.

(* ------------------------------------------------------------------------------------------------ *)
(* Concrete semantics                                                                                *)

Inductive value :=
| VInt (z : Z) | VFloat (k : Z) | VStr (k : nat) | VBytes (k : nat) | VBool (b : bool) | VNone
| VList (vs : list value) | VTuple (vs : list value) | VSet (vs : list value) | VDict (ks vs : list value).

Definition truthy (v : value) : bool :=
  match v with
  | VInt z => negb (z =? 0)%Z | VFloat k => negb (k =? 0)%Z
  | VStr k => negb (k =? 0) | VBytes k => negb (k =? 0)
  | VBool b => b | VNone => false
  | VList vs => negb (is_nil vs) | VTuple vs => negb (is_nil vs) | VSet vs => negb (is_nil vs)
  | VDict ks _ => negb (is_nil ks)
  end.

(* twice the numeric value of a number *)
Definition num2 (v : value) : option Z :=
  match v with
  | VInt z => Some (2 * z)%Z | VFloat k => Some k | VBool b => Some (if b then 2 else 0)%Z | _ => None
  end.

(* Python == on the values that can be dict keys / set elements *)
Fixpoint veq (a b : value) {struct a} : bool :=
  match a with
  | VStr x => match b with VStr y => x =? y | _ => false end
  | VBytes x => match b with VBytes y => x =? y | _ => false end
  | VNone => match b with VNone => true | _ => false end
  | VTuple xs =>
      match b with
      | VTuple ys =>
          (fix go (xs ys : list value) : bool :=
             match xs, ys with
             | [], [] => true
             | x :: xs', y :: ys' => veq x y && go xs' ys'
             | _, _ => false
             end) xs ys
      | _ => false
      end
  | _ => match num2 a, num2 b with Some p, Some q => (p =? q)%Z | _, _ => false end
  end.

Fixpoint hashable (v : value) : bool :=
  match v with
  | VList _ | VSet _ | VDict _ _ => false
  | VTuple vs => (fix go vs := match vs with [] => true | x :: vs' => hashable x && go vs' end) vs
  | _ => true
  end.

Definition set_add (acc : list value) (v : value) : list value :=
  if existsb (veq v) acc then acc else acc ++ [v].

(* insertion into a dict kept as two parallel lists: an existing equal key keeps its position and key object,
   the value is replaced *)
Fixpoint dict_add (ks vs : list value) (k v : value) : list value * list value :=
  match ks, vs with
  | k0 :: ks', v0 :: vs' =>
      if veq k k0 then (k0 :: ks', v :: vs')
      else let (ks2, vs2) := dict_add ks' vs' k v in (k0 :: ks2, v0 :: vs2)
  | _, _ => ([k], [v])
  end.

Fixpoint mkdict (kvs : list (value * value)) (ks vs : list value) : list value * list value :=
  match kvs with
  | [] => (ks, vs)
  | (k, v) :: kvs' => let (ks2, vs2) := dict_add ks vs k v in mkdict kvs' ks2 vs2
  end.

Definition isinst (v : value) (c : cls) : bool :=
  match c with
  | Cobject => true
  | Cint => match v with VInt _ | VBool _ => true | _ => false end
  | Cfloat => match v with VFloat _ => true | _ => false end
  | Cstr => match v with VStr _ => true | _ => false end
  | Cbytes => match v with VBytes _ => true | _ => false end
  | Cbool => match v with VBool _ => true | _ => false end
  | Clist => match v with VList _ => true | _ => false end
  | Ctuple => match v with VTuple _ => true | _ => false end
  | Cdict => match v with VDict _ _ => true | _ => false end
  | Cset => match v with VSet _ => true | _ => false end
  end.

(* e[i] on lists and tuples (BINARY_SUBSCR): the index is an int or a bool, negative indices count from the end,
   an index out of range raises IndexError (None: the program does not complete).  Subscripts of other values
   (str, bytes, dict) are outside the fragment: None. *)
Definition norm_idx (z : Z) (n : nat) : option nat :=
  if ((0 <=? z) && (z <? Z.of_nat n))%Z then Some (Z.to_nat z)
  else if ((z <? 0) && (- Z.of_nat n <=? z))%Z then Some (Z.to_nat (z + Z.of_nat n)) else None.
Definition seq_items (v : value) : option (list value) :=
  match v with VList xs | VTuple xs => Some xs | _ => None end.
Definition idx_val (i : value) : option Z :=
  match i with VInt z => Some z | VBool b => Some (if b then 1 else 0)%Z | _ => None end.
Definition csub (v i : value) : option value :=
  match seq_items v, idx_val i with
  | Some xs, Some z => match norm_idx z (length xs) with Some k => nth_error xs k | None => None end
  | _, _ => None
  end.

Definition store := list (name * value).
Fixpoint slook (s : store) (x : name) : option value :=
  match s with [] => None | (y, v) :: s' => if y =? x then Some v else slook s' x end.
Definition sset (x : name) (v : value) (s : store) : store := (x, v) :: s.

Record cstate := mkc { cg : store; cl : store }.

(* name lookup: at module level the only store is the globals; in a function a name is local iff it is a
   parameter or assigned somewhere in the body (otherwise it is read from the globals) *)
Definition crd (locs : option (list name)) (st : cstate) (x : name) : option value :=
  match locs with
  | None => slook (cg st) x
  | Some L => if memn x L then slook (cl st) x else slook (cg st) x
  end.
Definition cassign (locs : option (list name)) (st : cstate) (x : name) (v : value) : cstate :=
  match locs with
  | None => mkc (sset x v (cg st)) (cl st)
  | Some _ => mkc (cg st) (sset x v (cl st))
  end.

Inductive outcome := Normal (st : cstate) | Returned (v : value).

Definition obind {A B} (o : option A) (f : A -> option B) : option B :=
  match o with Some a => f a | None => None end.

Section CLevel.
  (* how a call is evaluated (one unit of fuel less) *)
  Variable ccall : ftable -> store -> fname -> list value -> option value.
  Variable ft : ftable.

  Definition cevals_with (f : expr -> option value) : list expr -> option (list value) :=
    fix go (es : list expr) : option (list value) :=
    match es with
    | [] => Some []
    | e' :: es' => obind (f e') (fun v => obind (go es') (fun vs => Some (v :: vs)))
    end.

  Fixpoint ceval_expr (locs : option (list name)) (st : cstate) (e : expr) {struct e} : option value :=
    let evals := cevals_with (fun e1 => ceval_expr locs st e1) in
    match e with
    | EInt z => Some (VInt z)
    | EFloat k => Some (VFloat k)
    | EStr k => Some (VStr k)
    | EBytes k => Some (VBytes k)
    | EBool b => Some (VBool b)
    | ENone => Some VNone
    | EName x => crd locs st x
    | EList es => obind (evals es) (fun vs => Some (VList vs))
    | ETuple es => obind (evals es) (fun vs => Some (VTuple vs))
    | ESet es => obind (evals es) (fun vs =>
                   if forallb hashable vs then Some (VSet (fold_left set_add vs [])) else None)
    | EDict ks vs => obind (evals ks) (fun kvs => obind (evals vs) (fun vvs =>
                   if forallb hashable kvs
                   then let (dk, dv) := mkdict (combine kvs vvs) [] [] in Some (VDict dk dv) else None))
    | ENot e' => obind (ceval_expr locs st e') (fun v => Some (VBool (negb (truthy v))))
    | EIsNone e' => obind (ceval_expr locs st e')
                      (fun v => Some (VBool match v with VNone => true | _ => false end))
    | EIsNotNone e' => obind (ceval_expr locs st e')
                      (fun v => Some (VBool match v with VNone => false | _ => true end))
    | EIsInst e' c => obind (ceval_expr locs st e') (fun v => Some (VBool (isinst v c)))
    | EAnd a b => obind (ceval_expr locs st a) (fun va => if truthy va then ceval_expr locs st b else Some va)
    | EOr a b => obind (ceval_expr locs st a) (fun va => if truthy va then Some va else ceval_expr locs st b)
    | EIf c a b => obind (ceval_expr locs st c)
                     (fun vc => if truthy vc then ceval_expr locs st a else ceval_expr locs st b)
    | ECall f es => obind (evals es) (fun vs => ccall ft (cg st) f vs)
    | ESub e' i => obind (ceval_expr locs st e') (fun v => obind (ceval_expr locs st i) (fun vi => csub v vi))
    end.

  Definition cevals (locs : option (list name)) (st : cstate) := cevals_with (fun e1 => ceval_expr locs st e1).

  Definition cblock_with (f : cstate -> stmt -> option outcome) : cstate -> list stmt -> option outcome :=
    fix go (st : cstate) (ss : list stmt) : option outcome :=
    match ss with
    | [] => Some (Normal st)
    | s' :: ss' => match f st s' with
                   | Some (Normal st') => go st' ss'
                   | r => r
                   end
    end.

  Fixpoint cexec_stmt (locs : option (list name)) (st : cstate) (s : stmt) {struct s} : option outcome :=
    let block := cblock_with (fun st1 s1 => cexec_stmt locs st1 s1) in
    match s with
    | SAssign x e => obind (ceval_expr locs st e) (fun v => Some (Normal (cassign locs st x v)))
    | SIf c th el => obind (ceval_expr locs st c) (fun vc => if truthy vc then block st th else block st el)
    | SPass => Some (Normal st)
    | SReturn e => match locs with
                   | None => None            (* 'return' outside function *)
                   | Some _ => obind (ceval_expr locs st e) (fun v => Some (Returned v))
                   end
    end.

  Definition cexec_block (locs : option (list name)) := cblock_with (fun st1 s1 => cexec_stmt locs st1 s1).
End CLevel.

Definition bind_params (params : list name) (args : list value) : store :=
  fold_left (fun s pa => sset (fst pa) (snd pa) s) (combine params args) [].

Fixpoint ccall_n (fuel : nat) (ft : ftable) (g : store) (f : fname) (args : list value) : option value :=
  match fuel with
  | 0 => None
  | S n =>
      match flook ft f with
      | None => None                                   (* NameError *)
      | Some (params, body) =>
          if negb (length params =? length args) then None     (* TypeError *)
          else match cexec_block (ccall_n n) ft (Some (params ++ assigned_block body))
                                 (mkc g (bind_params params args)) body with
               | Some (Normal _) => Some VNone
               | Some (Returned v) => Some v
               | None => None
               end
      end
  end.

Fixpoint crun (fuel : nat) (ft : ftable) (g : store) (p : prog) : option store :=
  match p with
  | [] => Some g
  | TDef f ps b :: p' => crun fuel ((f, (ps, b)) :: ft) g p'
  | TStmt s :: p' =>
      match cexec_stmt (ccall_n fuel) ft None (mkc g []) s with
      | Some (Normal st) => crun fuel ft (cg st) p'
      | _ => None
      end
  end.

(* the module's final globals; None = the run raised (or needed more than [fuel] nested calls) *)
Definition ceval (fuel : nat) (p : prog) : option store := crun fuel [] [] p.

(* ------------------------------------------------------------------------------------------------ *)
(* Abstract values                                                                                   *)

Inductive dkind := DEmpty | DStr | DAmb.
(* DEmpty: `{}`;  DStr: every key binding is a str constant (abstract.Dict stays concrete, known non-empty);
   DAmb: Dict.setitem saw a non-str key and dropped is_concrete *)

Inductive aval :=
| AInt (c : option Z)            (* Some n: ConcreteValue, None: plain int instance *)
| AFloat
| AStr (k : nat)
| ABytes (c : option nat)
| ABool (c : option bool)
| ANone
| AList (elems : list (list aval))      (* abstract.List: one variable (set of bindings) per element *)
| ATuple (elems : list (list aval))
| ASet (elems : list aval)              (* set instance: one merged T parameter *)
| ADict (kind : dkind) (ks vs : list aval)
| AAny.

Definition opt_eqb {A} (eqb : A -> A -> bool) (a b : option A) : bool :=
  match a, b with Some x, Some y => eqb x y | None, None => true | _, _ => false end.
Definition dkind_eqb (a b : dkind) : bool :=
  match a, b with DEmpty, DEmpty | DStr, DStr | DAmb, DAmb => true | _, _ => false end.

Fixpoint aval_eqb (a b : aval) {struct a} : bool :=
  let leqb := (fix leqb (xs ys : list aval) : bool :=
                 match xs, ys with
                 | [], [] => true
                 | x :: xs', y :: ys' => aval_eqb x y && leqb xs' ys'
                 | _, _ => false
                 end) in
  let lleqb := (fix lleqb (xs ys : list (list aval)) : bool :=
                  match xs, ys with
                  | [], [] => true
                  | x :: xs', y :: ys' =>
                      (fix leqb2 (p q : list aval) : bool :=
                         match p, q with
                         | [], [] => true
                         | u :: p', v :: q' => aval_eqb u v && leqb2 p' q'
                         | _, _ => false
                         end) x y && lleqb xs' ys'
                  | _, _ => false
                  end) in
  match a, b with
  | AInt x, AInt y => opt_eqb Z.eqb x y
  | AFloat, AFloat => true
  | AStr x, AStr y => x =? y
  | ABytes x, ABytes y => opt_eqb Nat.eqb x y
  | ABool x, ABool y => opt_eqb Bool.eqb x y
  | ANone, ANone => true
  | AList x, AList y => lleqb x y
  | ATuple x, ATuple y => lleqb x y
  | ASet x, ASet y => leqb x y
  | ADict k x1 x2, ADict k' y1 y2 => dkind_eqb k k' && leqb x1 y1 && leqb x2 y2
  | AAny, AAny => true
  | _, _ => false
  end.

Fixpoint list_eqb {A} (eqb : A -> A -> bool) (xs ys : list A) : bool :=
  match xs, ys with
  | [], [] => true
  | x :: xs', y :: ys' => eqb x y && list_eqb eqb xs' ys'
  | _, _ => false
  end.

(* generic de-duplication keeping first occurrences *)
Fixpoint dedup {A} (eqb : A -> A -> bool) (l : list A) : list A :=
  match l with
  | [] => []
  | x :: l' => let r := dedup eqb l' in if existsb (eqb x) r then r else x :: r
  end.

(* compare.compatible_with *)
Definition compat (a : aval) (b : bool) : bool :=
  match a with
  | AInt (Some z) => Bool.eqb (negb (z =? 0)%Z) b
  | AInt None => true
  | AFloat => true
  | AStr k => Bool.eqb (negb (k =? 0)) b
  | ABytes (Some k) => Bool.eqb (negb (k =? 0)) b
  | ABytes None => true
  | ABool (Some x) => Bool.eqb x b
  | ABool None => true
  | ANone => negb b
  | AList el => Bool.eqb (negb (is_nil el)) b
  | ATuple el => Bool.eqb (negb (is_nil el)) b
  | ASet el => if b then negb (is_nil el) else true
  | ADict DEmpty _ _ => negb b
  | ADict DStr _ _ => b
  | ADict DAmb _ _ => true
  | AAny => true
  end.

(* compare.compatible_with_none / state._match_condition NOT_NONE *)
Definition compat_none (a : aval) : bool := match a with ANone | AAny => true | _ => false end.
Definition compat_notnone (a : aval) : bool := match a with ANone => false | _ => true end.

(* state._is_or_is_not_cmp against the None constant: Some b = known, None = ambiguous *)
Definition a_isnone (a : aval) : option bool :=
  match a with AAny => None | ANone => Some true | _ => Some false end.

(* special_builtins.IsInstance via the MRO of the value's class *)
Definition a_isinst (a : aval) (c : cls) : option bool :=
  match a with
  | AAny => None
  | AInt _ => Some match c with Cint | Cobject => true | _ => false end
  | AFloat => Some match c with Cfloat | Cobject => true | _ => false end
  | AStr _ => Some match c with Cstr | Cobject => true | _ => false end
  | ABytes _ => Some match c with Cbytes | Cobject => true | _ => false end
  | ABool _ => Some match c with Cbool | Cint | Cobject => true | _ => false end
  | ANone => Some match c with Cobject => true | _ => false end
  | AList _ => Some match c with Clist | Cobject => true | _ => false end
  | ATuple _ => Some match c with Ctuple | Cobject => true | _ => false end
  | ASet _ => Some match c with Cset | Cobject => true | _ => false end
  | ADict _ _ _ => Some match c with Cdict | Cobject => true | _ => false end
  end.

(* vm._filter_none_and_paste_bindings(discard_concrete_values=True): a global read inside a function *)
Definition discard_concrete (a : aval) : aval :=
  match a with
  | AInt _ => AInt None
  | ABool _ => ABool None
  | ABytes _ => ABytes None
  | _ => a
  end.

(* convert._constant_to_value *)
Definition a_int (z : Z) : aval := if ((-1 <=? z) && (z <=? 12))%Z then AInt (Some z) else AInt None.

(* CPython folds constants: a literal (or a tuple display of literals, or `not` of such) in a jump position is
   decided at compile time and pytype never sees the jump *)
Fixpoint lit_truth (e : expr) : option bool :=
  match e with
  | EInt z => Some (negb (z =? 0)%Z)
  | EFloat k => Some (negb (k =? 0)%Z)
  | EStr k => Some (negb (k =? 0))
  | EBytes k => Some (negb (k =? 0))
  | EBool b => Some b
  | ENone => Some false
  | ETuple es =>
      if (fix allc (es : list expr) : bool :=
            match es with
            | [] => true
            | e' :: es' => match lit_truth e' with Some _ => allc es' | None => false end
            end) es
      then Some (negb (is_nil es)) else None
  | ENot e' => match lit_truth e' with Some b => Some (negb b) | None => None end
  | _ => None
  end.

(* concretisation: which run-time values a binding stands for (specification, used by the theorems) *)
Fixpoint gamma (a : aval) (v : value) {struct a} : Prop :=
  let any_of := (fix any_of (bs : list aval) (x : value) : Prop :=
                   match bs with [] => False | b :: bs' => gamma b x \/ any_of bs' x end) in
  match a with
  | AInt (Some z) => v = VInt z
  | AInt None => exists z, v = VInt z
  | AFloat => exists k, v = VFloat k
  | AStr k => v = VStr k
  | ABytes (Some k) => v = VBytes k
  | ABytes None => exists k, v = VBytes k
  | ABool (Some b) => v = VBool b
  | ABool None => exists b, v = VBool b
  | ANone => v = VNone
  | AList el =>
      match v with
      | VList xs =>
          (fix all2 (el : list (list aval)) (xs : list value) : Prop :=
             match el, xs with
             | [], [] => True
             | bs :: el', x :: xs' => any_of bs x /\ all2 el' xs'
             | _, _ => False
             end) el xs
      | _ => False
      end
  | ATuple el =>
      match v with
      | VTuple xs =>
          (fix all2 (el : list (list aval)) (xs : list value) : Prop :=
             match el, xs with
             | [], [] => True
             | bs :: el', x :: xs' => any_of bs x /\ all2 el' xs'
             | _, _ => False
             end) el xs
      | _ => False
      end
  | ASet bs =>
      match v with
      | VSet xs => (fix all (xs : list value) : Prop :=
                      match xs with [] => True | x :: xs' => any_of bs x /\ all xs' end) xs
      | _ => False
      end
  | ADict kind ks vs =>
      match v with
      | VDict cks cvs =>
          (fix all (xs : list value) : Prop :=
             match xs with [] => True | x :: xs' => any_of ks x /\ all xs' end) cks
          /\ (fix all (xs : list value) : Prop :=
                match xs with [] => True | x :: xs' => any_of vs x /\ all xs' end) cvs
          /\ match kind with DEmpty => cks = [] | DStr => cks <> [] | DAmb => True end
      | _ => False
      end
  | AAny => True
  end.

(* ------------------------------------------------------------------------------------------------ *)
(* Worlds                                                                                            *)

Definition frame := list (name * aval).          (* sorted by name, no duplicates *)
Definition world := list frame.                  (* innermost frame first; the last frame is the module's *)

Fixpoint flookup (x : name) (fr : frame) : option aval :=
  match fr with [] => None | (y, a) :: fr' => if y =? x then Some a else flookup x fr' end.

Fixpoint fset (x : name) (a : aval) (fr : frame) : frame :=
  match fr with
  | [] => [(x, a)]
  | (y, b) :: fr' => if x <? y then (x, a) :: fr
                     else if x =? y then (x, a) :: fr' else (y, b) :: fset x a fr'
  end.

Definition frame_eqb : frame -> frame -> bool :=
  list_eqb (fun p q => (fst p =? fst q) && aval_eqb (snd p) (snd q)).
Definition world_eqb : world -> world -> bool := list_eqb frame_eqb.
Definition dedupw := dedup world_eqb.
Definition dedupa := dedup aval_eqb.
Definition res_eqb (p q : world * aval) : bool := world_eqb (fst p) (fst q) && aval_eqb (snd p) (snd q).
Definition dedupr := dedup res_eqb.

Definition wassign (w : world) (x : name) (a : aval) : world :=
  match w with [] => [fset x a []] | fr :: rest => fset x a fr :: rest end.

Definition ard (locs : option (list name)) (w : world) (x : name) : option aval :=
  match locs with
  | None => flookup x (hd [] w)
  | Some L => if memn x L then flookup x (hd [] w)
              else option_map discard_concrete (flookup x (last w []))
  end.

(* the bindings of the i-th argument over all rows: the variable that an element of a display holds *)
Definition column (rows : list (list aval)) (i : nat) : list aval :=
  dedupa (flat_map (fun r => match nth_error r i with Some a => [a] | None => [] end) rows).
Definition columns (n : nat) (rows : list (list aval)) : list (list aval) := map (column rows) (seq 0 n).

Definition is_astr (a : aval) : bool := match a with AStr _ => true | _ => false end.

(* Subscripts.  abstract.List.getitem_slot: for a concrete list, every binding of the index VARIABLE that is an
   int constant in range selects that element's variable; if some binding of the index variable is not such a
   constant, the pytd result (the T parameter: all element bindings) is added.  abstract.TupleClass.getitem_slot:
   the element's variable when the index variable has exactly ONE binding and it is an int constant in range
   (get_atomic_value), otherwise the pytd result on a fresh instance of the tuple's class.  convert's
   value_to_constant(_, int) accepts a bool constant (True is 1).
   [idxs] are the bindings of the index variable over all rows.  Strict mode answers row by row (a world knows its
   own index binding; all element bindings when that is not a constant in range: sound, and below what pytype
   keeps); lazy mode mirrors the variable-level decisions (tuples with an undecided index: Any, an upper bound of
   the class instances pytype creates).  Any[...] is Any; other receivers are outside the fragment (no result). *)
Definition idx_of (ai : aval) : option Z :=
  match ai with
  | AInt (Some z) => Some z
  | ABool (Some b) => Some (if b then 1 else 0)%Z
  | _ => None
  end.
Definition sub_elems (a : aval) : option (list (list aval)) :=
  match a with AList el | ATuple el => Some el | _ => None end.
Definition sub_resolved (a ai : aval) : option (list aval) :=
  match sub_elems a, idx_of ai with
  | Some el, Some z => match norm_idx z (length el) with Some k => nth_error el k | None => None end
  | _, _ => None
  end.
Definition is_some {A} (o : option A) : bool := match o with Some _ => true | None => false end.
Definition all_elems (a : aval) : list aval :=
  match sub_elems a with Some el => dedupa (concat el) | None => [] end.
Definition asub (lz : bool) (idxs : list aval) (a ai : aval) : list aval :=
  match a with
  | AAny => [AAny]
  | AList _ =>
      if lz && negb (forallb (fun j => is_some (sub_resolved a j)) idxs) then all_elems a
      else match sub_resolved a ai with Some bs => bs | None => all_elems a end
  | ATuple _ =>
      if lz then match idxs with
                 | [_] => match sub_resolved a ai with Some bs => bs | None => [AAny] end
                 | _ => [AAny]
                 end
      else match sub_resolved a ai with Some bs => bs | None => all_elems a end
  | _ => []
  end.

Section ALevel.
  Variable lz : bool.
  (* how a call is analysed (one frame of depth budget less): rows of (caller world, argument bindings) *)
  Variable acall : ftable -> fname -> list (world * list aval) -> list (world * aval).
  Variable ft : ftable.

  (* state.restrict_condition on both sides of a jump *)
  Definition asplit (pt pf : aval -> bool) (R : list (world * aval)) : list world * list world :=
    let tw := dedupw (map fst (filter (fun r => pt (snd r)) R)) in
    let fw := dedupw (map fst (filter (fun r => pf (snd r)) R)) in
    if lz then let allw := dedupw (map fst R) in
               (if is_nil tw then [] else allw, if is_nil fw then [] else allw)
    else (tw, fw).

  (* the result pairs that flow along the side selected by [p] *)
  Definition aside (p : aval -> bool) (R : list (world * aval)) : list (world * aval) :=
    if lz then (if existsb (fun r => p (snd r)) R then R else []) else filter (fun r => p (snd r)) R.

  (* CPython's compiler_jump_if over a test expression; [f] evaluates an expression in value position *)
  Definition acond_with (f : list world -> expr -> list (world * aval))
    : list world -> expr -> list world * list world :=
    fix go (W : list world) (c : expr) {struct c} : list world * list world :=
    match lit_truth c with
    | Some true => (W, [])
    | Some false => ([], W)
    | None =>
        match c with
        | ENot c' => let (t, f') := go W c' in (f', t)
        | EAnd a b => let (t1, f1) := go W a in
                      let (t2, f2) := go t1 b in (t2, dedupw (f1 ++ f2))
        | EOr a b => let (t1, f1) := go W a in
                     let (t2, f2) := go f1 b in (dedupw (t1 ++ t2), f2)
        | EIf c0 a b => let (tc, fc) := go W c0 in
                        let (t1, f1) := go tc a in
                        let (t2, f2) := go fc b in (dedupw (t1 ++ t2), dedupw (f1 ++ f2))
        | EIsNone e => asplit compat_none compat_notnone (f W e)
        | EIsNotNone e => asplit compat_notnone compat_none (f W e)
        | _ => asplit (fun a => compat a true) (fun a => compat a false) (f W c)
        end
    end.

  (* join of the rows of the first argument with the rows of the remaining ones, world by world *)
  Definition join_rows (Re : list (world * aval)) (R' : list (world * list aval)) : list (world * list aval) :=
    flat_map (fun wa => flat_map (fun was => if world_eqb (fst wa) (fst was)
                                             then [(fst wa, snd wa :: snd was)] else []) R') Re.

  (* the argument rows of a display / call: the elements are evaluated left to right *)
  Definition aargs_with (f : list world -> expr -> list (world * aval))
    : list world -> list expr -> list (world * list aval) :=
    fix go (W : list world) (es : list expr) {struct es} : list (world * list aval) :=
    match es with
    | [] => map (fun w => (w, [])) W
    | e' :: es' => let Re := f W e' in join_rows Re (go (dedupw (map fst Re)) es')
    end.

  Fixpoint aexpr (locs : option (list name)) (W : list world) (e : expr) {struct e} : list (world * aval) :=
    let aargs := aargs_with (fun W1 e1 => aexpr locs W1 e1) in
    let acnd := acond_with (fun W1 e1 => aexpr locs W1 e1) in
    match e with
    | EInt z => map (fun w => (w, a_int z)) W
    | EFloat _ => map (fun w => (w, AFloat)) W
    | EStr k => map (fun w => (w, AStr k)) W
    | EBytes k => map (fun w => (w, ABytes (Some k))) W
    | EBool b => map (fun w => (w, ABool (Some b))) W
    | ENone => map (fun w => (w, ANone)) W
    | EName x => flat_map (fun w => match ard locs w x with Some a => [(w, a)] | None => [] end) W
    | EList es => let R := aargs W es in
                  let v := AList (columns (length es) (map snd R)) in
                  map (fun w => (w, v)) (dedupw (map fst R))
    | ETuple es => let R := aargs W es in
                   let v := ATuple (columns (length es) (map snd R)) in
                   map (fun w => (w, v)) (dedupw (map fst R))
    | ESet es => let R := aargs W es in
                 let v := ASet (dedupa (flat_map snd R)) in
                 map (fun w => (w, v)) (dedupw (map fst R))
    | EDict ks vs =>
        let Rk := aargs W ks in
        let Rv := aargs (dedupw (map fst Rk)) vs in
        let kset := dedupa (flat_map snd Rk) in
        let vset := dedupa (flat_map snd Rv) in
        let kind := if is_nil ks || is_nil vs then DEmpty
                    else if forallb is_astr kset then DStr else DAmb in
        map (fun w => (w, ADict kind kset vset)) (dedupw (map fst Rv))
    | ENot e' =>
        match lit_truth e' with
        | Some b => map (fun w => (w, ABool (Some (negb b)))) W
        | None =>
            (* byte_UNARY_NOT: one generic bool when no binding is informative, else True/False per binding *)
            let R := aexpr locs W e' in
            if forallb (fun r => compat (snd r) true && compat (snd r) false) R
            then dedupr (map (fun r => (fst r, ABool None)) R)
            else dedupr (flat_map (fun r => (if compat (snd r) true then [(fst r, ABool (Some false))] else [])
                                         ++ (if compat (snd r) false then [(fst r, ABool (Some true))] else [])) R)
        end
    | EIsNone e' => dedupr (map (fun r => (fst r, ABool (a_isnone (snd r)))) (aexpr locs W e'))
    | EIsNotNone e' => dedupr (map (fun r => (fst r, ABool (option_map negb (a_isnone (snd r)))))
                                   (aexpr locs W e'))
    | EIsInst e' c => dedupr (map (fun r => (fst r, ABool (a_isinst (snd r) c))) (aexpr locs W e'))
    | EAnd a b =>
        match lit_truth a with
        | Some true => aexpr locs W b
        | Some false => aexpr locs W a
        | None => let R := aexpr locs W a in
                  let (tw, _) := asplit (fun x => compat x true) (fun x => compat x false) R in
                  dedupr (aside (fun x => compat x false) R ++ aexpr locs tw b)
        end
    | EOr a b =>
        match lit_truth a with
        | Some true => aexpr locs W a
        | Some false => aexpr locs W b
        | None => let R := aexpr locs W a in
                  let (_, fw) := asplit (fun x => compat x true) (fun x => compat x false) R in
                  dedupr (aside (fun x => compat x true) R ++ aexpr locs fw b)
        end
    | EIf c a b => let (tw, fw) := acnd W c in
                   dedupr (aexpr locs tw a ++ aexpr locs fw b)
    | ECall f es => acall ft f (aargs W es)
    | ESub e' i =>
        let Re := aexpr locs W e' in
        let Ri := aexpr locs (dedupw (map fst Re)) i in
        let idxs := dedupa (map snd Ri) in
        dedupr (flat_map (fun ra => flat_map (fun ri =>
                   if world_eqb (fst ra) (fst ri)
                   then map (fun b => (fst ra, b)) (asub lz idxs (snd ra) (snd ri)) else []) Ri) Re)
    end.

  Definition acond (locs : option (list name)) := acond_with (fun W1 e1 => aexpr locs W1 e1).
  Definition aargs (locs : option (list name)) := aargs_with (fun W1 e1 => aexpr locs W1 e1).

  (* continuing worlds, returned (world, value) pairs *)
  Definition ablock_with (f : list world -> stmt -> list world * list (world * aval))
    : list world -> list stmt -> list world * list (world * aval) :=
    fix go (W : list world) (ss : list stmt) : list world * list (world * aval) :=
    match ss with
    | [] => (W, [])
    | s' :: ss' => let (W1, r1) := f W s' in
                   let (W2, r2) := go W1 ss' in (W2, r1 ++ r2)
    end.

  Fixpoint astmt (locs : option (list name)) (W : list world) (s : stmt) {struct s}
    : list world * list (world * aval) :=
    let block := ablock_with (fun W1 s1 => astmt locs W1 s1) in
    match s with
    | SAssign x e => (dedupw (map (fun r => wassign (fst r) x (snd r)) (aexpr locs W e)), [])
    | SIf c th el => let (tw, fw) := acond locs W c in
                     let (w1, r1) := block tw th in
                     let (w2, r2) := block fw el in (dedupw (w1 ++ w2), r1 ++ r2)
    | SPass => (W, [])
    | SReturn e => ([], aexpr locs W e)
    end.

  Definition ablock (locs : option (list name)) := ablock_with (fun W1 s1 => astmt locs W1 s1).
End ALevel.

Definition mkframe (params : list name) (args : list aval) : frame :=
  fold_left (fun fr pa => fset (fst pa) (snd pa) fr) (combine params args) [].

(* analyze.INIT_MAXIMUM_DEPTH: number of nested function frames below the module that are still analysed *)
Definition MAX_DEPTH : nat := 4.

Fixpoint acall_n (lz : bool) (n : nat) (ft : ftable) (f : fname) (R : list (world * list aval))
  : list (world * aval) :=
  match n with
  | 0 => map (fun w => (w, AAny)) (dedupw (map fst R))        (* "Maximum depth reached": new_unsolvable *)
  | S n' =>
      match flook ft f with
      | None => []
      | Some (params, body) =>
          let R' := filter (fun r => length params =? length (snd r)) R in
          let W2 := dedupw (map (fun r => mkframe params (snd r) :: fst r) R') in
          let (cont, rets) := ablock lz (acall_n lz n') ft (Some (params ++ assigned_block body)) W2 body in
          dedupr (map (fun r => (tl (fst r), snd r)) (rets ++ map (fun w => (w, ANone)) cont))
      end
  end.

Fixpoint arun (lz : bool) (ft : ftable) (W : list world) (p : prog) : list world :=
  match p with
  | [] => W
  | TDef f ps b :: p' => arun lz ((f, (ps, b)) :: ft) W p'
  | TStmt s :: p' => arun lz ft (fst (astmt lz (acall_n lz MAX_DEPTH) ft None W s)) p'
  end.

Definition W0 : list world := [[[]]].

(* ------------------------------------------------------------------------------------------------ *)
(* The "unsatisfiable fall-through" leak (vm._run_frame_blocks adds state.node to return_nodes when
   jump_if returns why="unsatisfiable").  Decided on the lazy run (restrict_condition sees the reaching
   definitions), valued with the worlds of the run [vm].  Only module-level jumps matter: the leak joins the
   pre-branch node to the exit of the *current frame*, and a function frame's locals die with it. *)

Section Leaks.
  Variable vm : bool.
  Variable ft : ftable.
  Let ex (m : bool) := aexpr m (acall_n m MAX_DEPTH) ft None.
  Let cd (m : bool) := acond m (acall_n m MAX_DEPTH) ft None.
  Let worlds_of {A} (R : list (world * A)) : list world := dedupw (map fst R).

  (* a primitive conditional jump on the result pairs: [fall] = the lazy worlds on the not-jumping side *)
  Definition lk_decide (Rv Rl : list (world * aval)) (fall : list world) : list world :=
    if negb (is_nil Rl) && is_nil fall then worlds_of Rv else [].

  Fixpoint lk_expr_with (lkc : list world -> list world -> expr -> bool -> list world)
                        (Wv Wl : list world) (e : expr) {struct e} : list world :=
    let args :=
      (fix args (Wv Wl : list world) (es : list expr) : list world :=
         match es with
         | [] => []
         | e' :: es' => lk_expr_with lkc Wv Wl e'
                        ++ args (worlds_of (ex vm Wv e')) (worlds_of (ex true Wl e')) es'
         end) in
    match e with
    | EList es | ETuple es | ESet es => args Wv Wl es
    | EDict ks vs => args Wv Wl ks ++ args (worlds_of (aargs vm (acall_n vm MAX_DEPTH) ft None Wv ks))
                                          (worlds_of (aargs true (acall_n true MAX_DEPTH) ft None Wl ks)) vs
    | ENot e' => match lit_truth e' with Some _ => [] | None => lk_expr_with lkc Wv Wl e' end
    | EIsNone e' | EIsNotNone e' | EIsInst e' _ => lk_expr_with lkc Wv Wl e'
    | EAnd a b =>
        match lit_truth a with
        | Some true => lk_expr_with lkc Wv Wl b
        | Some false => []
        | None =>
            let Rv := ex vm Wv a in let Rl := ex true Wl a in
            let (tl_, _) := asplit true (fun x => compat x true) (fun x => compat x false) Rl in
            let (tv, _) := asplit vm (fun x => compat x true) (fun x => compat x false) Rv in
            lk_expr_with lkc Wv Wl a ++ lk_decide Rv Rl tl_ ++ lk_expr_with lkc tv tl_ b
        end
    | EOr a b =>
        match lit_truth a with
        | Some true => []
        | Some false => lk_expr_with lkc Wv Wl b
        | None =>
            let Rv := ex vm Wv a in let Rl := ex true Wl a in
            let (_, fl) := asplit true (fun x => compat x true) (fun x => compat x false) Rl in
            let (_, fv) := asplit vm (fun x => compat x true) (fun x => compat x false) Rv in
            lk_expr_with lkc Wv Wl a ++ lk_decide Rv Rl fl ++ lk_expr_with lkc fv fl b
        end
    | EIf c a b =>
        let (tv, fv) := cd vm Wv c in let (tl_, fl) := cd true Wl c in
        lkc Wv Wl c false ++ lk_expr_with lkc tv tl_ a ++ lk_expr_with lkc fv fl b
    | ECall _ es => args Wv Wl es
    | ESub a i => lk_expr_with lkc Wv Wl a
                  ++ lk_expr_with lkc (worlds_of (ex vm Wv a)) (worlds_of (ex true Wl a)) i
    | _ => []
    end.

  (* [cond]: the truth value on which the compiled code jumps (the other one falls through) *)
  Fixpoint lk_cond (fuel : nat) (Wv Wl : list world) (c : expr) (cond : bool) {struct fuel} : list world :=
    match fuel with
    | 0 => []
    | S fuel' =>
        let lke := lk_expr_with (lk_cond fuel') in
        match lit_truth c with
        | Some _ => []
        | None =>
            match c with
            | ENot c' => lk_cond fuel' Wv Wl c' (negb cond)
            | EAnd a b => lk_cond fuel' Wv Wl a false
                          ++ lk_cond fuel' (fst (cd vm Wv a)) (fst (cd true Wl a)) b cond
            | EOr a b => lk_cond fuel' Wv Wl a true
                         ++ lk_cond fuel' (snd (cd vm Wv a)) (snd (cd true Wl a)) b cond
            | EIf c0 a b => lk_cond fuel' Wv Wl c0 false
                            ++ lk_cond fuel' (fst (cd vm Wv c0)) (fst (cd true Wl c0)) a cond
                            ++ lk_cond fuel' (snd (cd vm Wv c0)) (snd (cd true Wl c0)) b cond
            | EIsNone e =>
                let Rv := ex vm Wv e in let Rl := ex true Wl e in
                let (y, n) := asplit true compat_none compat_notnone Rl in
                lke Wv Wl e ++ lk_decide Rv Rl (if cond then n else y)
            | EIsNotNone e =>
                let Rv := ex vm Wv e in let Rl := ex true Wl e in
                let (y, n) := asplit true compat_notnone compat_none Rl in
                lke Wv Wl e ++ lk_decide Rv Rl (if cond then n else y)
            | _ =>
                let Rv := ex vm Wv c in let Rl := ex true Wl c in
                let (t, f) := asplit true (fun x => compat x true) (fun x => compat x false) Rl in
                lke Wv Wl c ++ lk_decide Rv Rl (if cond then f else t)
            end
        end
    end.

  Fixpoint esize (e : expr) : nat :=
    let sz := (fix sz (es : list expr) : nat := match es with [] => 0 | e' :: es' => esize e' + sz es' end) in
    S match e with
      | EList es | ETuple es | ESet es | ECall _ es => sz es
      | EDict ks vs => sz ks + sz vs
      | ENot a | EIsNone a | EIsNotNone a | EIsInst a _ => esize a
      | EAnd a b | EOr a b | ESub a b => esize a + esize b
      | EIf c a b => esize c + esize a + esize b
      | _ => 0
      end.

  Definition lk_test (Wv Wl : list world) (c : expr) : list world := lk_cond (S (esize c)) Wv Wl c false.
  Definition lk_expr (Wv Wl : list world) (e : expr) : list world :=
    lk_expr_with (lk_cond (S (esize e))) Wv Wl e.

  Fixpoint lk_stmt (Wv Wl : list world) (s : stmt) {struct s} : list world :=
    let block :=
      (fix block (Wv Wl : list world) (ss : list stmt) : list world :=
         match ss with
         | [] => []
         | s' :: ss' => lk_stmt Wv Wl s'
                        ++ block (fst (astmt vm (acall_n vm MAX_DEPTH) ft None Wv s'))
                                 (fst (astmt true (acall_n true MAX_DEPTH) ft None Wl s')) ss'
         end) in
    match s with
    | SAssign _ e => lk_expr Wv Wl e
    | SIf c th el => lk_test Wv Wl c
                     ++ block (fst (cd vm Wv c)) (fst (cd true Wl c)) th
                     ++ block (snd (cd vm Wv c)) (snd (cd true Wl c)) el
    | SPass => []
    | SReturn e => lk_expr Wv Wl e
    end.
End Leaks.

Fixpoint lk_run (vm : bool) (ft : ftable) (Wv Wl : list world) (p : prog) : list world :=
  match p with
  | [] => []
  | TDef f ps b :: p' => lk_run vm ((f, (ps, b)) :: ft) Wv Wl p'
  | TStmt s :: p' => lk_stmt vm ft Wv Wl s
                     ++ lk_run vm ft (fst (astmt vm (acall_n vm MAX_DEPTH) ft None Wv s))
                                     (fst (astmt true (acall_n true MAX_DEPTH) ft None Wl s)) p'
  end.

(* ------------------------------------------------------------------------------------------------ *)
(* Types: the pytd fragment that is printed for L0                                                    *)

Inductive ty :=
| TAny | TNothing | TNone | TInt | TFloat | TStr | TBytes | TBool
| TList (t : ty) | TSet (t : ty) | TDict (k v : ty)
| TTuple (ts : list ty)            (* tuple[t1, ..., tn], n = 0: tuple[()] *)
| THomTuple (t : ty)               (* tuple[t, ...] *)
| TUnion (ts : list ty).

Fixpoint ty_eqb (a b : ty) {struct a} : bool :=
  let leqb := (fix leqb (xs ys : list ty) : bool :=
                 match xs, ys with
                 | [], [] => true
                 | x :: xs', y :: ys' => ty_eqb x y && leqb xs' ys'
                 | _, _ => false
                 end) in
  match a, b with
  | TAny, TAny | TNothing, TNothing | TNone, TNone | TInt, TInt | TFloat, TFloat
  | TStr, TStr | TBytes, TBytes | TBool, TBool => true
  | TList x, TList y => ty_eqb x y
  | TSet x, TSet y => ty_eqb x y
  | TDict k v, TDict k' v' => ty_eqb k k' && ty_eqb v v'
  | TTuple xs, TTuple ys => leqb xs ys
  | THomTuple x, THomTuple y => ty_eqb x y
  | TUnion xs, TUnion ys => leqb xs ys
  | _, _ => false
  end.

(* which run-time values a printed type admits (int is accepted where float is expected, bool where int is) *)
Fixpoint admits (t : ty) (v : value) {struct t} : Prop :=
  match t with
  | TAny => True
  | TNothing => False
  | TNone => v = VNone
  | TInt => match v with VInt _ | VBool _ => True | _ => False end
  | TFloat => match v with VFloat _ | VInt _ | VBool _ => True | _ => False end
  | TStr => match v with VStr _ => True | _ => False end
  | TBytes => match v with VBytes _ => True | _ => False end
  | TBool => match v with VBool _ => True | _ => False end
  | TList t' => match v with VList vs => Forall (admits t') vs | _ => False end
  | TSet t' => match v with VSet vs => Forall (admits t') vs | _ => False end
  | TDict k e => match v with VDict ks vs => Forall (admits k) ks /\ Forall (admits e) vs | _ => False end
  | TTuple ts =>
      match v with
      | VTuple vs =>
          (fix all2 (ts : list ty) (vs : list value) : Prop :=
             match ts, vs with
             | [], [] => True
             | t' :: ts', v' :: vs' => admits t' v' /\ all2 ts' vs'
             | _, _ => False
             end) ts vs
      | _ => False
      end
  | THomTuple t' => match v with VTuple vs => Forall (admits t') vs | _ => False end
  | TUnion ts => (fix any (ts : list ty) : Prop :=
                    match ts with [] => False | t' :: ts' => admits t' v \/ any ts' end) ts
  end.

(* pytd_utils.JoinTypes: flatten, drop nothing, de-duplicate, Any absorbs *)
Definition tflat1 (t : ty) : list ty :=
  match t with TUnion ts => ts | TNothing => [] | _ => [t] end.
Definition is_tany (t : ty) : bool := match t with TAny => true | _ => false end.
Definition tjoin (ts : list ty) : ty :=
  let ms := dedup ty_eqb (flat_map tflat1 ts) in
  if existsb is_tany ms then TAny
  else match ms with [] => TNothing | [t] => t | _ => TUnion ms end.

(* output.value_to_pytd_type on one binding *)
Fixpoint ty_of (a : aval) : ty :=
  let tys := (fix tys (l : list aval) : list ty :=
                match l with [] => [] | x :: l' => ty_of x :: tys l' end) in
  let tyss := (fix tyss (ll : list (list aval)) : list ty :=
                 match ll with
                 | [] => []
                 | l :: ll' => (fix tys2 (l : list aval) : list ty :=
                                  match l with [] => [] | x :: l' => ty_of x :: tys2 l' end) l ++ tyss ll'
                 end) in
  match a with
  | AInt _ => TInt
  | AFloat => TFloat
  | AStr _ => TStr
  | ABytes _ => TBytes
  | ABool _ => TBool
  | ANone => TNone
  | AList el => TList (tjoin (tyss el))
  | ATuple el => TTuple ((fix each (ll : list (list aval)) : list ty :=
                            match ll with
                            | [] => []
                            | l :: ll' => tjoin ((fix tys2 (l : list aval) : list ty :=
                                                    match l with [] => [] | x :: l' => ty_of x :: tys2 l' end) l)
                                          :: each ll'
                            end) el)
  | ASet el => TSet (tjoin (tys el))
  | ADict _ ks vs => TDict (tjoin (tys ks)) (tjoin (tys vs))
  | AAny => TAny
  end.

(* -- the optimiser, one union node at a time ------------------------------------------------------- *)

Definition is_ttuple (t : ty) : bool := match t with TTuple _ => true | _ => false end.
Definition is_thom (t : ty) : bool := match t with THomTuple _ => true | _ => false end.
Definition tuple_len (t : ty) : option nat := match t with TTuple ts => Some (length ts) | _ => None end.

(* CombineContainers._should_merge(TupleType): tuples of different lengths, or a homogeneous tuple present *)
Definition should_merge_tuples (ms : list ty) : bool :=
  let lens := flat_map (fun t => match tuple_len t with Some n => [n] | None => [] end) ms in
  match lens with
  | [] => false
  | n :: rest => negb (forallb (Nat.eqb n) rest) || existsb is_thom ms
  end.
Definition homogenise (t : ty) : ty := match t with TTuple ts => THomTuple (tjoin ts) | _ => t end.

(* two members with the same container key are merged parameter-wise *)
Definition merge2 (a b : ty) : option ty :=
  match a, b with
  | TList x, TList y => Some (TList (tjoin [x; y]))
  | TSet x, TSet y => Some (TSet (tjoin [x; y]))
  | TDict k v, TDict k' v' => Some (TDict (tjoin [k; k']) (tjoin [v; v']))
  | THomTuple x, THomTuple y => Some (THomTuple (tjoin [x; y]))
  | TTuple xs, TTuple ys =>
      if length xs =? length ys then Some (TTuple (map (fun p => tjoin [fst p; snd p]) (combine xs ys)))
      else None
  | _, _ => None
  end.

(* insert [t] into the already-combined members [acc] (first occurrence keeps its position) *)
Fixpoint combine_into (acc : list ty) (t : ty) : list ty :=
  match acc with
  | [] => [t]
  | a :: acc' => match merge2 a t with Some m => m :: acc' | None => a :: combine_into acc' t end
  end.
Definition combine_members (ms : list ty) : list ty := fold_left combine_into ms [].

(* SimplifyUnionsWithSuperclasses: bool is absorbed by int (the only subclass pair among the L0 classes) *)
Definition is_tint (t : ty) : bool := match t with TInt => true | _ => false end.
Definition is_tbool (t : ty) : bool := match t with TBool => true | _ => false end.
Definition absorb_bool (ms : list ty) : list ty :=
  if existsb is_tint ms then filter (fun t => negb (is_tbool t)) ms else ms.

Definition MAX_UNION : nat := 7.

Fixpoint optimize (fuel : nat) (t : ty) {struct fuel} : ty :=
  match fuel with
  | 0 => t
  | S n =>
      match t with
      | TList x => TList (optimize n x)
      | TSet x => TSet (optimize n x)
      | TDict k v => TDict (optimize n k) (optimize n v)
      | TTuple ts => TTuple (map (optimize n) ts)
      | THomTuple x => THomTuple (optimize n x)
      | TUnion ts =>
          let ms := flat_map tflat1 ts in
          let ms1 := if should_merge_tuples ms then map homogenise ms else ms in
          let ms2 := combine_members ms1 in
          let ms3 := map (optimize n) ms2 in
          let r := tjoin (absorb_bool ms3) in
          match r with
          | TUnion rs => if MAX_UNION <? length rs then TAny else r
          | _ => r
          end
      | _ => t
      end
  end.

Fixpoint ty_depth (t : ty) : nat :=
  let dl := (fix dl (ts : list ty) : nat := match ts with [] => 0 | x :: ts' => Nat.max (ty_depth x) (dl ts') end) in
  S match t with
    | TList x | TSet x | THomTuple x => ty_depth x
    | TDict k v => Nat.max (ty_depth k) (ty_depth v)
    | TTuple ts | TUnion ts => dl ts
    | _ => 0
    end.

Definition opt (t : ty) : ty := optimize (2 * ty_depth t + 2) t.

(* ------------------------------------------------------------------------------------------------ *)
(* The inferred type of a module-level name                                                          *)

Definition values_of (x : name) (Ws : list world) : list aval :=
  dedupa (flat_map (fun w => match flookup x (hd [] w) with Some a => [a] | None => [] end) Ws).

Definition exit_worlds (vm : bool) (p : prog) : list world :=
  arun vm [] W0 p ++ lk_run vm [] W0 W0 p.

Definition infer_mode (vm : bool) (p : prog) (x : name) : ty :=
  opt (tjoin (map ty_of (values_of x (exit_worlds vm p)))).

(* the model's answer (lower bound, see the design note) and the reaching-definitions upper bound *)
Definition infer : prog -> name -> ty := infer_mode false.
Definition infer_upper : prog -> name -> ty := infer_mode true.

(* is the name bound in some world at the exit? (a name bound only in branches no world enters is printed
   as Any by pytype: "No visible options") *)
Definition bound_at_exit (vm : bool) (p : prog) (x : name) : bool :=
  negb (is_nil (values_of x (exit_worlds vm p))).

(* ------------------------------------------------------------------------------------------------ *)
(* Flat encodings for the harness (prefix notation over Z)                                           *)

Fixpoint enc_ty (t : ty) : list Z :=
  let encs := (fix encs (ts : list ty) : list Z := match ts with [] => [] | x :: ts' => enc_ty x ++ encs ts' end) in
  (match t with
   | TAny => [0] | TNothing => [1] | TNone => [2] | TInt => [3] | TFloat => [4] | TStr => [5]
   | TBytes => [6] | TBool => [7]
   | TList x => 8 :: enc_ty x
   | TSet x => 9 :: enc_ty x
   | TDict k v => 10 :: enc_ty k ++ enc_ty v
   | TTuple ts => 11 :: Z.of_nat (length ts) :: encs ts
   | THomTuple x => 12 :: enc_ty x
   | TUnion ts => 13 :: Z.of_nat (length ts) :: encs ts
   end)%Z.

Fixpoint enc_value (v : value) : list Z :=
  let encs := (fix encs (vs : list value) : list Z :=
                 match vs with [] => [] | x :: vs' => enc_value x ++ encs vs' end) in
  (match v with
   | VInt z => [0; z] | VFloat k => [1; k] | VStr k => [2; Z.of_nat k] | VBytes k => [3; Z.of_nat k]
   | VBool b => [4; if b then 1 else 0] | VNone => [5]
   | VList vs => 6 :: Z.of_nat (length vs) :: encs vs
   | VTuple vs => 7 :: Z.of_nat (length vs) :: encs vs
   | VSet vs => 8 :: Z.of_nat (length vs) :: encs vs
   | VDict ks vs => 9 :: Z.of_nat (length ks) :: encs ks ++ encs vs
   end)%Z.

(* ------------------------------------------------------------------------------------------------ *)
(* The keys of pytype's call cache (InterpreterFunction._call_cache: function + the data of the argument
   variables) that the analysis produces, in call order.  The cache itself is NOT modelled; the harness
   restricts the lower-bound comparison to programs without a repeated key.  Instrumentation only. *)

Definition ckey := (fname * list (list aval))%type.

Section Keys.
  Variable n : nat.                                   (* depth budget of the calls made at this level *)
  Variable ckcall : ftable -> fname -> list (world * list aval) -> list ckey.
  Variable ft : ftable.
  Let ex := aexpr true (acall_n true n) ft.
  Let cd := acond true (acall_n true n) ft.
  Let worlds_of {A} (R : list (world * A)) : list world := dedupw (map fst R).

  Fixpoint ck_expr_with (ckc : option (list name) -> list world -> expr -> list ckey)
                        (locs : option (list name)) (W : list world) (e : expr) {struct e} : list ckey :=
    let args :=
      (fix args (W : list world) (es : list expr) : list ckey :=
         match es with
         | [] => []
         | e' :: es' => ck_expr_with ckc locs W e' ++ args (worlds_of (ex locs W e')) es'
         end) in
    match e with
    | EList es | ETuple es | ESet es => args W es
    | EDict ks vs => args W ks ++ args (worlds_of (aargs true (acall_n true n) ft locs W ks)) vs
    | ENot e' => match lit_truth e' with Some _ => [] | None => ck_expr_with ckc locs W e' end
    | EIsNone e' | EIsNotNone e' | EIsInst e' _ => ck_expr_with ckc locs W e'
    | EAnd a b =>
        match lit_truth a with
        | Some true => ck_expr_with ckc locs W b
        | Some false => []
        | None => ck_expr_with ckc locs W a
                  ++ ck_expr_with ckc locs
                       (fst (asplit true (fun x => compat x true) (fun x => compat x false) (ex locs W a))) b
        end
    | EOr a b =>
        match lit_truth a with
        | Some true => []
        | Some false => ck_expr_with ckc locs W b
        | None => ck_expr_with ckc locs W a
                  ++ ck_expr_with ckc locs
                       (snd (asplit true (fun x => compat x true) (fun x => compat x false) (ex locs W a))) b
        end
    | EIf c a b => ckc locs W c ++ ck_expr_with ckc locs (fst (cd locs W c)) a
                   ++ ck_expr_with ckc locs (snd (cd locs W c)) b
    | ECall f es =>
        let R := aargs true (acall_n true n) ft locs W es in
        args W es ++ match n with
                     | 0 => []                     (* depth cut-off: the call is not analysed, nothing is cached *)
                     | S _ => [(f, columns (length es) (map snd R))]
                     end ++ ckcall ft f R
    | ESub a i => ck_expr_with ckc locs W a ++ ck_expr_with ckc locs (worlds_of (ex locs W a)) i
    | _ => []
    end.

  Fixpoint ck_cond (fuel : nat) (locs : option (list name)) (W : list world) (c : expr) {struct fuel}
    : list ckey :=
    match fuel with
    | 0 => []
    | S fuel' =>
        match lit_truth c with
        | Some _ => []
        | None =>
            match c with
            | ENot c' => ck_cond fuel' locs W c'
            | EAnd a b => ck_cond fuel' locs W a ++ ck_cond fuel' locs (fst (cd locs W a)) b
            | EOr a b => ck_cond fuel' locs W a ++ ck_cond fuel' locs (snd (cd locs W a)) b
            | EIf c0 a b => ck_cond fuel' locs W c0 ++ ck_cond fuel' locs (fst (cd locs W c0)) a
                            ++ ck_cond fuel' locs (snd (cd locs W c0)) b
            | EIsNone e | EIsNotNone e => ck_expr_with (ck_cond fuel') locs W e
            | _ => ck_expr_with (ck_cond fuel') locs W c
            end
        end
    end.

  Definition ck_expr (locs : option (list name)) (W : list world) (e : expr) : list ckey :=
    ck_expr_with (ck_cond (S (esize e))) locs W e.

  Fixpoint ck_stmt (locs : option (list name)) (W : list world) (s : stmt) {struct s} : list ckey :=
    let block :=
      (fix block (W : list world) (ss : list stmt) : list ckey :=
         match ss with
         | [] => []
         | s' :: ss' => ck_stmt locs W s' ++ block (fst (astmt true (acall_n true n) ft locs W s')) ss'
         end) in
    match s with
    | SAssign _ e | SReturn e => ck_expr locs W e
    | SIf c th el => ck_cond (S (esize c)) locs W c ++ block (fst (cd locs W c)) th ++ block (snd (cd locs W c)) el
    | SPass => []
    end.

  Fixpoint ck_block (locs : option (list name)) (W : list world) (ss : list stmt) : list ckey :=
    match ss with
    | [] => []
    | s' :: ss' => ck_stmt locs W s' ++ ck_block locs (fst (astmt true (acall_n true n) ft locs W s')) ss'
    end.
End Keys.

(* the keys produced inside the body of a call analysed with budget [n] *)
Fixpoint ckcall_n (n : nat) (ft : ftable) (f : fname) (R : list (world * list aval)) : list ckey :=
  match n with
  | 0 => []
  | S n' =>
      match flook ft f with
      | None => []
      | Some (params, body) =>
          let R' := filter (fun r => length params =? length (snd r)) R in
          let W2 := dedupw (map (fun r => mkframe params (snd r) :: fst r) R') in
          ck_block n' (ckcall_n n') ft (Some (params ++ assigned_block body)) W2 body
      end
  end.

Fixpoint ck_run (ft : ftable) (W : list world) (p : prog) : list ckey :=
  match p with
  | [] => []
  | TDef f ps b :: p' => ck_run ((f, (ps, b)) :: ft) W p'
  | TStmt s :: p' => ck_stmt MAX_DEPTH (ckcall_n MAX_DEPTH) ft None W s
                     ++ ck_run ft (fst (astmt true (acall_n true MAX_DEPTH) ft None W s)) p'
  end.

Definition ckey_eqb (a b : ckey) : bool :=
  (fst a =? fst b) && list_eqb (list_eqb aval_eqb) (snd a) (snd b).
Fixpoint has_dup {A} (eqb : A -> A -> bool) (l : list A) : bool :=
  match l with [] => false | x :: l' => existsb (eqb x) l' || has_dup eqb l' end.
Definition repeated_call_key (p : prog) : bool := has_dup ckey_eqb (ck_run [] W0 p).

(* one program, everything the harness compares: for each requested name
   (bound strictly?, lower type, bound lazily?, upper type), whether a call-cache key repeats, the
   number of final strict worlds, then the concrete run *)
Definition report (p : prog) (names : list name) (fuel : nat)
  : list (bool * list Z * bool * list Z) * bool * nat * option (list (option (list Z))) :=
  (map (fun x => (bound_at_exit false p x, enc_ty (infer p x),
                  bound_at_exit true p x, enc_ty (infer_upper p x))) names,
   repeated_call_key p,
   length (arun false [] W0 p),
   match ceval fuel p with
   | None => None
   | Some g => Some (map (fun x => option_map enc_value (slook g x)) names)
   end).

