(* C01 — the printed type of a binding admits the values the binding stands for, and the modelled optimiser
   passes only ever widen. *)
From Coq Require Import List ZArith Arith Bool Lia.
From PV Require Import Vm.Model Vm.Lemmas.
Import ListNotations.
Open Scope nat_scope.

(* ---------------- admits in terms of standard predicates ---------------- *)

Lemma admits_union_iff : forall ts v, admits (TUnion ts) v <-> exists t, In t ts /\ admits t v.
Proof.
  intros ts v. simpl. induction ts as [|t ts IH]; simpl.
  - split; [tauto|]. intros [t [[] _]].
  - rewrite IH. split.
    + intros [H|[u [Hu Ha]]]; [exists t|exists u]; auto.
    + intros [u [[->|Hu] Ha]]; [left|right; exists u]; auto.
Qed.

Lemma admits_tuple_iff : forall ts vs, admits (TTuple ts) (VTuple vs) <-> Forall2 admits ts vs.
Proof.
  intros ts. simpl. induction ts as [|t ts IH]; intros [|v vs]; simpl.
  - split; auto.
  - split; [tauto|]. intros H; inversion H.
  - split; [tauto|]. intros H; inversion H.
  - rewrite IH. split.
    + intros [H1 H2]; constructor; auto.
    + intros H; inversion H; subst; auto.
Qed.

(* ---------------- ty_eqb ---------------- *)

Section TyInd.
  Variable P : ty -> Prop.
  Hypothesis HAny : P TAny.
  Hypothesis HNothing : P TNothing.
  Hypothesis HNone : P TNone.
  Hypothesis HInt : P TInt.
  Hypothesis HFloat : P TFloat.
  Hypothesis HStr : P TStr.
  Hypothesis HBytes : P TBytes.
  Hypothesis HBool : P TBool.
  Hypothesis HList : forall t, P t -> P (TList t).
  Hypothesis HSet : forall t, P t -> P (TSet t).
  Hypothesis HDict : forall k v, P k -> P v -> P (TDict k v).
  Hypothesis HTuple : forall ts, Forall P ts -> P (TTuple ts).
  Hypothesis HHom : forall t, P t -> P (THomTuple t).
  Hypothesis HUnion : forall ts, Forall P ts -> P (TUnion ts).

  Fixpoint ty_ind' (t : ty) : P t :=
    let fl := (fix fl (l : list ty) : Forall P l :=
                 match l with [] => Forall_nil _ | x :: l' => Forall_cons x (ty_ind' x) (fl l') end) in
    match t with
    | TAny => HAny | TNothing => HNothing | TNone => HNone | TInt => HInt | TFloat => HFloat
    | TStr => HStr | TBytes => HBytes | TBool => HBool
    | TList x => HList x (ty_ind' x)
    | TSet x => HSet x (ty_ind' x)
    | TDict k v => HDict k v (ty_ind' k) (ty_ind' v)
    | TTuple ts => HTuple ts (fl ts)
    | THomTuple x => HHom x (ty_ind' x)
    | TUnion ts => HUnion ts (fl ts)
    end.
End TyInd.

Lemma ty_leqb_eq : forall (xs ys : list ty),
  Forall (fun x => forall y, ty_eqb x y = true -> x = y) xs ->
  (fix leqb (xs ys : list ty) : bool :=
     match xs, ys with
     | [], [] => true
     | x :: xs', y :: ys' => ty_eqb x y && leqb xs' ys'
     | _, _ => false
     end) xs ys = true -> xs = ys.
Proof.
  induction xs as [|x xs IH]; intros [|y ys] HF H; try discriminate; auto.
  inversion HF as [|? ? Hx Hxs]; subst. apply andb_true_iff in H as [E1 E2]. f_equal; auto.
Qed.

Lemma ty_eqb_eq : forall a b, ty_eqb a b = true -> a = b.
Proof.
  induction a using ty_ind'; intros b E; destruct b; simpl in E; try discriminate; auto.
  - f_equal; auto.
  - f_equal; auto.
  - apply andb_true_iff in E as [E1 E2]. f_equal; auto.
  - f_equal. apply ty_leqb_eq; auto.
  - f_equal; auto.
  - f_equal. apply ty_leqb_eq; auto.
Qed.

(* ---------------- JoinTypes ---------------- *)

Lemma tflat1_admits : forall t v, admits t v -> exists m, In m (tflat1 t) /\ admits m v.
Proof.
  intros t v H. destruct t; simpl; try (eexists; split; [left; reflexivity|exact H]).
  - simpl in H. tauto.
  - apply admits_union_iff in H. exact H.
Qed.

Lemma tjoin_members : forall ts v,
  (exists m, In m (flat_map tflat1 ts) /\ admits m v) -> admits (tjoin ts) v.
Proof.
  intros ts v [m [Hm Ha]]. unfold tjoin.
  assert (Hd : In m (dedup ty_eqb (flat_map tflat1 ts))) by (apply dedup_in; auto; apply ty_eqb_eq).
  destruct (existsb is_tany (dedup ty_eqb (flat_map tflat1 ts))); [exact I|].
  destruct (dedup ty_eqb (flat_map tflat1 ts)) as [|t1 [|t2 rest]] eqn:E.
  - destruct Hd.
  - destruct Hd as [->|[]]. exact Ha.
  - apply admits_union_iff. exists m. split; auto.
Qed.

Lemma tjoin_admits : forall ts t v, In t ts -> admits t v -> admits (tjoin ts) v.
Proof.
  intros ts t v Hin Ha. apply tjoin_members.
  destruct (tflat1_admits t v Ha) as [m [Hm Hma]]. exists m. split; auto.
  apply in_flat_map. exists t. auto.
Qed.

Lemma tjoin_inv : forall ts v, admits (tjoin ts) v -> exists m, In m (flat_map tflat1 ts) /\ admits m v.
Proof.
  intros ts v H. unfold tjoin in H.
  destruct (existsb is_tany (dedup ty_eqb (flat_map tflat1 ts))) eqn:E.
  - apply existsb_exists in E as [m [Hm Hany]]. exists m. split; [eapply dedup_sub; eauto|].
    destruct m; try discriminate. exact I.
  - destruct (dedup ty_eqb (flat_map tflat1 ts)) as [|t1 [|t2 rest]] eqn:ED.
    + simpl in H. tauto.
    + exists t1. split; auto. eapply dedup_sub. rewrite ED. left; auto.
    + apply admits_union_iff in H as [m [Hm Ha]]. exists m. split; auto.
      eapply dedup_sub. rewrite ED. exact Hm.
Qed.

(* the join over a super-list is wider *)
Lemma tjoin_incl : forall ts us v, incl ts us -> admits (tjoin ts) v -> admits (tjoin us) v.
Proof.
  intros ts us v Hincl H. apply tjoin_inv in H as [m [Hm Ha]]. apply tjoin_members.
  exists m. split; auto. apply in_flat_map in Hm as [t [Ht Hmt]]. apply in_flat_map. exists t. auto.
Qed.

(* ---------------- value_to_pytd_type ---------------- *)

Lemma ty_of_list_eq : forall el, ty_of (AList el) = TList (tjoin (flat_map (map ty_of) el)).
Proof.
  intros el. simpl. do 2 f_equal.
Qed.

Lemma ty_of_tuple_eq : forall el, ty_of (ATuple el) = TTuple (map (fun l => tjoin (map ty_of l)) el).
Proof.
  intros el. simpl. f_equal.
Qed.

Lemma tys_eq : forall l,
  (fix tys (l : list aval) : list ty := match l with [] => [] | x :: l' => ty_of x :: tys l' end) l
  = map ty_of l.
Proof. induction l; simpl; auto. Qed.

Lemma ty_of_set_eq : forall el, ty_of (ASet el) = TSet (tjoin (map ty_of el)).
Proof. intros. reflexivity. Qed.

Lemma ty_of_dict_eq : forall k ks vs, ty_of (ADict k ks vs) = TDict (tjoin (map ty_of ks)) (tjoin (map ty_of vs)).
Proof. intros. reflexivity. Qed.

Lemma any_gamma_admits : forall bs x,
  Forall (fun a => forall v, gamma a v -> admits (ty_of a) v) bs ->
  any_gamma bs x -> admits (tjoin (map ty_of bs)) x.
Proof.
  intros bs x HF [b [Hb Hg]]. rewrite Forall_forall in HF.
  apply tjoin_admits with (t := ty_of b); auto. apply in_map; auto.
Qed.

(* output.value_to_pytd_type is sound: the printed type of a binding admits every value it stands for *)
Lemma ty_of_sound_lemma : forall a v, gamma a v -> admits (ty_of a) v.
Proof.
  induction a using aval_ind'; intros v Hg.
  - apply gamma_shape in Hg. destruct Hg as [z ->]. exact I.
  - destruct Hg as [k ->]. exact I.
  - simpl in Hg. subst. exact I.
  - apply gamma_shape in Hg. destruct Hg as [k ->]. exact I.
  - apply gamma_shape in Hg. destruct Hg as [b ->]. exact I.
  - simpl in Hg. subst. reflexivity.
  - apply gamma_list_inv in Hg as [xs [-> HF2]]. rewrite ty_of_list_eq.
    change (Forall (admits (tjoin (flat_map (map ty_of) el))) xs).
    revert xs HF2. induction H as [|bs el Hbs Hel IH]; intros xs HF2;
      inversion HF2 as [|? x ? xs' Hx Hxs]; subst; constructor.
    + destruct Hx as [b [Hb Hgb]]. rewrite Forall_forall in Hbs.
      apply tjoin_admits with (t := ty_of b); auto.
      simpl. apply in_or_app. left. apply in_map; auto.
    + specialize (IH _ Hxs). eapply Forall_impl; [|exact IH].
      intros y Hy. simpl. eapply tjoin_incl; [|exact Hy]. apply incl_appr. apply incl_refl.
  - apply gamma_tuple_inv in Hg as [xs [-> HF2]]. rewrite ty_of_tuple_eq. apply admits_tuple_iff.
    revert xs HF2. induction H as [|bs el Hbs Hel IH]; intros xs HF2;
      inversion HF2 as [|? x ? xs' Hx Hxs]; subst; simpl; constructor; auto.
    apply any_gamma_admits; auto.
  - apply gamma_set_inv in Hg as [xs [-> HF]]. rewrite ty_of_set_eq.
    change (Forall (admits (tjoin (map ty_of el))) xs).
    eapply Forall_impl; [|exact HF]. intros x Hx. apply any_gamma_admits; auto.
  - apply gamma_dict_inv in Hg as [cks [cvs [-> [HK [HV _]]]]]. rewrite ty_of_dict_eq.
    change (Forall (admits (tjoin (map ty_of ks))) cks /\ Forall (admits (tjoin (map ty_of vs))) cvs).
    split; (eapply Forall_impl; [|eassumption]); intros x Hx; apply any_gamma_admits; auto.
  - exact I.
Qed.

(* ---------------- the optimiser only widens ---------------- *)

Lemma homogenise_widens : forall t v, admits t v -> admits (homogenise t) v.
Proof.
  intros t v H. destruct t; simpl; auto.
  destruct v; try (simpl in H; tauto).
  apply admits_tuple_iff in H.
  change (Forall (admits (tjoin ts)) vs).
  induction H; constructor; auto.
  - apply tjoin_admits with (t := x); simpl; auto.
  - eapply Forall_impl; [|exact IHForall2]. intros a Ha.
    eapply tjoin_incl; [|exact Ha]. apply incl_tl. apply incl_refl.
Qed.

Lemma tjoin2_l : forall a b v, admits a v -> admits (tjoin [a; b]) v.
Proof. intros. apply tjoin_admits with (t := a); simpl; auto. Qed.
Lemma tjoin2_r : forall a b v, admits b v -> admits (tjoin [a; b]) v.
Proof. intros. apply tjoin_admits with (t := b); simpl; auto. Qed.

Lemma merge2_widens : forall a b m v, merge2 a b = Some m -> admits a v \/ admits b v -> admits m v.
Proof.
  intros a b m v HM H.
  destruct a; destruct b; simpl in HM; try discriminate.
  - inversion HM; subst. destruct v; try (simpl in H; tauto).
    change (Forall (admits (tjoin [a; b])) vs).
    destruct H as [H|H]; simpl in H; (eapply Forall_impl; [|exact H]); intros x Hx;
      [apply tjoin2_l|apply tjoin2_r]; auto.
  - inversion HM; subst. destruct v; try (simpl in H; tauto).
    change (Forall (admits (tjoin [a; b])) vs).
    destruct H as [H|H]; simpl in H; (eapply Forall_impl; [|exact H]); intros x Hx;
      [apply tjoin2_l|apply tjoin2_r]; auto.
  - inversion HM; subst. destruct v; try (simpl in H; tauto).
    change (Forall (admits (tjoin [a1; b1])) ks /\ Forall (admits (tjoin [a2; b2])) vs).
    destruct H as [[H1 H2]|[H1 H2]]; split;
      (eapply Forall_impl; [|eassumption]); intros x Hx;
      try (apply tjoin2_l; assumption); try (apply tjoin2_r; assumption).
  - destruct (length ts =? length ts0) eqn:EL; [|discriminate]. inversion HM; subst. clear HM.
    apply Nat.eqb_eq in EL.
    destruct v; try (simpl in H; tauto).
    apply admits_tuple_iff.
    destruct H as [H|H]; apply admits_tuple_iff in H.
    + revert ts0 EL. induction H; intros [|u us] EL; simpl in EL; try discriminate; simpl; constructor.
      * apply tjoin2_l; auto.
      * apply IHForall2. lia.
    + revert ts EL. induction H; intros [|u us] EL; simpl in EL; try discriminate; simpl; constructor.
      * apply tjoin2_r; auto.
      * apply IHForall2. lia.
  - inversion HM; subst. destruct v; try (simpl in H; tauto).
    change (Forall (admits (tjoin [a; b])) vs).
    destruct H as [H|H]; simpl in H; (eapply Forall_impl; [|exact H]); intros x Hx;
      [apply tjoin2_l|apply tjoin2_r]; auto.
Qed.

Lemma combine_into_widens : forall acc t v,
  (exists m, In m (t :: acc) /\ admits m v) -> exists m, In m (combine_into acc t) /\ admits m v.
Proof.
  induction acc as [|a acc IH]; intros t v [m [Hm Ha]]; simpl.
  - destruct Hm as [->|[]]. exists m; simpl; auto.
  - destruct (merge2 a t) as [mm|] eqn:EM.
    + destruct Hm as [->|[->|Hm]].
      * exists mm. split; [left; auto|]. eapply merge2_widens; eauto.
      * exists mm. split; [left; auto|]. eapply merge2_widens; eauto.
      * exists m. split; [right; auto|auto].
    + destruct Hm as [->|[->|Hm]].
      * destruct (IH m v) as [m' [Hm' Ha']]; [exists m; simpl; auto|]. exists m'. split; [right|]; auto.
      * exists m. split; [left|]; auto.
      * destruct (IH t v) as [m' [Hm' Ha']]; [exists m; simpl; auto|]. exists m'. split; [right|]; auto.
Qed.

Lemma combine_members_widens : forall ms v,
  (exists m, In m ms /\ admits m v) -> exists m, In m (combine_members ms) /\ admits m v.
Proof.
  intros ms v. unfold combine_members.
  assert (G : forall ms acc, (exists m, In m (acc ++ ms) /\ admits m v) ->
                exists m, In m (fold_left combine_into ms acc) /\ admits m v).
  { induction ms0 as [|t ms0 IH]; intros acc [m [Hm Ha]]; simpl.
    - rewrite app_nil_r in Hm. exists m; auto.
    - apply IH. apply in_app_or in Hm. destruct Hm as [Hm|[->|Hm]].
      + destruct (combine_into_widens acc t v) as [m' [Hm' Ha']]; [exists m; simpl; auto|].
        exists m'. split; auto. apply in_or_app; auto.
      + destruct (combine_into_widens acc m v) as [m' [Hm' Ha']]; [exists m; simpl; auto|].
        exists m'. split; auto. apply in_or_app; auto.
      + exists m. split; auto. apply in_or_app; auto. }
  intros H. apply G. simpl. exact H.
Qed.

Lemma absorb_bool_widens : forall ms v,
  (exists m, In m ms /\ admits m v) -> exists m, In m (absorb_bool ms) /\ admits m v.
Proof.
  intros ms v [m [Hm Ha]]. unfold absorb_bool.
  destruct (existsb is_tint ms) eqn:E; [|exists m; auto].
  destruct (is_tbool m) eqn:EB.
  - apply existsb_exists in E as [i [Hi Ei]]. destruct i; try discriminate.
    exists TInt. split.
    + apply filter_In. split; auto.
    + destruct m; try discriminate. destruct v; simpl in *; tauto.
  - exists m. split; auto. apply filter_In. split; auto. rewrite EB. reflexivity.
Qed.

(* pytd/optimize.py (the modelled passes): a type is only ever widened *)
Lemma optimize_widens_lemma : forall n t v, admits t v -> admits (optimize n t) v.
Proof.
  induction n as [|n IH]; intros t v H; simpl; auto.
  destruct t; auto.
  - destruct v; try (simpl in H; tauto).
    change (Forall (admits (optimize n t)) vs). simpl in H. eapply Forall_impl; [|exact H]. auto.
  - destruct v; try (simpl in H; tauto).
    change (Forall (admits (optimize n t)) vs). simpl in H. eapply Forall_impl; [|exact H]. auto.
  - destruct v; try (simpl in H; tauto).
    change (Forall (admits (optimize n t1)) ks /\ Forall (admits (optimize n t2)) vs).
    simpl in H. destruct H as [H1 H2]. split; (eapply Forall_impl; [|eassumption]); auto.
  - destruct v; try (simpl in H; tauto).
    apply admits_tuple_iff. apply admits_tuple_iff in H.
    induction H; simpl; constructor; auto.
  - destruct v; try (simpl in H; tauto).
    change (Forall (admits (optimize n t)) vs). simpl in H. eapply Forall_impl; [|exact H]. auto.
  - (* union *)
    apply admits_union_iff in H as [t [Ht Ha]].
    destruct (tflat1_admits t v Ha) as [m [Hm Hma]].
    assert (H0 : exists m, In m (flat_map tflat1 ts) /\ admits m v).
    { exists m. split; auto. apply in_flat_map. exists t; auto. }
    set (ms := flat_map tflat1 ts) in *.
    assert (H1 : exists m, In m (if should_merge_tuples ms then map homogenise ms else ms) /\ admits m v).
    { destruct (should_merge_tuples ms); auto.
      destruct H0 as [m0 [Hm0 Ha0]]. exists (homogenise m0). split; [apply in_map; auto|].
      apply homogenise_widens; auto. }
    apply combine_members_widens in H1.
    assert (H3 : exists m, In m (map (optimize n)
                  (combine_members (if should_merge_tuples ms then map homogenise ms else ms))) /\ admits m v).
    { destruct H1 as [m1 [Hm1 Ha1]]. exists (optimize n m1). split; [apply in_map; auto|auto]. }
    apply absorb_bool_widens in H3.
    assert (H4 : admits (tjoin (absorb_bool (map (optimize n)
                  (combine_members (if should_merge_tuples ms then map homogenise ms else ms))))) v).
    { destruct H3 as [m3 [Hm3 Ha3]]. eapply tjoin_admits; eauto. }
    destruct (tjoin (absorb_bool (map (optimize n)
                  (combine_members (if should_merge_tuples ms then map homogenise ms else ms))))); auto.
    destruct (MAX_UNION <? length ts0); [exact I|auto].
Qed.

Lemma opt_widens : forall t v, admits t v -> admits (opt t) v.
Proof. intros. unfold opt. apply optimize_widens_lemma. auto. Qed.
