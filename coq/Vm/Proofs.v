(* C01 — soundness of the abstract interpreter (both modes) with respect to the concrete evaluator:
   every concrete run is simulated by one world of the abstract run. *)
From Coq Require Import List ZArith Arith Bool Lia.
From PV Require Import Vm.Model Vm.Lemmas Vm.TypesProofs.
Import ListNotations.
Open Scope nat_scope.

(* ---------------- induction principles for the nested syntax ---------------- *)
Section ExprInd.
  Variable P : expr -> Prop.
  Hypothesis HInt : forall z, P (EInt z).
  Hypothesis HFloat : forall k, P (EFloat k).
  Hypothesis HStr : forall k, P (EStr k).
  Hypothesis HBytes : forall k, P (EBytes k).
  Hypothesis HBool : forall b, P (EBool b).
  Hypothesis HNone : P ENone.
  Hypothesis HName : forall x, P (EName x).
  Hypothesis HList : forall es, Forall P es -> P (EList es).
  Hypothesis HTuple : forall es, Forall P es -> P (ETuple es).
  Hypothesis HSet : forall es, Forall P es -> P (ESet es).
  Hypothesis HDict : forall ks vs, Forall P ks -> Forall P vs -> P (EDict ks vs).
  Hypothesis HNot : forall e, P e -> P (ENot e).
  Hypothesis HIsNone : forall e, P e -> P (EIsNone e).
  Hypothesis HIsNotNone : forall e, P e -> P (EIsNotNone e).
  Hypothesis HIsInst : forall e c, P e -> P (EIsInst e c).
  Hypothesis HAnd : forall a b, P a -> P b -> P (EAnd a b).
  Hypothesis HOr : forall a b, P a -> P b -> P (EOr a b).
  Hypothesis HIf : forall c a b, P c -> P a -> P b -> P (EIf c a b).
  Hypothesis HCall : forall f es, Forall P es -> P (ECall f es).
  Hypothesis HSub : forall e i, P e -> P i -> P (ESub e i).

  Fixpoint expr_ind' (e : expr) : P e :=
    let fl := (fix fl (l : list expr) : Forall P l :=
                 match l with [] => Forall_nil _ | x :: l' => Forall_cons x (expr_ind' x) (fl l') end) in
    match e with
    | EInt z => HInt z | EFloat k => HFloat k | EStr k => HStr k | EBytes k => HBytes k
    | EBool b => HBool b | ENone => HNone | EName x => HName x
    | EList es => HList es (fl es) | ETuple es => HTuple es (fl es) | ESet es => HSet es (fl es)
    | EDict ks vs => HDict ks vs (fl ks) (fl vs)
    | ENot a => HNot a (expr_ind' a)
    | EIsNone a => HIsNone a (expr_ind' a)
    | EIsNotNone a => HIsNotNone a (expr_ind' a)
    | EIsInst a c => HIsInst a c (expr_ind' a)
    | EAnd a b => HAnd a b (expr_ind' a) (expr_ind' b)
    | EOr a b => HOr a b (expr_ind' a) (expr_ind' b)
    | EIf c a b => HIf c a b (expr_ind' c) (expr_ind' a) (expr_ind' b)
    | ECall f es => HCall f es (fl es)
    | ESub a i => HSub a i (expr_ind' a) (expr_ind' i)
    end.
End ExprInd.

Section StmtInd.
  Variable P : stmt -> Prop.
  Hypothesis HAssign : forall x e, P (SAssign x e).
  Hypothesis HIf : forall c th el, Forall P th -> Forall P el -> P (SIf c th el).
  Hypothesis HPass : P SPass.
  Hypothesis HReturn : forall e, P (SReturn e).

  Fixpoint stmt_ind' (s : stmt) : P s :=
    let fl := (fix fl (l : list stmt) : Forall P l :=
                 match l with [] => Forall_nil _ | x :: l' => Forall_cons x (stmt_ind' x) (fl l') end) in
    match s with
    | SAssign x e => HAssign x e
    | SIf c th el => HIf c th el (fl th) (fl el)
    | SPass => HPass
    | SReturn e => HReturn e
    end.
End StmtInd.

(* ---------------- the simulation relation ---------------- *)

Definition fmatch (s : store) (fr : frame) : Prop :=
  forall x v, slook s x = Some v -> exists a, flookup x fr = Some a /\ gamma a v.

Definition wmatch (locs : option (list name)) (st : cstate) (w : world) : Prop :=
  match locs with
  | None => exists fr, w = [fr] /\ fmatch (cg st) fr
  | Some _ => exists fr rest, w = fr :: rest /\ rest <> [] /\ fmatch (cl st) fr /\ fmatch (cg st) (last rest [])
  end.

Lemma fmatch_set : forall s fr x v a, fmatch s fr -> gamma a v -> fmatch (sset x v s) (fset x a fr).
Proof.
  intros s fr x v a HM HG y u HL. unfold sset in HL. simpl in HL.
  destruct (x =? y) eqn:E.
  - apply Nat.eqb_eq in E. subst y. inversion HL; subst. exists a. split; auto. apply flookup_fset_same.
  - apply Nat.eqb_neq in E. rewrite flookup_fset_other; auto.
Qed.

Lemma wmatch_globals : forall locs st w, wmatch locs st w -> w <> [] /\ fmatch (cg st) (last w []).
Proof.
  intros [L|] st w H; simpl in H.
  - destruct H as [fr [rest [-> [Hne [_ HG]]]]]. split; [discriminate|].
    destruct rest; [congruence|]. exact HG.
  - destruct H as [fr [-> HG]]. split; [discriminate|]. exact HG.
Qed.

Lemma rd_sim : forall locs st w x v,
  wmatch locs st w -> crd locs st x = Some v -> exists a, ard locs w x = Some a /\ gamma a v.
Proof.
  intros [L|] st w x v HW HR; simpl in HW, HR; unfold ard.
  - destruct HW as [fr [rest [-> [Hne [HL HG]]]]].
    destruct (memn x L).
    + simpl hd. apply HL; auto.
    + destruct (HG x v HR) as [a [Ha Hga]].
      assert (E : last (fr :: rest) [] = last rest []) by (destruct rest; [congruence|reflexivity]).
      rewrite E, Ha. simpl. eexists; split; eauto. apply discard_concrete_sound; auto.
  - destruct HW as [fr [-> HG]]. simpl hd. apply HG; auto.
Qed.

Lemma wmatch_assign : forall locs st w x v a,
  wmatch locs st w -> gamma a v ->
  wmatch locs (cassign locs st x v) (wassign w x a) /\ tl (wassign w x a) = tl w.
Proof.
  intros [L|] st w x v a HW HG; simpl in *.
  - destruct HW as [fr [rest [-> [Hne [HL HGl]]]]]. simpl. split; auto.
    exists (fset x a fr), rest. repeat split; auto. apply fmatch_set; auto.
  - destruct HW as [fr [-> HGl]]. simpl. split; auto.
    exists (fset x a fr). split; auto. apply fmatch_set; auto.
Qed.

(* ---------------- splitting ---------------- *)

Lemma asplit_true : forall lz pt pf R w a,
  In (w, a) R -> pt a = true -> In w (fst (asplit lz pt pf R)).
Proof.
  intros lz pt pf R w a HI HP. unfold asplit.
  assert (HT : In w (dedupw (map fst (filter (fun r => pt (snd r)) R)))).
  { apply dedupw_in. apply in_map_iff. exists (w, a). split; auto. apply filter_In. auto. }
  destruct lz; simpl; auto.
  destruct (dedupw (map fst (filter (fun r => pt (snd r)) R))) eqn:E; [destruct HT|]. simpl.
  apply dedupw_in. apply in_map_iff. exists (w, a); auto.
Qed.

Lemma asplit_false : forall lz pt pf R w a,
  In (w, a) R -> pf a = true -> In w (snd (asplit lz pt pf R)).
Proof.
  intros lz pt pf R w a HI HP. unfold asplit.
  assert (HT : In w (dedupw (map fst (filter (fun r => pf (snd r)) R)))).
  { apply dedupw_in. apply in_map_iff. exists (w, a). split; auto. apply filter_In. auto. }
  destruct lz; simpl; auto.
  destruct (dedupw (map fst (filter (fun r => pf (snd r)) R))) eqn:E; [destruct HT|]. simpl.
  apply dedupw_in. apply in_map_iff. exists (w, a); auto.
Qed.

Lemma aside_in : forall lz p R w a, In (w, a) R -> p a = true -> In (w, a) (aside lz p R).
Proof.
  intros lz p R w a HI HP. unfold aside. destruct lz.
  - assert (E : existsb (fun r => p (snd r)) R = true) by (apply existsb_exists; exists (w, a); auto).
    rewrite E. auto.
  - apply filter_In. auto.
Qed.

Lemma compat_truthy : forall a v, gamma a v ->
  if truthy v then compat a true = true else compat a false = true.
Proof. intros a v H. pose proof (compat_sound_lemma a v H) as C. destruct (truthy v); auto. Qed.

(* ---------------- small facts about the concrete containers ---------------- *)

Lemma set_add_in : forall vs acc x, In x (fold_left set_add vs acc) -> In x acc \/ In x vs.
Proof.
  induction vs as [|v vs IH]; intros acc x H; simpl in *; auto.
  apply IH in H. destruct H as [H|H]; auto.
  unfold set_add in H. destruct (existsb (veq v) acc); auto.
  apply in_app_or in H. destruct H as [H|[->|[]]]; auto.
Qed.

Lemma dict_add_keys : forall ks vs k v x, In x (fst (dict_add ks vs k v)) -> In x ks \/ x = k.
Proof.
  induction ks as [|k0 ks IH]; intros vs k v x H; simpl in *.
  - destruct H as [->|[]]; auto.
  - destruct vs as [|v0 vs]; simpl in H.
    + destruct H as [->|[]]; auto.
    + destruct (veq k k0); simpl in H.
      * destruct H; auto.
      * destruct (dict_add ks vs k v) as [ks2 vs2] eqn:E. simpl in H.
        destruct H as [->|H]; auto.
        specialize (IH vs k v x). rewrite E in IH. simpl in IH. destruct (IH H); auto.
Qed.

Lemma dict_add_vals : forall ks vs k v x, In x (snd (dict_add ks vs k v)) -> In x vs \/ x = v.
Proof.
  induction ks as [|k0 ks IH]; intros vs k v x H; simpl in *.
  - destruct H as [->|[]]; auto.
  - destruct vs as [|v0 vs]; simpl in H.
    + destruct H as [->|[]]; auto.
    + destruct (veq k k0); simpl in H.
      * destruct H as [->|H]; [right; reflexivity | left; right; exact H].
      * destruct (dict_add ks vs k v) as [ks2 vs2] eqn:E. simpl in H.
        destruct H as [->|H]; [left; left; reflexivity|].
        specialize (IH vs k v x). rewrite E in IH. simpl in IH.
        destruct (IH H) as [H1|H1]; [left; right; exact H1 | right; exact H1].
Qed.

Lemma dict_add_nonempty : forall ks vs k v, fst (dict_add ks vs k v) <> [].
Proof.
  intros [|k0 ks] vs k v; simpl; [discriminate|].
  destruct vs; simpl; [discriminate|].
  destruct (veq k k0); simpl; [discriminate|].
  destruct (dict_add ks vs k v); simpl; discriminate.
Qed.

Lemma mkdict_keys : forall kvs ks vs x, In x (fst (mkdict kvs ks vs)) -> In x ks \/ In x (map fst kvs).
Proof.
  induction kvs as [|[k v] kvs IH]; intros ks vs x H; simpl in *; auto.
  destruct (dict_add ks vs k v) as [ks2 vs2] eqn:E.
  apply IH in H. destruct H as [H|H]; auto.
  pose proof (dict_add_keys ks vs k v x) as D. rewrite E in D. simpl in D. destruct (D H); auto.
Qed.

Lemma mkdict_vals : forall kvs ks vs x, In x (snd (mkdict kvs ks vs)) -> In x vs \/ In x (map snd kvs).
Proof.
  induction kvs as [|[k v] kvs IH]; intros ks vs x H; simpl in *; auto.
  destruct (dict_add ks vs k v) as [ks2 vs2] eqn:E.
  apply IH in H. destruct H as [H|H]; auto.
  pose proof (dict_add_vals ks vs k v x) as D. rewrite E in D. simpl in D. destruct (D H); auto.
Qed.

Lemma mkdict_nonempty : forall kvs ks vs, (ks <> [] \/ kvs <> []) -> fst (mkdict kvs ks vs) <> [].
Proof.
  induction kvs as [|[k v] kvs IH]; intros ks vs H; simpl.
  - destruct H; auto.
  - destruct (dict_add ks vs k v) as [ks2 vs2] eqn:E. apply IH. left.
    pose proof (dict_add_nonempty ks vs k v) as D. rewrite E in D. exact D.
Qed.

Lemma forall2_in_r : forall {A B} (P : A -> B -> Prop) l1 l2 y,
  Forall2 P l1 l2 -> In y l2 -> exists x, In x l1 /\ P x y.
Proof.
  intros A B P l1 l2 y H. induction H; intros HI; [destruct HI|].
  destruct HI as [->|HI]; [exists x; simpl; auto|].
  destruct (IHForall2 HI) as [x' [Hx' HP]]. exists x'; simpl; auto.
Qed.

(* the i-th column of the argument rows contains the i-th binding of every row *)
Lemma columns_sound : forall rows avs vs,
  In avs rows -> Forall2 gamma avs vs -> Forall2 any_gamma (columns (length avs) rows) vs.
Proof.
  intros rows avs vs HI HF. unfold columns.
  assert (G : forall k pre suf vs', avs = pre ++ suf -> length pre = k -> Forall2 gamma suf vs' ->
              Forall2 any_gamma (map (column rows) (seq k (length suf))) vs').
  { intros k pre suf. revert k pre. induction suf as [|a suf IH]; intros k pre vs' E L F; inversion F; subst; simpl.
    - constructor.
    - constructor.
      + exists a. split; auto. unfold column. apply dedupa_in. apply in_flat_map. exists (pre ++ a :: suf).
        split; auto. rewrite nth_error_app2 by lia. rewrite Nat.sub_diag. simpl. auto.
      + apply (IH (S (length pre)) (pre ++ [a])); auto.
        * rewrite <- app_assoc. reflexivity.
        * rewrite app_length. simpl. lia. }
  apply (G 0 [] avs vs); auto.
Qed.

Lemma cevals_length : forall f es vs, cevals_with f es = Some vs -> length vs = length es.
Proof.
  intros f. induction es as [|e es IH]; intros vs H; simpl in H.
  - inversion H; auto.
  - destruct (f e); simpl in H; [|discriminate].
    destruct (cevals_with f es) eqn:E; simpl in H; [|discriminate]. inversion H; subst. simpl. f_equal. auto.
Qed.

Lemma Forall2_length : forall {A B} (P : A -> B -> Prop) l1 l2, Forall2 P l1 l2 -> length l1 = length l2.
Proof. intros A B P l1 l2 H. induction H; simpl; auto. Qed.

Lemma gamma_bool_neg : forall o b, gamma (ABool o) (VBool b) -> gamma (ABool (option_map negb o)) (VBool (negb b)).
Proof. intros [x|] b H; simpl in *; eauto. inversion H; subst; auto. Qed.

(* ---------------- subscripts ---------------- *)

Lemma forall2_nth : forall {A B} (P : A -> B -> Prop) l1 l2 k y,
  Forall2 P l1 l2 -> nth_error l2 k = Some y -> exists x, nth_error l1 k = Some x /\ P x y.
Proof.
  intros A B P l1 l2 k y H. revert k. induction H; intros k HN.
  - destruct k; discriminate.
  - destruct k; simpl in *.
    + inversion HN; subst. eauto.
    + auto.
Qed.

Lemma idx_of_sound : forall ai vi z, gamma ai vi -> idx_of ai = Some z -> idx_val vi = Some z.
Proof.
  intros ai vi z HG HI. destruct ai as [[c|]| |k|c|[b|]| | | | | |]; simpl in HI; try discriminate.
  - inversion HI; subst. simpl in HG. subst. reflexivity.
  - inversion HI; subst. simpl in HG. subst. reflexivity.
Qed.

Lemma in_concat_nth : forall {A} (ll : list (list A)) k l x, nth_error ll k = Some l -> In x l -> In x (concat ll).
Proof.
  intros A ll. induction ll as [|l0 ll IH]; intros k l x HN HI.
  - destruct k; discriminate.
  - simpl. apply in_or_app. destruct k; simpl in HN.
    + inversion HN; subst. auto.
    + right. eapply IH; eauto.
Qed.

(* the element selected at run time is described by one of the bindings the abstract subscript returns *)
Lemma seq_sub_sound : forall el xs ai vi r,
  Forall2 any_gamma el xs -> gamma ai vi ->
  match idx_val vi with
  | Some z => match norm_idx z (length xs) with Some k => nth_error xs k | None => None end
  | None => None
  end = Some r ->
  (forall bs, match idx_of ai with
              | Some z => match norm_idx z (length el) with Some k => nth_error el k | None => None end
              | None => None
              end = Some bs -> any_gamma bs r)
  /\ any_gamma (dedupa (concat el)) r.
Proof.
  intros el xs ai vi r HF HG HC.
  destruct (idx_val vi) as [z|] eqn:EV; [|discriminate].
  destruct (norm_idx z (length xs)) as [k|] eqn:EK; [|discriminate].
  destruct (forall2_nth _ _ _ _ _ HF HC) as [bs0 [HN [b [Hb Hgb]]]].
  assert (EL : length el = length xs) by (eapply Forall2_length; eauto).
  split.
  - intros bs HB. destruct (idx_of ai) as [z'|] eqn:EI; [|discriminate].
    pose proof (idx_of_sound _ _ _ HG EI) as E2. rewrite EV in E2. inversion E2; subst z'.
    rewrite EL, EK, HN in HB. inversion HB; subst. exists b; auto.
  - exists b. split; auto. apply dedupa_in. eapply in_concat_nth; eauto.
Qed.

Lemma asub_sound : forall lz idxs a ai v vi r,
  gamma a v -> gamma ai vi -> csub v vi = Some r -> any_gamma (asub lz idxs a ai) r.
Proof.
  intros lz idxs a ai v vi r HA HG HC. unfold csub in HC.
  destruct a as [c| |k|c|c| |el|el|bs|kd ks vs|].
  - destruct c; simpl in HA; [subst|destruct HA as [? ->]]; discriminate.
  - simpl in HA. destruct HA as [? ->]. discriminate.
  - simpl in HA. subst. discriminate.
  - destruct c; simpl in HA; [subst|destruct HA as [? ->]]; discriminate.
  - destruct c; simpl in HA; [subst|destruct HA as [? ->]]; discriminate.
  - simpl in HA. subst. discriminate.
  - destruct (gamma_list_inv _ _ HA) as [xs [-> HF]]. simpl seq_items in HC. cbv iota in HC.
    destruct (seq_sub_sound el xs ai vi r HF HG HC) as [S1 S2].
    unfold asub.
    destruct (lz && negb (forallb (fun j => is_some (sub_resolved (AList el) j)) idxs)); [exact S2|].
    destruct (sub_resolved (AList el) ai) as [bs|] eqn:ER; [|exact S2].
    apply S1. exact ER.
  - destruct (gamma_tuple_inv _ _ HA) as [xs [-> HF]]. simpl seq_items in HC. cbv iota in HC.
    destruct (seq_sub_sound el xs ai vi r HF HG HC) as [S1 S2].
    unfold asub.
    assert (ANY : any_gamma [AAny] r) by (exists AAny; simpl; auto).
    destruct lz.
    + destruct idxs as [|j [|j2 idxs]]; try exact ANY.
      destruct (sub_resolved (ATuple el) ai) as [bs|] eqn:ER; [|exact ANY]. apply S1. exact ER.
    + destruct (sub_resolved (ATuple el) ai) as [bs|] eqn:ER; [|exact S2]. apply S1. exact ER.
  - destruct (gamma_set_inv _ _ HA) as [xs [-> _]]. discriminate.
  - destruct v; simpl in HA; try tauto; discriminate.
  - exists AAny. simpl. auto.
Qed.

(* Python's index normalisation: the totalised [norm_idx] answers exactly on the in-range indices *)
Lemma norm_idx_spec : forall z n k,
  norm_idx z n = Some k <->
  ((0 <= z < Z.of_nat n)%Z /\ Z.of_nat k = z) \/ ((- Z.of_nat n <= z < 0)%Z /\ Z.of_nat k = (z + Z.of_nat n)%Z).
Proof.
  intros z n k. unfold norm_idx.
  destruct (0 <=? z)%Z eqn:E1; destruct (z <? Z.of_nat n)%Z eqn:E2; simpl;
    try apply Z.leb_le in E1; try apply Z.leb_gt in E1; try apply Z.ltb_lt in E2; try apply Z.ltb_ge in E2.
  - split.
    + intros H. inversion H; subst. left. split; [lia|]. apply Z2Nat.id; lia.
    + intros [[_ H]|[H _]]; [|lia]. f_equal. rewrite <- H. apply Nat2Z.id.
  - assert (X : (z <? 0)%Z = false) by (apply Z.ltb_ge; lia). rewrite X. simpl.
    split; [discriminate|]. intros [[H _]|[H _]]; lia.
  - assert (X : (z <? 0)%Z = true) by (apply Z.ltb_lt; lia). rewrite X. simpl.
    destruct (- Z.of_nat n <=? z)%Z eqn:E3; [apply Z.leb_le in E3|apply Z.leb_gt in E3].
    + split.
      * intros H. inversion H; subst. right. split; [lia|]. apply Z2Nat.id; lia.
      * intros [[H _]|[_ H]]; [lia|]. f_equal. rewrite <- H. apply Nat2Z.id.
    + split; [discriminate|]. intros [[H _]|[H _]]; lia.
  - lia.
Qed.

(* a subscript that completes selected an element that exists: no answer comes from a default *)
Lemma csub_in_range : forall v i r, csub v i = Some r ->
  exists xs z k, seq_items v = Some xs /\ idx_val i = Some z /\ norm_idx z (length xs) = Some k /\
                 k < length xs /\ nth_error xs k = Some r.
Proof.
  intros v i r H. unfold csub in H.
  destruct (seq_items v) as [xs|] eqn:E1; [|discriminate].
  destruct (idx_val i) as [z|] eqn:E2; [|discriminate].
  destruct (norm_idx z (length xs)) as [k|] eqn:E3; [|discriminate].
  exists xs, z, k. repeat split; auto. apply nth_error_Some. congruence.
Qed.

(* ---------------- expressions ---------------- *)

Definition call_sim (ccall : ftable -> store -> fname -> list value -> option value)
                    (acall : ftable -> fname -> list (world * list aval) -> list (world * aval)) : Prop :=
  forall ft g f vs v, ccall ft g f vs = Some v ->
  forall R w avs, In (w, avs) R -> Forall2 gamma avs vs -> w <> [] -> fmatch g (last w []) ->
  exists a, In (w, a) (acall ft f R) /\ gamma a v.

Section Sim.
  Variable lz : bool.
  Variable ccall : ftable -> store -> fname -> list value -> option value.
  Variable acall : ftable -> fname -> list (world * list aval) -> list (world * aval).
  Variable ft : ftable.
  Hypothesis Hcall : call_sim ccall acall.

  Definition expr_sim_at (e : expr) : Prop :=
    forall locs st v W w,
      ceval_expr ccall ft locs st e = Some v -> In w W -> wmatch locs st w ->
      exists a, In (w, a) (aexpr lz acall ft locs W e) /\ gamma a v.

  Definition cond_sim_at (c : expr) : Prop :=
    forall locs st v W w,
      ceval_expr ccall ft locs st c = Some v -> In w W -> wmatch locs st w ->
      In w (if truthy v then fst (acond lz acall ft locs W c) else snd (acond lz acall ft locs W c)).

  Lemma args_sim : forall es, Forall expr_sim_at es ->
    forall locs st vs W w,
      cevals ccall ft locs st es = Some vs -> In w W -> wmatch locs st w ->
      exists avs, In (w, avs) (aargs lz acall ft locs W es) /\ Forall2 gamma avs vs.
  Proof.
    induction es as [|e es IH]; intros HF locs st vs W w HE HI HW.
    - simpl in HE. inversion HE; subst. exists []. split; [|constructor].
      simpl. apply in_map_iff. exists w; auto.
    - inversion HF as [|? ? He Hes]; subst.
      unfold cevals in HE. simpl in HE.
      destruct (ceval_expr ccall ft locs st e) as [v|] eqn:Ev; simpl in HE; [|discriminate].
      destruct (cevals_with (fun e1 => ceval_expr ccall ft locs st e1) es) as [vs'|] eqn:Evs; simpl in HE; [|discriminate].
      inversion HE; subst.
      destruct (He locs st v W w Ev HI HW) as [a [Ha Hg]].
      assert (HI' : In w (dedupw (map fst (aexpr lz acall ft locs W e)))).
      { apply dedupw_in. apply in_map_iff. exists (w, a); auto. }
      destruct (IH Hes locs st vs' _ w Evs HI' HW) as [avs [Havs HF2]].
      exists (a :: avs). split; [|constructor; auto].
      change (aargs lz acall ft locs W (e :: es))
        with (join_rows (aexpr lz acall ft locs W e)
                (aargs lz acall ft locs (dedupw (map fst (aexpr lz acall ft locs W e))) es)).
      unfold join_rows. apply in_flat_map. exists (w, a). split; auto.
      apply in_flat_map. exists (w, avs). split; auto. simpl. rewrite world_eqb_refl. left; auto.
  Qed.

  Lemma acond_unfold : forall locs W c,
    acond lz acall ft locs W c =
    match lit_truth c with
    | Some true => (W, [])
    | Some false => ([], W)
    | None =>
        match c with
        | ENot c' => let (t, f') := acond lz acall ft locs W c' in (f', t)
        | EAnd a b => let (t1, f1) := acond lz acall ft locs W a in
                      let (t2, f2) := acond lz acall ft locs t1 b in (t2, dedupw (f1 ++ f2))
        | EOr a b => let (t1, f1) := acond lz acall ft locs W a in
                     let (t2, f2) := acond lz acall ft locs f1 b in (dedupw (t1 ++ t2), f2)
        | EIf c0 a b => let (tc, fc) := acond lz acall ft locs W c0 in
                        let (t1, f1) := acond lz acall ft locs tc a in
                        let (t2, f2) := acond lz acall ft locs fc b in (dedupw (t1 ++ t2), dedupw (f1 ++ f2))
        | EIsNone e => asplit lz compat_none compat_notnone (aexpr lz acall ft locs W e)
        | EIsNotNone e => asplit lz compat_notnone compat_none (aexpr lz acall ft locs W e)
        | _ => asplit lz (fun a => compat a true) (fun a => compat a false) (aexpr lz acall ft locs W c)
        end
    end.
  Proof. intros locs W c. destruct c; reflexivity. Qed.

  (* a test whose value is computed and then split on truthiness *)
  Lemma cond_default : forall c, expr_sim_at c ->
    forall locs st v W w,
      ceval_expr ccall ft locs st c = Some v -> In w W -> wmatch locs st w ->
      In w (if truthy v
            then fst (asplit lz (fun a => compat a true) (fun a => compat a false) (aexpr lz acall ft locs W c))
            else snd (asplit lz (fun a => compat a true) (fun a => compat a false) (aexpr lz acall ft locs W c))).
  Proof.
    intros c He locs st v W w HE HI HW.
    destruct (He locs st v W w HE HI HW) as [a [Ha Hg]].
    pose proof (compat_truthy a v Hg) as C.
    destruct (truthy v).
    - eapply asplit_true; eauto.
    - eapply asplit_false; eauto.
  Qed.

  Lemma cond_lit : forall c b locs st v W w,
    lit_truth c = Some b -> ceval_expr ccall ft locs st c = Some v -> In w W ->
    In w (if truthy v then fst (if b then (W, []) else ([], W)) else snd (if b then (W, @nil world) else ([], W))).
  Proof.
    intros c b locs st v W w HL HE HI.
    rewrite (lit_truth_sound _ _ _ _ _ _ _ HL HE). destruct b; simpl; auto.
  Qed.

  Lemma sim_both : forall e, expr_sim_at e /\ cond_sim_at e.
  Proof.
    induction e using expr_ind'.
    (* ---- literals ---- *)
    - split.
      + intros locs st v W w HE HI HW. simpl in HE. inversion HE; subst.
        exists (a_int z). split; [|apply a_int_sound]. simpl. apply in_map_iff. exists w; auto.
      + intros locs st v W w HE HI HW. rewrite acond_unfold.
        assert (HL : lit_truth (EInt z) = Some (negb (z =? 0)%Z)) by reflexivity.
        rewrite HL. pose proof (cond_lit _ _ _ _ _ _ _ HL HE HI) as X. destruct (negb (z =? 0)%Z); exact X.
    - split.
      + intros locs st v W w HE HI HW. simpl in HE. inversion HE; subst.
        exists AFloat. split; [|simpl; eauto]. simpl. apply in_map_iff. exists w; auto.
      + intros locs st v W w HE HI HW. rewrite acond_unfold.
        assert (HL : lit_truth (EFloat k) = Some (negb (k =? 0)%Z)) by reflexivity.
        rewrite HL. pose proof (cond_lit _ _ _ _ _ _ _ HL HE HI) as X. destruct (negb (k =? 0)%Z); exact X.
    - split.
      + intros locs st v W w HE HI HW. simpl in HE. inversion HE; subst.
        exists (AStr k). split; [|simpl; eauto]. simpl. apply in_map_iff. exists w; auto.
      + intros locs st v W w HE HI HW. rewrite acond_unfold.
        assert (HL : lit_truth (EStr k) = Some (negb (k =? 0))) by reflexivity.
        rewrite HL. pose proof (cond_lit _ _ _ _ _ _ _ HL HE HI) as X. destruct (negb (k =? 0)); exact X.
    - split.
      + intros locs st v W w HE HI HW. simpl in HE. inversion HE; subst.
        exists (ABytes (Some k)). split; [|simpl; eauto]. simpl. apply in_map_iff. exists w; auto.
      + intros locs st v W w HE HI HW. rewrite acond_unfold.
        assert (HL : lit_truth (EBytes k) = Some (negb (k =? 0))) by reflexivity.
        rewrite HL. pose proof (cond_lit _ _ _ _ _ _ _ HL HE HI) as X. destruct (negb (k =? 0)); exact X.
    - split.
      + intros locs st v W w HE HI HW. simpl in HE. inversion HE; subst.
        exists (ABool (Some b)). split; [|simpl; eauto]. simpl. apply in_map_iff. exists w; auto.
      + intros locs st v W w HE HI HW. rewrite acond_unfold.
        assert (HL : lit_truth (EBool b) = Some b) by reflexivity.
        rewrite HL. pose proof (cond_lit _ _ _ _ _ _ _ HL HE HI) as X. destruct b; exact X.
    - split.
      + intros locs st v W w HE HI HW. simpl in HE. inversion HE; subst.
        exists ANone. split; [|simpl; eauto]. simpl. apply in_map_iff. exists w; auto.
      + intros locs st v W w HE HI HW. rewrite acond_unfold.
        assert (HL : lit_truth ENone = Some false) by reflexivity.
        rewrite HL. pose proof (cond_lit _ _ _ _ _ _ _ HL HE HI) as X. exact X.
    (* ---- names ---- *)
    - assert (HX : expr_sim_at (EName x)).
      { intros locs st v W w HE HI HW. simpl in HE.
        destruct (rd_sim _ _ _ _ _ HW HE) as [a [Ha Hg]]. exists a. split; auto.
        simpl. apply in_flat_map. exists w. split; auto. rewrite Ha. left; auto. }
      split; auto.
      intros locs st v W w HE HI HW. rewrite acond_unfold. simpl lit_truth. cbv iota.
      eapply cond_default; eauto.
    (* ---- list display ---- *)
    - assert (HX : expr_sim_at (EList es)).
      { intros locs st v W w HE HI HW.
        assert (HF : Forall expr_sim_at es) by (eapply Forall_impl; [|exact H]; intros a [Ha _]; exact Ha).
        change (ceval_expr ccall ft locs st (EList es))
          with (obind (cevals ccall ft locs st es) (fun vs => Some (VList vs))) in HE.
        destruct (cevals ccall ft locs st es) as [vs|] eqn:Evs; simpl in HE; [|discriminate]. inversion HE; subst.
        destruct (args_sim es HF locs st vs W w Evs HI HW) as [avs [Havs HF2]].
        change (aexpr lz acall ft locs W (EList es))
          with (map (fun w0 => (w0, AList (columns (length es) (map snd (aargs lz acall ft locs W es)))))
                    (dedupw (map fst (aargs lz acall ft locs W es)))).
        eexists. split.
        - apply in_map_iff. exists w. split; [reflexivity|]. apply dedupw_in. apply in_map_iff.
          exists (w, avs); auto.
        - apply gamma_list_iff.
          assert (EL : length es = length avs).
          { apply cevals_length in Evs. apply Forall2_length in HF2. lia. }
          rewrite EL. apply columns_sound; auto. apply in_map_iff. exists (w, avs); auto. }
      split; auto.
      intros locs st v W w HE HI HW. rewrite acond_unfold. simpl lit_truth. cbv iota.
      eapply cond_default; eauto.
    (* ---- tuple display ---- *)
    - assert (HX : expr_sim_at (ETuple es)).
      { intros locs st v W w HE HI HW.
        assert (HF : Forall expr_sim_at es) by (eapply Forall_impl; [|exact H]; intros a [Ha _]; exact Ha).
        change (ceval_expr ccall ft locs st (ETuple es))
          with (obind (cevals ccall ft locs st es) (fun vs => Some (VTuple vs))) in HE.
        destruct (cevals ccall ft locs st es) as [vs|] eqn:Evs; simpl in HE; [|discriminate]. inversion HE; subst.
        destruct (args_sim es HF locs st vs W w Evs HI HW) as [avs [Havs HF2]].
        change (aexpr lz acall ft locs W (ETuple es))
          with (map (fun w0 => (w0, ATuple (columns (length es) (map snd (aargs lz acall ft locs W es)))))
                    (dedupw (map fst (aargs lz acall ft locs W es)))).
        eexists. split.
        - apply in_map_iff. exists w. split; [reflexivity|]. apply dedupw_in. apply in_map_iff.
          exists (w, avs); auto.
        - apply gamma_tuple_iff.
          assert (EL : length es = length avs).
          { apply cevals_length in Evs. apply Forall2_length in HF2. lia. }
          rewrite EL. apply columns_sound; auto. apply in_map_iff. exists (w, avs); auto. }
      split; auto.
      intros locs st v W w HE HI HW. rewrite acond_unfold.
      destruct (lit_truth (ETuple es)) as [[|]|] eqn:HL.
      + pose proof (cond_lit _ _ _ _ _ _ _ HL HE HI) as X. exact X.
      + pose proof (cond_lit _ _ _ _ _ _ _ HL HE HI) as X. exact X.
      + eapply cond_default; eauto.
    (* ---- set display ---- *)
    - assert (HX : expr_sim_at (ESet es)).
      { intros locs st v W w HE HI HW.
        assert (HF : Forall expr_sim_at es) by (eapply Forall_impl; [|exact H]; intros a [Ha _]; exact Ha).
        change (ceval_expr ccall ft locs st (ESet es))
          with (obind (cevals ccall ft locs st es) (fun vs =>
                   if forallb hashable vs then Some (VSet (fold_left set_add vs [])) else None)) in HE.
        destruct (cevals ccall ft locs st es) as [vs|] eqn:Evs; simpl in HE; [|discriminate].
        destruct (forallb hashable vs); [|discriminate]. inversion HE; subst.
        destruct (args_sim es HF locs st vs W w Evs HI HW) as [avs [Havs HF2]].
        change (aexpr lz acall ft locs W (ESet es))
          with (map (fun w0 => (w0, ASet (dedupa (flat_map snd (aargs lz acall ft locs W es)))))
                    (dedupw (map fst (aargs lz acall ft locs W es)))).
        eexists. split.
        - apply in_map_iff. exists w. split; [reflexivity|]. apply dedupw_in. apply in_map_iff.
          exists (w, avs); auto.
        - apply gamma_set_iff. apply Forall_forall. intros x Hx.
          apply set_add_in in Hx. destruct Hx as [[]|Hx].
          destruct (forall2_in_r _ _ _ _ HF2 Hx) as [a [Ha Hg]].
          exists a. split; auto. apply dedupa_in. apply in_flat_map. exists (w, avs); auto. }
      split; auto.
      intros locs st v W w HE HI HW. rewrite acond_unfold. simpl lit_truth. cbv iota.
      eapply cond_default; eauto.
    (* ---- dict display ---- *)
    - assert (HX : expr_sim_at (EDict ks vs)).
      { intros locs st v W w HE HI HW.
        assert (HFk : Forall expr_sim_at ks) by (eapply Forall_impl; [|exact H]; intros a [Ha _]; exact Ha).
        assert (HFv : Forall expr_sim_at vs) by (eapply Forall_impl; [|exact H0]; intros a [Ha _]; exact Ha).
        change (ceval_expr ccall ft locs st (EDict ks vs))
          with (obind (cevals ccall ft locs st ks) (fun kvs => obind (cevals ccall ft locs st vs) (fun vvs =>
                   if forallb hashable kvs
                   then let (dk, dv) := mkdict (combine kvs vvs) [] [] in Some (VDict dk dv) else None))) in HE.
        destruct (cevals ccall ft locs st ks) as [kvs|] eqn:Eks; simpl in HE; [|discriminate].
        destruct (cevals ccall ft locs st vs) as [vvs|] eqn:Evs; simpl in HE; [|discriminate].
        destruct (forallb hashable kvs); [|discriminate].
        destruct (mkdict (combine kvs vvs) [] []) as [dk dv] eqn:ED. inversion HE; subst.
        destruct (args_sim ks HFk locs st kvs W w Eks HI HW) as [aks [Haks HF2k]].
        assert (HI' : In w (dedupw (map fst (aargs lz acall ft locs W ks)))).
        { apply dedupw_in. apply in_map_iff. exists (w, aks); auto. }
        destruct (args_sim vs HFv locs st vvs _ w Evs HI' HW) as [avs [Havs HF2v]].
        set (Rk := aargs lz acall ft locs W ks) in *.
        set (Rv := aargs lz acall ft locs (dedupw (map fst Rk)) vs) in *.
        change (aexpr lz acall ft locs W (EDict ks vs))
          with (map (fun w0 => (w0, ADict (if is_nil ks || is_nil vs then DEmpty
                                           else if forallb is_astr (dedupa (flat_map snd Rk)) then DStr else DAmb)
                                          (dedupa (flat_map snd Rk)) (dedupa (flat_map snd Rv))))
                    (dedupw (map fst Rv))).
        eexists. split.
        - apply in_map_iff. exists w. split; [reflexivity|]. apply dedupw_in. apply in_map_iff.
          exists (w, avs); auto.
        - apply gamma_dict_iff. repeat split.
          + apply Forall_forall. intros x Hx.
            pose proof (mkdict_keys (combine kvs vvs) [] [] x) as MK. rewrite ED in MK. simpl in MK.
            destruct (MK Hx) as [[]|Hk]. apply in_map_iff in Hk as [[k0 v0] [<- Hkv]]. simpl.
            apply in_combine_l in Hkv.
            destruct (forall2_in_r _ _ _ _ HF2k Hkv) as [a [Ha Hg]].
            exists a. split; auto. apply dedupa_in. apply in_flat_map. exists (w, aks); auto.
          + apply Forall_forall. intros x Hx.
            pose proof (mkdict_vals (combine kvs vvs) [] [] x) as MV. rewrite ED in MV. simpl in MV.
            destruct (MV Hx) as [[]|Hv]. apply in_map_iff in Hv as [[k0 v0] [<- Hkv]]. simpl.
            apply in_combine_r in Hkv.
            destruct (forall2_in_r _ _ _ _ HF2v Hkv) as [a [Ha Hg]].
            exists a. split; auto. apply dedupa_in. apply in_flat_map. exists (w, avs); auto.
          + assert (Lk : length kvs = length ks) by (eapply cevals_length; eauto).
            assert (Lv : length vvs = length vs) by (eapply cevals_length; eauto).
            destruct ks as [|k1 ks']; simpl.
            * destruct kvs; [|discriminate]. simpl in ED. inversion ED; auto.
            * destruct vs as [|v1 vs']; simpl.
              -- destruct vvs; [|discriminate]. destruct kvs; simpl in ED; inversion ED; auto.
              -- destruct (forallb is_astr (dedupa (flat_map snd Rk))); auto.
                 destruct kvs as [|kk kvs]; [discriminate|]. destruct vvs as [|vv vvs]; [discriminate|].
                 pose proof (mkdict_nonempty (combine (kk :: kvs) (vv :: vvs)) [] []) as NE.
                 rewrite ED in NE. simpl in NE. apply NE. right. discriminate. }
      split; auto.
      intros locs st v W w HE HI HW. rewrite acond_unfold. simpl lit_truth. cbv iota.
      eapply cond_default; eauto.
    (* ---- not ---- *)
    - destruct IHe as [IHx IHc].
      assert (HX : expr_sim_at (ENot e)).
      { intros locs st v W w HE HI HW. simpl in HE.
        destruct (ceval_expr ccall ft locs st e) as [v'|] eqn:Ev; simpl in HE; [|discriminate]. inversion HE; subst.
        change (aexpr lz acall ft locs W (ENot e)) with
          (match lit_truth e with
           | Some b => map (fun w0 => (w0, ABool (Some (negb b)))) W
           | None =>
               let R := aexpr lz acall ft locs W e in
               if forallb (fun r => compat (snd r) true && compat (snd r) false) R
               then dedupr (map (fun r => (fst r, ABool None)) R)
               else dedupr (flat_map (fun r => (if compat (snd r) true then [(fst r, ABool (Some false))] else [])
                                            ++ (if compat (snd r) false then [(fst r, ABool (Some true))] else [])) R)
           end).
        destruct (lit_truth e) as [b|] eqn:HL.
        - rewrite (lit_truth_sound _ _ _ _ _ _ _ HL Ev). eexists. split.
          + apply in_map_iff. exists w. split; [reflexivity|auto].
          + reflexivity.
        - destruct (IHx locs st v' W w Ev HI HW) as [a [Ha Hg]]. cbv zeta.
          destruct (forallb (fun r => compat (snd r) true && compat (snd r) false) (aexpr lz acall ft locs W e)).
          + exists (ABool None). split; [|simpl; eauto].
            apply dedupr_in. apply in_map_iff. exists (w, a). auto.
          + pose proof (compat_truthy a v' Hg) as C. destruct (truthy v') eqn:T.
            * exists (ABool (Some false)). split; [|reflexivity].
              apply dedupr_in. apply in_flat_map. exists (w, a). split; auto. simpl. rewrite C. simpl. auto.
            * exists (ABool (Some true)). split; [|reflexivity].
              apply dedupr_in. apply in_flat_map. exists (w, a). split; auto. simpl. rewrite C.
              apply in_or_app. right. simpl. auto. }
      split; auto.
      intros locs st v W w HE HI HW. rewrite acond_unfold.
      destruct (lit_truth (ENot e)) as [[|]|] eqn:HL.
      + pose proof (cond_lit _ _ _ _ _ _ _ HL HE HI) as X. exact X.
      + pose proof (cond_lit _ _ _ _ _ _ _ HL HE HI) as X. exact X.
      + simpl in HE. destruct (ceval_expr ccall ft locs st e) as [v'|] eqn:Ev; simpl in HE; [|discriminate].
        inversion HE; subst. simpl truthy.
        specialize (IHc locs st v' W w Ev HI HW).
        destruct (acond lz acall ft locs W e) as [t f']. simpl in *.
        destruct (truthy v'); simpl; auto.
    (* ---- is None ---- *)
    - destruct IHe as [IHx IHc].
      assert (HX : expr_sim_at (EIsNone e)).
      { intros locs st v W w HE HI HW. simpl in HE.
        destruct (ceval_expr ccall ft locs st e) as [v'|] eqn:Ev; simpl in HE; [|discriminate]. inversion HE; subst.
        destruct (IHx locs st v' W w Ev HI HW) as [a [Ha Hg]].
        exists (ABool (a_isnone a)). split.
        - change (aexpr lz acall ft locs W (EIsNone e))
            with (dedupr (map (fun r => (fst r, ABool (a_isnone (snd r)))) (aexpr lz acall ft locs W e))).
          apply dedupr_in. apply in_map_iff. exists (w, a); auto.
        - pose proof (a_isnone_sound_lemma a v' Hg) as S. destruct v'; exact S. }
      split; auto.
      intros locs st v W w HE HI HW. rewrite acond_unfold. simpl lit_truth. cbv iota.
      simpl in HE. destruct (ceval_expr ccall ft locs st e) as [v'|] eqn:Ev; simpl in HE; [|discriminate].
      inversion HE; subst.
      destruct (IHx locs st v' W w Ev HI HW) as [a [Ha Hg]].
      pose proof (compat_none_sound_lemma a v' Hg) as C.
      destruct v'; simpl in *; try (eapply asplit_false; eauto); eapply asplit_true; eauto.
    (* ---- is not None ---- *)
    - destruct IHe as [IHx IHc].
      assert (HX : expr_sim_at (EIsNotNone e)).
      { intros locs st v W w HE HI HW. simpl in HE.
        destruct (ceval_expr ccall ft locs st e) as [v'|] eqn:Ev; simpl in HE; [|discriminate]. inversion HE; subst.
        destruct (IHx locs st v' W w Ev HI HW) as [a [Ha Hg]].
        exists (ABool (option_map negb (a_isnone a))). split.
        - change (aexpr lz acall ft locs W (EIsNotNone e))
            with (dedupr (map (fun r => (fst r, ABool (option_map negb (a_isnone (snd r)))))
                              (aexpr lz acall ft locs W e))).
          apply dedupr_in. apply in_map_iff. exists (w, a); auto.
        - pose proof (gamma_bool_neg _ _ (a_isnone_sound_lemma a v' Hg)) as S. destruct v'; exact S. }
      split; auto.
      intros locs st v W w HE HI HW. rewrite acond_unfold. simpl lit_truth. cbv iota.
      simpl in HE. destruct (ceval_expr ccall ft locs st e) as [v'|] eqn:Ev; simpl in HE; [|discriminate].
      inversion HE; subst.
      destruct (IHx locs st v' W w Ev HI HW) as [a [Ha Hg]].
      pose proof (compat_none_sound_lemma a v' Hg) as C.
      destruct v'; simpl in *; try (eapply asplit_true; eauto); eapply asplit_false; eauto.
    (* ---- isinstance ---- *)
    - destruct IHe as [IHx IHc].
      assert (HX : expr_sim_at (EIsInst e c)).
      { intros locs st v W w HE HI HW. simpl in HE.
        destruct (ceval_expr ccall ft locs st e) as [v'|] eqn:Ev; simpl in HE; [|discriminate]. inversion HE; subst.
        destruct (IHx locs st v' W w Ev HI HW) as [a [Ha Hg]].
        exists (ABool (a_isinst a c)). split.
        - change (aexpr lz acall ft locs W (EIsInst e c))
            with (dedupr (map (fun r => (fst r, ABool (a_isinst (snd r) c))) (aexpr lz acall ft locs W e))).
          apply dedupr_in. apply in_map_iff. exists (w, a); auto.
        - apply a_isinst_sound_lemma; auto. }
      split; auto.
      intros locs st v W w HE HI HW. rewrite acond_unfold. simpl lit_truth. cbv iota.
      eapply cond_default; eauto.
    (* ---- and ---- *)
    - destruct IHe1 as [IHx1 IHc1]. destruct IHe2 as [IHx2 IHc2].
      assert (HX : expr_sim_at (EAnd e1 e2)).
      { intros locs st v W w HE HI HW. simpl in HE.
        destruct (ceval_expr ccall ft locs st e1) as [va|] eqn:Ea; simpl in HE; [|discriminate].
        change (aexpr lz acall ft locs W (EAnd e1 e2)) with
          (match lit_truth e1 with
           | Some true => aexpr lz acall ft locs W e2
           | Some false => aexpr lz acall ft locs W e1
           | None => let R := aexpr lz acall ft locs W e1 in
                     let (tw, _) := asplit lz (fun x => compat x true) (fun x => compat x false) R in
                     dedupr (aside lz (fun x => compat x false) R ++ aexpr lz acall ft locs tw e2)
           end).
        destruct (lit_truth e1) as [[|]|] eqn:HL.
        - rewrite (lit_truth_sound _ _ _ _ _ _ _ HL Ea) in HE. eapply IHx2; eauto.
        - rewrite (lit_truth_sound _ _ _ _ _ _ _ HL Ea) in HE. inversion HE; subst. eapply IHx1; eauto.
        - destruct (IHx1 locs st va W w Ea HI HW) as [a [Ha Hg]]. cbv zeta.
          pose proof (compat_truthy a va Hg) as C.
          pose proof (asplit_true lz (fun x => compat x true) (fun x => compat x false) _ w a Ha) as ST.
          destruct (asplit lz (fun x => compat x true) (fun x => compat x false) (aexpr lz acall ft locs W e1))
            as [tw fw]. simpl in ST.
          destruct (truthy va).
          + destruct (IHx2 locs st v tw w HE (ST C) HW) as [b [Hb Hgb]].
            exists b. split; auto. apply dedupr_in. apply in_or_app. right. auto.
          + inversion HE; subst. exists a. split; auto. apply dedupr_in. apply in_or_app. left.
            apply aside_in; auto. }
      split; auto.
      intros locs st v W w HE HI HW. rewrite acond_unfold.
      assert (HL : lit_truth (EAnd e1 e2) = None) by reflexivity. rewrite HL.
      simpl in HE. destruct (ceval_expr ccall ft locs st e1) as [va|] eqn:Ea; simpl in HE; [|discriminate].
      specialize (IHc1 locs st va W w Ea HI HW).
      destruct (acond lz acall ft locs W e1) as [t1 f1]. simpl in IHc1.
      destruct (truthy va) eqn:Ta.
      + specialize (IHc2 locs st v t1 w HE IHc1 HW).
        destruct (acond lz acall ft locs t1 e2) as [t2 f2]. simpl in *.
        destruct (truthy v); auto. apply dedupw_in. apply in_or_app. auto.
      + inversion HE; subst. rewrite Ta.
        destruct (acond lz acall ft locs t1 e2) as [t2 f2]. simpl. apply dedupw_in. apply in_or_app. auto.
    (* ---- or ---- *)
    - destruct IHe1 as [IHx1 IHc1]. destruct IHe2 as [IHx2 IHc2].
      assert (HX : expr_sim_at (EOr e1 e2)).
      { intros locs st v W w HE HI HW. simpl in HE.
        destruct (ceval_expr ccall ft locs st e1) as [va|] eqn:Ea; simpl in HE; [|discriminate].
        change (aexpr lz acall ft locs W (EOr e1 e2)) with
          (match lit_truth e1 with
           | Some true => aexpr lz acall ft locs W e1
           | Some false => aexpr lz acall ft locs W e2
           | None => let R := aexpr lz acall ft locs W e1 in
                     let (_, fw) := asplit lz (fun x => compat x true) (fun x => compat x false) R in
                     dedupr (aside lz (fun x => compat x true) R ++ aexpr lz acall ft locs fw e2)
           end).
        destruct (lit_truth e1) as [[|]|] eqn:HL.
        - rewrite (lit_truth_sound _ _ _ _ _ _ _ HL Ea) in HE. inversion HE; subst. eapply IHx1; eauto.
        - rewrite (lit_truth_sound _ _ _ _ _ _ _ HL Ea) in HE. eapply IHx2; eauto.
        - destruct (IHx1 locs st va W w Ea HI HW) as [a [Ha Hg]]. cbv zeta.
          pose proof (compat_truthy a va Hg) as C.
          pose proof (asplit_false lz (fun x => compat x true) (fun x => compat x false) _ w a Ha) as SF.
          destruct (asplit lz (fun x => compat x true) (fun x => compat x false) (aexpr lz acall ft locs W e1))
            as [tw fw]. simpl in SF.
          destruct (truthy va).
          + inversion HE; subst. exists a. split; auto. apply dedupr_in. apply in_or_app. left.
            apply aside_in; auto.
          + destruct (IHx2 locs st v fw w HE (SF C) HW) as [b [Hb Hgb]].
            exists b. split; auto. apply dedupr_in. apply in_or_app. right. auto. }
      split; auto.
      intros locs st v W w HE HI HW. rewrite acond_unfold.
      assert (HL : lit_truth (EOr e1 e2) = None) by reflexivity. rewrite HL.
      simpl in HE. destruct (ceval_expr ccall ft locs st e1) as [va|] eqn:Ea; simpl in HE; [|discriminate].
      specialize (IHc1 locs st va W w Ea HI HW).
      destruct (acond lz acall ft locs W e1) as [t1 f1]. simpl in IHc1.
      destruct (truthy va) eqn:Ta.
      + inversion HE; subst. rewrite Ta.
        destruct (acond lz acall ft locs f1 e2) as [t2 f2]. simpl. apply dedupw_in. apply in_or_app. auto.
      + specialize (IHc2 locs st v f1 w HE IHc1 HW).
        destruct (acond lz acall ft locs f1 e2) as [t2 f2]. simpl in *.
        destruct (truthy v); auto. apply dedupw_in. apply in_or_app. auto.
    (* ---- conditional expression ---- *)
    - destruct IHe1 as [IHx1 IHc1]. destruct IHe2 as [IHx2 IHc2]. destruct IHe3 as [IHx3 IHc3].
      assert (HX : expr_sim_at (EIf e1 e2 e3)).
      { intros locs st v W w HE HI HW. simpl in HE.
        destruct (ceval_expr ccall ft locs st e1) as [vc|] eqn:Ec; simpl in HE; [|discriminate].
        change (aexpr lz acall ft locs W (EIf e1 e2 e3)) with
          (let (tw, fw) := acond lz acall ft locs W e1 in
           dedupr (aexpr lz acall ft locs tw e2 ++ aexpr lz acall ft locs fw e3)).
        specialize (IHc1 locs st vc W w Ec HI HW).
        destruct (acond lz acall ft locs W e1) as [tw fw]. simpl in IHc1.
        destruct (truthy vc).
        - destruct (IHx2 locs st v tw w HE IHc1 HW) as [a [Ha Hg]]. exists a. split; auto.
          apply dedupr_in. apply in_or_app. auto.
        - destruct (IHx3 locs st v fw w HE IHc1 HW) as [a [Ha Hg]]. exists a. split; auto.
          apply dedupr_in. apply in_or_app. auto. }
      split; auto.
      intros locs st v W w HE HI HW. rewrite acond_unfold.
      assert (HL : lit_truth (EIf e1 e2 e3) = None) by reflexivity. rewrite HL.
      simpl in HE. destruct (ceval_expr ccall ft locs st e1) as [vc|] eqn:Ec; simpl in HE; [|discriminate].
      specialize (IHc1 locs st vc W w Ec HI HW).
      destruct (acond lz acall ft locs W e1) as [tc fc]. simpl in IHc1.
      destruct (truthy vc).
      + specialize (IHc2 locs st v tc w HE IHc1 HW).
        destruct (acond lz acall ft locs tc e2) as [t1 f1]. destruct (acond lz acall ft locs fc e3) as [t2 f2].
        simpl in *. destruct (truthy v); apply dedupw_in; apply in_or_app; auto.
      + specialize (IHc3 locs st v fc w HE IHc1 HW).
        destruct (acond lz acall ft locs tc e2) as [t1 f1]. destruct (acond lz acall ft locs fc e3) as [t2 f2].
        simpl in *. destruct (truthy v); apply dedupw_in; apply in_or_app; auto.
    (* ---- call ---- *)
    - assert (HX : expr_sim_at (ECall f es)).
      { intros locs st v W w HE HI HW.
        assert (HF : Forall expr_sim_at es) by (eapply Forall_impl; [|exact H]; intros a [Ha _]; exact Ha).
        change (ceval_expr ccall ft locs st (ECall f es))
          with (obind (cevals ccall ft locs st es) (fun vs => ccall ft (cg st) f vs)) in HE.
        destruct (cevals ccall ft locs st es) as [vs|] eqn:Evs; simpl in HE; [|discriminate].
        destruct (args_sim es HF locs st vs W w Evs HI HW) as [avs [Havs HF2]].
        destruct (wmatch_globals _ _ _ HW) as [Hne HG].
        change (aexpr lz acall ft locs W (ECall f es)) with (acall ft f (aargs lz acall ft locs W es)).
        eapply Hcall; eauto. }
      split; auto.
      intros locs st v W w HE HI HW. rewrite acond_unfold. simpl lit_truth. cbv iota.
      eapply cond_default; eauto.
    (* ---- subscript ---- *)
    - destruct IHe1 as [IHx1 _]. destruct IHe2 as [IHx2 _].
      assert (HX : expr_sim_at (ESub e1 e2)).
      { intros locs st v W w HE HI HW. simpl in HE.
        destruct (ceval_expr ccall ft locs st e1) as [v1|] eqn:E1; simpl in HE; [|discriminate].
        destruct (ceval_expr ccall ft locs st e2) as [v2|] eqn:E2; simpl in HE; [|discriminate].
        destruct (IHx1 locs st v1 W w E1 HI HW) as [a [Ha Hga]].
        assert (HI' : In w (dedupw (map fst (aexpr lz acall ft locs W e1)))).
        { apply dedupw_in. apply in_map_iff. exists (w, a); auto. }
        destruct (IHx2 locs st v2 _ w E2 HI' HW) as [ai [Hai Hgi]].
        change (aexpr lz acall ft locs W (ESub e1 e2)) with
          (let Re := aexpr lz acall ft locs W e1 in
           let Ri := aexpr lz acall ft locs (dedupw (map fst Re)) e2 in
           let idxs := dedupa (map snd Ri) in
           dedupr (flat_map (fun ra => flat_map (fun ri =>
                      if world_eqb (fst ra) (fst ri)
                      then map (fun b => (fst ra, b)) (asub lz idxs (snd ra) (snd ri)) else []) Ri) Re)).
        cbv zeta.
        destruct (asub_sound lz (dedupa (map snd (aexpr lz acall ft locs
                                   (dedupw (map fst (aexpr lz acall ft locs W e1))) e2))) a ai v1 v2 v Hga Hgi HE)
          as [b [Hb Hgb]].
        exists b. split; auto.
        apply dedupr_in. apply in_flat_map. exists (w, a). split; auto.
        apply in_flat_map. exists (w, ai). split; auto.
        simpl. rewrite world_eqb_refl. apply in_map_iff. exists b. auto. }
      split; auto.
      intros locs st v W w HE HI HW. rewrite acond_unfold. simpl lit_truth. cbv iota.
      eapply cond_default; eauto.
  Qed.

  Lemma expr_sim : forall e, expr_sim_at e.
  Proof. intros e. apply sim_both. Qed.
  Lemma cond_sim : forall e, cond_sim_at e.
  Proof. intros e. apply sim_both. Qed.

  (* ---------------- statements ---------------- *)

  Definition out_sim (locs : option (list name)) (w : world) (out : outcome)
             (res : list world * list (world * aval)) : Prop :=
    match out with
    | Normal st' => exists w', In w' (fst res) /\ wmatch locs st' w' /\ tl w' = tl w
    | Returned v => exists w' a, In (w', a) (snd res) /\ tl w' = tl w /\ gamma a v
    end.

  Definition stmt_sim_at (s : stmt) : Prop :=
    forall locs st out W w,
      cexec_stmt ccall ft locs st s = Some out -> In w W -> wmatch locs st w ->
      out_sim locs w out (astmt lz acall ft locs W s).

  Lemma block_sim : forall ss, Forall stmt_sim_at ss ->
    forall locs st out W w,
      cexec_block ccall ft locs st ss = Some out -> In w W -> wmatch locs st w ->
      out_sim locs w out (ablock lz acall ft locs W ss).
  Proof.
    induction ss as [|s ss IH]; intros HF locs st out W w HE HI HW.
    - simpl in HE. inversion HE; subst. simpl. exists w. auto.
    - inversion HF as [|? ? Hs Hss]; subst.
      change (cexec_block ccall ft locs st (s :: ss)) with
        (match cexec_stmt ccall ft locs st s with
         | Some (Normal st') => cexec_block ccall ft locs st' ss
         | r => r
         end) in HE.
      change (ablock lz acall ft locs W (s :: ss)) with
        (let (W1, r1) := astmt lz acall ft locs W s in
         let (W2, r2) := ablock lz acall ft locs W1 ss in (W2, r1 ++ r2)).
      destruct (cexec_stmt ccall ft locs st s) as [[st1|v1]|] eqn:Es; [| |discriminate].
      + pose proof (Hs locs st _ W w Es HI HW) as S1. simpl in S1.
        destruct S1 as [w1 [Hw1 [HW1 Htl1]]].
        destruct (astmt lz acall ft locs W s) as [W1 r1]. simpl in Hw1.
        pose proof (IH Hss locs st1 out W1 w1 HE Hw1 HW1) as S2.
        destruct (ablock lz acall ft locs W1 ss) as [W2 r2].
        destruct out as [st'|v]; simpl in *.
        * destruct S2 as [w' [Hw' [HW' Htl']]]. exists w'. repeat split; auto. congruence.
        * destruct S2 as [w' [a [Hw' [Htl' Hg]]]]. exists w', a. repeat split; auto.
          -- apply in_or_app. auto.
          -- congruence.
      + inversion HE; subst.
        pose proof (Hs locs st _ W w Es HI HW) as S1. simpl in S1.
        destruct S1 as [w' [a [Hw' [Htl' Hg]]]].
        destruct (astmt lz acall ft locs W s) as [W1 r1].
        destruct (ablock lz acall ft locs W1 ss) as [W2 r2]. simpl in *.
        exists w', a. repeat split; auto. apply in_or_app. auto.
  Qed.

  Lemma stmt_sim : forall s, stmt_sim_at s.
  Proof.
    induction s using stmt_ind'; intros locs st out W w HE HI HW.
    - (* assignment *)
      simpl in HE. destruct (ceval_expr ccall ft locs st e) as [v|] eqn:Ev; simpl in HE; [|discriminate].
      inversion HE; subst.
      destruct (expr_sim e locs st v W w Ev HI HW) as [a [Ha Hg]].
      destruct (wmatch_assign locs st w x v a HW Hg) as [HW' Htl].
      simpl. exists (wassign w x a). repeat split; auto.
      apply dedupw_in. apply in_map_iff. exists (w, a). auto.
    - (* if *)
      change (cexec_stmt ccall ft locs st (SIf c th el)) with
        (obind (ceval_expr ccall ft locs st c)
               (fun vc => if truthy vc then cexec_block ccall ft locs st th else cexec_block ccall ft locs st el)) in HE.
      destruct (ceval_expr ccall ft locs st c) as [vc|] eqn:Ec; simpl in HE; [|discriminate].
      change (astmt lz acall ft locs W (SIf c th el)) with
        (let (tw, fw) := acond lz acall ft locs W c in
         let (w1, r1) := ablock lz acall ft locs tw th in
         let (w2, r2) := ablock lz acall ft locs fw el in (dedupw (w1 ++ w2), r1 ++ r2)).
      pose proof (cond_sim c locs st vc W w Ec HI HW) as C.
      destruct (acond lz acall ft locs W c) as [tw fw]. simpl in C.
      destruct (truthy vc).
      + pose proof (block_sim th H locs st out tw w HE C HW) as S.
        destruct (ablock lz acall ft locs tw th) as [w1 r1]. destruct (ablock lz acall ft locs fw el) as [w2 r2].
        destruct out as [st'|v]; simpl in *.
        * destruct S as [w' [Hw' R]]. exists w'. split; auto. apply dedupw_in. apply in_or_app. auto.
        * destruct S as [w' [a [Hw' R]]]. exists w', a. split; auto. apply in_or_app. auto.
      + pose proof (block_sim el H0 locs st out fw w HE C HW) as S.
        destruct (ablock lz acall ft locs tw th) as [w1 r1]. destruct (ablock lz acall ft locs fw el) as [w2 r2].
        destruct out as [st'|v]; simpl in *.
        * destruct S as [w' [Hw' R]]. exists w'. split; auto. apply dedupw_in. apply in_or_app. auto.
        * destruct S as [w' [a [Hw' R]]]. exists w', a. split; auto. apply in_or_app. auto.
    - (* pass *)
      simpl in HE. inversion HE; subst. simpl. exists w. auto.
    - (* return *)
      simpl in HE. destruct locs as [L|]; [|discriminate].
      destruct (ceval_expr ccall ft (Some L) st e) as [v|] eqn:Ev; simpl in HE; [|discriminate].
      inversion HE; subst.
      destruct (expr_sim e (Some L) st v W w Ev HI HW) as [a [Ha Hg]].
      simpl. exists w, a. auto.
  Qed.

  Lemma block_sim' : forall ss locs st out W w,
      cexec_block ccall ft locs st ss = Some out -> In w W -> wmatch locs st w ->
      out_sim locs w out (ablock lz acall ft locs W ss).
  Proof. intros ss. apply block_sim. apply Forall_forall. intros s _. apply stmt_sim. Qed.
End Sim.

(* ---------------- calls ---------------- *)

Lemma bind_params_match : forall params avs vs s fr,
  fmatch s fr -> Forall2 gamma avs vs ->
  fmatch (fold_left (fun s pa => sset (fst pa) (snd pa) s) (combine params vs) s)
         (fold_left (fun fr pa => fset (fst pa) (snd pa) fr) (combine params avs) fr).
Proof.
  induction params as [|p params IH]; intros avs vs s fr HM HF; simpl; auto.
  inversion HF; subst; simpl; auto.
  apply IH; auto. apply fmatch_set; auto.
Qed.

Lemma acall_n_S : forall lz m ft f R,
  acall_n lz (S m) ft f R =
  match flook ft f with
  | None => []
  | Some (params, body) =>
      let R' := filter (fun r => length params =? length (snd r)) R in
      let W2 := dedupw (map (fun r => mkframe params (snd r) :: fst r) R') in
      let (cont, rets) := ablock lz (acall_n lz m) ft (Some (params ++ assigned_block body)) W2 body in
      dedupr (map (fun r => (tl (fst r), snd r)) (rets ++ map (fun w => (w, ANone)) cont))
  end.
Proof. reflexivity. Qed.

(* every concrete call is described by one of the abstract return bindings of the analysed call *)
Lemma call_sim_n : forall lz n m, call_sim (ccall_n n) (acall_n lz m).
Proof.
  intros lz. induction n as [|n IH]; intros m ft g f vs v HC R w avs HI HF Hne HG.
  - simpl in HC. discriminate.
  - destruct m as [|m].
    + (* depth cut-off: Any *)
      exists AAny. split; [|exact I]. simpl. apply in_map_iff. exists w. split; auto.
      apply dedupw_in. apply in_map_iff. exists (w, avs); auto.
    + simpl in HC. rewrite acall_n_S.
      destruct (flook ft f) as [[params body]|]; [|discriminate]. cbv zeta.
      destruct (length params =? length vs) eqn:EL; simpl in HC; [|discriminate].
      apply Nat.eqb_eq in EL.
      assert (ELa : length params =? length avs = true).
      { apply Nat.eqb_eq. apply Forall2_length in HF. lia. }
      set (L := params ++ assigned_block body) in *.
      match goal with |- context [ablock lz (acall_n lz m) ft (Some L) ?W body] => set (W2 := W) end.
      assert (HW2 : In (mkframe params avs :: w) W2).
      { unfold W2. apply dedupw_in. apply in_map_iff. exists (w, avs). split; auto. apply filter_In. auto. }
      assert (HM : wmatch (Some L) (mkc g (bind_params params vs)) (mkframe params avs :: w)).
      { simpl. exists (mkframe params avs), w. repeat split; auto.
        unfold bind_params, mkframe. apply bind_params_match; auto. intros x u Hx. discriminate. }
      destruct (cexec_block (ccall_n n) ft (Some L) (mkc g (bind_params params vs)) body) as [[st'|rv]|] eqn:EB;
        [| |discriminate].
      * inversion HC; subst.
        pose proof (block_sim' lz (ccall_n n) (acall_n lz m) ft (IH m) body (Some L) _ _ W2 _ EB HW2 HM) as S.
        simpl in S. destruct S as [w' [Hw' [_ Htl]]].
        destruct (ablock lz (acall_n lz m) ft (Some L) W2 body) as [cont rets]. simpl in *.
        exists ANone. split; [|reflexivity].
        apply dedupr_in. apply in_map_iff. exists (w', ANone). simpl. split; [rewrite Htl; auto|].
        apply in_or_app. right. apply in_map_iff. exists w'; auto.
      * inversion HC; subst.
        pose proof (block_sim' lz (ccall_n n) (acall_n lz m) ft (IH m) body (Some L) _ _ W2 _ EB HW2 HM) as S.
        simpl in S. destruct S as [w' [a [Hw' [Htl Hg]]]].
        destruct (ablock lz (acall_n lz m) ft (Some L) W2 body) as [cont rets]. simpl in *.
        exists a. split; auto.
        apply dedupr_in. apply in_map_iff. exists (w', a). simpl. split; [rewrite Htl; auto|].
        apply in_or_app. left. auto.
Qed.

(* ---------------- whole programs ---------------- *)

Lemma run_sim : forall lz fuel p ft g sigma W w,
  crun fuel ft g p = Some sigma -> In w W -> wmatch None (mkc g []) w ->
  exists w', In w' (arun lz ft W p) /\ wmatch None (mkc sigma []) w'.
Proof.
  intros lz fuel. induction p as [|t p IH]; intros ft g sigma W w HR HI HW.
  - simpl in HR. inversion HR; subst. exists w. auto.
  - destruct t as [f ps b|s]; simpl in HR; simpl.
    + eapply IH; eauto.
    + destruct (cexec_stmt (ccall_n fuel) ft None (mkc g []) s) as [[st|rv]|] eqn:Es; try discriminate.
      pose proof (stmt_sim lz (ccall_n fuel) (acall_n lz MAX_DEPTH) ft (call_sim_n lz fuel MAX_DEPTH) s
                    None _ _ W w Es HI HW) as S.
      simpl in S. destruct S as [w' [Hw' [HW' _]]].
      eapply IH; eauto.
Qed.

Lemma values_of_in : forall x Ws w a, In w Ws -> flookup x (hd [] w) = Some a -> In a (values_of x Ws).
Proof.
  intros x Ws w a HI HL. unfold values_of. apply dedupa_in. apply in_flat_map. exists w. split; auto.
  rewrite HL. left; auto.
Qed.

(* the inferred type (either mode) of a module-level name admits the value the name holds when the module
   has run to completion *)
Lemma infer_mode_sound_lemma : forall lz fuel p sigma x v,
  ceval fuel p = Some sigma -> slook sigma x = Some v -> admits (infer_mode lz p x) v.
Proof.
  intros lz fuel p sigma x v HC HS. unfold ceval in HC.
  assert (HW0 : wmatch None (mkc [] []) [[]]).
  { simpl. exists []. split; auto. intros y u Hy. discriminate. }
  destruct (run_sim lz fuel p [] [] sigma W0 [[]] HC (or_introl eq_refl) HW0) as [w' [Hw' HW']].
  destruct HW' as [fr [-> HM]]. simpl in HM.
  destruct (HM x v HS) as [a [Ha Hg]].
  unfold infer_mode. apply opt_widens.
  apply tjoin_admits with (t := ty_of a).
  - apply in_map. eapply values_of_in with (w := [fr]); auto.
    unfold exit_worlds. apply in_or_app. left. exact Hw'.
  - apply ty_of_sound_lemma; auto.
Qed.
