(* C01, fragment L1 = L0 + classes.  MODEL ONLY: no proofs in this file.

   L1 adds to the loop-free language L0 (Vm/Model.v): module-level classes `class C(B1, ..., Bn)` over user
   classes (MRO by C3: CPython's algorithm on the concrete side, pytype's MROMerge on the abstract side, both
   from coq/Mro/Model.v), class attributes, methods (incl. __init__ = method name 0) whose bodies are L1
   statements in A-normal form:
       x = <L0 expr> | x = o.a | o.a = <L0 expr> | o = C(e...) | x = o.m(e...) | x = super().m(e...)
       | if <L0 expr>: ... else: ... | pass | return <L0 expr>
   where o is `self` or a module-level object name.  Object-valued names live in their own namespace (rendered
   o<i>), objects are not stored in containers, attributes or passed as arguments, instances are created at
   module level only (so every allocation site runs at most once, which is what makes pytype's "one Instance per
   opcode" coincide with "one abstract object per concrete object").

   Concrete side: a heap (list of (class, instance dict)), references = allocation order.
   Abstract side (anchors in /repo/pytype):
   * abstract/class_mixin.py Class.call/_new_instance/call_init: `C(args)` makes the Instance, then calls
     __init__ found through the MRO with the instance bound to self;
   * attribute.py set_attribute/_set_member: `o.a = v` pastes the bindings into instance.members[a]
     (a strong update per instance: later reads see the reaching stores);
     get_attribute/_get_instance_attribute: instance member first, else the class attribute through the MRO;
     _get_attribute_from_super_instance: lookup starts after the current class in the MRO of type(self);
   * abstract/_interpreter_function.py InterpreterFunction.call: the method body is re-analysed per call with the
     argument bindings (same depth budget as module-level functions, analyze.INIT_MAXIMUM_DEPTH);
   * output.py (class emission): the stub declares, on the instance's exact class, the join over all instances of
     the member bindings visible at the exit, plus those of the `canonical` instance that
     tracer_vm.analyze_class creates by calling __init__ and every own method with Any arguments; the declared
     return type of a method comes from that canonical analysis alone ([canon_worlds], [declared_ret]).
   A world of the abstract run is an L0 world (one binding per value name) plus an object environment and an
   abstract heap (one binding per instance attribute).  Both visibility modes of L0 (strict / lazy) are inherited:
   the L0 expression machinery is run on the projected world set and its answers are re-attached ([lift], [sel]).

   Depth cut-off inside methods: when the budget is exhausted the call returns Any and the world is marked
   [hv] ("heap havocked": every later attribute read in it is Any, cf. Instance.maybe_missing_members).

   NOT modelled (see harness/props/c01.py, L1 leg, for what the generator therefore avoids): the
   unsatisfiable-fall-through leak for L1 statements, pytype's call cache for methods, and the quirk that an
   instance attribute stored in only one branch hides the class-level default on every path (a finding). *)
From Coq Require Import List ZArith Arith Bool Lia.
From PV Require Import Vm.Model.
From PV Require Mro.Model.
Import ListNotations.
Open Scope nat_scope.

Definition attr := nat.
Definition mname := nat.
Definition cname := nat.
Definition oname := nat.
Definition INIT : mname := 0.

Inductive oref := OSelf | OName (o : oname).

Inductive lstmt :=
| LAssign (x : name) (e : expr)
| LGet (x : name) (o : oref) (a : attr)
| LSet (o : oref) (a : attr) (e : expr)
| LNew (o : oname) (c : cname) (args : list expr)
| LCall (x : name) (o : oref) (m : mname) (args : list expr)
| LSuper (x : name) (m : mname) (args : list expr)
| LIf (c : expr) (th el : list lstmt)
| LPass
| LReturn (e : expr).

Definition mdef := (list name * list lstmt)%type.
Record classdef := mkclass { cbases : list cname; cattrs : list (attr * expr); cmeths : list (mname * mdef) }.
Inductive ltop := LDef (f : fname) (params : list name) (body : list stmt) | LStmt (s : lstmt).
Record lprog := mkprog { pclasses : list classdef; pbody : list ltop }.

(* static class environment: the class statements and their MROs (class i = i-th statement) *)
Record cenv := mkce { eclasses : list classdef; emros : list (list cname) }.

Fixpoint alook {A} (l : list (nat * A)) (k : nat) : option A :=
  match l with [] => None | (j, d) :: l' => if j =? k then Some d else alook l' k end.

Definition dflt_class : classdef := mkclass [] [] [].
Definition mro_of (ce : cenv) (c : cname) : list cname := nth c (emros ce) [].

Fixpoint find_meth (ce : cenv) (cands : list cname) (m : mname) : option (cname * mdef) :=
  match cands with
  | [] => None
  | k :: cands' => match alook (cmeths (nth k (eclasses ce) dflt_class)) m with
                   | Some d => Some (k, d)
                   | None => find_meth ce cands' m
                   end
  end.

Fixpoint find_cattr (ce : cenv) (cands : list cname) (a : attr) : option expr :=
  match cands with
  | [] => None
  | k :: cands' => match alook (cattrs (nth k (eclasses ce) dflt_class)) a with
                   | Some e => Some e
                   | None => find_cattr ce cands' a
                   end
  end.

(* super(): the classes after [k] in the MRO of type(self) *)
Fixpoint after (k : cname) (l : list cname) : list cname :=
  match l with [] => [] | x :: l' => if x =? k then l' else after k l' end.

Fixpoint lassigned (s : lstmt) : list name :=
  match s with
  | LAssign x _ | LGet x _ _ | LCall x _ _ _ | LSuper x _ _ => [x]
  | LIf _ th el => (fix go ss := match ss with [] => [] | s' :: ss' => lassigned s' ++ go ss' end) th
                   ++ (fix go ss := match ss with [] => [] | s' :: ss' => lassigned s' ++ go ss' end) el
  | _ => []
  end.
Definition lassigned_block (ss : list lstmt) : list name := flat_map lassigned ss.

Fixpoint upd {A} (i : nat) (x : A) (l : list A) : list A :=
  match l with
  | [] => []
  | y :: l' => match i with 0 => x :: l' | S i' => y :: upd i' x l' end
  end.

(* ------------------------------------------------------------------------------------------------ *)
(* Concrete semantics                                                                                *)

Record lstate := mkl { lv : cstate; lo : list (oname * nat); lh : list (cname * store) }.
Inductive loutcome := LNormal (st : lstate) | LReturned (st : lstate) (v : value).

(* class attributes are closed L0 expressions, evaluated when the class statement runs (no functions exist yet) *)
Definition cattr_val (ce : cenv) (cands : list cname) (a : attr) : option value :=
  match find_cattr ce cands a with
  | Some e => ceval_expr (ccall_n 0) [] None (mkc [] []) e
  | None => None
  end.

Definition resolve (slf : option (nat * cname)) (oe : list (oname * nat)) (o : oref) : option nat :=
  match o with OSelf => option_map fst slf | OName n => alook oe n end.

Section LCLevel.
  Variable ce : cenv.
  Variable fuel0 : nat.                       (* call-depth fuel of L0 function calls inside expressions *)
  (* a method invocation (one unit of fuel less): state, self, candidate classes, method, arguments *)
  Variable mcall : ftable -> lstate -> nat -> list cname -> mname -> list value -> option (lstate * value).
  Variable ft : ftable.

  Definition lassign (locs : option (list name)) (st : lstate) (x : name) (v : value) : lstate :=
    mkl (cassign locs (lv st) x v) (lo st) (lh st).

  Definition lblock_with (f : lstate -> lstmt -> option loutcome) : lstate -> list lstmt -> option loutcome :=
    fix go (st : lstate) (ss : list lstmt) : option loutcome :=
    match ss with
    | [] => Some (LNormal st)
    | s' :: ss' => match f st s' with
                   | Some (LNormal st') => go st' ss'
                   | r => r
                   end
    end.

  Fixpoint lexec (slf : option (nat * cname)) (locs : option (list name)) (st : lstate) (s : lstmt) {struct s}
    : option loutcome :=
    let ev := ceval_expr (ccall_n fuel0) ft locs (lv st) in
    let evs := cevals (ccall_n fuel0) ft locs (lv st) in
    let block := lblock_with (fun st1 s1 => lexec slf locs st1 s1) in
    match s with
    | LAssign x e => obind (ev e) (fun v => Some (LNormal (lassign locs st x v)))
    | LGet x o a =>
        obind (resolve slf (lo st) o) (fun i => obind (nth_error (lh st) i) (fun cs =>
        obind (match slook (snd cs) a with
               | Some v => Some v
               | None => cattr_val ce (mro_of ce (fst cs)) a
               end) (fun v => Some (LNormal (lassign locs st x v)))))
    | LSet o a e =>
        obind (ev e) (fun v => obind (resolve slf (lo st) o) (fun i => obind (nth_error (lh st) i) (fun cs =>
        Some (LNormal (mkl (lv st) (lo st) (upd i (fst cs, sset a v (snd cs)) (lh st)))))))
    | LNew o c args =>
        match slf with
        | Some _ => None                          (* instances are created at module level only *)
        | None =>
            obind (evs args) (fun vs =>
            if c <? length (eclasses ce) then
              let i := length (lh st) in
              let st1 := mkl (lv st) (lo st) (lh st ++ [(c, [])]) in
              match find_meth ce (mro_of ce c) INIT with
              | None => if is_nil vs then Some (LNormal (mkl (lv st1) ((o, i) :: lo st1) (lh st1))) else None
              | Some _ =>
                  obind (mcall ft st1 i (mro_of ce c) INIT vs) (fun r =>
                  match snd r with
                  | VNone => Some (LNormal (mkl (lv (fst r)) ((o, i) :: lo (fst r)) (lh (fst r))))
                  | _ => None                     (* TypeError: __init__() should return None *)
                  end)
              end
            else None)
        end
    | LCall x o m args =>
        obind (evs args) (fun vs => obind (resolve slf (lo st) o) (fun i => obind (nth_error (lh st) i) (fun cs =>
        obind (mcall ft st i (mro_of ce (fst cs)) m vs) (fun r => Some (LNormal (lassign locs (fst r) x (snd r)))))))
    | LSuper x m args =>
        match slf with
        | None => None
        | Some (i, k) =>
            obind (evs args) (fun vs => obind (nth_error (lh st) i) (fun cs =>
            obind (mcall ft st i (after k (mro_of ce (fst cs))) m vs) (fun r =>
            Some (LNormal (lassign locs (fst r) x (snd r))))))
        end
    | LIf c th el => obind (ev c) (fun vc => if truthy vc then block st th else block st el)
    | LPass => Some (LNormal st)
    | LReturn e => match locs with
                   | None => None
                   | Some _ => obind (ev e) (fun v => Some (LReturned st v))
                   end
    end.

  Definition lexec_block (slf : option (nat * cname)) (locs : option (list name)) :=
    lblock_with (fun st1 s1 => lexec slf locs st1 s1).
End LCLevel.

Fixpoint mcall_n (ce : cenv) (fuel0 : nat) (n : nat) (ft : ftable) (st : lstate) (i : nat) (cands : list cname)
                 (m : mname) (vs : list value) : option (lstate * value) :=
  match n with
  | 0 => None
  | S n' =>
      match find_meth ce cands m with
      | None => None                                       (* AttributeError *)
      | Some (k, (params, body)) =>
          if negb (length params =? length vs) then None   (* TypeError *)
          else
            let st0 := mkl (mkc (cg (lv st)) (bind_params params vs)) (lo st) (lh st) in
            match lexec_block ce fuel0 (mcall_n ce fuel0 n') ft (Some (i, k))
                              (Some (params ++ lassigned_block body)) st0 body with
            | Some (LNormal st') => Some (mkl (lv st) (lo st) (lh st'), VNone)
            | Some (LReturned st' v) => Some (mkl (lv st) (lo st) (lh st'), v)
            | None => None
            end
      end
  end.

Fixpoint lrun (ce : cenv) (fuel : nat) (ft : ftable) (st : lstate) (p : list ltop) : option lstate :=
  match p with
  | [] => Some st
  | LDef f ps b :: p' => lrun ce fuel ((f, (ps, b)) :: ft) st p'
  | LStmt s :: p' =>
      match lexec ce fuel (mcall_n ce fuel fuel) ft None None st s with
      | Some (LNormal st') => lrun ce fuel ft st' p'
      | _ => None
      end
  end.

Definition bases_table (p : lprog) : list (list nat) := map cbases (pclasses p).

(* every class attribute expression evaluates (else the class statement itself raises) *)
Definition cattrs_ok (cs : list classdef) : bool :=
  forallb (fun c => forallb (fun ae => match ceval_expr (ccall_n 0) [] None (mkc [] []) (snd ae) with
                                       | Some _ => true | None => false end) (cattrs c)) cs.

Definition st_init : lstate := mkl (mkc [] []) [] [].

(* the final state; None = the run raised (or needed more than [fuel] nested calls).  A base that is not
   defined yet (NameError) or an inconsistent hierarchy (TypeError) make the class statement raise. *)
Definition leval (fuel : nat) (p : lprog) : option lstate :=
  if Mro.Model.wf_table (bases_table p) && cattrs_ok (pclasses p) then
    match Mro.Model.mros_c (bases_table p) with
    | Mro.Model.TableOk M => lrun (mkce (pclasses p) M) fuel [] st_init (pbody p)
    | _ => None
    end
  else None.

(* ------------------------------------------------------------------------------------------------ *)
(* Abstract interpretation                                                                           *)

Record lworld := mkw { aw : world; ao : list (oname * nat); ah : list (cname * frame); hv : bool }.

Definition pair_eqb (p q : nat * nat) : bool := (fst p =? fst q) && (snd p =? snd q).
Definition hent_eqb (p q : cname * frame) : bool := (fst p =? fst q) && frame_eqb (snd p) (snd q).
Definition lworld_eqb (a b : lworld) : bool :=
  world_eqb (aw a) (aw b) && list_eqb pair_eqb (ao a) (ao b) && list_eqb hent_eqb (ah a) (ah b)
  && Bool.eqb (hv a) (hv b).
Definition lres_eqb (p q : lworld * aval) : bool := lworld_eqb (fst p) (fst q) && aval_eqb (snd p) (snd q).
Definition dedupl := dedup lworld_eqb.
Definition deduplr := dedup lres_eqb.

Definition set_aw (W : lworld) (w : world) : lworld := mkw w (ao W) (ah W) (hv W).
Definition worlds0 (Ws : list lworld) : list world := dedupw (map aw Ws).

(* re-attach the answers of the L0 machinery (keyed by L0 world) to the L1 worlds *)
Definition lift {A} (Ws : list lworld) (R : list (world * A)) : list (lworld * A) :=
  flat_map (fun W => flat_map (fun r => if world_eqb (fst r) (aw W) then [(W, snd r)] else []) R) Ws.
Definition sel (Ws : list lworld) (ws : list world) : list lworld :=
  filter (fun W => existsb (world_eqb (aw W)) ws) Ws.

Definition key := (nat * list cname)%type.
Definition key_eqb (a b : key) : bool := (fst a =? fst b) && list_eqb Nat.eqb (snd a) (snd b).
Definition okey_is (k : key) (o : option key) : bool := match o with Some k' => key_eqb k k' | None => false end.

Section LALevel.
  Variable lz : bool.
  Variable ce : cenv.
  Variable acall : ftable -> fname -> list (world * list aval) -> list (world * aval).
  (* a method invocation on a group of rows that share the receiver and the candidate classes *)
  Variable amcall : ftable -> list (lworld * list aval) -> nat -> list cname -> mname -> list (lworld * aval).
  Variable ft : ftable.

  Definition acattr (cands : list cname) (a : attr) : list aval :=
    match find_cattr ce cands a with
    | Some e => dedupa (map snd (aexpr lz (acall_n lz 0) [] None W0 e))
    | None => []
    end.

  (* one call per distinct receiver binding (vm_utils.call_function over the bindings of the callable) *)
  Definition group_call (rows : list (lworld * list aval)) (kf : lworld -> option key) (m : mname)
    : list (lworld * aval) :=
    let keys := dedup key_eqb (flat_map (fun r => match kf (fst r) with Some k => [k] | None => [] end) rows) in
    flat_map (fun k => amcall ft (filter (fun r => okey_is k (kf (fst r))) rows) (fst k) (snd k) m) keys.

  Definition obj_key (slf : option (nat * cname)) (o : oref) (W : lworld) : option key :=
    match resolve slf (ao W) o with
    | Some i => match nth_error (ah W) i with
                | Some cf => Some (i, mro_of ce (fst cf))
                | None => None
                end
    | None => None
    end.

  Definition super_key (slf : option (nat * cname)) (W : lworld) : option key :=
    match slf with
    | Some (i, k) => match nth_error (ah W) i with
                     | Some cf => Some (i, after k (mro_of ce (fst cf)))
                     | None => None
                     end
    | None => None
    end.

  (* calls in worlds whose heap is havocked are not analysed: Any *)
  Definition call_rows (rows : list (lworld * list aval)) (kf : lworld -> option key) (m : mname)
    : list (lworld * aval) :=
    map (fun r => (fst r, AAny)) (filter (fun r => hv (fst r)) rows)
    ++ group_call (filter (fun r => negb (hv (fst r))) rows) kf m.

  Definition lablock_with (f : list lworld -> lstmt -> list lworld * list (lworld * aval))
    : list lworld -> list lstmt -> list lworld * list (lworld * aval) :=
    fix go (W : list lworld) (ss : list lstmt) : list lworld * list (lworld * aval) :=
    match ss with
    | [] => (W, [])
    | s' :: ss' => let (W1, r1) := f W s' in
                   let (W2, r2) := go W1 ss' in (W2, r1 ++ r2)
    end.

  Definition bind_res (x : name) (R : list (lworld * aval)) : list lworld :=
    dedupl (map (fun r => set_aw (fst r) (wassign (aw (fst r)) x (snd r))) R).

  Fixpoint lastmt (slf : option (nat * cname)) (locs : option (list name)) (Ws : list lworld) (s : lstmt)
    {struct s} : list lworld * list (lworld * aval) :=
    let ex := fun e => lift Ws (aexpr lz acall ft locs (worlds0 Ws) e) in
    let exs := fun es => lift Ws (aargs lz acall ft locs (worlds0 Ws) es) in
    let block := lablock_with (fun W1 s1 => lastmt slf locs W1 s1) in
    match s with
    | LAssign x e => (bind_res x (ex e), [])
    | LGet x o a =>
        (bind_res x (flat_map (fun W =>
           if hv W then [(W, AAny)]
           else match resolve slf (ao W) o with
                | None => []
                | Some i => match nth_error (ah W) i with
                            | None => []
                            | Some cf => match flookup a (snd cf) with
                                         | Some av => [(W, av)]
                                         | None =>
                                             (* neither the instance nor a class has it: attribute-error, Any *)
                                             match acattr (mro_of ce (fst cf)) a with
                                             | [] => [(W, AAny)]
                                             | l => map (fun av => (W, av)) l
                                             end
                                         end
                            end
                end) Ws), [])
    | LSet o a e =>
        (dedupl (flat_map (fun r =>
           let W := fst r in
           if hv W then [W]
           else match resolve slf (ao W) o with
                | None => []
                | Some i => match nth_error (ah W) i with
                            | None => []
                            | Some cf => [mkw (aw W) (ao W) (upd i (fst cf, fset a (snd r) (snd cf)) (ah W)) (hv W)]
                            end
                end) (ex e)), [])
    | LNew o c args =>
        match slf with
        | Some _ => ([], [])
        | None =>
            if c <? length (eclasses ce) then
              let rows := map (fun r => (mkw (aw (fst r)) (ao (fst r)) (ah (fst r) ++ [(c, [])]) (hv (fst r)), snd r))
                              (exs args) in
              let bind := fun W => mkw (aw W) ((o, pred (length (ah W))) :: ao W) (ah W) (hv W) in
              match find_meth ce (mro_of ce c) INIT with
              | None => (dedupl (map (fun r => bind (fst r)) (filter (fun r => is_nil (snd r)) rows)), [])
              | Some _ =>
                  (dedupl (map (fun r => bind (fst r))
                               (call_rows rows (fun W => Some (pred (length (ah W)), mro_of ce c)) INIT)), [])
              end
            else ([], [])
        end
    | LCall x o m args => (bind_res x (call_rows (exs args) (obj_key slf o) m), [])
    | LSuper x m args => (bind_res x (call_rows (exs args) (super_key slf) m), [])
    | LIf c th el => let (tw, fw) := acond lz acall ft locs (worlds0 Ws) c in
                     let (w1, r1) := block (sel Ws tw) th in
                     let (w2, r2) := block (sel Ws fw) el in (dedupl (w1 ++ w2), r1 ++ r2)
    | LPass => (Ws, [])
    | LReturn e => ([], ex e)
    end.

  Definition lablock (slf : option (nat * cname)) (locs : option (list name)) :=
    lablock_with (fun W1 s1 => lastmt slf locs W1 s1).
End LALevel.

Fixpoint amcall_n (lz : bool) (ce : cenv) (n : nat) (ft : ftable) (rows : list (lworld * list aval))
                  (i : nat) (cands : list cname) (m : mname) : list (lworld * aval) :=
  match n with
  | 0 => map (fun W => (mkw (aw W) (ao W) (ah W) true, AAny)) (dedupl (map fst rows))
  | S n' =>
      match find_meth ce cands m with
      | None => []
      | Some (k, (params, body)) =>
          let R' := filter (fun r => length params =? length (snd r)) rows in
          let W2 := dedupl (map (fun r => set_aw (fst r) (mkframe params (snd r) :: aw (fst r))) R') in
          let (cont, rets) := lablock lz ce (acall_n lz n') (amcall_n lz ce n') ft (Some (i, k))
                                      (Some (params ++ lassigned_block body)) W2 body in
          deduplr (map (fun r => (set_aw (fst r) (tl (aw (fst r))), snd r))
                       (rets ++ map (fun W => (W, ANone)) cont))
      end
  end.

Fixpoint larun (lz : bool) (ce : cenv) (ft : ftable) (Ws : list lworld) (p : list ltop) : list lworld :=
  match p with
  | [] => Ws
  | LDef f ps b :: p' => larun lz ce ((f, (ps, b)) :: ft) Ws p'
  | LStmt s :: p' =>
      larun lz ce ft (fst (lastmt lz ce (acall_n lz MAX_DEPTH) (amcall_n lz ce MAX_DEPTH) ft None None Ws s)) p'
  end.

Definition LW0 : list lworld := [mkw [[]] [] [] false].

(* pytype's view of the hierarchy: class_mixin.Class.compute_mro (with the duplicate-base check) *)
Definition acenv (p : lprog) : cenv :=
  mkce (pclasses p) (Mro.Model.table_mros (Mro.Model.mros_py true (bases_table p))).

Fixpoint ftable_of (ft : ftable) (p : list ltop) : ftable :=
  match p with
  | [] => ft
  | LDef f ps b :: p' => ftable_of ((f, (ps, b)) :: ft) p'
  | LStmt _ :: p' => ftable_of ft p'
  end.

Definition exit_lworlds (lz : bool) (p : lprog) : list lworld := larun lz (acenv p) [] LW0 (pbody p).

(* ------------------------------------------------------------------------------------------------ *)
(* The canonical instance of a class (tracer_vm.analyze_class): after the module has run, a fresh instance is
   made by calling __init__ with Any arguments, then every method defined in the class body is called on it with
   Any arguments.  Its attributes are declared on the class, and the declared return types of the methods come
   from these calls alone. *)

Definition anys (n : nat) : list aval := repeat AAny n.

Definition canon_worlds_of (lz : bool) (p : lprog) (E : list lworld) (c : cname) : list lworld :=
  let ce := acenv p in
  let ft := ftable_of [] (pbody p) in
  let Ws := map (fun W => mkw (aw W) (ao W) (ah W ++ [(c, [])]) (hv W)) E in
  match find_meth ce (mro_of ce c) INIT with
  | None => Ws
  | Some (_, (params, _)) =>
      dedupl (map fst (call_rows (amcall_n lz ce MAX_DEPTH) ft
                                 (map (fun W => (W, anys (length params))) Ws)
                                 (fun W => Some (pred (length (ah W)), mro_of ce c)) INIT))
  end.
Definition canon_worlds (lz : bool) (p : lprog) (c : cname) : list lworld :=
  canon_worlds_of lz p (exit_lworlds lz p) c.

(* the abstract return bindings of the canonical call of the method [m] defined in class [c] *)
Definition canon_rets_of (lz : bool) (p : lprog) (CW : list lworld) (c : cname) (m : mname) : list aval :=
  let ce := acenv p in
  let ft := ftable_of [] (pbody p) in
  match alook (cmeths (nth c (pclasses p) dflt_class)) m with
  | None => []
  | Some (params, _) =>
      dedupa (map snd (call_rows (amcall_n lz ce MAX_DEPTH) ft
                                 (map (fun W => (W, anys (length params))) CW)
                                 (fun W => Some (pred (length (ah W)), c :: nil)) m))
  end.
Definition canon_rets (lz : bool) (p : lprog) (c : cname) (m : mname) : list aval :=
  canon_rets_of lz p (canon_worlds lz p c) c m.

(* ------------------------------------------------------------------------------------------------ *)
(* Inferred types                                                                                    *)

Definition lvalues_of (x : name) (Ws : list lworld) : list aval := values_of x (map aw Ws).

Definition linfer_mode (lz : bool) (p : lprog) (x : name) : ty :=
  opt (tjoin (map ty_of (lvalues_of x (exit_lworlds lz p)))).
Definition lbound_at_exit (lz : bool) (p : lprog) (x : name) : bool :=
  negb (is_nil (lvalues_of x (exit_lworlds lz p))).

(* the bindings of attribute [a] over all instances of exactly class [c] in the given worlds *)
Definition attr_vals (c : cname) (a : attr) (Ws : list lworld) : list aval :=
  dedupa (flat_map (fun W =>
    if hv W then [AAny]
    else flat_map (fun cf => if fst cf =? c then match flookup a (snd cf) with Some av => [av] | None => [] end
                             else []) (ah W)) Ws).

(* the canonical instance is the last object of each canonical world *)
Definition canon_attr_vals_of (CW : list lworld) (a : attr) : list aval :=
  dedupa (flat_map (fun W =>
    if hv W then [AAny]
    else match nth_error (ah W) (pred (length (ah W))) with
         | Some cf => match flookup a (snd cf) with Some av => [av] | None => [] end
         | None => []
         end) CW).
Definition canon_attr_vals (lz : bool) (p : lprog) (c : cname) (a : attr) : list aval :=
  canon_attr_vals_of (canon_worlds lz p c) a.

(* what the stub declares for `class C: a: ...` *)
Definition infer_attr_of (E CW : list lworld) (c : cname) (a : attr) : ty :=
  opt (tjoin (map ty_of (attr_vals c a E ++ canon_attr_vals_of CW a))).
Definition infer_attr (lz : bool) (p : lprog) (c : cname) (a : attr) : ty :=
  infer_attr_of (exit_lworlds lz p) (canon_worlds lz p c) c a.

(* what the stub declares for `def m(self, ...) -> ...` in class C *)
Definition declared_ret (lz : bool) (p : lprog) (c : cname) (m : mname) : ty :=
  opt (tjoin (map ty_of (canon_rets lz p c m))).

(* the classes an object name may hold at the exit *)
Definition obj_classes (lz : bool) (p : lprog) (o : oname) : list cname :=
  dedup Nat.eqb (flat_map (fun W => match alook (ao W) o with
                                    | Some i => match nth_error (ah W) i with Some cf => [fst cf] | None => [] end
                                    | None => []
                                    end) (exit_lworlds lz p)).

(* ------------------------------------------------------------------------------------------------ *)
(* One program, everything the harness compares *)

Definition enc_ovalue (ov : option value) : list Z := match ov with Some v => enc_value v | None => [(-1)%Z] end.

Definition lreport (p : lprog) (names : list name) (onames : list oname) (cattrs_ : list (cname * attr))
                   (meths : list (cname * mname)) (fuel : nat) :=
  let E0 := exit_lworlds false p in
  let E1 := exit_lworlds true p in
  let cs := seq 0 (length (pclasses p)) in
  let C0 := map (canon_worlds_of false p E0) cs in
  let C1 := map (canon_worlds_of true p E1) cs in
  let lvals := fun (E : list lworld) x => lvalues_of x E in
  let oc := fun (E : list lworld) o =>
    dedup Nat.eqb (flat_map (fun W => match alook (ao W) o with
                                      | Some i => match nth_error (ah W) i with Some cf => [fst cf] | None => [] end
                                      | None => []
                                      end) E) in
  (map (fun x => (negb (is_nil (lvals E0 x)), enc_ty (opt (tjoin (map ty_of (lvals E0 x)))),
                  negb (is_nil (lvals E1 x)), enc_ty (opt (tjoin (map ty_of (lvals E1 x)))))) names,
   map (fun ca => (enc_ty (infer_attr_of E0 (nth (fst ca) C0 []) (fst ca) (snd ca)),
                   enc_ty (infer_attr_of E1 (nth (fst ca) C1 []) (fst ca) (snd ca)))) cattrs_,
   map (fun cm => (enc_ty (opt (tjoin (map ty_of (canon_rets_of false p (nth (fst cm) C0 []) (fst cm) (snd cm))))),
                   enc_ty (opt (tjoin (map ty_of (canon_rets_of true p (nth (fst cm) C1 []) (fst cm) (snd cm)))))))
       meths,
   map (fun o => (oc E0 o, oc E1 o)) onames,
   length E0,
   match leval fuel p with
   | None => None
   | Some st =>
       Some (map (fun x => option_map enc_value (slook (cg (lv st)) x)) names,
             map (fun o => match alook (lo st) o with
                           | Some i => match nth_error (lh st) i with
                                       | Some cs => Some (fst cs, map (fun av => (fst av, enc_value (snd av))) (snd cs))
                                       | None => None
                                       end
                           | None => None
                           end) onames)
   end).

(* the shared computation of [lreport] is the same as the per-query definitions the theorems are about *)
Definition lreport_spec (p : lprog) (names : list name) (cattrs_ : list (cname * attr)) (meths : list (cname * mname)) :=
  (map (fun x => (enc_ty (linfer_mode false p x), enc_ty (linfer_mode true p x))) names,
   map (fun ca => (enc_ty (infer_attr false p (fst ca) (snd ca)), enc_ty (infer_attr true p (fst ca) (snd ca)))) cattrs_,
   map (fun cm => (enc_ty (declared_ret false p (fst cm) (snd cm)), enc_ty (declared_ret true p (fst cm) (snd cm))))
       meths).
