(* FindSolution characterised: one call of FindSolution at state s answers true iff s is a leaf
   (some conflict-free outcome leaves no goal) or the recursive call answered true on some successor
   state; false iff neither - given what the recursive calls did.  Generic in the invariant on the
   memo table, so that the reachability theorem and the exactness theorem both instantiate it. *)
From Coq Require Import List Arith Bool Lia Relations.
From PV Require Import Typegraph.Graph Typegraph.Solver Typegraph.Spec Typegraph.SetLemmas
  Typegraph.RfgProofs Typegraph.PathProofs.
Import ListNotations.

Section Search.
Variable g : graph.

Definition where_of (pos : node) (path : list node) (fin : node) : node :=
  match find (fun n => negb (n =? pos)) path with Some n => n | None => fin end.

(* GoalSet goals(state.goals()) + the condition of the position *)
Definition goals_of (s : state) : list bid :=
  match cond g (fst s) with Some c => sins c (snd s) | None => snd s end.

Definition position_of (pos : node) (new : list bid) (p : node) : Prop :=
  exists fin path, In fin (finish_nodes g new) /\
    find_node_backwards_compute g pos fin (blocked_of g new) = Some (true, path) /\
    p = where_of pos path fin.

(* FindNodeBackwards returned (did not run out of its internal fuel) for every origin node of [new] *)
Definition Defined (pos : node) (new : list bid) : Prop :=
  forall fin, In fin (finish_nodes g new) ->
    exists r, find_node_backwards_compute g pos fin (blocked_of g new) = Some r.

(* s' is a state FindSolution(s) may recurse into *)
Definition Succ (s s' : state) : Prop :=
  exists removed new,
    resolves_at g (fst s) (goals_of s) (removed, new) /\ goals_conflict g removed = false /\
    new <> [] /\ position_of (fst s) new (fst s') /\ snd s' = new.

(* FindSolution(s) can answer "done!" *)
Definition Leaf (s : state) : Prop :=
  exists removed, resolves_at g (fst s) (goals_of s) (removed, []) /\ goals_conflict g removed = false.

Lemma In_dedup : forall l acc x,
  In x (fold_left (fun acc n => if smem n acc then acc else acc ++ [n]) l acc) <-> In x acc \/ In x l.
Proof.
  induction l as [|h t IH]; intros acc x; simpl; [tauto|].
  rewrite IH. destruct (smem h acc) eqn:E.
  - apply smem_In in E. split; intros [H|H]; auto. destruct H as [H|H]; [subst; auto | auto].
  - rewrite in_app_iff. simpl. tauto.
Qed.

Lemma In_finish_nodes : forall new fin,
  In fin (finish_nodes g new) <-> exists b o, In b new /\ In o (origins g b) /\ o_where o = fin.
Proof.
  intros new fin. unfold finish_nodes. rewrite In_dedup. simpl. rewrite in_flat_map. split.
  - intros [[]|[b [Hb Hm]]]. apply in_map_iff in Hm. destruct Hm as [o [Ho Hi]]. exists b, o. auto.
  - intros [b [o [Hb [Ho Hw]]]]. right. exists b. split; [exact Hb|]. apply in_map_iff. exists o. auto.
Qed.

Lemma collect_positions_spec : forall pos blocked finishes pc acc positions pc',
  pc_exact g pc ->
  collect_positions g pc pos blocked finishes acc = Some (positions, pc') ->
  pc_exact g pc' /\
  (forall p, In p positions <->
            In p acc \/ exists fin path, In fin finishes /\
              find_node_backwards_compute g pos fin blocked = Some (true, path) /\ p = where_of pos path fin) /\
  (forall fin, In fin finishes -> exists r, find_node_backwards_compute g pos fin blocked = Some r).
Proof.
  intros pos blocked. induction finishes as [|fin rest IH]; intros pc acc positions pc' Hpc H.
  - simpl in H. inversion H; subst. split; [exact Hpc|]. split; [|intros fin []]. intros p. split; [auto|].
    intros [Hp|[f [pa [[] _]]]]. exact Hp.
  - simpl in H. destruct (find_node_backwards g pc pos fin blocked) as [[[ex path] pc1]|] eqn:Ef; [|discriminate].
    destruct (find_node_backwards_spec g _ _ _ _ _ _ Hpc Ef) as [Hpc1 Hc].
    destruct ex.
    + destruct (IH _ _ _ _ Hpc1 H) as [Hpc' [Hin Hdef]]. split; [exact Hpc'|].
      split; [|intros f [Hf|Hf]; [subst f; eexists; exact Hc | apply Hdef; exact Hf]].
      intros p. rewrite Hin, In_sins. fold (where_of pos path fin). split.
      * intros [[Hp|Hp]|[f [pa [Hf [Hcf Hw]]]]].
        -- right. exists fin, path. split; [left; reflexivity | split; assumption].
        -- left. exact Hp.
        -- right. exists f, pa. split; [right; exact Hf | split; assumption].
      * intros [Hp|[f [pa [[Hf|Hf] [Hcf Hw]]]]].
        -- left. right. exact Hp.
        -- subst f. rewrite Hc in Hcf. inversion Hcf; subst. left. left. reflexivity.
        -- right. exists f, pa. split; [exact Hf | split; assumption].
    + destruct (IH _ _ _ _ Hpc1 H) as [Hpc' [Hin Hdef]]. split; [exact Hpc'|].
      split; [|intros f [Hf|Hf]; [subst f; eexists; exact Hc | apply Hdef; exact Hf]].
      intros p. rewrite Hin. split.
      * intros [Hp|[f [pa [Hf [Hcf Hw]]]]]; [left; exact Hp|].
        right. exists f, pa. split; [right; exact Hf | split; assumption].
      * intros [Hp|[f [pa [[Hf|Hf] [Hcf Hw]]]]]; [left; exact Hp | |].
        -- subst f. rewrite Hc in Hcf. discriminate.
        -- right. exists f, pa. split; [exact Hf | split; assumption].
Qed.

Section WithRec.
Variable rec : sstate -> state -> list state -> option (sstate * bool).
Variable PM : memo -> Prop.
Variables QT QF : state -> Prop.
Variable seen : list state.

Definition P (st : sstate) : Prop := pc_exact g (s_paths st) /\ PM (s_memo st).

Variable pos : node.
Variable allres : list rresult.

Definition SuccL (s' : state) : Prop :=
  exists removed new, In (removed, new) allres /\ goals_conflict g removed = false /\
    new <> [] /\ position_of pos new (fst s') /\ snd s' = new.

Hypothesis Hrec : forall st0 s' st1 r,
  P st0 -> SuccL s' -> rec st0 s' seen = Some (st1, r) ->
  P st1 /\ (r = true -> QT s') /\ (r = false -> QF s').

Lemma try_positions_spec : forall removed new npos,
  In (removed, new) allres -> goals_conflict g removed = false -> new <> [] ->
  forall positions st st' r,
  (forall p, In p positions -> position_of pos new p) -> P st ->
  try_positions rec st new seen npos positions = Some (st', r) ->
  P st' /\
  (r = true -> exists p, In p positions /\ QT (p, new)) /\
  (r = false -> forall p, In p positions -> seen_mem (p, new) seen = true \/ QF (p, new)).
Proof.
  intros removed new npos Hin Hc Hne. induction positions as [|p rest IH]; intros st st' r Hpos HP H.
  - simpl in H. inversion H; subst. split; [exact HP|]. split; [discriminate | intros _ p []].
  - simpl in H.
    assert (Hrest : forall q, In q rest -> position_of pos new q) by (intros q Hq; apply Hpos; right; exact Hq).
    destruct (seen_mem (p, new) seen && (1 <? npos)) eqn:Eskip.
    + destruct (IH _ _ _ Hrest HP H) as [A [B C]]. split; [exact A|]. split.
      * intros Hr. destruct (B Hr) as [q [Hq HQ]]. exists q. split; [right; exact Hq | exact HQ].
      * intros Hr q [Hq|Hq]; [|apply C; assumption].
        subst q. left. apply andb_true_iff in Eskip. tauto.
    + destruct (rec st (p, new) seen) as [[st1 [|]]|] eqn:Er; [| |discriminate].
      * inversion H; subst.
        assert (HS : SuccL (p, new)).
        { exists removed, new. repeat split; auto. apply Hpos. left. reflexivity. }
        destruct (Hrec _ _ _ _ HP HS Er) as [A [B _]]. split; [exact A|]. split; [|discriminate].
        intros _. exists p. split; [left; reflexivity | apply B; reflexivity].
      * assert (HS : SuccL (p, new)).
        { exists removed, new. repeat split; auto. apply Hpos. left. reflexivity. }
        destruct (Hrec _ _ _ _ HP HS Er) as [A [_ B]].
        destruct (IH _ _ _ Hrest A H) as [A' [B' C']]. split; [exact A'|]. split.
        -- intros Hr. destruct (B' Hr) as [q [Hq HQ]]. exists q. split; [right; exact Hq | exact HQ].
        -- intros Hr q [Hq|Hq]; [|apply C'; assumption]. subst q. right. apply B. reflexivity.
Qed.

Lemma try_results_spec : forall results st st' r,
  (forall x, In x results -> In x allres) -> P st ->
  try_results rec g st pos seen results = Some (st', r) ->
  P st' /\
  (r = true -> (exists removed, In (removed, []) results /\ goals_conflict g removed = false) \/
               exists s', SuccL s' /\ QT s') /\
  (r = false -> (forall removed, In (removed, []) results -> goals_conflict g removed = true) /\
                forall removed new, In (removed, new) results -> goals_conflict g removed = false ->
                  new <> [] -> Defined pos new /\
                  forall p, position_of pos new p -> seen_mem (p, new) seen = true \/ QF (p, new)).
Proof.
  induction results as [|[removed new] rest IH]; intros st st' r Hsub HP H.
  - simpl in H. inversion H; subst. split; [exact HP|]. split; [discriminate|].
    intros _. split; [intros removed [] | intros removed new []].
  - simpl in H.
    assert (Hrest : forall x, In x rest -> In x allres) by (intros x Hx; apply Hsub; right; exact Hx).
    destruct (goals_conflict g removed) eqn:Ec.
    + destruct (IH _ _ _ Hrest HP H) as [A [B C]]. split; [exact A|]. split.
      * intros Hr. destruct (B Hr) as [[rm [Hi Hcf]]|Hs]; [left; exists rm; split; [right|]; assumption | right; exact Hs].
      * intros Hr. destruct (C Hr) as [C1 C2]. split.
        -- intros rm [Hi|Hi]; [inversion Hi; subst; exact Ec | apply C1; exact Hi].
        -- intros rm nw [Hi|Hi] Hcf; [inversion Hi; subst; congruence | eapply C2; eassumption].
    + destruct new as [|b0 nt].
      * inversion H; subst. split; [exact HP|]. split; [|discriminate].
        intros _. left. exists removed. split; [left; reflexivity | exact Ec].
      * destruct (collect_positions g (s_paths st) pos (blocked_of g (b0 :: nt)) (finish_nodes g (b0 :: nt)) [])
          as [[positions pc']|] eqn:Ecp; [|discriminate].
        destruct HP as [HP1 HP2].
        destruct (collect_positions_spec _ _ _ _ _ _ _ HP1 Ecp) as [Hpc' [Hposs Hdef]].
        assert (HPmid : P (mkS (s_memo st) pc')) by (split; assumption).
        assert (Hin : In (removed, b0 :: nt) allres) by (apply Hsub; left; reflexivity).
        assert (Hne : b0 :: nt <> []) by discriminate.
        assert (Hpo : forall p, In p positions -> position_of pos (b0 :: nt) p).
        { intros p Hp. apply Hposs in Hp. destruct Hp as [[]|[fin [path [Hf [Hcf Hw]]]]].
          exists fin, path. repeat split; assumption. }
        destruct (try_positions rec (mkS (s_memo st) pc') (b0 :: nt) seen (length positions) positions)
          as [[st1 [|]]|] eqn:Etp; [| |discriminate].
        -- inversion H; subst.
           destruct (try_positions_spec _ _ _ Hin Ec Hne _ _ _ _ Hpo HPmid Etp) as [A [B _]].
           split; [exact A|]. split; [|discriminate]. intros _. right.
           destruct (B eq_refl) as [p [Hp HQ]]. exists (p, b0 :: nt). split; [|exact HQ].
           exists removed, (b0 :: nt). repeat split; auto.
        -- destruct (try_positions_spec _ _ _ Hin Ec Hne _ _ _ _ Hpo HPmid Etp) as [A [_ B]].
           destruct (IH _ _ _ Hrest A H) as [A' [B' C']]. split; [exact A'|]. split.
           ++ intros Hr. destruct (B' Hr) as [[rm [Hi Hcf]]|Hs]; [left; exists rm; split; [right|]; assumption | right; exact Hs].
           ++ intros Hr. destruct (C' Hr) as [C1 C2]. split.
              ** intros rm [Hi|Hi]; [inversion Hi | apply C1; exact Hi].
              ** intros rm nw [Hi|Hi] Hcf Hnw; [|eapply C2; eassumption].
                 inversion Hi; subst. split; [exact Hdef|]. intros p Hp. apply B; [reflexivity|].
                 apply Hposs. right. destruct Hp as [fin [path [Hf [Hc2 Hw]]]].
                 exists fin, path. repeat split; assumption.
Qed.
End WithRec.

Lemma SS_goals_of : forall s : state, SS (snd s) -> SS (goals_of s).
Proof.
  intros s H. unfold goals_of. generalize (cond g (fst s)). intros [c|]; [apply SS_sins|]; exact H.
Qed.

Theorem find_solution_spec : forall rec (PM : memo -> Prop) (QT QF : state -> Prop) seen fuel st (s : state) st' r,
  SS (snd s) -> P PM st ->
  (forall st0 s' st1 r, P PM st0 -> Succ s s' -> rec st0 s' seen = Some (st1, r) ->
                        P PM st1 /\ (r = true -> QT s') /\ (r = false -> QF s')) ->
  find_solution rec fuel g st s seen = Some (st', r) ->
  P PM st' /\
  (r = true -> Leaf s \/ exists s', Succ s s' /\ QT s') /\
  (r = false -> ~ Leaf s /\ (forall s', Succ s s' -> seen_mem s' seen = true \/ QF s') /\
                forall removed new, resolves_at g (fst s) (goals_of s) (removed, new) ->
                  goals_conflict g removed = false -> new <> [] -> Defined (fst s) new).
Proof.
  intros rec PM QT QF seen fuel st [pos sgoals] st' r Hss HP Hrec H.
  assert (Hfs : find_solution rec fuel g st (pos, sgoals) seen =
                match remove_finished_goals fuel g pos (goals_of (pos, sgoals)) with
                | None => None
                | Some results => try_results rec g st pos seen results
                end) by reflexivity.
  rewrite Hfs in H. clear Hfs.
  destruct (remove_finished_goals fuel g pos (goals_of (pos, sgoals))) as [results|] eqn:Er; [|discriminate].
  pose proof (rfg_correct g pos _ _ _ (SS_goals_of _ Hss) Er) as Hres.
  assert (HSL : forall s', SuccL pos results s' -> Succ (pos, sgoals) s').
  { intros s' [removed [new [Hi [Hc [Hne [Hp Hs]]]]]]. exists removed, new.
    repeat split; auto. apply Hres. exact Hi. }
  assert (Hrec' : forall st0 s' st1 r0, P PM st0 -> SuccL pos results s' -> rec st0 s' seen = Some (st1, r0) ->
                    P PM st1 /\ (r0 = true -> QT s') /\ (r0 = false -> QF s')).
  { intros. eapply Hrec; eauto. }
  destruct (try_results_spec rec PM QT QF seen pos results Hrec' results st st' r (fun x Hx => Hx) HP H)
    as [A [B C]].
  split; [exact A|]. split.
  - intros Hr. destruct (B Hr) as [[rm [Hi Hc]]|[s' [Hs HQ]]].
    + left. exists rm. split; [apply Hres; exact Hi | exact Hc].
    + right. exists s'. split; [apply HSL; exact Hs | exact HQ].
  - intros Hr. destruct (C Hr) as [C1 C2]. split.
    + intros [rm [Hra Hc]]. apply Hres in Hra. apply C1 in Hra. congruence.
    + split.
      * intros [p nw] [removed [new [Hra [Hc [Hne [Hp Hs]]]]]]. simpl in *. subst nw.
        apply Hres in Hra. destruct (C2 _ _ Hra Hc Hne) as [_ C3]. apply C3. exact Hp.
      * intros removed new Hra Hc Hne. simpl in Hra. apply Hres in Hra.
        destruct (C2 _ _ Hra Hc Hne) as [C3 _]. exact C3.
Qed.

(* successor positions are backward reachable; a successor's goals do not originate at s *)
Lemma position_reach : forall pos new p, position_of pos new p -> breach g pos p.
Proof.
  intros pos new p [fin [path [Hf [Hc Hw]]]].
  destruct (fnb_compute_spec g _ _ _ _ _ Hc) as [Hex Hpath].
  subst p. unfold where_of. destruct (find (fun n => negb (n =? pos)) path) as [n|] eqn:E.
  - apply find_some in E. apply Hpath. tauto.
  - eapply creach_breach. apply Hex. reflexivity.
Qed.

Lemma position_neq : forall pos new p,
  (forall b, In b new -> find_origin g b pos = None) -> position_of pos new p -> p <> pos.
Proof.
  intros pos new p Hno [fin [path [Hf [Hc Hw]]]].
  subst p. unfold where_of. destruct (find (fun n => negb (n =? pos)) path) as [n|] eqn:E.
  - apply find_some in E. destruct E as [_ E]. apply negb_true_iff in E. apply Nat.eqb_neq in E. exact E.
  - apply In_finish_nodes in Hf. destruct Hf as [b [o [Hb [Ho Hw]]]]. intros Heq.
    specialize (Hno b Hb). unfold find_origin in Hno.
    eapply find_none in Hno; [|exact Ho]. simpl in Hno. rewrite Hw, Heq, Nat.eqb_refl in Hno. discriminate.
Qed.
End Search.
