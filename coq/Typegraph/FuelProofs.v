(* The fuel that FindShortestPathToNode's worklist loop is given in the model (number of CFG
   edges + 2) always suffices: bfs_loop never returns None.  (The other fuels - recursion depth of the
   search, steps of remove_finished_goals, the articulation loop - are hypotheses of the theorems
   (`... = Some ...`) and are monitored by the correspondence check: a model answer `?` is a mismatch.) *)
From Coq Require Import List Arith Bool Lia.
From PV Require Import Typegraph.Graph Typegraph.Solver Typegraph.Spec Typegraph.SetLemmas.
Import ListNotations.

Section Fuel.
Variable g : graph.

(* edges into nodes of l that have not been expanded yet *)
Fixpoint unexp (l : list node) (seen : list node) : nat :=
  match l with
  | [] => 0
  | n :: t => (if smem n seen then 0 else length (incoming g n)) + unexp t seen
  end.

Lemma unexp_sins_notin : forall l nd seen, ~ In nd l -> unexp l (sins nd seen) = unexp l seen.
Proof.
  induction l as [|n t IH]; intros nd seen H; [reflexivity|]. simpl.
  rewrite smem_sins. destruct (n =? nd) eqn:E.
  - apply Nat.eqb_eq in E. subst. exfalso. apply H. left. reflexivity.
  - simpl. rewrite IH; [reflexivity|]. intros Hin. apply H. right. exact Hin.
Qed.

Lemma unexp_sins_in : forall l nd seen, NoDup l -> In nd l -> smem nd seen = false ->
  unexp l (sins nd seen) + length (incoming g nd) = unexp l seen.
Proof.
  induction l as [|n t IH]; intros nd seen Hnd Hin Hs; [destruct Hin|].
  inversion Hnd; subst. simpl. rewrite smem_sins. destruct Hin as [Hin|Hin].
  - subst n. rewrite Nat.eqb_refl, Hs. simpl. rewrite unexp_sins_notin by assumption. lia.
  - destruct (n =? nd) eqn:E.
    + apply Nat.eqb_eq in E. subst. contradiction.
    + simpl. specialize (IH nd seen H2 Hin Hs). lia.
Qed.

Definition all_nodes : list node := seq 0 (n_nodes g).

Lemma incoming_out_of_range : forall nd, ~ In nd all_nodes -> incoming g nd = [].
Proof.
  intros nd H. unfold all_nodes in H. rewrite in_seq in H. unfold incoming, get_node.
  rewrite nth_overflow; [reflexivity|]. unfold n_nodes in H. lia.
Qed.

Lemma bfs_total : forall fuel finish blocked queue seen prev,
  length queue + unexp all_nodes seen < fuel ->
  bfs_loop fuel g finish blocked queue seen prev <> None.
Proof.
  induction fuel as [|f IH]; intros finish blocked queue seen prev H; [lia|].
  simpl. destruct queue as [|nd q]; [discriminate|].
  destruct (nd =? finish); [discriminate|].
  destruct (smem nd seen || smem nd blocked) eqn:E.
  - apply IH. simpl in H. lia.
  - apply orb_false_iff in E. destruct E as [Es _]. apply IH. rewrite app_length. simpl in H.
    destruct (in_dec Nat.eq_dec nd all_nodes) as [Hin|Hout].
    + pose proof (unexp_sins_in all_nodes nd seen (seq_NoDup _ _) Hin Es). lia.
    + rewrite (incoming_out_of_range nd Hout). rewrite unexp_sins_notin by assumption. simpl. lia.
Qed.

Lemma map_nth_seq : forall {A} (l : list A) d, map (fun i => nth i l d) (seq 0 (length l)) = l.
Proof.
  intros A. induction l as [|a t IH]; intros d; [reflexivity|].
  simpl. f_equal. rewrite <- seq_shift, map_map. apply IH.
Qed.

Lemma unexp_nil_edges : unexp all_nodes [] = edge_count g.
Proof.
  unfold all_nodes, edge_count, n_nodes, incoming, get_node.
  rewrite <- (map_nth_seq (g_nodes g) (mkNode [] None)) at 2.
  generalize (seq 0 (length (g_nodes g))). induction l as [|n t IH]; [reflexivity|].
  simpl. rewrite IH. reflexivity.
Qed.

(* the loop of FindShortestPathToNode always terminates within the fuel the model gives it *)
Theorem bfs_fuel_sufficient : forall start finish blocked,
  bfs_loop (edge_count g + 2) g finish blocked [start] [] [(start, None)] <> None.
Proof.
  intros. apply bfs_total. rewrite unexp_nil_edges. simpl. lia.
Qed.
End Fuel.

(* ------------------------------------------------------------------------------------------ *)
(* remove_finished_goals terminates: big-step form of the action-stack machine *)
From PV Require Import Typegraph.RfgProofs Typegraph.ResolveMono.

Section RfgTerm.
Variable g : graph.
Variable pos : node.

Lemma erase_run_eq : forall xs fuel results acts gtr seen rem new,
  rfg_loop (length xs + fuel) g pos results (map A_ERASE_GTR xs ++ acts) (mkT gtr seen rem new)
  = rfg_loop fuel g pos results acts (mkT (fold_left (fun l x => srem x l) xs gtr) seen rem new).
Proof.
  induction xs as [|x xs IH]; intros; [reflexivity|]. simpl. apply IH.
Qed.

(* the goals a source set adds to goals_to_remove, last added first (= the ERASE actions pushed) *)
Fixpoint added_of (cur gtr : list nat) : list nat :=
  match cur with
  | [] => []
  | x :: c => if smem x gtr then added_of c gtr else added_of c (sins x gtr) ++ [x]
  end.

Lemma iss_eq : forall cur gtr acts, SS gtr ->
  insert_source_set cur gtr acts = (sunion gtr cur, map A_ERASE_GTR (added_of cur gtr) ++ acts) /\
  fold_left (fun (l : list nat) (x : nat) => srem x l) (added_of cur gtr) (sunion gtr cur) = gtr.
Proof.
  induction cur as [|x cur IH]; intros gtr acts Hg.
  - split; reflexivity.
  - rewrite iss_cons, sunion_cons. simpl. destruct (smem x gtr) eqn:E.
    + destruct (IH gtr acts Hg) as [H1 H2]. rewrite (sins_mem x gtr Hg E). split; assumption.
    + destruct (IH (sins x gtr) (A_ERASE_GTR x :: acts) (SS_sins x gtr Hg)) as [H1 H2].
      rewrite H1. split.
      * rewrite map_app. simpl. rewrite <- app_assoc. reflexivity.
      * rewrite fold_left_app. rewrite H2. cbn [fold_left]. apply srem_sins; assumption.
Qed.

Definition Tterm (gtr seen rem new : list bid) : Prop :=
  exists n rs, forall fuel results acts,
    rfg_loop (n + fuel) g pos results (A_TRAVERSE :: acts) (mkT gtr seen rem new)
    = rfg_loop fuel g pos (results ++ rs) acts (mkT gtr seen rem new).

Lemma all_term : forall rest cur gtr seen rem new,
  SS gtr ->
  (forall ss, In ss (cur :: rest) -> Tterm (sunion gtr ss) seen rem new) ->
  exists n rs, forall fuel results acts,
    rfg_loop (n + fuel) g pos results (A_TRAVERSE_ALL cur rest :: acts) (mkT gtr seen rem new)
    = rfg_loop fuel g pos (results ++ rs) acts (mkT gtr seen rem new).
Proof.
  induction rest as [|c r IH]; intros cur gtr seen rem new Hg Hall.
  - destruct (Hall cur (or_introl eq_refl)) as [n1 [rs1 H1]].
    exists (S (n1 + length (added_of cur gtr))), rs1. intros fuel results acts.
    destruct (iss_eq cur gtr acts Hg) as [Hins Hundo].
    simpl. rewrite Hins. rewrite <- Nat.add_assoc, H1, erase_run_eq, Hundo. reflexivity.
  - destruct (Hall cur (or_introl eq_refl)) as [n1 [rs1 H1]].
    destruct (IH c gtr seen rem new Hg) as [n2 [rs2 H2]].
    { intros ss Hss. apply Hall. right. exact Hss. }
    exists (S (n1 + (length (added_of cur gtr) + n2))), (rs1 ++ rs2). intros fuel results acts.
    destruct (iss_eq cur gtr (A_TRAVERSE_ALL c r :: acts) Hg) as [Hins Hundo].
    simpl. rewrite Hins. rewrite <- !Nat.add_assoc, H1, erase_run_eq, Hundo, H2, app_assoc. reflexivity.
Qed.

Lemma step3 : forall fuel results acts a1 goal gtr seen rem new rem' new',
  SS (goal :: gtr) -> SS seen -> smem goal seen = false ->
  (a1 = A_ERASE_NEW /\ rem' = rem /\ new' = goal :: new) \/
  (a1 = A_ERASE_REMOVED /\ rem' = goal :: rem /\ new' = new) ->
  rfg_loop (3 + fuel) g pos results (a1 :: A_ERASE_SEEN goal :: A_INSERT_GTR goal :: acts)
           (mkT gtr (sins goal seen) rem' new')
  = rfg_loop fuel g pos results acts (mkT (goal :: gtr) seen rem new).
Proof.
  intros fuel results acts a1 goal gtr seen rem new rem' new' Hg Hs Hm
    [[E1 [E2 E3]]|[E1 [E2 E3]]]; subst; simpl;
    rewrite srem_sins by assumption; rewrite sins_head by assumption; reflexivity.
Qed.

Lemma rfg_term : forall k j gtr seen rem new,
  unseen (bindings_at g pos) seen <= k -> length gtr <= j -> SS gtr -> SS seen ->
  Tterm gtr seen rem new.
Proof.
  induction k as [k IHk] using lt_wf_ind. induction j as [|j IHj]; intros gtr seen rem new Hk Hj Hg Hs.
  - destruct gtr; [|simpl in Hj; lia]. exists 1, [(sof_list rem, sof_list new)]. intros. reflexivity.
  - destruct gtr as [|goal gtr].
    + exists 1, [(sof_list rem, sof_list new)]. intros. reflexivity.
    + destruct (SS_cons_inv _ _ Hg) as [Hg' _]. simpl in Hj.
      destruct (smem goal seen) eqn:Es.
      * destruct (IHj gtr seen rem new Hk ltac:(lia) Hg' Hs) as [n1 [rs H1]].
        exists (S (n1 + 1)), rs. intros fuel results acts.
        cbn [Nat.add]. rewrite step_traverse, traverse_seen by assumption.
        rewrite <- Nat.add_assoc, H1. simpl. rewrite sins_head by assumption. reflexivity.
      * destruct (find_origin g goal pos) as [o|] eqn:Eo.
        -- assert (HgU : In goal (bindings_at g pos)).
           { apply smem_In. apply (at_pos_origin g pos goal). congruence. }
           pose proof (unseen_lt _ goal seen HgU Es) as Hlt.
           destruct (o_ssets o) as [|cur rest] eqn:Ess.
           ++ exists 4, []. intros fuel results acts.
              cbn [Nat.add]. rewrite step_traverse, (traverse_rem0 _ _ _ _ _ _ _ _ _ o) by assumption.
              rewrite app_nil_r. apply (step3 fuel); auto.
           ++ destruct (all_term rest cur gtr (sins goal seen) (goal :: rem) new Hg') as [n1 [rs H1]].
              { intros ss _. eapply (IHk (unseen (bindings_at g pos) (sins goal seen)) ltac:(lia)
                                         (length (sunion gtr ss))); auto.
                - apply SS_sunion. exact Hg'.
                - apply SS_sins. exact Hs. }
              exists (S (n1 + 3)), rs. intros fuel results acts.
              cbn [Nat.add]. rewrite step_traverse, (traverse_rem _ _ _ _ _ _ _ _ _ o cur rest) by assumption.
              rewrite <- Nat.add_assoc, H1. apply (step3 fuel); auto.
        -- pose proof (unseen_le (bindings_at g pos) goal seen) as Hle.
           destruct (IHj gtr (sins goal seen) rem (goal :: new) ltac:(lia) ltac:(lia) Hg' (SS_sins goal seen Hs))
             as [n1 [rs H1]].
           exists (S (n1 + 3)), rs. intros fuel results acts.
           cbn [Nat.add]. rewrite step_traverse, traverse_new by assumption.
           rewrite <- Nat.add_assoc, H1. apply (step3 fuel); auto.
Qed.

(* remove_finished_goals terminates on every position and goal set *)
Theorem rfg_terminates : forall goals, SS goals ->
  exists n results, forall fuel, remove_finished_goals (n + fuel) g pos goals = Some results.
Proof.
  intros goals Hg. unfold remove_finished_goals.
  destruct (rfg_term _ _ (filter (fun b => smem b (bindings_at g pos)) goals) [] []
              (rev (filter (fun b => negb (smem b (filter (fun b => smem b (bindings_at g pos)) goals))) goals))
              (Nat.le_refl _) (Nat.le_refl _) (SS_filter _ _ Hg) SS_nil) as [n [rs H]].
  exists (n + 1), rs. intros fuel. rewrite <- Nat.add_assoc, H. reflexivity.
Qed.
End RfgTerm.

(* ------------------------------------------------------------------------------------------ *)
(* FindHighestReachableWeight: its fuel (2 * edges + 2) suffices, and it returns a node of the
   shortest path at least as far along it as every path node it is started next to *)
Section Fhrw.
Variable g : graph.

Lemma unexp_le_nil : forall l seen, unexp g l seen <= unexp g l [].
Proof.
  induction l as [|n t IH]; intros seen; simpl; [lia|]. specialize (IH seen).
  destruct (smem n seen); simpl; lia.
Qed.

Lemma unexp_ge_term : forall l n, In n l -> length (incoming g n) <= unexp g l [].
Proof.
  induction l as [|m t IH]; intros n H; [destruct H|]. simpl. destruct H as [H|H].
  - subst. lia.
  - specialize (IH n H). lia.
Qed.

Lemma incoming_le_edges : forall n, length (incoming g n) <= edge_count g.
Proof.
  intros n. rewrite <- (unexp_nil_edges g).
  destruct (in_dec Nat.eq_dec n (all_nodes g)) as [Hin|Hout].
  - apply unexp_ge_term. exact Hin.
  - rewrite (incoming_out_of_range g n Hout). simpl. lia.
Qed.

Lemma fhrw_total : forall fuel start sp stack seen best,
  length stack + unexp g (all_nodes g) seen < fuel ->
  fhrw_loop fuel g start sp stack seen best <> None.
Proof.
  induction fuel as [|f IH]; intros start sp stack seen best H; [lia|].
  simpl. destruct stack as [|nd stk]; [discriminate|]. simpl in H.
  destruct (nd =? start); [apply IH; lia|].
  destruct (smem nd seen) eqn:Es; [apply IH; lia|].
  apply IH. rewrite app_length, rev_length.
  destruct (in_dec Nat.eq_dec nd (all_nodes g)) as [Hin|Hout].
  - pose proof (unexp_sins_in g (all_nodes g) nd seen (seq_NoDup _ _) Hin Es). lia.
  - rewrite (incoming_out_of_range g nd Hout). rewrite unexp_sins_notin by assumption. simpl. lia.
Qed.

Lemma find_highest_total : forall start sp seen,
  find_highest_reachable_weight g start sp seen <> None.
Proof.
  intros. unfold find_highest_reachable_weight. apply fhrw_total. rewrite rev_length.
  pose proof (incoming_le_edges start). pose proof (unexp_le_nil (all_nodes g) seen).
  rewrite (unexp_nil_edges g) in H0. lia.
Qed.

(* weight of the result dominates the weights of everything on the stack and of the current best *)
Definition wt (sp : list node) (x : node) (w : nat) : Prop := windex x sp = Some w.

Lemma fhrw_best : forall fuel start sp stack seen best res seen',
  fhrw_loop fuel g start sp stack seen best = Some (res, seen') ->
  (forall bw bn, best = Some (bw, bn) -> wt sp bn bw) ->
  (forall nx, res = Some nx -> exists w, wt sp nx w) /\
  (forall bw bn, best = Some (bw, bn) -> exists nx w, res = Some nx /\ wt sp nx w /\ bw <= w) /\
  (forall x wx, In x stack -> x <> start -> wt sp x wx -> exists nx w, res = Some nx /\ wt sp nx w /\ wx <= w).
Proof.
  induction fuel as [|f IH]; intros start sp stack seen best res seen' H Hb; [discriminate|].
  simpl in H. destruct stack as [|nd stk].
  - inversion H; subst. split; [|split].
    + intros nx E. destruct best as [[bw bn]|]; [|discriminate]. simpl in E. inversion E; subst.
      exists bw. apply Hb. reflexivity.
    + intros bw bn E. subst. exists bn, bw. simpl. split; [reflexivity|]. split; [apply Hb; reflexivity | lia].
    + intros x wx [].
  - destruct (nd =? start) eqn:Est.
    + destruct (IH _ _ _ _ _ _ _ H Hb) as [A [B C]]. split; [exact A|]. split; [exact B|].
      intros x wx [Hx|Hx] Hne Hw; [subst; apply Nat.eqb_eq in Est; congruence | eapply C; eauto].
    + match type of H with context [fhrw_loop f g start sp _ _ ?b'] => set (best' := b') in * end.
      assert (Hb' : forall bw bn, best' = Some (bw, bn) -> wt sp bn bw).
      { intros bw bn E. subst best'. destruct (windex nd sp) as [w0|] eqn:Ew.
        - destruct best as [[bw0 bn0]|].
          + destruct (bw0 <? w0); [inversion E; subst; exact Ew | apply Hb; exact E].
          + inversion E; subst. exact Ew.
        - apply Hb. exact E. }
      assert (Hmono : forall bw bn, best = Some (bw, bn) -> exists bw' bn', best' = Some (bw', bn') /\ bw <= bw').
      { intros bw bn E. subst best' best. destruct (windex nd sp) as [w0|].
        - destruct (bw <? w0) eqn:El; [apply Nat.ltb_lt in El; exists w0, nd; split; [reflexivity | lia]|].
          exists bw, bn. split; [reflexivity | lia].
        - exists bw, bn. split; [reflexivity | lia]. }
      assert (Hnd : forall wx, wt sp nd wx -> exists bw' bn', best' = Some (bw', bn') /\ wx <= bw').
      { intros wx Hw. unfold wt in Hw. subst best'. rewrite Hw. destruct best as [[bw0 bn0]|].
        - destruct (bw0 <? wx) eqn:El; [exists wx, nd; split; [reflexivity | lia]|].
          apply Nat.ltb_ge in El. exists bw0, bn0. split; [reflexivity | lia].
        - exists wx, nd. split; [reflexivity | lia]. }
      assert (Hres : exists stack' seen2, fhrw_loop f g start sp stack' seen2 best' = Some (res, seen') /\
                                          forall x, In x stk -> In x stack').
      { destruct (smem nd seen).
        - exists stk, seen. split; [exact H | auto].
        - exists (rev (incoming g nd) ++ stk), (sins nd seen). split; [exact H|].
          intros x Hx. apply in_app_iff. right. exact Hx. }
      destruct Hres as [stack' [seen2 [Hrun Hsub]]].
      destruct (IH _ _ _ _ _ _ _ Hrun Hb') as [A [B C]]. split; [exact A|]. split.
      * intros bw bn E. destruct (Hmono _ _ E) as [bw' [bn' [E' Hle]]].
        destruct (B _ _ E') as [nx [w [E1 [E2 E3]]]]. exists nx, w. split; [exact E1|]. split; [exact E2 | lia].
      * intros x wx [Hx|Hx] Hne Hw.
        -- subst x. destruct (Hnd _ Hw) as [bw' [bn' [E' Hle]]].
           destruct (B _ _ E') as [nx [w [E1 [E2 E3]]]]. exists nx, w. split; [exact E1|]. split; [exact E2 | lia].
        -- eapply C; eauto.
Qed.
End Fhrw.

(* ------------------------------------------------------------------------------------------ *)
(* the articulation loop of FindNodeBackwards terminates (and never meets the nullptr) when the
   shortest path is a simple backward path from start to finish *)
Section Artic.
Variable g : graph.

Definition consecutive (l : list node) : Prop :=
  forall i, S i < length l -> In (nth (S i) l 0) (incoming g (nth i l 0)).

Definition good_path (sp : list node) (start finish : node) : Prop :=
  NoDup sp /\ sp <> [] /\ nth 0 sp 0 = start /\ last sp 0 = finish /\ consecutive sp.

Lemma windex_nth : forall sp x w, windex x sp = Some w -> nth w sp 0 = x /\ w < length sp.
Proof.
  induction sp as [|h t IH]; intros x w H; [discriminate|]. simpl in H.
  destruct (h =? x) eqn:E.
  - inversion H; subst. apply Nat.eqb_eq in E. simpl. split; [exact E | lia].
  - destruct (windex x t) as [w'|] eqn:Ew; [|discriminate]. simpl in H. inversion H; subst.
    destruct (IH _ _ Ew) as [A B]. simpl. split; [exact A | lia].
Qed.

Lemma windex_NoDup : forall sp j, NoDup sp -> j < length sp -> windex (nth j sp 0) sp = Some j.
Proof.
  induction sp as [|h t IH]; intros j Hnd Hj; [simpl in Hj; lia|].
  inversion Hnd; subst. destruct j as [|j]; simpl.
  - rewrite Nat.eqb_refl. reflexivity.
  - simpl in Hj. destruct (h =? nth j t 0) eqn:E.
    + apply Nat.eqb_eq in E. exfalso. apply H1. rewrite E. apply nth_In. lia.
    + rewrite IH by (assumption || lia). reflexivity.
Qed.

Lemma last_nth : forall (l : list node) d, l <> [] -> last l d = nth (length l - 1) l d.
Proof.
  induction l as [|a t IH]; intros d H; [congruence|]. destruct t as [|b t'].
  - reflexivity.
  - change (last (a :: b :: t') d) with (last (b :: t') d). rewrite IH by discriminate.
    simpl. rewrite Nat.sub_0_r. reflexivity.
Qed.

Lemma NoDup_nth_neq : forall (l : list node) i j, NoDup l -> i < length l -> j < length l -> i <> j ->
  nth i l 0 <> nth j l 0.
Proof.
  intros l i j Hnd Hi Hj Hne E. apply Hne. eapply (proj1 (NoDup_nth l 0)); eauto.
Qed.

Lemma artic_total : forall sp start finish, good_path sp start finish ->
  forall fuel i blk path, i < length sp -> length sp - i < fuel ->
  artic_loop fuel g finish sp (nth i sp 0) blk path <> None.
Proof.
  intros sp start finish [Hnd [Hne [Hs [Hl Hc]]]].
  induction fuel as [|f IH]; intros i blk path Hi Hf; [lia|].
  simpl. destruct (nth i sp 0 =? finish) eqn:E; [discriminate|]. apply Nat.eqb_neq in E.
  assert (Hsi : S i < length sp).
  { destruct (Nat.eq_dec (S i) (length sp)) as [Heq|Hneq]; [|lia].
    exfalso. apply E. rewrite <- Hl, (last_nth sp 0 Hne). f_equal. lia. }
  destruct (find_highest_reachable_weight g (nth i sp 0) sp blk) as [[res blk']|] eqn:Ef;
    [|exfalso; eapply find_highest_total; exact Ef].
  unfold find_highest_reachable_weight in Ef.
  destruct (fhrw_best g _ _ _ _ _ _ _ _ Ef ltac:(intros; discriminate)) as [_ [_ C]].
  destruct (C (nth (S i) sp 0) (S i)) as [nx [w [E1 [E2 E3]]]].
  - rewrite <- in_rev. apply Hc. exact Hsi.
  - apply NoDup_nth_neq; auto; lia.
  - apply windex_NoDup; assumption.
  - subst res. destruct (windex_nth _ _ _ E2) as [Hnx Hw]. rewrite <- Hnx. apply IH; lia.
Qed.
End Artic.

(* ------------------------------------------------------------------------------------------ *)
(* the `previous` map of FindShortestPathToNode: following it from any discovered node yields a
   simple backward path from start; so the path reconstruction terminates within its fuel *)
Section Prev.
Variable g : graph.
Variable start : node.

Inductive chain (prev : prevmap) : node -> list node -> Prop :=
| ch_root : forall n, plookup n prev = Some None -> chain prev n [n]
| ch_step : forall n m l, plookup n prev = Some (Some m) -> chain prev m l -> chain prev n (l ++ [n]).

Definition is_key (prev : prevmap) (x : node) : Prop := plookup x prev <> None.

Definition chain_ok (prev : prevmap) (n : node) (l : list node) : Prop :=
  chain prev n l /\ NoDup l /\ (forall x, In x l -> is_key prev x) /\ nth 0 l 0 = start /\ consecutive g l.

Definition prev_ok (prev : prevmap) : Prop :=
  forall n v, plookup n prev = Some v -> exists l, chain_ok prev n l.

Lemma plookup_app : forall n p q,
  plookup n (p ++ q) = match plookup n p with Some v => Some v | None => plookup n q end.
Proof.
  induction p as [|[k v] t IH]; intros q; simpl; [reflexivity|].
  destruct (k =? n); [reflexivity | apply IH].
Qed.

Lemma chain_last : forall prev n l, chain prev n l -> l <> [] /\ last l 0 = n.
Proof.
  intros prev n l H. induction H.
  - split; [discriminate | reflexivity].
  - split; [destruct l; discriminate | apply last_last].
Qed.

Lemma chain_ext : forall prev x v n l, plookup x prev = None ->
  chain prev n l -> chain (prev ++ [(x, v)]) n l.
Proof.
  intros prev x v n l Hx H. induction H.
  - apply ch_root. rewrite plookup_app, H. reflexivity.
  - eapply ch_step; [|exact IHchain]. rewrite plookup_app, H. reflexivity.
Qed.

Lemma consecutive_snoc : forall l x, l <> [] -> consecutive g l -> In x (incoming g (last l 0)) ->
  consecutive g (l ++ [x]).
Proof.
  intros l x Hne Hc Hx i Hi. rewrite app_length in Hi. simpl in Hi.
  destruct (Nat.eq_dec (S i) (length l)) as [E|E].
  - rewrite app_nth2 by lia. replace (S i - length l) with 0 by lia. simpl.
    rewrite app_nth1 by lia. rewrite (last_nth l 0 Hne) in Hx. replace (length l - 1) with i in Hx by lia. exact Hx.
  - rewrite !app_nth1 by lia. apply Hc. lia.
Qed.

Lemma NoDup_app_snoc : forall (l : list node) x, NoDup l -> ~ In x l -> NoDup (l ++ [x]).
Proof.
  induction l as [|a t IH]; intros x Hnd Hx; simpl.
  - constructor; [intros [] | constructor].
  - inversion Hnd; subst. constructor.
    + intros Hin. apply in_app_iff in Hin. destruct Hin as [Hin|[Hin|[]]]; [contradiction|].
      subst. apply Hx. left. reflexivity.
    + apply IH; [assumption|]. intros Hin. apply Hx. right. exact Hin.
Qed.

Lemma pemplace_ok : forall prev x nd,
  prev_ok prev -> is_key prev nd -> In x (incoming g nd) ->
  prev_ok (pemplace x (Some nd) prev) /\
  (forall y, is_key prev y -> is_key (pemplace x (Some nd) prev) y) /\
  is_key (pemplace x (Some nd) prev) x.
Proof.
  intros prev x nd Hok Hnd Hx. unfold pemplace. destruct (plookup x prev) as [v|] eqn:Ex.
  - split; [exact Hok|]. split; [auto|]. unfold is_key. congruence.
  - assert (Hkeys : forall y, is_key prev y -> is_key (prev ++ [(x, Some nd)]) y).
    { intros y Hy. unfold is_key in *. rewrite plookup_app. destruct (plookup y prev); congruence. }
    split; [|split; [exact Hkeys|]].
    + intros n v Hn. rewrite plookup_app in Hn. destruct (plookup n prev) as [v0|] eqn:En.
      * destruct (Hok n v0 En) as [l [A [B [C [D E]]]]]. exists l. split; [apply chain_ext; assumption|].
        split; [exact B|]. split; [intros y Hy; apply Hkeys; apply C; exact Hy|]. split; assumption.
      * simpl in Hn. destruct (x =? n) eqn:Exn; [|discriminate]. apply Nat.eqb_eq in Exn. subst n.
        unfold is_key in Hnd. destruct (plookup nd prev) as [vd|] eqn:End; [|congruence].
        destruct (Hok nd vd End) as [l [A [B [C [D E]]]]].
        destruct (chain_last _ _ _ A) as [Hne Hlast].
        exists (l ++ [x]). split.
        -- eapply ch_step; [|apply chain_ext; eassumption]. rewrite plookup_app, Ex. simpl. rewrite Nat.eqb_refl. reflexivity.
        -- split.
           ++ apply NoDup_app_snoc; [exact B|]. intros Hin. apply C in Hin. unfold is_key in Hin. congruence.
           ++ split.
              ** intros y Hy. apply in_app_iff in Hy. destruct Hy as [Hy|[Hy|[]]].
                 --- apply Hkeys. apply C. exact Hy.
                 --- subst y. unfold is_key. rewrite plookup_app, Ex. simpl. rewrite Nat.eqb_refl. discriminate.
              ** split.
                 --- rewrite app_nth1; [exact D|]. destruct l; [congruence | simpl; lia].
                 --- apply consecutive_snoc; [exact Hne | exact E | rewrite Hlast; exact Hx].
    + unfold is_key. rewrite plookup_app, Ex. simpl. rewrite Nat.eqb_refl. discriminate.
Qed.
End Prev.

Section BfsPath.
Variable g : graph.
Variable start : node.

Lemma emplace_all_ok : forall inc nd prev,
  prev_ok g start prev -> is_key prev nd -> (forall x, In x inc -> In x (incoming g nd)) ->
  let prev' := fold_left (fun p n => pemplace n (Some nd) p) inc prev in
  prev_ok g start prev' /\ (forall y, is_key prev y -> is_key prev' y) /\ (forall x, In x inc -> is_key prev' x).
Proof.
  induction inc as [|x t IH]; intros nd prev Hok Hnd Hinc; simpl.
  - split; [exact Hok|]. split; [auto | intros x []].
  - destruct (pemplace_ok g start prev x nd Hok Hnd (Hinc x (or_introl eq_refl))) as [A [B C]].
    destruct (IH nd (pemplace x (Some nd) prev) A (B _ Hnd) (fun y Hy => Hinc y (or_intror Hy))) as [A' [B' C']].
    split; [exact A'|]. split; [intros y Hy; apply B'; apply B; exact Hy|].
    intros y [Hy|Hy]; [subst; apply B'; exact C | apply C'; exact Hy].
Qed.

Lemma bfs_prev_ok : forall fuel finish blocked queue seen prev b prev',
  bfs_loop fuel g finish blocked queue seen prev = Some (b, prev') ->
  prev_ok g start prev -> (forall x, In x queue -> is_key prev x) ->
  prev_ok g start prev' /\ (b = true -> is_key prev' finish).
Proof.
  induction fuel as [|f IH]; intros finish blocked queue seen prev b prev' H Hok Hq; [discriminate|].
  simpl in H. destruct queue as [|nd q].
  - inversion H; subst. split; [exact Hok | discriminate].
  - destruct (nd =? finish) eqn:E.
    + inversion H; subst. apply Nat.eqb_eq in E. subst. split; [exact Hok|]. intros _. apply Hq. left. reflexivity.
    + destruct (smem nd seen || smem nd blocked).
      * eapply IH; [exact H | exact Hok|]. intros x Hx. apply Hq. right. exact Hx.
      * destruct (emplace_all_ok (incoming g nd) nd prev Hok (Hq nd (or_introl eq_refl)) (fun x Hx => Hx))
          as [A [B C]].
        eapply IH; [exact H | exact A|]. intros x Hx. apply in_app_iff in Hx. destruct Hx as [Hx|Hx].
        -- apply B. apply Hq. right. exact Hx.
        -- apply C. exact Hx.
Qed.

Lemma build_chain : forall prev n l, chain prev n l ->
  forall fuel acc, length l < fuel -> build_path fuel prev (Some n) acc = Some (l ++ acc).
Proof.
  intros prev n l H. induction H; intros fuel acc Hf.
  - destruct fuel as [|[|f]]; simpl in Hf; try lia. simpl. rewrite H. reflexivity.
  - rewrite app_length in Hf. simpl in Hf. destruct fuel as [|f]; [lia|]. simpl. rewrite H.
    rewrite IHchain by lia. rewrite <- app_assoc. reflexivity.
Qed.

Lemma keys_length : forall prev (l : list node), NoDup l -> (forall x, In x l -> is_key prev x) ->
  length l <= length prev.
Proof.
  intros prev l Hnd Hk. rewrite <- (map_length fst prev). apply NoDup_incl_length; [exact Hnd|].
  intros x Hx. specialize (Hk x Hx). unfold is_key in Hk. clear - Hk.
  induction prev as [|[k v] t IH]; simpl in *; [congruence|].
  destruct (k =? x) eqn:E; [left; apply Nat.eqb_eq; exact E | right; apply IH; exact Hk].
Qed.

Lemma prev_ok_init : prev_ok g start [(start, None)].
Proof.
  intros n v H. simpl in H. destruct (start =? n) eqn:E; [|discriminate]. apply Nat.eqb_eq in E. subst n.
  exists [start]. split; [apply ch_root; simpl; rewrite Nat.eqb_refl; reflexivity|].
  split; [constructor; [intros [] | constructor]|].
  split; [intros x [Hx|[]]; subst; unfold is_key; simpl; rewrite Nat.eqb_refl; discriminate|].
  split; [reflexivity | intros i Hi; simpl in Hi; lia].
Qed.

(* FindShortestPathToNode always returns, and a non-empty result is a simple backward path *)
Theorem find_shortest_path_total : forall finish blocked,
  exists sp, find_shortest_path g start finish blocked = Some sp /\
             (sp = [] \/ good_path g sp start finish).
Proof.
  intros finish blocked. unfold find_shortest_path.
  destruct (bfs_loop (edge_count g + 2) g finish blocked [start] [] [(start, None)]) as [[b prev]|] eqn:E;
    [|exfalso; eapply bfs_fuel_sufficient; exact E].
  destruct (bfs_prev_ok _ _ _ _ _ _ _ _ E prev_ok_init) as [Hok Hfin].
  { intros x [Hx|[]]. subst. unfold is_key. simpl. rewrite Nat.eqb_refl. discriminate. }
  destruct b.
  - specialize (Hfin eq_refl). unfold is_key in Hfin.
    destruct (plookup finish prev) as [v|] eqn:Ev; [|congruence].
    destruct (Hok finish v Ev) as [l [A [B [C [D F]]]]].
    exists l. rewrite (build_chain _ _ _ A) by (pose proof (keys_length prev l B C); lia).
    rewrite app_nil_r. split; [reflexivity|]. right.
    destruct (chain_last _ _ _ A) as [Hne Hl]. repeat split; assumption.
  - exists []. split; [reflexivity | left; reflexivity].
Qed.

(* the uncached FindNodeBackwards always returns *)
Theorem fnb_compute_total : forall finish blocked,
  find_node_backwards_compute g start finish blocked <> None.
Proof.
  intros finish blocked. unfold find_node_backwards_compute.
  destruct (find_shortest_path_total finish blocked) as [sp [E Hsp]]. rewrite E.
  destruct sp as [|x t]; [discriminate|]. destruct Hsp as [Hsp|Hsp]; [discriminate|].
  destruct (artic_loop (length (x :: t) + 1) g finish (x :: t) start (sunion blocked (x :: t)) []) eqn:Ea;
    [discriminate|].
  exfalso. pose proof Hsp as Hgp. destruct Hsp as [A [B [C D]]]. simpl in C. subst x.
  apply (artic_total g (start :: t) start finish Hgp (length (start :: t) + 1) 0 (sunion blocked (start :: t)) []);
    [simpl; lia | simpl; lia |]. exact Ea.
Qed.
End BfsPath.

(* ------------------------------------------------------------------------------------------ *)
(* on an acyclic graph the whole search terminates: some fuel makes Solve return *)
From PV Require Import Typegraph.PathProofs Typegraph.SearchProofs Typegraph.SolverProofs.

Section SearchTotal.
Variable g : graph.

Lemma find_node_backwards_total : forall pc s f b, find_node_backwards g pc s f b <> None.
Proof.
  intros. unfold find_node_backwards. destruct (pc_get (s, f, b) pc); [discriminate|].
  destruct (find_node_backwards_compute g s f b) eqn:E; [discriminate|].
  exfalso. eapply fnb_compute_total. exact E.
Qed.

Lemma collect_positions_total : forall pos blocked finishes pc acc,
  collect_positions g pc pos blocked finishes acc <> None.
Proof.
  intros pos blocked. induction finishes as [|fin rest IH]; intros pc acc; simpl; [discriminate|].
  destruct (find_node_backwards g pc pos fin blocked) as [[[ex path] pc']|] eqn:E;
    [|exfalso; eapply find_node_backwards_total; exact E].
  destruct ex; apply IH.
Qed.

Section WithRecT.
Variable rec : sstate -> state -> list state -> option (sstate * bool).
Variable seen : list state.
Variable pos : node.
Variable results : list rresult.

Definition SuccP (s' : state) : Prop :=
  (exists removed, In (removed, snd s') results) /\ position_of g pos (snd s') (fst s').

Hypothesis Hrec : forall st0 s', pc_exact g (s_paths st0) -> SuccP s' ->
  exists st1 r, rec st0 s' seen = Some (st1, r) /\ pc_exact g (s_paths st1).

Lemma try_positions_total : forall removed new npos, In (removed, new) results ->
  forall positions st, (forall p, In p positions -> position_of g pos new p) -> pc_exact g (s_paths st) ->
  exists st' r, try_positions rec st new seen npos positions = Some (st', r) /\ pc_exact g (s_paths st').
Proof.
  intros removed new npos Hin. induction positions as [|p rest IH]; intros st Hpos Hpc; simpl.
  - exists st, false. split; [reflexivity | exact Hpc].
  - assert (Hrest : forall q, In q rest -> position_of g pos new q) by (intros q Hq; apply Hpos; right; exact Hq).
    destruct (seen_mem (p, new) seen && (1 <? npos)); [apply IH; assumption|].
    destruct (Hrec st (p, new) Hpc) as [st1 [r [E Hpc1]]].
    { split; [exists removed; exact Hin | apply Hpos; left; reflexivity]. }
    rewrite E. destruct r; [exists st1, true; split; [reflexivity | exact Hpc1] | apply IH; assumption].
Qed.

Lemma try_results_total : forall rs st, (forall x, In x rs -> In x results) -> pc_exact g (s_paths st) ->
  exists st' r, try_results rec g st pos seen rs = Some (st', r) /\ pc_exact g (s_paths st').
Proof.
  induction rs as [|[removed new] rest IH]; intros st Hsub Hpc; simpl.
  - exists st, false. split; [reflexivity | exact Hpc].
  - assert (Hrest : forall x, In x rest -> In x results) by (intros x Hx; apply Hsub; right; exact Hx).
    destruct (goals_conflict g removed); [apply IH; assumption|].
    destruct new as [|b0 nt]; [exists st, true; split; [reflexivity | exact Hpc]|].
    destruct (collect_positions g (s_paths st) pos (blocked_of g (b0 :: nt)) (finish_nodes g (b0 :: nt)) [])
      as [[positions pc']|] eqn:Ecp; [|exfalso; eapply collect_positions_total; exact Ecp].
    destruct (collect_positions_spec g _ _ _ _ _ _ _ Hpc Ecp) as [Hpc' [Hposs _]].
    destruct (try_positions_total removed (b0 :: nt) (length positions) (Hsub _ (or_introl eq_refl))
                positions (mkS (s_memo st) pc')) as [st1 [r [E Hpc1]]].
    + intros p Hp. apply Hposs in Hp. destruct Hp as [[]|[fin [path [Hf [Hc Hw]]]]].
      exists fin, path. repeat split; assumption.
    + exact Hpc'.
    + rewrite E. destruct r; [exists st1, true; split; [reflexivity | exact Hpc1] | apply IH; assumption].
Qed.
End WithRecT.

Variable rank : node -> nat.
Hypothesis Hrank : ranked g rank.

Definition TotalS (s : state) (F : nat) : Prop :=
  forall fuel0 fuel st seen, F <= fuel0 -> F <= fuel -> pc_exact g (s_paths st) ->
  exists st' r, recall_or_find fuel0 fuel g st s seen = Some (st', r) /\ pc_exact g (s_paths st').

Lemma TotalS_mono : forall s F F', F <= F' -> TotalS s F -> TotalS s F'.
Proof. intros s F F' Hle H fuel0 fuel st seen H0 H1. apply H; lia. Qed.

Lemma max_total : forall l : list state, (forall s', In s' l -> exists F, TotalS s' F) ->
  exists F, forall s', In s' l -> TotalS s' F.
Proof.
  induction l as [|a t IH]; intros H; [exists 0; intros s' []|].
  destruct (H a (or_introl eq_refl)) as [Fa Ha].
  destruct (IH (fun s' Hs => H s' (or_intror Hs))) as [Ft Ht].
  exists (Fa + Ft). intros s' [Hs|Hs].
  - subst. eapply TotalS_mono; [|exact Ha]. lia.
  - eapply TotalS_mono; [|apply Ht; exact Hs]. lia.
Qed.

(* candidate positions as a list *)
Definition cand (pos : node) (new : list bid) : list node :=
  flat_map (fun fin => match find_node_backwards_compute g pos fin (blocked_of g new) with
                       | Some (true, path) => [where_of pos path fin]
                       | _ => []
                       end) (finish_nodes g new).

Lemma position_cand : forall pos new p, position_of g pos new p -> In p (cand pos new).
Proof.
  intros pos new p [fin [path [Hf [Hc Hw]]]]. unfold cand. apply in_flat_map. exists fin.
  split; [exact Hf|]. rewrite Hc. left. symmetry. exact Hw.
Qed.

Lemma recall_unfold : forall fuel0 f st s seen,
  recall_or_find fuel0 (S f) g st s seen =
  match memo_get s (s_memo st) with
  | Some b => Some (st, b)
  | None =>
    match find_solution (recall_or_find fuel0 f g) fuel0 g (mkS (memo_set s true (s_memo st)) (s_paths st)) s
                        (if seen_mem s seen then seen else s :: seen) with
    | None => None
    | Some (st2, result) => Some (mkS (memo_set s result (s_memo st2)) (s_paths st2), result)
    end
  end.
Proof. reflexivity. Qed.

Lemma state_total : forall k s, rank (fst s) < k -> SS (snd s) -> exists F, TotalS s F.
Proof.
  induction k as [|k IHk]; intros [pos sg] Hk Hss; [lia|]. simpl in *.
  destruct (rfg_terminates g pos (goals_of g (pos, sg)) (SS_goals_of g (pos, sg) Hss)) as [nr [results Hr]].
  pose proof (rfg_correct g pos _ _ _ (SS_goals_of g (pos, sg) Hss) (Hr 0)) as Hres.
  set (allsucc := flat_map (fun rn : rresult => map (fun p => (p, snd rn)) (cand pos (snd rn))) results).
  destruct (max_total allsucc) as [Fs HFs].
  { intros [p new] Hin. subst allsucc. apply in_flat_map in Hin. destruct Hin as [[removed new'] [Hin Hp]].
    simpl in Hp. apply in_map_iff in Hp. destruct Hp as [p' [Hp1 Hp2]]. inversion Hp1; subst p' new'. clear Hp1.
    apply Hres in Hin.
    destruct (resolves_at_facts g pos _ _ _ Hin) as [_ [_ C]].
    assert (Hpo : position_of g pos new p).
    { unfold cand in Hp2. apply in_flat_map in Hp2. destruct Hp2 as [fin [Hf Hx]].
      destruct (find_node_backwards_compute g pos fin (blocked_of g new)) as [[[|] path]|] eqn:Ec;
        try (destruct Hx; fail).
      destruct Hx as [Hx|[]]. exists fin, path. repeat split; auto. }
    apply IHk.
    - simpl. destruct (breach_rank g rank pos p Hrank (position_reach g pos new p Hpo)) as [E|L]; [|lia].
      exfalso. eapply position_neq; eauto.
    - simpl. unfold resolves_at in Hin. apply resolves_sorted in Hin. tauto. }
  exists (S (nr + Fs)). intros fuel0 fuel st seen H0 H1 Hpc.
  destruct fuel as [|f]; [lia|]. rewrite recall_unfold.
  destruct (memo_get (pos, sg) (s_memo st)) as [b|]; [exists st, b; split; [reflexivity | exact Hpc]|].
  match goal with |- context [find_solution _ _ _ _ _ ?sn] => remember sn as seen1 eqn:Hs1; clear Hs1 end.
  assert (Hfs : forall rec st0 sn, find_solution rec fuel0 g st0 (pos, sg) sn =
                try_results rec g st0 pos sn results).
  { intros rec st0 sn.
    assert (Hfs0 : find_solution rec fuel0 g st0 (pos, sg) sn =
                   match remove_finished_goals fuel0 g pos (goals_of g (pos, sg)) with
                   | None => None
                   | Some results => try_results rec g st0 pos sn results
                   end) by reflexivity.
    rewrite Hfs0. replace fuel0 with (nr + (fuel0 - nr)) by lia. rewrite Hr. reflexivity. }
  rewrite Hfs.
  destruct (try_results_total (recall_or_find fuel0 f g) seen1 pos results) with
      (rs := results) (st := mkS (memo_set (pos, sg) true (s_memo st)) (s_paths st)) as [st2 [r [E Hpc2]]].
  - intros st0 [p new] Hpc0 [[removed Hin] Hpo]. simpl in *.
    apply (HFs (p, new)); [|lia|lia|exact Hpc0].
    subst allsucc. apply in_flat_map. exists (removed, new). split; [exact Hin|].
    simpl. apply in_map_iff. exists p. split; [reflexivity | apply position_cand; exact Hpo].
  - auto.
  - exact Hpc.
  - rewrite E. exists (mkS (memo_set (pos, sg) r (s_memo st2)) (s_paths st2)), r. split; [reflexivity | exact Hpc2].
Qed.

Lemma can_have_solution_total : forall attrs n, exists F, forall fuel st, F <= fuel -> pc_exact g (s_paths st) ->
  exists st' r, can_have_solution fuel g st attrs n = Some (st', r) /\ pc_exact g (s_paths st').
Proof.
  induction attrs as [|a rest IH]; intros n.
  - exists 0. intros fuel st _ Hpc. exists st, true. split; [reflexivity | exact Hpc].
  - destruct (IH n) as [Fr Hrest].
    destruct (state_total (S (rank n)) (n, sof_list [a]) ltac:(simpl; lia) (SS_sof_list [a])) as [Fa Ha].
    exists (Fa + Fr). intros fuel st Hf Hpc. simpl. unfold solve_single.
    destruct (Ha fuel fuel st [] ltac:(lia) ltac:(lia) Hpc) as [st1 [r [E Hpc1]]]. rewrite E.
    destruct r; [apply Hrest; [lia | exact Hpc1] | exists st1, false; split; [reflexivity | exact Hpc1]].
Qed.

Theorem solve_total : forall attrs n, exists F, forall fuel st, F <= fuel -> pc_exact g (s_paths st) ->
  exists st' r, solve fuel g st attrs n = Some (st', r) /\ pc_exact g (s_paths st').
Proof.
  intros attrs n.
  destruct (can_have_solution_total attrs n) as [Fc Hc].
  destruct (state_total (S (rank n)) (n, sof_list attrs) ltac:(simpl; lia) (SS_sof_list attrs)) as [Fm Hm].
  exists (Fc + Fm). intros fuel st Hf Hpc. unfold solve.
  destruct (1 <? length attrs).
  - destruct (Hc fuel st ltac:(lia) Hpc) as [st1 [r [E Hpc1]]]. rewrite E.
    destruct r; [apply Hm; [lia | lia | exact Hpc1] | exists st1, false; split; [reflexivity | exact Hpc1]].
  - apply Hm; [lia | lia | exact Hpc].
Qed.
End SearchTotal.

(* fuel sufficiency on acyclic graphs: every sequence of queries is answered for all large enough fuel *)
Theorem run_queries_total_lemma : forall g qs, acyclic g ->
  exists F, forall fuel, F <= fuel -> run_queries fuel g sstate_empty qs <> None.
Proof.
  intros g qs [rank Hrank].
  assert (Hgen : forall qs, exists F, forall fuel st, F <= fuel -> pc_exact g (s_paths st) ->
                   run_queries fuel g st qs <> None).
  { induction qs0 as [|[attrs n] rest IH].
    - exists 0. intros. discriminate.
    - destruct IH as [Fr Hr]. destruct (solve_total g rank Hrank attrs n) as [Fs Hs].
      exists (Fs + Fr). intros fuel st Hf Hpc. simpl.
      destruct (Hs fuel st ltac:(lia) Hpc) as [st1 [r [E Hpc1]]]. rewrite E.
      specialize (Hr fuel st1 ltac:(lia) Hpc1).
      destruct (run_queries fuel g st1 rest) as [[st2 ans]|]; [discriminate | congruence]. }
  destruct (Hgen qs) as [F HF]. exists F. intros fuel Hf. apply HF; [exact Hf | apply pc_exact_nil].
Qed.
