(* Clause (i) of C07: on an acyclic graph without node conditions the MEMOISED search answers true
   exactly when the declarative explanation relation Expl holds.  On such a graph the position
   strictly decreases in a topological rank, so the provisional memo entry and seen_states are never
   consulted; the invariant is that every memo entry is exact (or provisional for a stack state). *)
From Coq Require Import List Arith Bool Lia Relations.
From PV Require Import Typegraph.Graph Typegraph.Solver Typegraph.Spec Typegraph.SetLemmas
  Typegraph.RfgProofs Typegraph.PathProofs Typegraph.SearchProofs Typegraph.SolverProofs
  Typegraph.ResolveMono.
Import ListNotations.

Section Exact.
Variable g : graph.
Variable rank : node -> nat.
Hypothesis Hrank : ranked g rank.
Hypothesis Hnc : no_conditions g = true.

Definition ExplS (s : state) : Prop := Expl g (fst s) (snd s).

Definition InvE (m : memo) (seen : list state) : Prop :=
  forall s b, memo_get s m = Some b -> (In s seen /\ b = true) \/ (b = true <-> ExplS s).

Lemma nocond_path_nil : forall start finish blocked ex path,
  find_node_backwards_compute g start finish blocked = Some (ex, path) -> path = [].
Proof.
  intros start finish blocked ex path H. destruct (fnb_compute_spec g _ _ _ _ _ H) as [_ Hp].
  destruct path as [|x t]; [reflexivity|]. exfalso.
  destruct (Hp x (or_introl eq_refl)) as [_ Hc]. apply Hc. apply no_conditions_cond. exact Hnc.
Qed.

(* with no conditions a successor sits at an origin node of a remaining goal, reached by a clear path *)
Lemma Succ_expl : forall s s', Succ g s s' -> ExplS s' -> ExplS s.
Proof.
  intros [pos sg] [p nw] [removed [new [Hr [Hc [Hne [Hp Hs]]]]]] He. simpl in *. subst nw.
  rewrite (goals_of_nocond g Hnc) in Hr. simpl in Hr.
  destruct Hp as [fin [path [Hf [Hcomp Hw]]]].
  pose proof (nocond_path_nil _ _ _ _ _ Hcomp) as Hpn. subst path. unfold where_of in Hw. simpl in Hw. subst p.
  apply In_finish_nodes in Hf. destruct Hf as [b [o [Hb [Ho Hwo]]]]. subst fin.
  destruct (fnb_compute_spec g _ _ _ _ _ Hcomp) as [Hex _].
  unfold ExplS. simpl. eapply Expl_jump; eauto. apply Hex. reflexivity.
Qed.

Lemma Leaf_expl : forall s, Leaf g s -> ExplS s.
Proof.
  intros [pos sg] [removed [Hr Hc]]. rewrite (goals_of_nocond g Hnc) in Hr. simpl in Hr.
  unfold ExplS. simpl. eapply Expl_done; eauto.
Qed.

Lemma recall_exact : forall fuel0 fuel st s seen st' r,
  recall_or_find fuel0 fuel g st s seen = Some (st', r) ->
  SS (snd s) -> CtxA rank s seen -> pc_exact g (s_paths st) -> InvE (s_memo st) seen ->
  pc_exact g (s_paths st') /\ InvE (s_memo st') seen /\ (r = true <-> ExplS s).
Proof.
  intros fuel0. induction fuel as [|f IH]; intros st s seen st' r H Hss Hctx Hpc Hinv; [discriminate|].
  assert (Hnotin : ~ In s seen) by (intros Hin; specialize (Hctx _ Hin); lia).
  simpl in H. destruct (memo_get s (s_memo st)) as [b|] eqn:Em.
  - inversion H; subst. split; [exact Hpc|]. split; [exact Hinv|].
    destruct (Hinv _ _ Em) as [[Hin _]|He]; [contradiction | exact He].
  - assert (Esm : seen_mem s seen = false).
    { destruct (seen_mem s seen) eqn:E; [|reflexivity]. apply seen_mem_In in E. contradiction. }
    rewrite Esm in H.
    destruct (find_solution (recall_or_find fuel0 f g) fuel0 g
                (mkS (memo_set s true (s_memo st)) (s_paths st)) s (s :: seen)) as [[st2 res]|] eqn:Ef; [|discriminate].
    inversion H; subst. clear H.
    assert (HP1 : P g (fun m => InvE m (s :: seen)) (mkS (memo_set s true (s_memo st)) (s_paths st))).
    { split; [exact Hpc|]. simpl. intros t b Ht. rewrite memo_get_set in Ht.
      destruct (state_eqb t s) eqn:Et.
      - apply state_eqb_eq in Et. subst. inversion Ht; subst. left. split; [left; reflexivity | reflexivity].
      - destruct (Hinv t b Ht) as [[Hi Hb]|He]; [left; split; [right; exact Hi | exact Hb] | right; exact He]. }
    destruct (find_solution_spec g (recall_or_find fuel0 f g) (fun m => InvE m (s :: seen))
                ExplS (fun s' => ~ ExplS s') (s :: seen) fuel0 _ s st2 r Hss HP1) as [[A1 A2] [B C]].
    { intros st0 s' st1 r0 [HPa HPb] Hsucc Hrec.
      destruct (IH _ _ _ _ _ Hrec (Succ_sorted _ _ _ Hsucc) (CtxA_succ g rank Hrank _ _ _ Hctx Hsucc) HPa HPb)
        as [X [Y Z]].
      split; [split; assumption|]. split; [apply Z|].
      intros Hr He. apply Z in He. congruence. }
    { exact Ef. }
    assert (Hexact : r = true <-> ExplS s).
    { destruct r.
      - split; [|reflexivity]. intros _. destruct (B eq_refl) as [Hl|[s' [Hs' HQ]]].
        + apply Leaf_expl. exact Hl.
        + eapply Succ_expl; eauto.
      - split; [discriminate|]. intros He. exfalso.
        destruct (C eq_refl) as [C1 [C2 C3]].
        destruct s as [pos sg]. unfold ExplS in He. simpl in He.
        inversion He as [n0 S0 removed Hra0 Hcf0 | n0 S0 removed new b o Hra0 Hcf0 Hb Ho Hcr Hex']; subst.
        + apply C1. exists removed. rewrite (goals_of_nocond g Hnc). simpl. split; assumption.
        + assert (Hra : resolves_at g (fst (pos, sg)) (goals_of g (pos, sg)) (removed, new)).
          { rewrite (goals_of_nocond g Hnc). simpl. assumption. }
          assert (Hne : new <> []) by (intros E; subst; contradiction).
          assert (Hfin : In (o_where o) (finish_nodes g new)).
          { apply In_finish_nodes. exists b, o. auto. }
          destruct (C3 _ _ Hra Hcf0 Hne _ Hfin) as [[ex path] Hcomp].
          pose proof (nocond_path_nil _ _ _ _ _ Hcomp) as Hpn. subst path.
          destruct (fnb_compute_spec g _ _ _ _ _ Hcomp) as [Hex _].
          assert (ex = true) by (apply Hex; assumption). subst ex.
          assert (Hsucc : Succ g (pos, sg) (o_where o, new)).
          { exists removed, new. repeat split; auto. exists (o_where o), []. repeat split; auto. }
          destruct (C2 _ Hsucc) as [Hsm|Hn].
          * apply seen_mem_In in Hsm. pose proof (Succ_rank g rank Hrank _ _ Hsucc) as Hlt. simpl in Hlt.
            destruct Hsm as [E|Hin].
            -- inversion E as [[E1 E2]]. rewrite <- E1 in Hlt. lia.
            -- specialize (Hctx _ Hin). simpl in Hctx. lia.
          * apply Hn. exact Hex'. }
    simpl. split; [exact A1|]. split; [|exact Hexact].
    intros t b Ht. rewrite memo_get_set in Ht. destruct (state_eqb t s) eqn:Et.
    + apply state_eqb_eq in Et. subst t. inversion Ht; subst. right. exact Hexact.
    + destruct (A2 t b Ht) as [[[E|Hi] Hb]|He].
      * subst t. rewrite state_eqb_refl in Et. discriminate.
      * left. split; assumption.
      * right. exact He.
Qed.

Definition st_okE (st : sstate) : Prop := pc_exact g (s_paths st) /\ InvE (s_memo st) [].

Lemma st_okE_empty : st_okE sstate_empty.
Proof. split; [apply pc_exact_nil | intros s b H; discriminate]. Qed.

Lemma top_exact : forall fuel st s st' r,
  recall_or_find fuel fuel g st s [] = Some (st', r) -> SS (snd s) -> st_okE st ->
  st_okE st' /\ (r = true <-> ExplS s).
Proof.
  intros fuel st s st' r H Hss [Hpc Hinv].
  destruct (recall_exact _ _ _ _ _ _ _ H Hss (CtxA_nil rank s) Hpc Hinv) as [A [B C]].
  split; [split; assumption | exact C].
Qed.

Lemma can_have_solution_exact : forall fuel attrs st n st' r,
  can_have_solution fuel g st attrs n = Some (st', r) -> st_okE st ->
  st_okE st' /\ (r = true -> forall a, In a attrs -> Expl g n [a]) /\
  (r = false -> exists a, In a attrs /\ ~ Expl g n [a]).
Proof.
  intros fuel. induction attrs as [|a rest IH]; intros st n st' r H Hok.
  - simpl in H. inversion H; subst. split; [exact Hok|]. split; [intros _ a [] | discriminate].
  - simpl in H. unfold solve_single in H.
    destruct (recall_or_find fuel fuel g st (n, sof_list [a]) []) as [[st1 [|]]|] eqn:E; [| |discriminate].
    + destruct (top_exact _ _ _ _ _ E (SS_sof_list [a]) Hok) as [Hok1 Hg].
      destruct (IH _ _ _ _ H Hok1) as [Hok' [Hall Hex]]. split; [exact Hok'|]. split.
      * intros Hr b [Hb|Hb]; [subst; apply Hg; reflexivity | apply Hall; assumption].
      * intros Hr. destruct (Hex Hr) as [b [Hb Hn]]. exists b. split; [right; exact Hb | exact Hn].
    + inversion H; subst. destruct (top_exact _ _ _ _ _ E (SS_sof_list [a]) Hok) as [Hok1 Hg].
      split; [exact Hok1|]. split; [discriminate|]. intros _. exists a. split; [left; reflexivity|].
      intros He. apply Hg in He. discriminate.
Qed.

(* Solve: exact up to the CanHaveSolution short-circuit, whose rejections are justified by a single
   unexplained goal *)
Lemma solve_exact : forall fuel st attrs n st' r,
  solve fuel g st attrs n = Some (st', r) -> st_okE st ->
  st_okE st' /\
  (r = true -> Expl g n (sof_list attrs)) /\
  (r = false -> ~ Expl g n (sof_list attrs) \/ (1 < length attrs /\ exists a, In a attrs /\ ~ Expl g n [a])).
Proof.
  intros fuel st attrs n st' r H Hok. unfold solve in H.
  destruct (1 <? length attrs) eqn:El.
  - apply Nat.ltb_lt in El.
    destruct (can_have_solution fuel g st attrs n) as [[st1 [|]]|] eqn:Ec; [| |discriminate].
    + destruct (can_have_solution_exact _ _ _ _ _ _ Ec Hok) as [Hok1 _].
      destruct (top_exact _ _ _ _ _ H (SS_sof_list attrs) Hok1) as [Hok' Hg].
      split; [exact Hok'|]. split; [apply Hg|]. intros Hr. left. intros He. apply Hg in He. congruence.
    + inversion H; subst. destruct (can_have_solution_exact _ _ _ _ _ _ Ec Hok) as [Hok1 [_ Hex]].
      split; [exact Hok1|]. split; [discriminate|]. intros _. right. split; [exact El | apply Hex; reflexivity].
  - destruct (top_exact _ _ _ _ _ H (SS_sof_list attrs) Hok) as [Hok' Hg].
    split; [exact Hok'|]. split; [apply Hg|]. intros Hr. left. intros He. apply Hg in He. congruence.
Qed.
End Exact.

Definition exact_answer (g : graph) (q : list bid * node) (a : bool) : Prop :=
  (a = true -> Expl g (snd q) (sof_list (fst q))) /\
  (a = false -> ~ Expl g (snd q) (sof_list (fst q)) \/
                (1 < length (fst q) /\ exists b, In b (fst q) /\ ~ Expl g (snd q) [b])).

Theorem solver_exact_acyclic_partial_lemma : forall g fuel qs st' answers,
  acyclic g -> no_conditions g = true ->
  run_queries fuel g sstate_empty qs = Some (st', answers) ->
  Forall2 (exact_answer g) qs answers.
Proof.
  intros g fuel qs st' answers [rank Hrank] Hnc.
  assert (Hgen : forall qs st st' answers, run_queries fuel g st qs = Some (st', answers) ->
                   st_okE g st -> Forall2 (exact_answer g) qs answers).
  { induction qs0 as [|[attrs n] rest IH]; intros st st0 ans H Hok.
    - simpl in H. inversion H; subst. constructor.
    - simpl in H. destruct (solve fuel g st attrs n) as [[st1 a]|] eqn:E; [|discriminate].
      destruct (run_queries fuel g st1 rest) as [[st2 ans2]|] eqn:E2; [|discriminate].
      inversion H; subst. destruct (solve_exact g rank Hrank Hnc _ _ _ _ _ _ E Hok) as [Hok1 [Ha Hb]].
      constructor; [split; assumption | eapply IH; eauto]. }
  intros H. eapply Hgen; [exact H | apply st_okE_empty].
Qed.

(* the search proper (what Solve runs after the short-circuit) is exact, any goal set *)
Theorem search_exact_acyclic_lemma : forall g fuel s st' r,
  acyclic g -> no_conditions g = true -> ssorted (snd s) = true ->
  recall_or_find fuel fuel g sstate_empty s [] = Some (st', r) ->
  (r = true <-> Expl g (fst s) (snd s)).
Proof.
  intros g fuel s st' r [rank Hrank] Hnc Hss H.
  destruct (top_exact g rank Hrank Hnc _ _ _ _ _ H Hss (st_okE_empty g)) as [_ A]. exact A.
Qed.

(* ---- with monotonicity of Expl the short-circuit disappears: Solve is exact ---- *)
Lemma solve_exact_full : forall g rank, ranked g rank -> no_conditions g = true ->
  forall fuel st attrs n st' r,
  solve fuel g st attrs n = Some (st', r) -> st_okE g st ->
  st_okE g st' /\ (r = true <-> Expl g n (sof_list attrs)).
Proof.
  intros g rank Hrank Hnc fuel st attrs n st' r H Hok.
  destruct (solve_exact g rank Hrank Hnc _ _ _ _ _ _ H Hok) as [Hok' [Ht Hf]].
  split; [exact Hok'|]. destruct r.
  - split; [exact Ht | reflexivity].
  - split; [discriminate|]. intros He. exfalso.
    destruct (Hf eq_refl) as [Hn|[_ [a [Ha Hn]]]]; [apply Hn; exact He|].
    apply Hn. eapply Expl_mono; [exact He | reflexivity|].
    intros b [Hb|[]]. subst. apply In_sof_list. exact Ha.
Qed.

Theorem solver_exact_acyclic_lemma : forall g fuel qs st' answers,
  acyclic g -> no_conditions g = true ->
  run_queries fuel g sstate_empty qs = Some (st', answers) ->
  Forall2 (fun q a => a = true <-> Expl g (snd q) (sof_list (fst q))) qs answers.
Proof.
  intros g fuel qs st' answers [rank Hrank] Hnc.
  assert (Hgen : forall qs st st' answers, run_queries fuel g st qs = Some (st', answers) ->
                   st_okE g st -> Forall2 (fun q a => a = true <-> Expl g (snd q) (sof_list (fst q))) qs answers).
  { induction qs0 as [|[attrs n] rest IH]; intros st st0 ans H Hok.
    - simpl in H. inversion H; subst. constructor.
    - simpl in H. destruct (solve fuel g st attrs n) as [[st1 a]|] eqn:E; [|discriminate].
      destruct (run_queries fuel g st1 rest) as [[st2 ans2]|] eqn:E2; [|discriminate].
      inversion H; subst. destruct (solve_exact_full g rank Hrank Hnc _ _ _ _ _ _ E Hok) as [Hok1 Ha].
      constructor; [exact Ha | eapply IH; eauto]. }
  intros H. eapply Hgen; [exact H | apply st_okE_empty].
Qed.

Lemma Forall2_combine_In : forall {A B} (P : A -> B -> Prop) l1 l2 x y,
  Forall2 P l1 l2 -> In (x, y) (combine l1 l2) -> P x y.
Proof.
  intros A B P l1 l2 x y H. induction H; simpl; intros Hin; [destruct Hin|].
  destruct Hin as [Hin|Hin]; [inversion Hin; subst; assumption | auto].
Qed.

(* clause (iv) on acyclic condition-free graphs: within one solver session, every subset of an
   accepted combination (asked before or after it) is accepted *)
Theorem accepted_subset_closed_acyclic_lemma : forall g fuel qs st' answers,
  acyclic g -> no_conditions g = true ->
  run_queries fuel g sstate_empty qs = Some (st', answers) ->
  forall q1 q2 a2,
    In (q1, true) (combine qs answers) -> In (q2, a2) (combine qs answers) ->
    snd q1 = snd q2 -> incl (fst q2) (fst q1) -> a2 = true.
Proof.
  intros g fuel qs st' answers Ha Hnc H q1 q2 a2 H1 H2 Hn Hincl.
  pose proof (solver_exact_acyclic_lemma g fuel qs st' answers Ha Hnc H) as HF.
  pose proof (Forall2_combine_In _ _ _ _ _ HF H1) as E1.
  pose proof (Forall2_combine_In _ _ _ _ _ HF H2) as E2. cbv beta in E1, E2.
  destruct q1 as [s1 n1], q2 as [s2 n2]. simpl in *. subst n2.
  apply E2. eapply Expl_mono; [apply E1; reflexivity | apply SS_sof_list|].
  intros b Hb. rewrite In_sof_list in Hb. rewrite In_sof_list. apply Hincl. exact Hb.
Qed.
