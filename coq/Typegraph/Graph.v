(* C07/C08 model, part 1: the typegraph data structure as the solver reads it
   (pytype/typegraph/typegraph.h: Program, CFGNode, Variable, Binding, Origin, SourceSet).
   Definitions only (no proofs), so that the model still evaluates when a proof breaks.

   Identities: a CFG node is its id (CFGNode::id(), dense, = index in Program::cfg_nodes_), a binding is
   its id (Binding::id(), = Program::next_binding_id_ at creation, dense), a variable is its id.
   Every ordered container of the C++ is ordered by these ids (pointer_less<T> dereferences and
   compares ids), so   GoalSet = SourceSet = CFGNodeSet = strictly increasing list of ids.
   The one exception is Origin::source_sets (std::set<SourceSet> compares the inner sets with the
   default lexicographic operator< on raw Binding* POINTERS): its iteration order depends on heap
   addresses.  The model therefore keeps [o_ssets] as a list in the order the implementation iterates
   it (the harness reads that order back through Binding.origins); no theorem depends on the order. *)
From Coq Require Import List Arith Bool.
Import ListNotations.

Definition node := nat.
Definition bid := nat.
Definition varid := nat.

(* ---- id-ordered sets as strictly increasing lists (std::set<T*, pointer_less<T>>) ---- *)
Fixpoint sins (x : nat) (l : list nat) : list nat :=            (* set.insert(x) *)
  match l with
  | [] => [x]
  | h :: t => if x <? h then x :: l else if x =? h then l else h :: sins x t
  end.
Definition smem (x : nat) (l : list nat) : bool := existsb (Nat.eqb x) l.   (* set.count(x) *)
Fixpoint srem (x : nat) (l : list nat) : list nat :=            (* set.erase(x) *)
  match l with
  | [] => []
  | h :: t => if x =? h then t else h :: srem x t
  end.
Definition sof_list (l : list nat) : list nat := fold_left (fun acc x => sins x acc) l [].
Definition sunion (a b : list nat) : list nat := fold_left (fun acc x => sins x acc) b a.
Fixpoint list_eqb (a b : list nat) : bool :=
  match a, b with
  | [], [] => true
  | x :: a', y :: b' => (x =? y) && list_eqb a' b'
  | _, _ => false
  end.
Fixpoint ssorted (l : list nat) : bool :=                       (* strictly increasing *)
  match l with
  | [] => true
  | x :: t => match t with [] => true | y :: _ => (x <? y) && ssorted t end
  end.

(* ---- the graph ---- *)
(* struct Origin { CFGNode* where; std::set<SourceSet> source_sets; } *)
Record origin := mkOrigin { o_where : node; o_ssets : list (list bid) }.
(* class Binding: variable_, origins_ (vector, in creation order; node_to_origin_ indexes it by node) *)
Record binding := mkBinding { b_var : varid; b_origins : list origin }.
(* class CFGNode: incoming_ (vector, in ConnectTo order), condition_ *)
Record cfgnode := mkNode { n_incoming : list node; n_cond : option bid }.
Record graph := mkGraph { g_nodes : list cfgnode; g_bindings : list binding }.

Definition get_node (g : graph) (n : node) : cfgnode := nth n (g_nodes g) (mkNode [] None).
Definition get_binding (g : graph) (b : bid) : binding := nth b (g_bindings g) (mkBinding 0 []).
Definition incoming (g : graph) (n : node) : list node := n_incoming (get_node g n).
Definition cond (g : graph) (n : node) : option bid := n_cond (get_node g n).
Definition var_of (g : graph) (b : bid) : varid := b_var (get_binding g b).
Definition origins (g : graph) (b : bid) : list origin := b_origins (get_binding g b).
Definition n_nodes (g : graph) : nat := length (g_nodes g).
Definition n_bindings (g : graph) : nat := length (g_bindings g).

(* Origin* Binding::FindOrigin(const CFGNode* node) const   (node_to_origin_.find) *)
Definition find_origin (g : graph) (b : bid) (pos : node) : option origin :=
  find (fun o => o_where o =? pos) (origins g b).

(* CFGNode::bindings(): every binding registered at the node by Binding::FindOrAddOrigin, i.e. exactly
   the bindings that have an origin there.  The C++ vector is in registration order; the solver only
   tests membership of goals in it, so the model lists them by id. *)
Definition bindings_at (g : graph) (pos : node) : list bid :=
  filter (fun b => match find_origin g b pos with Some _ => true | None => false end)
         (seq 0 (n_bindings g)).

(* CFGNodeSet Variable::nodes() const: the keys of cfg_node_to_bindings_, i.e. every node at which some
   binding of the variable has an origin (Variable::RegisterBindingAtNode, called by FindOrAddOrigin) *)
Definition var_nodes (g : graph) (v : varid) : list node :=
  sof_list (flat_map (fun b => if b_var b =? v then map o_where (b_origins b) else []) (g_bindings g)).

(* total number of CFG edges; bounds every worklist loop of the path finder *)
Definition edge_count (g : graph) : nat :=
  fold_right (fun n acc => length (n_incoming n) + acc) 0 (g_nodes g).

(* ---- well-formedness: what the Python API can build ---- *)
Definition wf_origin (g : graph) (o : origin) : bool :=
  (o_where o <? n_nodes g) &&
  forallb (fun s => ssorted s && forallb (fun b => b <? n_bindings g) s) (o_ssets o).
Fixpoint distinct (l : list nat) : bool :=
  match l with [] => true | x :: t => negb (smem x t) && distinct t end.
Definition wf_binding (g : graph) (b : binding) : bool :=
  forallb (wf_origin g) (b_origins b) && distinct (map o_where (b_origins b)).
Definition wf_node (g : graph) (i : node) (n : cfgnode) : bool :=
  forallb (fun m => (m <? n_nodes g) && negb (m =? i)) (n_incoming n) &&   (* ConnectTo ignores self edges *)
  distinct (n_incoming n) &&                                               (* ... and duplicate edges *)
  match n_cond n with Some c => c <? n_bindings g | None => true end.
Fixpoint forallb_i {A} (f : nat -> A -> bool) (i : nat) (l : list A) : bool :=
  match l with [] => true | x :: t => f i x && forallb_i f (S i) t end.
Definition wf_graph (g : graph) : bool :=
  forallb_i (wf_node g) 0 (g_nodes g) && forallb (wf_binding g) (g_bindings g).

Definition no_conditions (g : graph) : bool :=
  forallb (fun n => match n_cond n with None => true | Some _ => false end) (g_nodes g).

(* a topological rank witnesses acyclicity: every edge goes from a smaller to a larger rank
   (m in incoming(n)  means the CFG edge m -> n) *)
Definition ranked (g : graph) (rank : node -> nat) : Prop :=
  forall n m, In m (incoming g n) -> rank m < rank n.
Definition acyclic (g : graph) : Prop := exists rank, ranked g rank.

(* boolean acyclicity test used by the examples and the extracted driver: node ids as ranks after a
   renumbering is not available, so this is Kahn-free and simple: no node reaches itself in <= n steps *)
Fixpoint reach_steps (g : graph) (k : nat) (frontier : list node) : list node :=
  match k with
  | O => frontier
  | S k' => reach_steps g k' (sunion frontier (flat_map (incoming g) frontier))
  end.
(* nodes backward-reachable from n in >= 1 steps *)
Definition back_reach1 (g : graph) (n : node) : list node :=
  reach_steps g (n_nodes g) (sof_list (incoming g n)).
Definition acyclicb (g : graph) : bool :=
  forallb (fun n => negb (smem n (back_reach1 g n))) (seq 0 (n_nodes g)).
