(* The memo of solver.cc on EVERY graph (cycles and node conditions included): what solved_states_ satisfies
   across the queries of one solver lifetime.

   (1) memo_le: solved_states_ only grows and an entry never changes once the RecallOrFindSolution frame that
       created it has returned (recall_mono); the frame's own entry is its result.
   (2) hence an answered query is STICKY for the rest of the solver's lifetime (solve_sticky,
       run_queries_sticky), whatever is asked in between, on every graph, with every fuel.
   (3) every `true` the solver ever gives - from a fresh memo or a used one - is CIRCULARLY explained (GExpl:
       the state lies in a set of states each of which is a leaf or has a successor in the set): the
       provisional `true` entry is sound for the greatest-fixpoint reading of the explanation relation, not
       for the least one (solve_gexpl, run_queries_gexpl).  `st_ok g (GExpl g)` is the invariant every memo
       reachable from the empty one satisfies at query boundaries. *)
From Coq Require Import List Arith Bool Lia Relations.
From PV Require Import Typegraph.Graph Typegraph.Solver Typegraph.Spec Typegraph.SetLemmas
  Typegraph.RfgProofs Typegraph.PathProofs Typegraph.SearchProofs Typegraph.SolverProofs.
Import ListNotations.

(* ------------------------------------------------------------------ (1) the memo only grows *)
Definition memo_le (m m' : memo) : Prop := forall s b, memo_get s m = Some b -> memo_get s m' = Some b.

Lemma memo_le_refl : forall m, memo_le m m.
Proof. intros m s b H. exact H. Qed.

Lemma memo_le_trans : forall a b c, memo_le a b -> memo_le b c -> memo_le a c.
Proof. intros a b c H1 H2 s v H. apply H2. apply H1. exact H. Qed.

Lemma memo_le_set_absent : forall m s v, memo_get s m = None -> memo_le m (memo_set s v m).
Proof.
  intros m s v Hn t b Ht. rewrite memo_get_set. destruct (state_eqb t s) eqn:E; [|exact Ht].
  apply state_eqb_eq in E. subst t. congruence.
Qed.

Section Mono.
Variable g : graph.
Variable rec : sstate -> state -> list state -> option (sstate * bool).
Hypothesis Hrec : forall st0 s' seen st1 r, rec st0 s' seen = Some (st1, r) -> memo_le (s_memo st0) (s_memo st1).

Lemma try_positions_mono : forall new seen npos positions st st' r,
  try_positions rec st new seen npos positions = Some (st', r) -> memo_le (s_memo st) (s_memo st').
Proof.
  intros new seen npos. induction positions as [|p rest IH]; intros st st' r H; simpl in H.
  - inversion H; subst. apply memo_le_refl.
  - destruct (seen_mem (p, new) seen && (1 <? npos)); [eapply IH; exact H|].
    destruct (rec st (p, new) seen) as [[st1 [|]]|] eqn:Er; [| |discriminate].
    + inversion H; subst. eapply Hrec; exact Er.
    + eapply memo_le_trans; [eapply Hrec; exact Er | eapply IH; exact H].
Qed.

Lemma try_results_mono : forall pos seen results st st' r,
  try_results rec g st pos seen results = Some (st', r) -> memo_le (s_memo st) (s_memo st').
Proof.
  intros pos seen. induction results as [|[removed new] rest IH]; intros st st' r H; simpl in H.
  - inversion H; subst. apply memo_le_refl.
  - destruct (goals_conflict g removed); [eapply IH; exact H|].
    destruct new as [|b0 nt]; [inversion H; subst; apply memo_le_refl|].
    destruct (collect_positions g (s_paths st) pos (blocked_of g (b0 :: nt)) (finish_nodes g (b0 :: nt)) [])
      as [[positions pc']|]; [|discriminate].
    destruct (try_positions rec (mkS (s_memo st) pc') (b0 :: nt) seen (length positions) positions)
      as [[st1 [|]]|] eqn:Etp; [| |discriminate].
    + inversion H; subst. apply try_positions_mono in Etp. exact Etp.
    + apply try_positions_mono in Etp. simpl in Etp. eapply memo_le_trans; [exact Etp | eapply IH; exact H].
Qed.

Lemma find_solution_mono : forall fuel st s seen st' r,
  find_solution rec fuel g st s seen = Some (st', r) -> memo_le (s_memo st) (s_memo st').
Proof.
  intros fuel st [pos sgoals] seen st' r H. unfold find_solution in H.
  match type of H with context [remove_finished_goals ?a ?b ?c ?d] =>
    destruct (remove_finished_goals a b c d) as [results|] end; [|discriminate].
  eapply try_results_mono. exact H.
Qed.
End Mono.

Lemma recall_mono : forall g fuel0 fuel st s seen st' r,
  recall_or_find fuel0 fuel g st s seen = Some (st', r) ->
  memo_le (s_memo st) (s_memo st') /\ memo_get s (s_memo st') = Some r.
Proof.
  intros g fuel0. induction fuel as [|f IH]; intros st s seen st' r H; [discriminate|].
  simpl in H. destruct (memo_get s (s_memo st)) as [b|] eqn:Em.
  - inversion H; subst. split; [apply memo_le_refl | exact Em].
  - destruct (find_solution (recall_or_find fuel0 f g) fuel0 g (mkS (memo_set s true (s_memo st)) (s_paths st)) s
                (if seen_mem s seen then seen else s :: seen)) as [[st2 res]|] eqn:Ef; [|discriminate].
    inversion H; subst. simpl.
    apply find_solution_mono in Ef; [|intros st0 s' sn st1 r0 Hr; apply (IH _ _ _ _ _ Hr)].
    simpl in Ef. split.
    + intros t b Ht. rewrite memo_get_set. destruct (state_eqb t s) eqn:E.
      * apply state_eqb_eq in E. subst t. congruence.
      * apply Ef. rewrite memo_get_set. rewrite E. exact Ht.
    + rewrite memo_get_set. rewrite state_eqb_refl. reflexivity.
Qed.

Lemma recall_hit : forall g fuel0 f st s seen b,
  memo_get s (s_memo st) = Some b -> recall_or_find fuel0 (S f) g st s seen = Some (st, b).
Proof. intros. simpl. rewrite H. reflexivity. Qed.

Lemma can_have_solution_mono : forall g fuel attrs st n st' r,
  can_have_solution fuel g st attrs n = Some (st', r) -> memo_le (s_memo st) (s_memo st').
Proof.
  intros g fuel. induction attrs as [|a rest IH]; intros st n st' r H; simpl in H.
  - inversion H; subst. apply memo_le_refl.
  - unfold solve_single in H.
    destruct (recall_or_find fuel fuel g st (n, sof_list [a]) []) as [[st1 [|]]|] eqn:E; [| |discriminate].
    + eapply memo_le_trans; [apply (recall_mono _ _ _ _ _ _ _ _ E) | eapply IH; exact H].
    + inversion H; subst. apply (recall_mono _ _ _ _ _ _ _ _ E).
Qed.

Theorem solve_mono : forall g fuel st attrs n st' r,
  solve fuel g st attrs n = Some (st', r) -> memo_le (s_memo st) (s_memo st').
Proof.
  intros g fuel st attrs n st' r H. unfold solve in H. destruct (1 <? length attrs).
  - destruct (can_have_solution fuel g st attrs n) as [[st1 [|]]|] eqn:Ec; [| |discriminate].
    + eapply memo_le_trans; [eapply can_have_solution_mono; exact Ec | apply (recall_mono _ _ _ _ _ _ _ _ H)].
    + inversion H; subst. eapply can_have_solution_mono; exact Ec.
  - apply (recall_mono _ _ _ _ _ _ _ _ H).
Qed.

(* ------------------------------------------------------------------ (2) answers are sticky *)
Lemma chs_sticky : forall g fuel f' attrs st n st1 r st2,
  can_have_solution fuel g st attrs n = Some (st1, r) -> memo_le (s_memo st1) (s_memo st2) ->
  can_have_solution (S f') g st2 attrs n = Some (st2, r).
Proof.
  intros g fuel f'. induction attrs as [|a rest IH]; intros st n st1 r st2 H Hle; simpl in H.
  - inversion H; subst. reflexivity.
  - unfold solve_single in H.
    destruct (recall_or_find fuel fuel g st (n, sof_list [a]) []) as [[st0 [|]]|] eqn:E; [| |discriminate].
    + destruct (recall_mono _ _ _ _ _ _ _ _ E) as [_ Hget].
      pose proof (can_have_solution_mono _ _ _ _ _ _ _ H) as Hle0.
      cbn [can_have_solution]. unfold solve_single.
      rewrite (recall_hit g (S f') f' st2 (n, sof_list [a]) [] true (Hle _ _ (Hle0 _ _ Hget))).
      eapply IH; [exact H | exact Hle].
    + inversion H; subst. destruct (recall_mono _ _ _ _ _ _ _ _ E) as [_ Hget].
      cbn [can_have_solution]. unfold solve_single.
      rewrite (recall_hit g (S f') f' st2 (n, sof_list [a]) [] false (Hle _ _ Hget)). reflexivity.
Qed.

(* a query answered once is answered the same - from the memo, without changing the solver - by every later
   state of the same solver, whatever was asked in between; every graph, every fuel *)
Theorem solve_sticky : forall g fuel f' st attrs n st1 r st2,
  solve fuel g st attrs n = Some (st1, r) -> memo_le (s_memo st1) (s_memo st2) ->
  solve (S f') g st2 attrs n = Some (st2, r).
Proof.
  intros g fuel f' st attrs n st1 r st2 H Hle. unfold solve in *. destruct (1 <? length attrs).
  - destruct (can_have_solution fuel g st attrs n) as [[st0 [|]]|] eqn:Ec; [| |discriminate].
    + destruct (recall_mono _ _ _ _ _ _ _ _ H) as [Hle0 Hget].
      rewrite (chs_sticky g fuel f' attrs st n st0 true st2 Ec (memo_le_trans _ _ _ Hle0 Hle)).
      apply recall_hit. apply Hle. exact Hget.
    + inversion H; subst. rewrite (chs_sticky g fuel f' attrs st n st1 false st2 Ec Hle). reflexivity.
  - destruct (recall_mono _ _ _ _ _ _ _ _ H) as [_ Hget]. apply recall_hit. apply Hle. exact Hget.
Qed.

Lemma run_queries_mono : forall g fuel qs st st' answers,
  run_queries fuel g st qs = Some (st', answers) -> memo_le (s_memo st) (s_memo st').
Proof.
  intros g fuel. induction qs as [|[attrs n] rest IH]; intros st st' answers H; simpl in H.
  - inversion H; subst. apply memo_le_refl.
  - destruct (solve fuel g st attrs n) as [[st1 a]|] eqn:E; [|discriminate].
    destruct (run_queries fuel g st1 rest) as [[st2 ans]|] eqn:E2; [|discriminate].
    inversion H; subst. eapply memo_le_trans; [eapply solve_mono; exact E | eapply IH; exact E2].
Qed.

Lemma solve_fuel0 : forall g st attrs n, solve 0 g st attrs n = None.
Proof. intros g st attrs n. unfold solve. destruct attrs as [|x [|y t]]; reflexivity. Qed.

Lemma run_queries_later : forall g fuel st attrs n st1 a,
  solve fuel g st attrs n = Some (st1, a) ->
  forall mid post stx st2 ans, memo_le (s_memo st1) (s_memo stx) ->
  run_queries fuel g stx (mid ++ (attrs, n) :: post) = Some (st2, ans) ->
  nth_error ans (length mid) = Some a.
Proof.
  intros g fuel st attrs n st1 a E.
  destruct fuel as [|f']; [rewrite solve_fuel0 in E; discriminate|].
  induction mid as [|[a1 n1] mid IHm]; intros post stx st2 ans Hle Hr; cbn [app run_queries length] in Hr.
  - rewrite (solve_sticky g (S f') f' st attrs n st1 a stx E Hle) in Hr.
    destruct (run_queries (S f') g stx post) as [[st3 ans3]|]; [|discriminate].
    inversion Hr; subst. reflexivity.
  - destruct (solve (S f') g stx a1 n1) as [[sty a2]|] eqn:Ey; [|discriminate].
    destruct (run_queries (S f') g sty (mid ++ (attrs, n) :: post)) as [[st3 ans3]|] eqn:E3; [|discriminate].
    inversion Hr; subst. cbn [nth_error]. eapply IHm; [|exact E3].
    eapply memo_le_trans; [exact Hle | eapply solve_mono; exact Ey].
Qed.

(* in a run of queries sharing one solver: the same query, asked again at any later point, gets the answer it
   got the first time *)
Theorem run_queries_sticky : forall g fuel pre attrs n mid post st st' answers,
  run_queries fuel g st (pre ++ (attrs, n) :: mid ++ (attrs, n) :: post) = Some (st', answers) ->
  exists a, nth_error answers (length pre) = Some a /\
            nth_error answers (length pre + S (length mid)) = Some a.
Proof.
  intros g fuel. induction pre as [|[a0 n0] pre IH]; intros attrs n mid post st st' answers H.
  - cbn [app length Nat.add] in *. cbn [run_queries] in H.
    destruct (solve fuel g st attrs n) as [[st1 a]|] eqn:E; [|discriminate].
    destruct (run_queries fuel g st1 (mid ++ (attrs, n) :: post)) as [[st2 ans]|] eqn:E2; [|discriminate].
    inversion H; subst. exists a. cbn [nth_error]. split; [reflexivity|].
    eapply run_queries_later; [exact E | apply memo_le_refl | exact E2].
  - cbn [app length Nat.add run_queries] in *.
    destruct (solve fuel g st a0 n0) as [[st1 a]|] eqn:E; [|discriminate].
    destruct (run_queries fuel g st1 (pre ++ (attrs, n) :: mid ++ (attrs, n) :: post)) as [[st2 ans]|] eqn:E2;
      [|discriminate].
    inversion H; subst. cbn [nth_error]. eapply IH. exact E2.
Qed.


(* ------------------------------------------------------------------ (3) every `true` is circularly explained *)
(* the greatest-fixpoint reading of "explained": s lies in a set of states each of which is a leaf of
   FindSolution (a conflict-free outcome leaves no goal) or has a FindSolution successor in the set *)
Definition GExpl (g : graph) (s : state) : Prop :=
  exists T : state -> Prop, T s /\ forall t, T t -> Leaf g t \/ exists t', Succ g t t' /\ T t'.

Section Circular.
Variable g : graph.

Definition CtxG (s : state) (seen : list state) : Prop :=
  forall t, In t seen -> clos_refl_trans _ (Succ g) t s.

Lemma CtxG_succ : forall s s' seen, CtxG s seen -> Succ g s s' -> CtxG s' (s :: seen).
Proof.
  intros s s' seen Hc Hs t [Ht|Ht].
  - subst t. apply rt_step. exact Hs.
  - eapply rt_trans; [apply Hc; exact Ht | apply rt_step; exact Hs].
Qed.

Lemma CtxG_weaken : forall s x seen, CtxG s (x :: seen) -> CtxG s seen.
Proof. intros s x seen H t Ht. apply H. right. exact Ht. Qed.

Lemma CtxG_nil : forall s, CtxG s [].
Proof. intros s t []. Qed.

(* a state on a Succ-cycle is circularly explained: the set of states that reach it *)
Lemma cycle_gexpl : forall s s', Succ g s s' -> clos_refl_trans _ (Succ g) s' s -> GExpl g s.
Proof.
  intros s s' Hs Hback. exists (fun t => clos_refl_trans _ (Succ g) t s). split; [apply rt_refl|].
  intros t Ht. right. apply clos_rt_rt1n in Ht. destruct Ht as [|t1 t2 H1 H2].
  - exists s'. split; [exact Hs | exact Hback].
  - exists t1. split; [exact H1 | apply clos_rt1n_rt; exact H2].
Qed.

Lemma StepG : forall s seen, SS (snd s) -> CtxG s seen ->
  (Leaf g s \/ exists s', Succ g s s' /\ (GExpl g s' \/ In s' (s :: seen))) -> GExpl g s.
Proof.
  intros s seen _ Hctx [Hl|[s' [Hs [[T [HT Hcl]]|[E|Hin]]]]].
  - exists (fun t => t = s). split; [reflexivity|]. intros t Ht. subst t. left. exact Hl.
  - exists (fun t => t = s \/ T t). split; [left; reflexivity|].
    intros t [Ht|Ht].
    + subst t. right. exists s'. split; [exact Hs | right; exact HT].
    + destruct (Hcl t Ht) as [L|[t' [Hs' HT']]]; [left; exact L | right; exists t'; split; [exact Hs' | right; exact HT']].
  - subst s'. eapply cycle_gexpl; [exact Hs | apply rt_refl].
  - eapply cycle_gexpl; [exact Hs | apply Hctx; exact Hin].
Qed.

(* THE INVARIANT of one solver lifetime, on every graph: the path cache is exact and every `true` entry of
   solved_states_ is circularly explained *)
Definition st_okG : sstate -> Prop := st_ok g (GExpl g).

Lemma st_okG_empty : st_okG sstate_empty.
Proof. apply st_ok_empty. Qed.

Theorem solve_gexpl : forall fuel st attrs n st' r,
  solve fuel g st attrs n = Some (st', r) -> st_okG st ->
  st_okG st' /\ (r = true -> GExpl g (n, sof_list attrs)).
Proof.
  intros fuel st attrs n st' r H Hok.
  destruct (solve_reach g (GExpl g) CtxG CtxG_succ CtxG_weaken CtxG_nil StepG _ _ _ _ _ _ H Hok) as [A B].
  split; [exact A|]. intros Hr. apply (B Hr).
Qed.

Theorem run_queries_gexpl : forall fuel qs st st' answers,
  run_queries fuel g st qs = Some (st', answers) -> st_okG st ->
  st_okG st' /\ Forall2 (fun q a => a = true -> GExpl g (snd q, sof_list (fst q))) qs answers.
Proof.
  intros fuel. induction qs as [|[attrs n] rest IH]; intros st st' answers H Hok.
  - simpl in H. inversion H; subst. split; [exact Hok | constructor].
  - simpl in H. destruct (solve fuel g st attrs n) as [[st1 a]|] eqn:E; [|discriminate].
    destruct (run_queries fuel g st1 rest) as [[st2 ans]|] eqn:E2; [|discriminate].
    inversion H; subst. destruct (solve_gexpl _ _ _ _ _ _ E Hok) as [Hok1 Ha].
    destruct (IH _ _ _ E2 Hok1) as [Hok2 Hall]. split; [exact Hok2|].
    constructor; [exact Ha | exact Hall].
Qed.
End Circular.

