(* C09 — Program state outside the graph: the `entrypoint` attribute (typegraph.h Program::entrypoint_,
   set from Python by `program.entrypoint = node | None`, cfg.cc ProgramSetAttro).  Model only, no proofs.

   Program::is_reachable(src, dst) reads the backward bit matrix and nothing else
   (typegraph.cc: `return backward_reachability_->is_reachable(dst->id(), src->id())`), so the extended state is
   the Prune.v state paired with the last value written to the attribute; a write touches only that component. *)
From Coq Require Import List Arith Bool.
From PV Require Import Typegraph.Reach Typegraph.Prune.
Import ListNotations.

Inductive pyop_e :=
| ECore (o : pyop)                  (* any call modelled in Prune.v *)
| ESetEntry (n : option nat).       (* program.entrypoint = node n | None *)

Record pstate_e := mkPE { pe_core : pstate; pe_entry : option nat }.

Definition pe_step (s : pstate_e) (o : pyop_e) : pstate_e :=
  match o with
  | ECore c => mkPE (py_step (pe_core s) c) (pe_entry s)
  | ESetEntry n => mkPE (pe_core s) n
  end.

Definition pe_run_from (s : pstate_e) (h : list pyop_e) : pstate_e := fold_left pe_step h s.
Definition pe_run (dflt : nat) (h : list pyop_e) : pstate_e := pe_run_from (mkPE (pstate0 dflt) None) h.

(* the graph-building calls of an extended history, in order *)
Fixpoint core_ops (h : list pyop_e) : list pyop :=
  match h with
  | [] => []
  | ECore c :: t => c :: core_ops t
  | ESetEntry _ :: t => core_ops t
  end.

(* what `program.entrypoint` reads back: the last value written, None initially *)
Fixpoint last_entry (acc : option nat) (h : list pyop_e) : option nat :=
  match h with
  | [] => acc
  | ECore _ :: t => last_entry acc t
  | ESetEntry n :: t => last_entry n t
  end.

(* an entrypoint write must name an existing node (cfg.cc takes a CFGNode object) *)
Fixpoint pe_wf_from (s : pstate_e) (h : list pyop_e) : bool :=
  match h with
  | [] => true
  | ECore c :: t => py_wf_op (pe_core s) c && pe_wf_from (pe_step s (ECore c)) t
  | ESetEntry None :: t => pe_wf_from (pe_step s (ESetEntry None)) t
  | ESetEntry (Some n) :: t => (n <? nodes (ps_prog (pe_core s))) && pe_wf_from (pe_step s (ESetEntry (Some n))) t
  end.
Definition pe_wf (dflt : nat) (h : list pyop_e) : bool := pe_wf_from (mkPE (pstate0 dflt) None) h.

Definition pe_is_reachable (s : pstate_e) (src dst : nat) : bool := py_is_reachable (pe_core s) src dst.
