(* C08 model (definitions only): the typegraph as a value, every mutating primitive of typegraph.cc /
   typegraph.h reachable from the Python API, whether that primitive drops the solver
   (Program::InvalidateSolver), and the solver cache discipline of Program::GetSolver. *)
From Coq Require Import List Arith Bool.
Import ListNotations.

(* ---------------------------------------------------------------- the typegraph as data *)
Definition bid := nat.   (* binding id  (Program::MakeBindingId order) *)
Definition nid := nat.   (* CFG node id *)

Record gnode := mkNode { incoming : list nid; outgoing : list nid; cond : option bid }.
Record gbinding := mkBinding {
  bvar : nat; bdata : nat;
  origins : list (nid * list (list bid))      (* Origin: where + std::set<SourceSet> *)
}.
Record graph := mkGraph { nodes : list gnode; bindings : list gbinding; nvars : nat }.
Definition graph0 : graph := mkGraph [] [] 0.

(* what the solver can read: everything except the bare variable counter *)
Definition view (g : graph) : list gnode * list gbinding := (nodes g, bindings g).

Fixpoint upd {A} (i : nat) (f : A -> A) (l : list A) : list A :=
  match l, i with
  | [], _ => []
  | h :: t, O => f h :: t
  | h :: t, S i' => h :: upd i' f t
  end.

Definition list_beq := fun (l1 l2 : list nat) => if list_eq_dec Nat.eq_dec l1 l2 then true else false.

(* insertion into std::set<SourceSet>: no duplicates; source sets are kept sorted by the harness *)
Definition add_ss (ss : list bid) (l : list (list bid)) : list (list bid) :=
  if existsb (list_beq ss) l then l else l ++ [ss].

Fixpoint find_origin (n : nid) (os : list (nid * list (list bid))) : bool :=
  match os with [] => false | (w, _) :: t => Nat.eqb w n || find_origin n t end.

Fixpoint add_to_origin (n : nid) (ss : option (list bid)) (os : list (nid * list (list bid)))
  : list (nid * list (list bid)) :=
  match os with
  | [] => [(n, match ss with Some s => [s] | None => [] end)]                (* FindOrAddOrigin: new origin *)
  | (w, sss) :: t =>
    if Nat.eqb w n then (w, match ss with Some s => add_ss s sss | None => sss end) :: t
    else (w, sss) :: add_to_origin n ss t
  end.

Fixpoint find_binding (v d : nat) (bs : list gbinding) : bool :=
  match bs with [] => false | b :: t => (Nat.eqb (bvar b) v && Nat.eqb (bdata b) d) || find_binding v d t end.

(* ---------------------------------------------------------------- mutating primitives *)
Inductive mut :=
| MNewNode (c : option bid)                 (* Program::NewCFGNode(name, condition) *)
| MConnect (a b : nid)                      (* CFGNode::ConnectTo *)
| MNewVariable                              (* Program::NewVariable() *)
| MFindOrAddBinding (v d : nat)             (* Variable::FindOrAddBinding(data)  (AddBinding(data)) *)
| MAddOrigin (b : bid) (n : nid)            (* Binding::AddOrigin(node) *)
| MAddOriginVec (b : bid) (n : nid) (ss : list bid)   (* Binding::AddOrigin(node, vector<Binding*>) *)
| MAddOriginSS (b : bid) (n : nid) (ss : list bid)    (* Binding::AddOrigin(node, const SourceSet&) — CopyOrigins/Paste* *)
| MAddSourceSet (b : bid) (n : nid) (ss : list bid)   (* Origin::AddSourceSet on the origin just returned by AddOrigin(node) *)
| MSetCondition (n : nid) (c : option bid). (* CFGNode::set_condition  (node.condition = ...) *)

Definition connected (g : graph) (a b : nid) : bool :=
  existsb (Nat.eqb b) (outgoing (nth a (nodes g) (mkNode [] [] None))).

Definition apply (g : graph) (m : mut) : graph :=
  match m with
  | MNewNode c => mkGraph (nodes g ++ [mkNode [] [] c]) (bindings g) (nvars g)
  | MConnect a b =>
    if Nat.eqb a b || connected g a b then g
    else mkGraph (upd b (fun n => mkNode (incoming n ++ [a]) (outgoing n) (cond n))
                   (upd a (fun n => mkNode (incoming n) (outgoing n ++ [b]) (cond n)) (nodes g)))
                 (bindings g) (nvars g)
  | MNewVariable => mkGraph (nodes g) (bindings g) (S (nvars g))
  | MFindOrAddBinding v d =>
    if find_binding v d (bindings g) then g
    else mkGraph (nodes g) (bindings g ++ [mkBinding v d []]) (nvars g)
  | MAddOrigin b n =>
    mkGraph (nodes g) (upd b (fun x => mkBinding (bvar x) (bdata x) (add_to_origin n None (origins x))) (bindings g)) (nvars g)
  | MAddOriginVec b n ss | MAddOriginSS b n ss | MAddSourceSet b n ss =>
    mkGraph (nodes g) (upd b (fun x => mkBinding (bvar x) (bdata x) (add_to_origin n (Some ss) (origins x))) (bindings g)) (nvars g)
  | MSetCondition n c =>
    mkGraph (upd n (fun x => mkNode (incoming x) (outgoing x) c) (nodes g)) (bindings g) (nvars g)
  end.

(* Does the primitive reach Program::InvalidateSolver()?  The table [inv_tbl] says, per primitive kind,
   whether its C++ body calls InvalidateSolver on the path that changes the graph; it is checked against
   the real implementation on every run (solver-metrics counter) and by the source scan. *)
Record inv_table := mkTbl {
  t_new_node : bool; t_connect : bool; t_new_binding : bool; t_add_origin : bool;
  t_add_origin_vec : bool; t_add_origin_ss : bool; t_set_condition : bool
}.
(* the tree as it is now (after the two fix: commits) *)
Definition tbl_current : inv_table := mkTbl true true true true true true true.
(* the tree before the fixes: AddOrigin(node, SourceSet) and set_condition did not invalidate *)
Definition tbl_before_fixes : inv_table := mkTbl true true true true true false false.

Definition inval (t : inv_table) (g : graph) (m : mut) : bool :=
  match m with
  | MNewNode _ => t_new_node t
  | MConnect a b => if Nat.eqb a b || connected g a b then false else t_connect t   (* early returns precede the call *)
  | MNewVariable => false
  | MFindOrAddBinding v d => if find_binding v d (bindings g) then false else t_new_binding t
  | MAddOrigin _ _ => t_add_origin t
  | MAddOriginVec _ _ _ => t_add_origin_vec t
  | MAddOriginSS _ _ _ => t_add_origin_ss t
  | MAddSourceSet _ _ _ => false        (* never invalidates by itself: always preceded by MAddOrigin in one API call *)
  | MSetCondition _ _ => t_set_condition t
  end.

(* API-level operations are sequences of primitives executed without an intervening query. *)
Definition apply_all (g : graph) (ms : list mut) : graph := fold_left apply ms g.
Fixpoint inval_all (t : inv_table) (g : graph) (ms : list mut) : bool :=
  match ms with [] => false | m :: r => inval t g m || inval_all t (apply g m) r end.

(* an API operation is well-formed if a bare AddSourceSet only follows an AddOrigin on the same binding and
   node inside the same operation (this is how cfg.cc and typegraph.cc use Origin::AddSourceSet) *)
Fixpoint api_wf_from (prev : option (bid * nid)) (ms : list mut) : bool :=
  match ms with
  | [] => true
  | MAddSourceSet b n _ :: r =>
    match prev with Some (b', n') => Nat.eqb b b' && Nat.eqb n n' && api_wf_from prev r | None => false end
  | MAddOrigin b n :: r => api_wf_from (Some (b, n)) r
  | _ :: r => api_wf_from None r
  end.
Definition api_wf := api_wf_from None.

(* ---------------------------------------------------------------- queries and the solver cache *)
Definition query := (nid * list bid)%type.       (* HasCombination(bindings) at a node; IsVisible = singleton *)
Definition query_eqb (q1 q2 : query) : bool := Nat.eqb (fst q1) (fst q2) && list_beq (snd q1) (snd q2).

Inductive hop := Api (ms : list mut) | Ask (q : query).

Section Run.
  Context {S : Type}.
  Variable tbl : inv_table.
  Variable fresh : S.                                                (* new Solver(program) *)
  Variable ask : list gnode * list gbinding -> S -> query -> S * bool. (* Solver::Solve with its memo *)

  Record hst := mkSt { hg : graph; hs : option S }.                   (* Program::solver_ *)

  Definition hstep (st : hst) (o : hop) : hst * option bool :=
    match o with
    | Api ms => (mkSt (apply_all (hg st) ms) (if inval_all tbl (hg st) ms then None else hs st), None)
    | Ask q =>
      let s := match hs st with Some s => s | None => fresh end in     (* GetSolver *)
      let r := ask (view (hg st)) s q in
      (mkSt (hg st) (Some (fst r)), Some (snd r))
    end.

  Fixpoint hrun (st : hst) (ops : list hop) : list (option bool) :=
    match ops with
    | [] => []
    | o :: t => snd (hstep st o) :: hrun (fst (hstep st o)) t
    end.

  (* the reference: every query is answered by a freshly built copy of the current graph *)
  Fixpoint href (g : graph) (ops : list hop) : list (option bool) :=
    match ops with
    | [] => []
    | Api ms :: t => None :: href (apply_all g ms) t
    | Ask q :: t => Some (snd (ask (view g) fresh q)) :: href g t
    end.
End Run.

(* One concrete solver state satisfying the memo laws: a cache of whole-query answers. *)
Section QueryCache.
  Variable solve : list gnode * list gbinding -> query -> bool.
  Definition qcache := list (query * bool).
  Fixpoint qlookup (q : query) (c : qcache) : option bool :=
    match c with [] => None | (q', b) :: t => if query_eqb q q' then Some b else qlookup q t end.
  Definition qask (v : list gnode * list gbinding) (c : qcache) (q : query) : qcache * bool :=
    match qlookup q c with
    | Some b => (c, b)
    | None => ((q, solve v q) :: c, solve v q)
    end.
End QueryCache.
