(* C08 proofs: if every graph-changing primitive drops the solver, every query in every history returns
   what a freshly built copy of the current graph returns. *)
From Coq Require Import List Arith Bool Lia.
From PV Require Import Typegraph.History.
Import ListNotations.

Definition tbl_safe (t : inv_table) : bool :=
  t_new_node t && t_connect t && t_new_binding t && t_add_origin t &&
  t_add_origin_vec t && t_add_origin_ss t && t_set_condition t.

Lemma tbl_safe_fields t : tbl_safe t = true ->
  t_new_node t = true /\ t_connect t = true /\ t_new_binding t = true /\ t_add_origin t = true /\
  t_add_origin_vec t = true /\ t_add_origin_ss t = true /\ t_set_condition t = true.
Proof.
  unfold tbl_safe. intro H.
  repeat (apply andb_prop in H; destruct H as [H ?]). repeat split; assumption.
Qed.

(* a single primitive other than a bare AddSourceSet: not invalidating => the solver-visible graph is unchanged *)
Lemma keep_view_prim t g m :
  tbl_safe t = true ->
  (forall b n ss, m <> MAddSourceSet b n ss) ->
  inval t g m = false -> view (apply g m) = view g.
Proof.
  intros Ht Hm Hi. destruct (tbl_safe_fields t Ht) as (T1 & T2 & T3 & T4 & T5 & T6 & T7).
  destruct m as [c|a b| |v d|b n|b n ss|b n ss|b n ss|n c]; cbn [inval apply] in *;
    try (rewrite ?T1, ?T4, ?T5, ?T6, ?T7 in Hi; discriminate).
  - destruct (Nat.eqb a b || connected g a b); [reflexivity|]. rewrite T2 in Hi. discriminate.
  - reflexivity.
  - destruct (find_binding v d (bindings g)); [reflexivity|]. rewrite T3 in Hi. discriminate.
  - exfalso. eapply Hm. reflexivity.
Qed.

Lemma keep_view_api t : tbl_safe t = true -> forall ms g,
  api_wf ms = true -> inval_all t g ms = false -> view (apply_all g ms) = view g.
Proof.
  intros Ht. destruct (tbl_safe_fields t Ht) as (T1 & T2 & T3 & T4 & T5 & T6 & T7).
  unfold api_wf. induction ms as [|m r IH]; intros g Hwf Hi; [reflexivity|].
  cbn [inval_all] in Hi. apply orb_false_elim in Hi. destruct Hi as [Hm Hr].
  unfold apply_all in *. cbn [fold_left].
  destruct m as [c|a b| |v d|b n|b n ss|b n ss|b n ss|n c];
    try (cbn [api_wf_from] in Hwf; rewrite (IH _ Hwf Hr);
         apply (keep_view_prim t); [assumption|intros; discriminate|assumption]).
  - (* MAddOrigin always invalidates under a safe table *)
    cbn [inval] in Hm. rewrite T4 in Hm. discriminate.
  - (* a bare AddSourceSet at the start of an API operation is ill-formed *)
    cbn [api_wf_from] in Hwf. discriminate.
Qed.

(* ---------------------------------------------------------------- the generic cache-coherence theorem *)
Section Coherence.
  Context {S : Type}.
  Variable tbl : inv_table.
  Variable fresh : S.
  Variable ask : list gnode * list gbinding -> S -> query -> S * bool.
  (* the memo laws: a solver state is Good for a view if asking it anything gives the fresh answer
     and leaves it Good *)
  Variable Good : list gnode * list gbinding -> S -> Prop.
  Hypothesis good_fresh : forall v, Good v fresh.
  Hypothesis good_ask : forall v s q, Good v s ->
    Good v (fst (ask v s q)) /\ snd (ask v s q) = snd (ask v fresh q).
  Hypothesis Hsafe : tbl_safe tbl = true.

  Definition ops_wf (ops : list hop) : Prop :=
    Forall (fun o => match o with Api ms => api_wf ms = true | Ask _ => True end) ops.

  Definition st_ok (st : hst) : Prop :=
    match hs st with Some s => Good (view (hg st)) s | None => True end.

  Lemma run_coherent ops : forall st, ops_wf ops -> st_ok st ->
    hrun tbl fresh ask st ops = href fresh ask (hg st) ops.
  Proof.
    induction ops as [|o t IH]; intros st Hwf Hok; [reflexivity|].
    inversion Hwf as [|o' t' Ho Ht]; subst.
    destruct o as [ms|q]; cbn [hrun href hstep fst snd].
    - f_equal. rewrite IH; [reflexivity|assumption|].
      unfold st_ok. cbn [hs hg].
      destruct (inval_all tbl (hg st) ms) eqn:Hi; [exact I|].
      unfold st_ok in Hok. destruct (hs st) as [s|]; [|exact I].
      rewrite (keep_view_api tbl Hsafe ms (hg st) Ho Hi). exact Hok.
    - unfold st_ok in Hok.
      destruct (hs st) as [s|] eqn:Hs.
      + destruct (good_ask (view (hg st)) s q Hok) as [Hg He].
        f_equal; [f_equal; exact He|].
        rewrite IH; [reflexivity|assumption|]. unfold st_ok. cbn [hs hg]. exact Hg.
      + destruct (good_ask (view (hg st)) fresh q (good_fresh _)) as [Hg _].
        f_equal. rewrite IH; [reflexivity|assumption|]. unfold st_ok. cbn [hs hg]. exact Hg.
  Qed.

  Theorem history_independent_generic ops g : ops_wf ops ->
    hrun tbl fresh ask (mkSt g None) ops = href fresh ask g ops.
  Proof. intro Hwf. apply (run_coherent ops (mkSt g None) Hwf). exact I. Qed.
End Coherence.

(* ---------------------------------------------------------------- instance: whole-query answer cache *)
Section QC.
  Variable solve : list gnode * list gbinding -> query -> bool.

  Definition qgood (v : list gnode * list gbinding) (c : qcache) : Prop :=
    forall q b, qlookup q c = Some b -> b = solve v q.

  Lemma list_beq_true l1 l2 : list_beq l1 l2 = true -> l1 = l2.
  Proof. unfold list_beq. destruct (list_eq_dec Nat.eq_dec l1 l2); [auto|discriminate]. Qed.

  Lemma query_eqb_true q1 q2 : query_eqb q1 q2 = true -> q1 = q2.
  Proof.
    destruct q1 as [n1 l1], q2 as [n2 l2]. unfold query_eqb. cbn [fst snd]. intro H.
    apply andb_prop in H. destruct H as [H1 H2]. apply Nat.eqb_eq in H1. apply list_beq_true in H2.
    subst. reflexivity.
  Qed.

  Lemma qgood_fresh v : qgood v [].
  Proof. intros q b H. discriminate. Qed.

  Lemma qgood_ask v c q : qgood v c ->
    qgood v (fst (qask solve v c q)) /\ snd (qask solve v c q) = snd (qask solve v [] q).
  Proof.
    intro Hg. unfold qask at 1 2. cbn [qlookup]. destruct (qlookup q c) as [b|] eqn:Hl; cbn [fst snd].
    - split; [exact Hg|]. apply Hg. exact Hl.
    - split; [|reflexivity]. intros q' b' H. cbn [qlookup] in H.
      destruct (query_eqb q' q) eqn:He.
      + apply query_eqb_true in He. subst. inversion H. reflexivity.
      + apply Hg. exact H.
  Qed.

  Theorem history_independent_qcache tbl ops g :
    tbl_safe tbl = true -> ops_wf ops ->
    hrun tbl [] (qask solve) (mkSt g None) ops = href [] (qask solve) g ops.
  Proof.
    intros Hs Hwf.
    apply (history_independent_generic tbl [] (qask solve) qgood qgood_fresh qgood_ask Hs ops g Hwf).
  Qed.

  (* the reference run really is "a fresh solve of the current graph" *)
  Lemma href_is_fresh_solve ops : forall g,
    href [] (qask solve) g ops =
    (fix ref g ops := match ops with
       | [] => []
       | Api ms :: t => None :: ref (apply_all g ms) t
       | Ask q :: t => Some (solve (view g) q) :: ref g t
       end) g ops.
  Proof. induction ops as [|[ms|q] t IH]; intro g; cbn; [reflexivity| |]; rewrite IH; reflexivity. Qed.
End QC.

(* repeated queries never flip: asking twice in a row gives the same answer, for any memo obeying the laws *)
Lemma repeat_stable_generic {S} (tbl : inv_table) (fresh : S)
  (ask : list gnode * list gbinding -> S -> query -> S * bool)
  (Good : list gnode * list gbinding -> S -> Prop)
  (good_fresh : forall v, Good v fresh)
  (good_ask : forall v s q, Good v s -> Good v (fst (ask v s q)) /\ snd (ask v s q) = snd (ask v fresh q))
  (Hsafe : tbl_safe tbl = true) pre q g :
  ops_wf pre ->
  exists b, skipn (length pre) (hrun tbl fresh ask (mkSt g None) (pre ++ [Ask q; Ask q])) = [Some b; Some b].
Proof.
  intro Hwf.
  assert (Hwf2 : ops_wf (pre ++ [Ask q; Ask q])).
  { apply Forall_app. split; [assumption|]. repeat constructor. }
  rewrite (history_independent_generic tbl fresh ask Good good_fresh good_ask Hsafe _ g Hwf2).
  clear Hwf2. revert g. induction pre as [|o t IH]; intro g.
  - cbn. eexists. reflexivity.
  - inversion Hwf; subst. destruct o as [ms|q']; cbn [app length skipn href]; apply IH; assumption.
Qed.

(* ---------------------------------------------------------------- the tree before the two fixes *)
Definition g_one_node : graph := mkGraph [mkNode [] [] None] [mkBinding 0 0 [(0, [])]] 1.

Lemma old_table_unsafe_set_condition :
  api_wf [MSetCondition 0 (Some 0)] = true /\
  inval_all tbl_before_fixes g_one_node [MSetCondition 0 (Some 0)] = false /\
  view (apply_all g_one_node [MSetCondition 0 (Some 0)]) <> view g_one_node.
Proof. repeat split; try reflexivity. cbv. discriminate. Qed.

Lemma old_table_unsafe_add_origin_ss :
  api_wf [MAddOriginSS 0 0 [0]] = true /\
  inval_all tbl_before_fixes g_one_node [MAddOriginSS 0 0 [0]] = false /\
  view (apply_all g_one_node [MAddOriginSS 0 0 [0]]) <> view g_one_node.
Proof. repeat split; try reflexivity. cbv. discriminate. Qed.

(* a concrete stale answer under the old table: the solver "does node 0 carry no condition?" *)
Definition solve_nocond (v : list gnode * list gbinding) (q : query) : bool :=
  match cond (nth (fst q) (fst v) (mkNode [] [] None)) with None => true | Some _ => false end.

Lemma history_dependent_before_fixes :
  let ops := [Ask (0, [0]); Api [MSetCondition 0 (Some 0)]; Ask (0, [0])] in
  ops_wf ops /\
  hrun tbl_before_fixes [] (qask solve_nocond) (mkSt g_one_node None) ops <>
  href [] (qask solve_nocond) g_one_node ops.
Proof. split; [repeat constructor|]. cbv. discriminate. Qed.
