(* C09 model: pytype/typegraph/reachable.cc (ReachabilityAnalyzer) and the two call sites in
   typegraph.cc (Program::NewCFGNode, CFGNode::ConnectTo, Program::is_reachable).
   This file contains definitions only (no proofs), so that it still evaluates when a proof breaks. *)
From Coq Require Import List NArith Arith Bool.
Import ListNotations.

(* ---- generic helpers ---- *)
Fixpoint upd {A} (i : nat) (x : A) (l : list A) : list A :=
  match l, i with
  | [], _ => []
  | _ :: t, O => x :: t
  | h :: t, S i' => h :: upd i' x t
  end.

(* std::vector<T>::resize(n, v) *)
Definition vresize {A} (n : nat) (v : A) (l : list A) : list A :=
  firstn n l ++ repeat v (n - length l).

(* ---- reachable.cc ---- *)
(* static inline int64 _node_bit(int node_id) { return 1l << (node_id & 63); }   (unsigned reading) *)
Definition node_bit (i : nat) : N := N.shiftl 1 (N.of_nat (i mod 64)).

Record ra := mkRA { num : nat; size : nat; rows : list (list N) }.

Definition ra_empty : ra := mkRA 0 0 [].

(* int ReachabilityAnalyzer::add_node() *)
Definition add_node (r : ra) : ra :=
  let node := num r in
  let num' := S (num r) in
  let size' := (num' + 63) / 64 in
  let adj1 := vresize num' [] (rows r) in                     (* adj_.resize(num_nodes_) *)
  let adj2 := map (vresize size' 0%N) adj1 in                  (* adj_[i].resize(size_, 0) for all i *)
  let row := upd (node / 64) (node_bit node) (nth node adj2 []) in
  mkRA num' size' (upd node row adj2).                        (* adj_[node][node/64] = bit *)

(* the inner loop: for j < size_: row_i[j] |= row_dst[j] *)
Definition lor_row (sz : nat) (row_i row_dst : list N) : list N :=
  map (fun j => N.lor (nth j row_i 0%N) (nth j row_dst 0%N)) (seq 0 sz) ++ skipn sz row_i.

Definition word_has (row : list N) (p : nat) (b : N) : bool :=
  negb (N.eqb (N.land (nth p row 0%N) b) 0%N).

(* the outer loop `for i in 0..num_nodes_`; adj_[dst] is read live, exactly like the pointer row_dst *)
Fixpoint conn_loop (fuel i : nat) (sz : nat) (adj : list (list N)) (src dst : nat) : list (list N) :=
  match fuel with
  | O => adj
  | S f =>
    let row_i := nth i adj [] in
    let adj' := if word_has row_i (src / 64) (node_bit src)
                then upd i (lor_row sz row_i (nth dst adj [])) adj
                else adj in
    conn_loop f (S i) sz adj' src dst
  end.

(* void ReachabilityAnalyzer::add_connection(src, dst) *)
Definition add_connection (r : ra) (src dst : nat) : ra :=
  mkRA (num r) (size r) (conn_loop (num r) 0 (size r) (rows r) src dst).

(* bool ReachabilityAnalyzer::is_reachable(src, dst) *)
Definition ra_is_reachable (r : ra) (src dst : nat) : bool :=
  word_has (nth src (rows r) []) (dst / 64) (node_bit dst).

(* ---- typegraph.cc: the program-level operations ---- *)
Record prog := mkProg { reach : ra; outgoing : list (list nat) }.
Definition prog_empty : prog := mkProg ra_empty [].

Inductive op := NewNode | Connect (a b : nat).

(* Program::NewCFGNode *)
Definition new_node (p : prog) : prog :=
  mkProg (add_node (reach p)) (outgoing p ++ [[]]).

(* CFGNode::ConnectTo: a.ConnectTo(b) *)
Definition connect_to (p : prog) (a b : nat) : prog :=
  if Nat.eqb a b then p
  else if existsb (Nat.eqb b) (nth a (outgoing p) []) then p
  else mkProg (add_connection (reach p) b a)            (* edges are registered backwards *)
              (upd a (nth a (outgoing p) [] ++ [b]) (outgoing p)).

Definition step (p : prog) (o : op) : prog :=
  match o with NewNode => new_node p | Connect a b => connect_to p a b end.

Definition run (h : list op) : prog := fold_left step h prog_empty.

(* Program::is_reachable(src, dst) *)
Definition is_reachable (p : prog) (src dst : nat) : bool :=
  ra_is_reachable (reach p) dst src.

Definition nodes (p : prog) : nat := num (reach p).

(* the history is well-formed: Connect only mentions nodes that exist (the Python API hands out node
   objects, so nothing else can be expressed there) *)
Fixpoint wf_hist_from (n : nat) (h : list op) : bool :=
  match h with
  | [] => true
  | NewNode :: t => wf_hist_from (S n) t
  | Connect a b :: t => Nat.ltb a n && Nat.ltb b n && wf_hist_from n t
  end.
Definition wf_hist := wf_hist_from 0.

Fixpoint edges (h : list op) : list (nat * nat) :=
  match h with
  | [] => []
  | NewNode :: t => edges t
  | Connect a b :: t => (a, b) :: edges t
  end.

Fixpoint count_nodes (h : list op) : nat :=
  match h with [] => 0 | NewNode :: t => S (count_nodes t) | _ :: t => count_nodes t end.

(* all ordered pairs, used by the correspondence check *)
Definition all_pairs (p : prog) : list bool :=
  flat_map (fun a => map (fun b => is_reachable p a b) (seq 0 (nodes p))) (seq 0 (nodes p)).
