(* C09 model, part 2 (definitions only, no proofs): the rest of the reachability surface of
   pytype/typegraph/typegraph.cc as the Python module cfg.cc exposes it.
     - Program.NewCFGNode / CFGNode.ConnectNew / CFGNode.ConnectTo / Program.is_reachable(src, dst)
     - Program.NewVariable, Variable.AddBinding, Binding.AddOrigin, Variable.PasteBinding,
       Variable.PasteVariable, Variable.AssignToNewVariable  (only what Variable::Prune can read:
       bindings_, data_to_binding_, Binding::origins_ (the `where` nodes), cfg_node_to_bindings_)
     - Variable::Prune  (Python: Variable.Bindings(node) / Variable.Data(node))
     - Variable::Filter (Python: Variable.Filter / FilteredData), with Binding::IsVisible abstract (C07)
   Reach.v's definitions are reused unchanged. *)
From Coq Require Import List Arith Bool.
From PV Require Import Typegraph.Reach.
Import ListNotations.

(* ---- data ---- *)
(* Binding: id_ (Program::MakeBindingId), data_ (identity of the Python object, as a number),
   origins_ reduced to the `where` node of every Origin, in insertion order.  Source sets are not read
   by Prune; every origin created through cfg.cc gets at least one source set (AddBinding, AddOrigin,
   NewVariable and CopyOrigins all call AddSourceSet / AddOrigin(node, source_set)), which is what makes
   CopyOrigins(other, nullptr) visit every origin of `other` at least once. *)
Record pbind := mkPB { pb_id : nat; pb_data : nat; pb_origins : list nat }.

(* Variable: bindings_ (vector, creation order) and cfg_node_to_bindings_ (node -> SourceSet, a std::set
   ordered by binding id: a strictly increasing list here; the unordered_map is an association list in
   insertion order, only ever read by key or by "does any key satisfy"). *)
Record pvar := mkPV { pv_bindings : list pbind; pv_nodemap : list (nat * list nat) }.
Definition pvar0 : pvar := mkPV [] [].

Record pstate := mkPS {
  ps_prog : prog;                    (* Reach.v: bit matrix + outgoing_ *)
  ps_incoming : list (list nat);     (* CFGNode::incoming_ per node, insertion order *)
  ps_vars : list pvar;               (* Program::variables_ *)
  ps_next_bid : nat;                 (* Program::next_binding_id_ *)
  ps_default : nat                   (* Program::default_data_ (set once by the harness, as pytype does) *)
}.
Definition pstate0 (dflt : nat) : pstate := mkPS prog_empty [] [] 0 dflt.

Definition MAX_VAR_SIZE : nat := 64.

(* ---- CFG ---- *)
Definition py_new_node (s : pstate) : pstate :=
  mkPS (new_node (ps_prog s)) (ps_incoming s ++ [[]]) (ps_vars s) (ps_next_bid s) (ps_default s).

(* CFGNode::ConnectTo: the same two early returns as Reach.connect_to, then
   node->incoming_.push_back(this); outgoing_.push_back(node); add_connection(node, this) *)
Definition py_connect (s : pstate) (a b : nat) : pstate :=
  if Nat.eqb a b then s
  else if existsb (Nat.eqb b) (nth a (outgoing (ps_prog s)) []) then s
  else mkPS (connect_to (ps_prog s) a b)
            (upd b (nth b (ps_incoming s) [] ++ [a]) (ps_incoming s))
            (ps_vars s) (ps_next_bid s) (ps_default s).

(* CFGNode::ConnectNew: node = program->NewCFGNode(..); this->ConnectTo(node) *)
Definition py_connect_new (s : pstate) (a : nat) : pstate :=
  let k := nodes (ps_prog s) in py_connect (py_new_node s) a k.

(* ---- variables ---- *)
Fixpoint updf {A} (i : nat) (f : A -> A) (l : list A) : list A :=
  match l, i with
  | [], _ => []
  | h :: t, O => f h :: t
  | h :: t, S i' => h :: updf i' f t
  end.

Definition set_var (s : pstate) (v : nat) (f : pvar -> pvar) : pstate :=
  mkPS (ps_prog s) (ps_incoming s) (updf v f (ps_vars s)) (ps_next_bid s) (ps_default s).

Definition get_var (s : pstate) (v : nat) : pvar := nth v (ps_vars s) pvar0.

Definition py_new_variable (s : pstate) : pstate :=
  mkPS (ps_prog s) (ps_incoming s) (ps_vars s ++ [pvar0]) (ps_next_bid s) (ps_default s).

(* data_to_binding_.find(data) *)
Fixpoint find_data (d : nat) (bs : list pbind) : option nat :=
  match bs with
  | [] => None
  | pb :: t => if Nat.eqb (pb_data pb) d then Some (pb_id pb) else find_data d t
  end.

(* Variable::FindOrAddBindingHelper *)
Definition foab_helper (s : pstate) (v d : nat) : pstate * nat :=
  match find_data d (pv_bindings (get_var s v)) with
  | Some b => (s, b)
  | None =>
    let b := ps_next_bid s in
    (mkPS (ps_prog s) (ps_incoming s)
          (updf v (fun pv => mkPV (pv_bindings pv ++ [mkPB b d []]) (pv_nodemap pv)) (ps_vars s))
          (S b) (ps_default s), b)
  end.

(* Variable::FindOrAddBinding: bindings_.size() >= MAX_VAR_SIZE - 1 && !ContainsKey(data) -> default_data *)
Definition foab (s : pstate) (v d : nat) : pstate * nat :=
  let bs := pv_bindings (get_var s v) in
  if Nat.leb (MAX_VAR_SIZE - 1) (length bs) && negb (match find_data d bs with Some _ => true | None => false end)
  then foab_helper s v (ps_default s)
  else foab_helper s v d.

(* SourceSet::insert (std::set ordered by Binding::id) *)
Fixpoint sset_insert (b : nat) (l : list nat) : list nat :=
  match l with
  | [] => [b]
  | h :: t => if Nat.ltb b h then b :: l else if Nat.eqb b h then l else h :: sset_insert b t
  end.

(* Variable::RegisterBindingAtNode: cfg_node_to_bindings_.emplace(node, {}).first->second.insert(binding) *)
Fixpoint nodemap_register (n b : nat) (m : list (nat * list nat)) : list (nat * list nat) :=
  match m with
  | [] => [(n, [b])]
  | (k, bs) :: t => if Nat.eqb k n then (k, sset_insert b bs) :: t else (k, bs) :: nodemap_register n b t
  end.

Fixpoint nodemap_find (n : nat) (m : list (nat * list nat)) : option (list nat) :=
  match m with
  | [] => None
  | (k, bs) :: t => if Nat.eqb k n then Some bs else nodemap_find n t
  end.

(* Binding::FindOrAddOrigin(node) for the binding with id b of variable v *)
Definition foao_var (b n : nat) (pv : pvar) : pvar :=
  match find (fun pb => Nat.eqb (pb_id pb) b) (pv_bindings pv) with
  | None => pv                                            (* not expressible through the API *)
  | Some pb =>
    if existsb (Nat.eqb n) (pb_origins pb) then pv          (* node_to_origin_.find(node) != end *)
    else mkPV (map (fun x => if Nat.eqb (pb_id x) b then mkPB (pb_id x) (pb_data x) (pb_origins x ++ [n]) else x)
                   (pv_bindings pv))
              (nodemap_register n b (pv_nodemap pv))
  end.
Definition foao (s : pstate) (v b n : nat) : pstate := set_var s v (foao_var b n).

(* Binding::CopyOrigins(other, where, additional_sources) on binding b of v; `os` = other's origins *)
Definition copy_origins (s : pstate) (v b : nat) (os : list nat) (w : option nat) : pstate :=
  match w with
  | Some n => foao s v b n
  | None => fold_left (fun s' n => foao s' v b n) os s
  end.

(* Variable::PasteBinding(binding, where, additional_sources); d/os = the pasted binding's data/origins *)
Definition paste_binding (s : pstate) (dst d : nat) (os : list nat) (w : option nat) : pstate :=
  let '(s1, b) := foab s dst d in
  match w with
  | None => copy_origins s1 dst b os None
  | Some n =>
    if existsb (fun o => negb (Nat.eqb o n)) os       (* some origin elsewhere: link at `where` *)
    then copy_origins s1 dst b os (Some n)
    else copy_origins s1 dst b os None                (* all origins at `where` (or none): copy them *)
  end.

Definition find_bind (pv : pvar) (b : nat) : option pbind :=
  find (fun pb => Nat.eqb (pb_id pb) b) (pv_bindings pv).

(* ---- the Python-level operations ---- *)
Inductive pyop :=
| PNewCFGNode                                   (* program.NewCFGNode() *)
| PConnectNew (a : nat)                         (* node_a.ConnectNew() *)
| PConnectTo (a b : nat)                        (* node_a.ConnectTo(node_b) *)
| PNewVariable                                  (* program.NewVariable() *)
| PNewVariableWith (ds : list nat) (n : nat)    (* program.NewVariable(bindings=ds, source_set=[], where=n) *)
| PAddBinding (v d : nat) (w : option nat)      (* var.AddBinding(data[, [], where]) *)
| PAddOrigin (v b n : nat)                      (* binding.AddOrigin(where, []) ; binding id b of var v *)
| PPasteBinding (dst src b : nat) (w : option nat)  (* var_dst.PasteBinding(binding b of var src, where) *)
| PPasteVariable (dst src : nat) (w : option nat)   (* var_dst.PasteVariable(var_src, where) *)
| PAssignToNewVariable (src : nat) (w : option nat). (* var_src.AssignToNewVariable(where) *)

Definition add_binding_at (s : pstate) (v d n : nat) : pstate :=
  let '(s1, b) := foab s v d in foao s1 v b n.

Definition py_step (s : pstate) (o : pyop) : pstate :=
  match o with
  | PNewCFGNode => py_new_node s
  | PConnectNew a => py_connect_new s a
  | PConnectTo a b => py_connect s a b
  | PNewVariable => py_new_variable s
  | PNewVariableWith ds n =>
    let v := length (ps_vars s) in
    fold_left (fun s' d => add_binding_at s' v d n) ds (py_new_variable s)
  | PAddBinding v d None => fst (foab s v d)
  | PAddBinding v d (Some n) => add_binding_at s v d n
  | PAddOrigin v b n => foao s v b n
  | PPasteBinding dst src b w =>
    match find_bind (get_var s src) b with
    | Some pb => paste_binding s dst (pb_data pb) (pb_origins pb) w
    | None => s
    end
  | PPasteVariable dst src w =>
    fold_left (fun s' pb => paste_binding s' dst (pb_data pb) (pb_origins pb) w)
              (pv_bindings (get_var s src)) s
  | PAssignToNewVariable src w =>
    let v := length (ps_vars s) in
    fold_left (fun s' pb => let '(s1, b) := foab s' v (pb_data pb) in copy_origins s1 v b (pb_origins pb) w)
              (pv_bindings (get_var s src)) (py_new_variable s)
  end.

Definition py_run_from (s : pstate) (h : list pyop) : pstate := fold_left py_step h s.
Definition py_run (dflt : nat) (h : list pyop) : pstate := py_run_from (pstate0 dflt) h.

(* program.is_reachable(src, dst) *)
Definition py_is_reachable (s : pstate) (src dst : nat) : bool := is_reachable (ps_prog s) src dst.

(* ---- Variable::Prune ---- *)
Definition mem (x : nat) (l : list nat) : bool := existsb (Nat.eqb x) l.

(* for (auto v : cfg_node_to_bindings_[node]) if (seen_results.insert(v).second) result.push_back(v); *)
Definition add_results (bs result : list nat) : list nat :=
  fold_left (fun r b => if mem b r then r else r ++ [b]) bs result.

(* the do { ... } while (!stack.empty()) loop; the stack's top is the head of the list.  One unit of fuel
   per loop iteration; None = fuel exhausted (PruneProofs.prune_walk_terminates: never with walk_fuel). *)
Fixpoint prune_walk (fuel : nat) (inc : list (list nat)) (m : list (nat * list nat))
         (stack seen result : list nat) : option (list nat) :=
  match stack with
  | [] => Some result
  | node :: rest =>
    match fuel with
    | O => None
    | S f =>
      let seen' := node :: seen in                                   (* seen.insert(node) *)
      match nodemap_find node m with
      | Some bs => prune_walk f inc m rest seen' (add_results bs result)   (* continue: not expanded *)
      | None =>
        let push := filter (fun x => negb (mem x seen')) (nth node inc []) in
        prune_walk f inc m (rev push ++ rest) seen' result          (* pushed in order: last on top *)
      end
    end
  end.

(* Fuel (no C++ counterpart): one iteration for the start node plus, for every node not yet in `seen`, one
   iteration for its first pop and one for each copy its successors may have pushed: 1 + #nodes + #edges. *)
Definition walk_weight (inc : list (list nat)) (seen : list nat) : nat :=
  list_sum (map (fun x => if mem x seen then 0 else S (length (nth x inc []))) (seq 0 (length inc))).
Definition walk_fuel (s : pstate) : nat := S (walk_weight (ps_incoming s) []).

Definition all_bindings (pv : pvar) : list nat := map pb_id (pv_bindings pv).

(* the general backward walk alone *)
Definition prune_general (s : pstate) (v n : nat) : option (list nat) :=
  prune_walk (walk_fuel s) (ps_incoming s) (pv_nodemap (get_var s v)) [n] [] [].

(* std::vector<Binding*> Variable::Prune(const CFGNode* viewpoint) *)
Definition prune (s : pstate) (v : nat) (vp : option nat) : option (list nat) :=
  let pv := get_var s v in
  match vp with
  | None => Some (all_bindings pv)                                      (* !viewpoint: visible *)
  | Some n =>
    if Nat.eqb (length (pv_bindings pv)) 1 then                          (* bindings_.size() == 1 *)
      if existsb (fun kv => py_is_reachable s (fst kv) n) (pv_nodemap pv) (* is_reachable(kvpair.first, viewpoint) *)
      then Some (all_bindings pv) else Some []
    else prune_general s v n
  end.

(* Variable.Data(node): data of the pruned bindings *)
Definition data_of (pv : pvar) (b : nat) : nat :=
  match find_bind pv b with Some pb => pb_data pb | None => 0 end.
Definition prune_data (s : pstate) (v : nat) (vp : option nat) : option (list nat) :=
  option_map (map (data_of (get_var s v))) (prune s v vp).

(* ---- Variable::Filter ----  Binding::IsVisible(viewpoint) = Solver::Solve({binding}, viewpoint) is C07's
   subject; here it is an argument of the model. *)
Definition filter_model (vis : nat -> nat -> bool) (s : pstate) (v n : nat) (strict : bool) : list nat :=
  let pv := get_var s v in
  let size := length (pv_bindings pv) in
  filter (fun b => (negb strict && Nat.eqb size 1) || vis b n) (all_bindings pv).

(* ---- well-formed Python histories: only existing nodes / variables / bindings can be named ---- *)
Definition opt_lt (w : option nat) (n : nat) : bool := match w with Some x => Nat.ltb x n | None => true end.

Definition py_wf_op (s : pstate) (o : pyop) : bool :=
  let nn := nodes (ps_prog s) in
  let nv := length (ps_vars s) in
  match o with
  | PNewCFGNode | PNewVariable => true
  | PConnectNew a => Nat.ltb a nn
  | PConnectTo a b => Nat.ltb a nn && Nat.ltb b nn
  | PNewVariableWith _ n => Nat.ltb n nn
  | PAddBinding v _ w => Nat.ltb v nv && opt_lt w nn
  | PAddOrigin v b n => Nat.ltb v nv && Nat.ltb n nn
                        && match find_bind (get_var s v) b with Some _ => true | None => false end
  | PPasteBinding dst src b w => Nat.ltb dst nv && Nat.ltb src nv && negb (Nat.eqb dst src) && opt_lt w nn
                        && match find_bind (get_var s src) b with Some _ => true | None => false end
  | PPasteVariable dst src w => Nat.ltb dst nv && Nat.ltb src nv && negb (Nat.eqb dst src) && opt_lt w nn
  | PAssignToNewVariable src w => Nat.ltb src nv && opt_lt w nn
  end.

Fixpoint py_wf_from (s : pstate) (h : list pyop) : bool :=
  match h with
  | [] => true
  | o :: t => py_wf_op s o && py_wf_from (py_step s o) t
  end.
Definition py_wf (dflt : nat) (h : list pyop) : bool := py_wf_from (pstate0 dflt) h.

(* the edges a Python history inserts (self edges and duplicates included, as in Reach.edges) *)
Fixpoint py_edges_from (n : nat) (h : list pyop) : list (nat * nat) :=
  match h with
  | [] => []
  | PNewCFGNode :: t => py_edges_from (S n) t
  | PConnectNew a :: t => (a, n) :: py_edges_from (S n) t
  | PConnectTo a b :: t => (a, b) :: py_edges_from n t
  | _ :: t => py_edges_from n t
  end.
Definition py_edges := py_edges_from 0.

(* ---- specification vocabulary (used by Props/C09.v) ---- *)
(* binding b of variable v has an origin at node m *)
Definition has_origin (s : pstate) (v b m : nat) : Prop :=
  exists pb, In pb (pv_bindings (get_var s v)) /\ pb_id pb = b /\ In m (pb_origins pb).
(* no binding of variable v has an origin at node x *)
Definition unbound (s : pstate) (v x : nat) : Prop :=
  forall pb, In pb (pv_bindings (get_var s v)) -> ~ In x (pb_origins pb).
(* a path m -> ... -> n along inserted edges on which every node after the first satisfies `free`
   (the end node n included, unless the path is the empty one m = n) *)
Inductive clean_path (E : list (nat * nat)) (free : nat -> Prop) : nat -> nat -> Prop :=
| cp_refl m : clean_path E free m m
| cp_step m x n : In (m, x) E -> free x -> clean_path E free x n -> clean_path E free m n.
(* reaching definitions: b is assigned at some node m and reaches n without being overwritten on the way *)
Definition reaching_def (E : list (nat * nat)) (s : pstate) (v b n : nat) : Prop :=
  exists m, has_origin s v b m /\ clean_path E (unbound s v) m n.
