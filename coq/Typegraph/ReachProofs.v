(* C09 proofs: the bit matrix of reachable.cc represents the reflexive-transitive closure of the
   inserted edges, for histories of any length and any number of 64-bit buckets. *)
From Coq Require Import List NArith ZArith Arith Bool Lia Relations ZifyNat ZifyBool ZifyN.
From PV Require Import Typegraph.Reach.
Import ListNotations.

Ltac Zify.zify_post_hook ::= Z.div_mod_to_equations.

(* ------------------------------------------------------------------ generic list lemmas *)
Lemma length_upd {A} i (x : A) l : length (upd i x l) = length l.
Proof. revert i; induction l as [|h t IH]; intros [|i]; simpl; auto. Qed.

Lemma nth_upd_eq {A} i (x d : A) l : i < length l -> nth i (upd i x l) d = x.
Proof. revert i; induction l as [|h t IH]; intros [|i] H; simpl in *; try lia; auto. apply IH; lia. Qed.

Lemma nth_upd_neq {A} i k (x d : A) l : i <> k -> nth k (upd i x l) d = nth k l d.
Proof.
  revert i k; induction l as [|h t IH]; intros [|i] [|k] H; simpl; auto; try lia.
Qed.

Lemma nth_app_repeat {A} k (l : list A) d m : nth k (l ++ repeat d m) d = nth k l d.
Proof.
  destruct (Nat.lt_ge_cases k (length l)) as [H|H].
  - apply app_nth1; assumption.
  - rewrite app_nth2 by assumption. rewrite (nth_overflow l) by assumption.
    apply nth_repeat.
Qed.

Lemma nth_repeat_any {A} k (d : A) m : nth k (repeat d m) d = d.
Proof. apply nth_repeat. Qed.

(* ------------------------------------------------------------------ bits *)
Definition bit (row : list N) (j : nat) : bool :=
  N.testbit (nth (j / 64) row 0%N) (N.of_nat (j mod 64)).

Lemma land_pow2_testbit a k :
  negb (N.eqb (N.land a (N.shiftl 1 k)) 0) = N.testbit a k.
Proof.
  rewrite N.shiftl_1_l.
  destruct (N.testbit a k) eqn:Hk.
  - destruct (N.eqb_spec (N.land a (2 ^ k)) 0) as [E|E]; [|reflexivity].
    exfalso. assert (H : N.testbit (N.land a (2 ^ k)) k = true).
    { rewrite N.land_spec, Hk, N.pow2_bits_true. reflexivity. }
    rewrite E, N.bits_0 in H. discriminate.
  - destruct (N.eqb_spec (N.land a (2 ^ k)) 0) as [E|E]; [reflexivity|].
    exfalso. apply E. apply N.bits_inj. intro m. rewrite N.land_spec, N.bits_0.
    destruct (N.eq_dec k m) as [->|Hne].
    + rewrite Hk. reflexivity.
    + rewrite N.pow2_bits_false by assumption. apply andb_false_r.
Qed.

Lemma word_has_bit row j : word_has row (j / 64) (node_bit j) = bit row j.
Proof. unfold word_has, node_bit, bit. apply land_pow2_testbit. Qed.

Lemma bit_app_zeros row m j : bit (row ++ repeat 0%N m) j = bit row j.
Proof. unfold bit. rewrite nth_app_repeat. reflexivity. Qed.

Lemma bit_zeros m j : bit (repeat 0%N m) j = false.
Proof. unfold bit. rewrite nth_repeat_any. apply N.bits_0. Qed.

Lemma bit_nil j : bit [] j = false.
Proof. unfold bit. destruct (j / 64); cbn [nth]; apply N.bits_0. Qed.

Lemma divmod_eq j n : j / 64 = n / 64 -> j mod 64 = n mod 64 -> j = n.
Proof. intros H1 H2. lia. Qed.

Lemma bit_unit sz n j : n / 64 < sz ->
  bit (upd (n / 64) (node_bit n) (repeat 0%N sz)) j = Nat.eqb j n.
Proof.
  intro Hsz. unfold bit.
  destruct (Nat.eq_dec (j / 64) (n / 64)) as [Hd|Hd].
  - rewrite Hd, nth_upd_eq by (rewrite repeat_length; assumption).
    unfold node_bit. rewrite N.shiftl_1_l.
    destruct (Nat.eq_dec (j mod 64) (n mod 64)) as [Hm|Hm].
    + rewrite Hm, N.pow2_bits_true. symmetry. apply Nat.eqb_eq. apply divmod_eq; assumption.
    + rewrite N.pow2_bits_false by lia. symmetry. apply Nat.eqb_neq. intro; subst; lia.
  - rewrite nth_upd_neq by lia. rewrite nth_repeat_any, N.bits_0.
    symmetry. apply Nat.eqb_neq. intro; subst; lia.
Qed.

Lemma lor_row_length sz r d : length r = sz -> length (lor_row sz r d) = sz.
Proof.
  intro H. unfold lor_row. rewrite app_length, map_length, seq_length, skipn_length. lia.
Qed.

Lemma bit_lor_row sz r d j : length r = sz -> length d = sz ->
  bit (lor_row sz r d) j = bit r j || bit d j.
Proof.
  intros Hr Hd. unfold bit, lor_row.
  rewrite skipn_all2 by lia. rewrite app_nil_r.
  destruct (Nat.lt_ge_cases (j / 64) sz) as [H|H].
  - rewrite (nth_indep _ 0%N (N.lor (nth 0 r 0%N) (nth 0 d 0%N)))
      by (rewrite map_length, seq_length; assumption).
    rewrite (map_nth (fun k => N.lor (nth k r 0%N) (nth k d 0%N)) (seq 0 sz) 0).
    rewrite seq_nth by assumption. simpl. apply N.lor_spec.
  - rewrite !nth_overflow; try lia.
    + rewrite N.bits_0. reflexivity.
    + rewrite map_length, seq_length. assumption.
Qed.

Lemma lor_row_diag sz r : length r = sz -> lor_row sz r r = r.
Proof.
  intro H. unfold lor_row. subst sz. rewrite skipn_all, app_nil_r.
  apply nth_ext with (d := 0%N) (d' := 0%N).
  - rewrite map_length, seq_length. reflexivity.
  - intros k Hk. rewrite map_length, seq_length in Hk.
    rewrite (nth_indep _ 0%N (N.lor (nth 0 r 0%N) (nth 0 r 0%N)))
      by (rewrite map_length, seq_length; assumption).
    rewrite (map_nth (fun k => N.lor (nth k r 0%N) (nth k r 0%N)) (seq 0 (length r)) 0).
    rewrite seq_nth by assumption. simpl. apply N.lor_diag.
Qed.

(* ------------------------------------------------------------------ the row loop of add_connection *)
Section Loop.
  Variables (sz src dst : nat) (D : list N).
  Hypothesis HD : length D = sz.

  Lemma conn_loop_spec fuel : forall i adj,
    nth dst adj [] = D ->
    length (conn_loop fuel i sz adj src dst) = length adj /\
    forall k, nth k (conn_loop fuel i sz adj src dst) [] =
      if (i <=? k) && (k <? i + fuel) && bit (nth k adj []) src
      then lor_row sz (nth k adj []) D else nth k adj [].
  Proof.
    induction fuel as [|f IH]; intros i adj Hdst.
    - simpl. split; [reflexivity|]. intro k.
      destruct (i <=? k) eqn:E1; destruct (k <? i + 0) eqn:E2; simpl; auto.
      apply Nat.leb_le in E1. apply Nat.ltb_lt in E2. lia.
    - cbn [conn_loop]. rewrite word_has_bit, Hdst.
      set (adj' := if bit (nth i adj []) src then upd i (lor_row sz (nth i adj []) D) adj else adj).
      assert (Hlen : length adj' = length adj).
      { unfold adj'. destruct (bit (nth i adj []) src); [apply length_upd|reflexivity]. }
      assert (Hdst' : nth dst adj' [] = D).
      { unfold adj'. destruct (bit (nth i adj []) src) eqn:Hb; [|assumption].
        destruct (Nat.eq_dec i dst) as [->|Hne].
        - destruct (Nat.lt_ge_cases dst (length adj)) as [Hl|Hl].
          + rewrite nth_upd_eq by assumption. rewrite Hdst. apply lor_row_diag. assumption.
          + rewrite (nth_overflow adj) in Hb by assumption.
            rewrite bit_nil in Hb. discriminate.
        - rewrite nth_upd_neq by assumption. assumption. }
      destruct (IH (S i) adj' Hdst') as [IHl IHk]. split; [lia|].
      intro k. rewrite IHk.
      destruct (Nat.eq_dec k i) as [->|Hki].
      + replace (S i <=? i) with false by (symmetry; apply Nat.leb_gt; lia).
        replace (i <=? i) with true by (symmetry; apply Nat.leb_le; lia).
        replace (i <? i + S f) with true by (symmetry; apply Nat.ltb_lt; lia).
        simpl. unfold adj'. destruct (bit (nth i adj []) src) eqn:Hb; [|reflexivity].
        destruct (Nat.lt_ge_cases i (length adj)) as [Hl|Hl].
        * apply nth_upd_eq. assumption.
        * rewrite (nth_overflow adj) in Hb by assumption.
          rewrite bit_nil in Hb. discriminate.
      + assert (Hn : nth k adj' [] = nth k adj []).
        { unfold adj'. destruct (bit (nth i adj []) src); [|reflexivity].
          apply nth_upd_neq. lia. }
        rewrite Hn.
        replace (k <? S i + f) with (k <? i + S f) by (f_equal; lia).
        destruct (Nat.leb_spec (S i) k); destruct (Nat.leb_spec i k); try lia; reflexivity.
  Qed.
End Loop.

(* ------------------------------------------------------------------ paths *)
Definition edge (E : list (nat * nat)) (x y : nat) : Prop := In (x, y) E.
Definition rtc (E : list (nat * nat)) : nat -> nat -> Prop := clos_refl_trans nat (edge E).

Lemma rtc_mono E E' x y : incl E E' -> rtc E x y -> rtc E' x y.
Proof.
  intros Hi H. induction H as [x y H| |x y z _ IH1 _ IH2].
  - apply rt_step. apply Hi. exact H.
  - apply rt_refl.
  - eapply rt_trans; eassumption.
Qed.

Lemma rtc_absorb E E' x y :
  (forall a b, In (a, b) E' -> rtc E a b) -> rtc E' x y -> rtc E x y.
Proof.
  intros Ha H. induction H as [x y H| |x y z _ IH1 _ IH2].
  - apply Ha. exact H.
  - apply rt_refl.
  - eapply rt_trans; eassumption.
Qed.

(* the incremental-closure lemma *)
Lemma rtc_add_edge E a b x y :
  rtc ((a, b) :: E) x y <-> rtc E x y \/ (rtc E x a /\ rtc E b y).
Proof.
  split.
  - intro H. apply clos_rt_rtn1 in H. induction H as [|y z Hyz _ IH].
    + left. apply rt_refl.
    + destruct Hyz as [Heq|Hin].
      * inversion Heq; subst. destruct IH as [IH|[IH _]]; right; split; auto; apply rt_refl.
      * destruct IH as [IH|[IH1 IH2]].
        -- left. eapply rt_trans; [exact IH|]. apply rt_step. exact Hin.
        -- right. split; [assumption|]. eapply rt_trans; [exact IH2|]. apply rt_step. exact Hin.
  - intros [H|[H1 H2]].
    + eapply rtc_mono; [|exact H]. apply incl_tl, incl_refl.
    + eapply rt_trans; [eapply rtc_mono; [|exact H1]; apply incl_tl, incl_refl|].
      eapply rt_trans; [apply rt_step; left; reflexivity|].
      eapply rtc_mono; [|exact H2]. apply incl_tl, incl_refl.
Qed.

Lemma rtc_bounds E n x y :
  (forall a b, In (a, b) E -> a < n /\ b < n) -> rtc E x y -> x = y \/ (x < n /\ y < n).
Proof.
  intros Hb H. induction H as [x y H| |x y z _ IH1 _ IH2].
  - right. apply Hb. exact H.
  - left. reflexivity.
  - destruct IH1 as [->|[? ?]]; destruct IH2 as [->|[? ?]]; auto.
Qed.

(* ------------------------------------------------------------------ the representation invariant *)
Record Inv (p : prog) (E : list (nat * nat)) : Prop := {
  inv_size : size (reach p) = (num (reach p) + 63) / 64;
  inv_rows : length (rows (reach p)) = num (reach p);
  inv_row_len : forall i, i < num (reach p) -> length (nth i (rows (reach p)) []) = size (reach p);
  inv_bits : forall i j, i < num (reach p) ->
     (bit (nth i (rows (reach p)) []) j = true <-> j < num (reach p) /\ rtc E j i);
  inv_edges : forall a b, In (a, b) E -> a < num (reach p) /\ b < num (reach p);
  inv_out_len : length (outgoing p) = num (reach p);
  inv_out : forall a b, In b (nth a (outgoing p) []) -> In (a, b) E
}.

Lemma Inv_empty : Inv prog_empty [].
Proof.
  constructor; simpl; try reflexivity; try (intros; lia); try (intros a b []).
  intros a b H. destruct a; destruct H.
Qed.

Lemma Inv_ext p E E' :
  (forall e, In e E <-> In e E') -> Inv p E -> Inv p E'.
Proof.
  intros Hee [H1 H2 H3 H4 H5 H6 H7]. constructor; auto.
  - intros i j Hi. rewrite (H4 i j Hi). split; intros [? Hr]; split; auto;
      (eapply rtc_mono; [|exact Hr]); intros e He; apply Hee; exact He.
  - intros a b H. apply H5. apply Hee. exact H.
  - intros a b H. apply Hee. apply H7. exact H.
Qed.

Lemma vresize_grow {A} n (v : A) l : length l <= n -> vresize n v l = l ++ repeat v (n - length l).
Proof. intro H. unfold vresize. rewrite firstn_all2 by assumption. reflexivity. Qed.

Lemma Inv_new_node p E : Inv p E -> Inv (new_node p) E.
Proof.
  intros [H1 H2 H3 H4 H5 H6 H7].
  set (n := num (reach p)) in *. set (sz := size (reach p)) in *.
  set (sz' := (S n + 63) / 64).
  assert (Hsz : sz <= sz') by (unfold sz'; rewrite H1; lia).
  assert (Hn64 : n / 64 < sz') by (unfold sz'; lia).
  (* shape of the new matrix *)
  set (adj2 := map (vresize sz' 0%N) (vresize (S n) [] (rows (reach p)))).
  assert (Hadj1 : vresize (S n) [] (rows (reach p)) = rows (reach p) ++ [[]]).
  { rewrite vresize_grow by lia. rewrite H2. replace (S n - n) with 1 by lia. reflexivity. }
  assert (Hlen2 : length adj2 = S n).
  { unfold adj2. rewrite map_length, Hadj1, app_length, H2. simpl. lia. }
  assert (Hold : forall i, i < n -> nth i adj2 [] = nth i (rows (reach p)) [] ++ repeat 0%N (sz' - sz)).
  { intros i Hi. unfold adj2. rewrite Hadj1.
    rewrite (nth_indep _ [] (vresize sz' 0%N [])) by (rewrite map_length, app_length, H2; simpl; lia).
    rewrite map_nth. rewrite app_nth1 by lia.
    rewrite vresize_grow by (rewrite H3 by assumption; assumption).
    rewrite H3 by assumption. reflexivity. }
  assert (Hnew : nth n adj2 [] = repeat 0%N sz').
  { unfold adj2. rewrite Hadj1.
    rewrite (nth_indep _ [] (vresize sz' 0%N [])) by (rewrite map_length, app_length, H2; simpl; lia).
    rewrite map_nth. rewrite app_nth2 by lia. rewrite H2, Nat.sub_diag. simpl.
    unfold vresize. rewrite firstn_nil. simpl. rewrite Nat.sub_0_r. reflexivity. }
  assert (Hrows : rows (reach (new_node p)) =
                  upd n (upd (n / 64) (node_bit n) (repeat 0%N sz')) adj2).
  { rewrite <- Hnew. reflexivity. }
  assert (Hnum : num (reach (new_node p)) = S n) by reflexivity.
  assert (Hsize : size (reach (new_node p)) = sz') by reflexivity.
  assert (Hout : outgoing (new_node p) = outgoing p ++ [[]]) by reflexivity.
  constructor; rewrite ?Hnum, ?Hsize, ?Hrows, ?Hout.
  - reflexivity.
  - rewrite length_upd. exact Hlen2.
  - intros i Hi.
    destruct (Nat.eq_dec i n) as [->|Hne].
    + rewrite nth_upd_eq by lia. rewrite length_upd, repeat_length. reflexivity.
    + rewrite nth_upd_neq by lia. rewrite Hold by lia. rewrite app_length, repeat_length, H3 by lia.
      lia.
  - intros i j Hi.
    destruct (Nat.eq_dec i n) as [->|Hne].
    + rewrite nth_upd_eq by lia. rewrite bit_unit by assumption. rewrite Nat.eqb_eq.
      split.
      * intros ->. split; [lia|apply rt_refl].
      * intros [_ Hr]. destruct (rtc_bounds E n j n H5 Hr) as [?|[_ ?]]; [assumption|lia].
    + rewrite nth_upd_neq by lia. rewrite Hold by lia. rewrite bit_app_zeros.
      rewrite H4 by lia. split.
      * intros [? ?]. split; [lia|assumption].
      * intros [_ Hr]. split; [|assumption].
        destruct (rtc_bounds E n j i H5 Hr) as [?|[? _]]; lia.
  - intros a b H. destruct (H5 a b H). lia.
  - rewrite app_length, H6. simpl. lia.
  - intros a b H. apply H7.
    destruct (Nat.lt_ge_cases a (length (outgoing p))) as [Hl|Hl].
    + rewrite app_nth1 in H by assumption. exact H.
    + rewrite app_nth2 in H by assumption.
      destruct (a - length (outgoing p)) as [|[|k]]; simpl in H; destruct H.
Qed.

Lemma Inv_connect p E a b :
  Inv p E -> a < nodes p -> b < nodes p -> Inv (connect_to p a b) ((a, b) :: E).
Proof.
  intros HI Ha Hb. unfold nodes in *. unfold connect_to.
  destruct (Nat.eqb_spec a b) as [->|Hab].
  { (* self edge: skipped, and irrelevant for reachability *)
    destruct HI as [H1 H2 H3 H4 H5 H6 H7]. constructor; auto.
    - intros i j Hi. rewrite (H4 i j Hi). split; intros [? Hr]; split; auto.
      + eapply rtc_mono; [|exact Hr]. apply incl_tl, incl_refl.
      + eapply rtc_absorb; [|exact Hr]. intros x y [Heq|Hin].
        * inversion Heq; subst. apply rt_refl.
        * apply rt_step. exact Hin.
    - intros x y [Heq|Hin]; [inversion Heq; subst; auto|auto].
    - intros x y H. right. auto. }
  destruct (existsb (Nat.eqb b) (nth a (outgoing p) [])) eqn:Hex.
  { (* duplicate edge: skipped, already in E *)
    apply existsb_exists in Hex. destruct Hex as [b' [Hin Hbb]]. apply Nat.eqb_eq in Hbb. subst b'.
    destruct HI as [H1 H2 H3 H4 H5 H6 H7]. pose proof (H7 a b Hin) as HinE.
    constructor; auto.
    - intros i j Hi. rewrite (H4 i j Hi). split; intros [? Hr]; split; auto.
      + eapply rtc_mono; [|exact Hr]. apply incl_tl, incl_refl.
      + eapply rtc_absorb; [|exact Hr]. intros x y [Heq|Hin'].
        * inversion Heq; subst. apply rt_step. exact HinE.
        * apply rt_step. exact Hin'.
    - intros x y [Heq|Hin']; [inversion Heq; subst; auto|auto].
    - intros x y H. right. auto. }
  (* a genuinely new edge a -> b: add_connection (src := b) (dst := a) *)
  destruct HI as [H1 H2 H3 H4 H5 H6 H7].
  set (n := num (reach p)) in *. set (sz := size (reach p)) in *.
  set (D := nth a (rows (reach p)) []).
  assert (HD : length D = sz) by (apply H3; assumption).
  destruct (conn_loop_spec sz b a D HD n 0 (rows (reach p)) eq_refl) as [Hlen Hk].
  constructor; simpl; fold n; fold sz.
  - exact H1.
  - rewrite Hlen. exact H2.
  - intros i Hi. rewrite Hk. simpl.
    destruct ((i <? n) && bit (nth i (rows (reach p)) []) b).
    + apply lor_row_length. apply H3. assumption.
    + apply H3. assumption.
  - intros i j Hi. rewrite Hk. simpl.
    replace (i <? n) with true by (symmetry; apply Nat.ltb_lt; assumption). simpl.
    rewrite rtc_add_edge.
    destruct (bit (nth i (rows (reach p)) []) b) eqn:Hbit.
    + rewrite bit_lor_row by (auto). rewrite orb_true_iff. rewrite H4 by assumption.
      unfold D. rewrite H4 by assumption.
      apply H4 in Hbit; [|assumption]. destruct Hbit as [_ Hbi].
      split.
      * intros [[? ?]|[? ?]]; split; auto.
      * intros [? [?|[? ?]]]; auto.
    + rewrite H4 by assumption. split.
      * intros [? ?]; split; auto.
      * intros [? [?|[_ Hbi]]]; [auto|].
        assert (Hc : bit (nth i (rows (reach p)) []) b = true) by (apply H4; auto).
        rewrite Hc in Hbit. discriminate.
  - intros x y [Heq|Hin]; [inversion Heq; subst; auto|auto].
  - rewrite length_upd. exact H6.
  - intros x y H. destruct (Nat.eq_dec x a) as [->|Hne].
    + rewrite nth_upd_eq in H by (rewrite H6; assumption).
      apply in_app_or in H. destruct H as [H|[<-|[]]]; [right; auto|left; reflexivity].
    + rewrite nth_upd_neq in H by auto. right. auto.
Qed.

Lemma nodes_step p o : nodes (step p o) = match o with NewNode => S (nodes p) | _ => nodes p end.
Proof.
  destruct o as [|a b]; simpl; [reflexivity|]. unfold connect_to.
  destruct (Nat.eqb a b); [reflexivity|].
  destruct (existsb _ _); reflexivity.
Qed.

Lemma run_inv h : forall p E,
  Inv p E -> wf_hist_from (nodes p) h = true ->
  Inv (fold_left step h p) (rev (edges h) ++ E) /\
  nodes (fold_left step h p) = nodes p + count_nodes h.
Proof.
  induction h as [|o h IH]; intros p E HI Hwf.
  - simpl. split; [assumption|lia].
  - destruct o as [|a b]; cbn [fold_left step edges count_nodes wf_hist_from] in *.
    + destruct (IH (new_node p) E) as [I1 I2].
      * apply Inv_new_node. assumption.
      * exact Hwf.
      * split; [assumption|]. rewrite I2. unfold nodes, new_node. simpl. lia.
    + apply andb_prop in Hwf. destruct Hwf as [Hab Hwf]. apply andb_prop in Hab. destruct Hab as [Ha Hb].
      apply Nat.ltb_lt in Ha. apply Nat.ltb_lt in Hb.
      destruct (IH (connect_to p a b) ((a, b) :: E)) as [I1 I2].
      * apply Inv_connect; assumption.
      * pose proof (nodes_step p (Connect a b)) as Hn. simpl in Hn. rewrite Hn. exact Hwf.
      * split.
        -- simpl. rewrite <- app_assoc. exact I1.
        -- rewrite I2. pose proof (nodes_step p (Connect a b)) as Hn. simpl in Hn. rewrite Hn. reflexivity.
Qed.

Lemma run_Inv h : wf_hist h = true -> Inv (run h) (edges h) /\ nodes (run h) = count_nodes h.
Proof.
  intro Hwf. destruct (run_inv h prog_empty [] Inv_empty Hwf) as [I1 I2]. split.
  - eapply Inv_ext; [|exact I1]. intro e. rewrite app_nil_r. symmetry. apply in_rev.
  - exact I2.
Qed.

(* ------------------------------------------------------------------ main results *)
Theorem reach_correct_lemma h a b :
  wf_hist h = true -> a < nodes (run h) -> b < nodes (run h) ->
  (is_reachable (run h) a b = true <-> rtc (edges h) a b).
Proof.
  intros Hwf Ha Hb. destruct (run_Inv h Hwf) as [[H1 H2 H3 H4 H5 H6 H7] _].
  unfold is_reachable, ra_is_reachable. rewrite word_has_bit.
  unfold nodes in *. rewrite H4 by assumption. tauto.
Qed.

(* indices used by is_reachable are always in range: no out-of-bounds read in the C++ *)
Theorem rows_wf_lemma h :
  wf_hist h = true ->
  let r := reach (run h) in
  length (rows r) = num r /\ size r = (num r + 63) / 64 /\
  (forall i, i < num r -> length (nth i (rows r) []) = size r) /\
  (forall j, j < num r -> j / 64 < size r).
Proof.
  intros Hwf r. destruct (run_Inv h Hwf) as [[H1 H2 H3 H4 H5 H6 H7] _].
  subst r. repeat split; auto. intros j Hj. rewrite H1. lia.
Qed.

(* every node reaches itself *)
Corollary reach_refl_lemma h a : wf_hist h = true -> a < nodes (run h) -> is_reachable (run h) a a = true.
Proof. intros Hwf Ha. apply reach_correct_lemma; auto. apply rt_refl. Qed.

(* ------------------------------------------------------------------ words never exceed 64 bits *)
(* The model uses unbounded N words; the C++ uses int64.  Every word of every row stays below 2^64, so the
   unbounded reading never leaves the machine word. *)
Definition word_ok (w : N) : Prop := (w < 2 ^ 64)%N.
Definition row_ok (r : list N) : Prop := Forall word_ok r.
Definition rows_ok (rs : list (list N)) : Prop := Forall row_ok rs.

Lemma Forall_in {A} (P : A -> Prop) l x : Forall P l -> In x l -> P x.
Proof. intros H Hx. rewrite Forall_forall in H. apply H. exact Hx. Qed.

Lemma In_firstn {A} n (l : list A) x : In x (firstn n l) -> In x l.
Proof. rewrite <- (firstn_skipn n l) at 2. intro H. apply in_or_app. left. exact H. Qed.

Lemma In_skipn {A} n (l : list A) x : In x (skipn n l) -> In x l.
Proof. rewrite <- (firstn_skipn n l) at 2. intro H. apply in_or_app. right. exact H. Qed.

Lemma word_ok_0 : word_ok 0%N.
Proof. unfold word_ok. reflexivity. Qed.

Lemma word_ok_node_bit i : word_ok (node_bit i).
Proof.
  unfold word_ok, node_bit. rewrite N.shiftl_1_l.
  apply N.pow_lt_mono_r; [reflexivity|].
  assert (H : i mod 64 < 64) by (apply Nat.mod_upper_bound; discriminate).
  lia.
Qed.

Lemma word_ok_lor a b : word_ok a -> word_ok b -> word_ok (N.lor a b).
Proof.
  unfold word_ok. intros Ha Hb.
  destruct (N.eq_dec (N.lor a b) 0) as [E|E]; [rewrite E; reflexivity|].
  apply N.log2_lt_pow2; [lia|].
  rewrite N.log2_lor.
  destruct (N.eq_dec a 0) as [->|Ha0]; destruct (N.eq_dec b 0) as [->|Hb0].
  - exfalso. apply E. reflexivity.
  - rewrite N.max_r by (simpl; lia). apply N.log2_lt_pow2; lia.
  - rewrite N.max_l by (simpl; lia). apply N.log2_lt_pow2; lia.
  - apply N.max_lub_lt; apply N.log2_lt_pow2; lia.
Qed.

Lemma row_ok_nth r k : row_ok r -> word_ok (nth k r 0%N).
Proof.
  intro H. destruct (Nat.lt_ge_cases k (length r)) as [Hk|Hk].
  - eapply Forall_in; [exact H|]. apply nth_In. exact Hk.
  - rewrite nth_overflow by exact Hk. apply word_ok_0.
Qed.

Lemma rows_ok_nth rs k : rows_ok rs -> row_ok (nth k rs []).
Proof.
  intro H. destruct (Nat.lt_ge_cases k (length rs)) as [Hk|Hk].
  - eapply Forall_in; [exact H|]. apply nth_In. exact Hk.
  - rewrite nth_overflow by exact Hk. constructor.
Qed.

Lemma Forall_upd {A} (P : A -> Prop) i x l : Forall P l -> P x -> Forall P (upd i x l).
Proof.
  revert i; induction l as [|h t IH]; intros [|i] Hl Hx; simpl; auto;
    inversion Hl; subst; constructor; auto.
Qed.

Lemma row_ok_vresize n r : row_ok r -> row_ok (vresize n 0%N r).
Proof.
  intro H. unfold vresize, row_ok. apply Forall_app. split.
  - apply Forall_forall. intros x Hx. eapply Forall_in; [exact H|]. eapply In_firstn. exact Hx.
  - apply Forall_forall. intros x Hx. apply repeat_spec in Hx. subst. apply word_ok_0.
Qed.

Lemma row_ok_lor_row sz r d : row_ok r -> row_ok d -> row_ok (lor_row sz r d).
Proof.
  intros Hr Hd. unfold lor_row, row_ok. apply Forall_app. split.
  - apply Forall_forall. intros x Hx. apply in_map_iff in Hx. destruct Hx as [j [<- _]].
    apply word_ok_lor; apply row_ok_nth; assumption.
  - apply Forall_forall. intros x Hx. eapply Forall_in; [exact Hr|]. eapply In_skipn. exact Hx.
Qed.

Lemma rows_ok_conn_loop fuel : forall i sz adj src dst,
  rows_ok adj -> rows_ok (conn_loop fuel i sz adj src dst).
Proof.
  induction fuel as [|f IH]; intros i sz adj src dst H; [exact H|].
  cbn [conn_loop]. apply IH.
  destruct (word_has (nth i adj []) (src / 64) (node_bit src)); [|exact H].
  apply Forall_upd; [exact H|]. apply row_ok_lor_row; apply rows_ok_nth; exact H.
Qed.

Lemma rows_ok_step p o : rows_ok (rows (reach p)) -> rows_ok (rows (reach (step p o))).
Proof.
  intro H. destruct o as [|a b]; cbn [step].
  - unfold new_node, add_node. cbn [reach rows].
    set (adj2 := map (vresize _ 0%N) (vresize _ [] (rows (reach p)))).
    assert (H2 : rows_ok adj2).
    { unfold adj2, rows_ok. apply Forall_forall. intros r Hr. apply in_map_iff in Hr.
      destruct Hr as [r0 [<- Hr0]]. apply row_ok_vresize.
      unfold vresize in Hr0. apply in_app_or in Hr0. destruct Hr0 as [Hr0|Hr0].
      - eapply Forall_in; [exact H|]. eapply In_firstn. exact Hr0.
      - apply repeat_spec in Hr0. subst. constructor. }
    apply Forall_upd; [exact H2|].
    apply Forall_upd; [apply rows_ok_nth; exact H2|apply word_ok_node_bit].
  - unfold connect_to. destruct (Nat.eqb a b); [exact H|].
    destruct (existsb _ _); [exact H|]. cbn [reach rows add_connection].
    apply rows_ok_conn_loop. exact H.
Qed.

Theorem words_bounded_lemma h : rows_ok (rows (reach (run h))).
Proof.
  unfold run. assert (G : forall p, rows_ok (rows (reach p)) -> rows_ok (rows (reach (fold_left step h p)))).
  { induction h as [|o t IH]; intros p Hp; [exact Hp|]. cbn [fold_left]. apply IH. apply rows_ok_step. exact Hp. }
  apply G. constructor.
Qed.
