(* C08 on graphs WITH cycles (and with node conditions), for the history model running the real memoised
   solver (HistorySolver.ask):
   (2') `ask` repeats itself exactly (ask_repeat) and therefore repeated queries never flip in any history over
        any graph under any invalidation table (repeat_stable_solver) - no hypothesis at all;
   (4)  history independence FAILS on a 4-node condition-free loop, in both directions, with two queries and no
        mutation in between (cyc_dep_true / cyc_dep_false), by computation on the model; the same two query
        sequences give the same answers on cfg.so (corpus/C08/cyclic_memo_*.json). *)
From Coq Require Import List Arith Bool Lia.
From PV Require Import Typegraph.Graph Typegraph.Solver Typegraph.Spec Typegraph.SetLemmas Typegraph.CyclicMemo.
From PV Require Typegraph.History Typegraph.HistoryProofs.
From PV Require Import Typegraph.HistorySolver.
Import ListNotations.

(* ------------------------------------------------------------------ (2') the same for the history model's `ask` *)
Lemma guess_fuel_S : forall g, exists f, guess_fuel g = S f.
Proof. intros g. unfold guess_fuel. eexists. reflexivity. Qed.

(* asking the question just answered again returns the same answer AND leaves the solver unchanged;
   every graph (cyclic, conditional), every solver state *)
Theorem ask_repeat : forall v st (q : History.query) st1 b, ask v st q = (st1, b) -> ask v st1 q = (st1, b).
Proof.
  intros v st q st1 b H. unfold ask in H. cbv zeta in H.
  destruct (guess_fuel_S (to_solver_graph v)) as [f Hf].
  destruct (solve (guess_fuel (to_solver_graph v)) (to_solver_graph v) st (snd q) (fst q)) as [r|] eqn:E.
  - subst r. unfold ask. cbv zeta. rewrite Hf in *.
    rewrite (solve_sticky _ (S f) f st _ _ st1 b st1 E (memo_le_refl _)). reflexivity.
  - destruct (bool_dec (guardb (to_solver_graph v) st) true) as [Hg|Hg].
    + pose proof (search_fuel_spec (to_solver_graph v) st (snd q) (fst q) Hg) as Hs. unfold Pfuel in Hs.
      destruct (solve (search_fuel (to_solver_graph v) st (snd q) (fst q) Hg) (to_solver_graph v) st (snd q) (fst q))
        as [r|] eqn:E2; [|congruence].
      subst r. unfold ask. cbv zeta. rewrite Hf.
      rewrite (solve_sticky _ _ f st _ _ st1 b st1 E2 (memo_le_refl _)). reflexivity.
    + inversion H; subst st1 b. unfold ask. cbv zeta. rewrite E.
      destruct (bool_dec (guardb (to_solver_graph v) st) true) as [Hg'|Hg']; [contradiction | reflexivity].
Qed.

(* Repeated queries never flip, for the REAL memoised solver, in every history over every graph (cyclic and
   conditional included), under ANY invalidation table: no hypothesis at all. *)
Theorem repeat_stable_solver : forall tbl pre (q : History.query) st,
  exists b, skipn (length pre) (History.hrun tbl sstate_empty ask st (pre ++ [History.Ask q; History.Ask q]))
            = [Some b; Some b].
Proof.
  intros tbl. induction pre as [|o t IH]; intros q st.
  - cbn [app length skipn History.hrun History.hstep fst snd History.hg History.hs].
    destruct (ask (History.view (History.hg st)) (match History.hs st with Some s => s | None => sstate_empty end) q)
      as [st1 b] eqn:E.
    cbn [fst snd]. rewrite (ask_repeat _ _ _ _ _ E). cbn [fst snd]. exists b. reflexivity.
  - cbn [app length skipn History.hrun]. apply IH.
Qed.

(* ------------------------------------------------------------------ (4) history independence fails on a loop *)
(*   n0: z = e      n1 (loop head): y = c computed from {e, b}      n2 (body): x = b computed from {e, c}
     n2 -> n1 (back edge), n1 -> n3 (exit).   Bindings: 0 = e, 1 = b, 2 = c.  No node condition.
     Neither b nor c has a non-circular explanation. *)
Definition cyc_build : list History.hop :=
  [History.Api [History.MNewNode None]; History.Api [History.MNewNode None; History.MConnect 0 1];
   History.Api [History.MNewNode None; History.MConnect 1 2]; History.Api [History.MConnect 2 1];
   History.Api [History.MNewNode None; History.MConnect 1 3];
   History.Api [History.MNewVariable]; History.Api [History.MNewVariable]; History.Api [History.MNewVariable];
   History.Api [History.MFindOrAddBinding 0 0; History.MAddOrigin 0 0; History.MAddSourceSet 0 0 []];
   History.Api [History.MFindOrAddBinding 1 0]; History.Api [History.MFindOrAddBinding 2 0];
   History.Api [History.MAddOriginVec 1 2 [0; 2]];
   History.Api [History.MAddOriginVec 2 1 [0; 1]]].

(* "is b visible at the head?" then "is c visible at the head?": the second answer is `true` from the memo
   (the first query left the circular justification behind), a fresh solver says `false` *)
Definition cyc_ops_true : list History.hop := cyc_build ++ [History.Ask (1, [1]); History.Ask (1, [2])].
(* the other order: "c at the head?" (false), then "b at the head?": `false` from the memo (the state was
   skipped as a cycle while something else could still be tried, and that verdict was recorded), a fresh
   solver says `true` *)
Definition cyc_ops_false : list History.hop := cyc_build ++ [History.Ask (1, [2]); History.Ask (1, [1])].

Definition cyc_graph : History.graph := fold_left (fun g o => match o with History.Api ms => History.apply_all g ms | _ => g end)
                                                   cyc_build History.graph0.

Lemma cyc_facts :
  HistoryProofs.ops_wf cyc_ops_true /\ HistoryProofs.ops_wf cyc_ops_false /\
  no_conditions (to_solver_graph (History.view cyc_graph)) = true /\
  wf_graph (to_solver_graph (History.view cyc_graph)) = true /\
  acyclicb (to_solver_graph (History.view cyc_graph)) = false.
Proof. split; [repeat constructor|]. split; [repeat constructor|]. vm_compute. repeat split; reflexivity. Qed.

(* a history that first only builds (no query) and then only asks: the invalidation table is never consulted
   for an answer - the solver is created by the first query and nothing mutates afterwards *)
Lemma build_then_ask : forall tbl build qs,
  (forall o, In o build -> exists ms, o = History.Api ms) ->
  skipn (length build) (History.hrun tbl sstate_empty ask (History.mkSt History.graph0 None) (build ++ qs))
  = History.hrun tbl sstate_empty ask
      (History.mkSt (fold_left (fun g o => match o with History.Api ms => History.apply_all g ms | _ => g end)
                               build History.graph0) None) qs.
Proof.
  intros tbl build qs. generalize History.graph0.
  induction build as [|o t IH]; intros g0 Hall; [reflexivity|].
  destruct (Hall o (or_introl eq_refl)) as [ms Hms]. subst o.
  cbn [app length skipn History.hrun History.hstep fst fold_left History.hg History.hs].
  replace (if History.inval_all tbl g0 ms then None else None) with (@None sstate) by (destruct (History.inval_all tbl g0 ms); reflexivity).
  apply IH. intros o Ho. apply Hall. right. exact Ho.
Qed.

Lemma cyc_build_api : forall o, In o cyc_build -> exists ms, o = History.Api ms.
Proof.
  intros o Ho. unfold cyc_build in Ho.
  repeat (destruct Ho as [Ho|Ho]; [subst o; eexists; reflexivity|]). destruct Ho.
Qed.

(* live solver: true, true.   fresh solver at every query: true, false.   Under EVERY invalidation table. *)
Lemma cyc_dep_true : forall tbl,
  skipn 13 (History.hrun tbl sstate_empty ask (History.mkSt History.graph0 None) cyc_ops_true) = [Some true; Some true] /\
  skipn 13 (History.href sstate_empty ask History.graph0 cyc_ops_true) = [Some true; Some false].
Proof.
  intros tbl. split; [|vm_compute; reflexivity].
  unfold cyc_ops_true. change 13 with (length cyc_build). rewrite (build_then_ask tbl _ _ cyc_build_api).
  vm_compute. reflexivity.
Qed.

(* live solver: false, false.   fresh solver at every query: false, true. *)
Lemma cyc_dep_false : forall tbl,
  skipn 13 (History.hrun tbl sstate_empty ask (History.mkSt History.graph0 None) cyc_ops_false) = [Some false; Some false] /\
  skipn 13 (History.href sstate_empty ask History.graph0 cyc_ops_false) = [Some false; Some true].
Proof.
  intros tbl. split; [|vm_compute; reflexivity].
  unfold cyc_ops_false. change 13 with (length cyc_build). rewrite (build_then_ask tbl _ _ cyc_build_api).
  vm_compute. reflexivity.
Qed.

(* the statement of history_independent_real_solver without "acyclic": refuted on a condition-free graph *)
Theorem history_independent_cyclic_refuted_lemma : forall tbl, exists ops g,
  HistoryProofs.ops_wf ops /\
  (fix nocond_asks (g : History.graph) (ops : list History.hop) : Prop :=
     match ops with
     | [] => True
     | History.Api ms :: t => nocond_asks (History.apply_all g ms) t
     | History.Ask _ :: t => no_conditions (to_solver_graph (History.view g)) = true /\ nocond_asks g t
     end) g ops /\
  History.hrun tbl sstate_empty ask (History.mkSt g None) ops <> History.href sstate_empty ask g ops.
Proof.
  intros tbl. exists cyc_ops_true, History.graph0. split; [apply cyc_facts|]. split.
  - vm_compute. repeat split; reflexivity.
  - intros E. destruct (cyc_dep_true tbl) as [A B]. rewrite E in A. rewrite A in B. discriminate.
Qed.
