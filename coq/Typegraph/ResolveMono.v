(* Monotonicity of the resolution step and of the explanation relation in the goal set:
   a subset of an explained goal set is explained (the mathematical core of clause (iv), and what
   makes the CanHaveSolution short-circuit invisible on acyclic condition-free graphs). *)
From Coq Require Import List Arith Bool Lia Relations.
From PV Require Import Typegraph.Graph Typegraph.Solver Typegraph.Spec Typegraph.SetLemmas
  Typegraph.RfgProofs Typegraph.PathProofs.
Import ListNotations.

Section Mono.
Variable g : graph.
Variable pos : node.

(* the resolution relation with the choice of source set fixed by a function *)
Inductive resolvesS (sg : bid -> list bid)
  : list bid -> list bid -> list bid -> list bid -> rresult -> Prop :=
| S_done : forall seen rem new,
    resolvesS sg [] seen rem new (sof_list rem, sof_list new)
| S_seen : forall goal gtr seen rem new r,
    smem goal seen = true ->
    resolvesS sg gtr seen rem new r ->
    resolvesS sg (goal :: gtr) seen rem new r
| S_new : forall goal gtr seen rem new r,
    smem goal seen = false -> find_origin g goal pos = None ->
    resolvesS sg gtr (sins goal seen) rem (goal :: new) r ->
    resolvesS sg (goal :: gtr) seen rem new r
| S_rem : forall goal gtr seen rem new r o,
    smem goal seen = false -> find_origin g goal pos = Some o -> In (sg goal) (o_ssets o) ->
    resolvesS sg (sunion gtr (sg goal)) (sins goal seen) (goal :: rem) new r ->
    resolvesS sg (goal :: gtr) seen rem new r.

Lemma S_to_resolves : forall sg gtr seen rem new r,
  resolvesS sg gtr seen rem new r -> resolves g pos gtr seen rem new r.
Proof.
  intros sg gtr seen rem new r H. induction H.
  - constructor.
  - apply R_seen; assumption.
  - apply R_new; assumption.
  - eapply R_rem; eassumption.
Qed.

Lemma S_agree : forall sg sg' gtr seen rem new r,
  resolvesS sg gtr seen rem new r ->
  (forall b, smem b seen = false -> sg b = sg' b) ->
  resolvesS sg' gtr seen rem new r.
Proof.
  intros sg sg' gtr seen rem new r H. induction H; intros Hag.
  - constructor.
  - apply S_seen; auto.
  - apply S_new; auto. apply IHresolvesS. intros b Hb. apply Hag.
    rewrite smem_sins in Hb. apply orb_false_iff in Hb. tauto.
  - assert (E : sg goal = sg' goal) by (apply Hag; assumption).
    eapply S_rem; eauto.
    + rewrite <- E. assumption.
    + rewrite <- E. apply IHresolvesS. intros b Hb. apply Hag.
      rewrite smem_sins in Hb. apply orb_false_iff in Hb. tauto.
Qed.

Lemma resolves_to_S : forall gtr seen rem new r,
  resolves g pos gtr seen rem new r -> exists sg, resolvesS sg gtr seen rem new r.
Proof.
  intros gtr seen rem new r H. induction H.
  - exists (fun _ => []). constructor.
  - destruct IHresolves as [sg Hs]. exists sg. apply S_seen; assumption.
  - destruct IHresolves as [sg Hs]. exists sg. apply S_new; assumption.
  - destruct IHresolves as [sg0 Hs].
    exists (fun b => if b =? goal then ss else sg0 b).
    eapply S_rem; eauto; rewrite Nat.eqb_refl; [assumption|].
    eapply S_agree; [exact Hs|]. intros b Hb. rewrite smem_sins in Hb. apply orb_false_iff in Hb.
    destruct Hb as [Hb _]. rewrite Hb. reflexivity.
Qed.

(* closure property of an outcome: every removed goal chose a valid source set all of whose
   members ended up removed or as new goals *)
Lemma S_closure : forall sg gtr seen rem new R N,
  resolvesS sg gtr seen rem new (R, N) ->
  (forall b, In b seen -> In b rem \/ In b new) ->
  forall b, In b R ->
    In b rem \/
    exists o, find_origin g b pos = Some o /\ In (sg b) (o_ssets o) /\
              forall c, In c (sg b) -> In c R \/ In c N.
Proof.
  intros sg gtr seen rem new R N H. remember (R, N) as r eqn:Er. revert R N Er.
  induction H; intros R N Er Hseen b Hb.
  - inversion Er; subst. left. apply In_sof_list. exact Hb.
  - eapply IHresolvesS; eauto.
  - eapply IHresolvesS; eauto. intros c Hc. apply In_sins in Hc. destruct Hc as [Hc|Hc].
    + subst. right. left. reflexivity.
    + destruct (Hseen c Hc); [left | right; right]; assumption.
  - assert (Hseen' : forall c, In c (sins goal seen) -> In c (goal :: rem) \/ In c new).
    { intros c Hc. apply In_sins in Hc. destruct Hc as [Hc|Hc].
      - subst. left. left. reflexivity.
      - destruct (Hseen c Hc); [left; right | right]; assumption. }
    destruct (IHresolvesS R N Er Hseen' b Hb) as [[Hg|Hr]|Hc]; [|left; exact Hr | right; exact Hc].
    subst b. right. exists o. split; [assumption|]. split; [assumption|].
    intros c Hc. subst r.
    destruct (resolves_facts g pos _ _ _ _ _ _ (S_to_resolves _ _ _ _ _ _ H2) Hseen') as [A _].
    apply A. left. apply In_sunion. right. exact Hc.
Qed.

(* ---- existence of the sub-run ---- *)
Definition unseen (U seen : list bid) : nat :=
  length (filter (fun b => negb (smem b seen)) U).

Lemma unseen_le : forall U x seen, unseen U (sins x seen) <= unseen U seen.
Proof.
  intros U x seen. unfold unseen. induction U as [|u U IH]; simpl; [lia|].
  rewrite smem_sins. destruct (u =? x); simpl.
  - destruct (smem u seen); simpl; lia.
  - destruct (smem u seen); simpl; lia.
Qed.

Lemma unseen_lt : forall U x seen, In x U -> smem x seen = false ->
  unseen U (sins x seen) < unseen U seen.
Proof.
  intros U x seen Hin Hx. unfold unseen. induction U as [|u U IH]; [destruct Hin|].
  simpl. rewrite smem_sins. destruct (u =? x) eqn:E.
  - apply Nat.eqb_eq in E. subst u. rewrite Hx. simpl.
    pose proof (unseen_le U x seen) as Hle. unfold unseen in Hle. lia.
  - destruct Hin as [Hin|Hin]; [subst; rewrite Nat.eqb_refl in E; discriminate|].
    specialize (IH Hin). simpl. destruct (smem u seen); simpl; lia.
Qed.

Section SubRun.
Variable sg : bid -> list bid.
Variables R N : list bid.
Hypothesis HR : forall b, In b R ->
  exists o, find_origin g b pos = Some o /\ In (sg b) (o_ssets o) /\
            forall c, In c (sg b) -> In c R \/ In c N.
Hypothesis HN : forall b, In b N -> find_origin g b pos = None.

Lemma sub_exists : forall k j gtr seen rem new,
  unseen R seen <= k -> length gtr <= j ->
  (forall b, In b gtr -> In b R \/ In b N) ->
  (forall b, In b rem -> In b R) -> (forall b, In b new -> In b N) ->
  exists R' N', resolvesS sg gtr seen rem new (R', N') /\
                (forall b, In b R' -> In b R) /\ (forall b, In b N' -> In b N).
Proof.
  induction k as [k IHk] using lt_wf_ind. induction j as [|j IHj]; intros gtr seen rem new Hk Hj Hg Hrem Hnew.
  - destruct gtr; [|simpl in Hj; lia].
    exists (sof_list rem), (sof_list new). split; [constructor|].
    split; intros b Hb; rewrite In_sof_list in Hb; auto.
  - destruct gtr as [|goal gtr].
    + exists (sof_list rem), (sof_list new). split; [constructor|].
      split; intros b Hb; rewrite In_sof_list in Hb; auto.
    + assert (Hg' : forall b, In b gtr -> In b R \/ In b N) by (intros b Hb; apply Hg; right; exact Hb).
      simpl in Hj.
      destruct (smem goal seen) eqn:Es.
      * destruct (IHj gtr seen rem new Hk ltac:(lia) Hg' Hrem Hnew) as [R' [N' [Hrun [H1 H2]]]].
        exists R', N'. split; [apply S_seen; assumption | split; assumption].
      * destruct (find_origin g goal pos) as [o|] eqn:Eo.
        -- (* removed: goal must be in R *)
           assert (HgR : In goal R).
           { destruct (Hg goal (or_introl eq_refl)) as [Hr|Hn]; [exact Hr|]. apply HN in Hn. congruence. }
           destruct (HR goal HgR) as [o' [Ho' [Hv Hcl]]]. rewrite Eo in Ho'. inversion Ho'; subst o'.
           pose proof (unseen_lt R goal seen HgR Es) as Hlt.
           assert (Hk' : unseen R (sins goal seen) < k) by lia.
           destruct (IHk _ Hk' (length (sunion gtr (sg goal))) (sunion gtr (sg goal)) (sins goal seen)
                         (goal :: rem) new (Nat.le_refl _) (Nat.le_refl _)) as [R' [N' [Hrun [H1 H2]]]].
           { intros b Hb. apply In_sunion in Hb. destruct Hb as [Hb|Hb]; [apply Hg'; exact Hb | apply Hcl; exact Hb]. }
           { intros b [Hb|Hb]; [subst; exact HgR | apply Hrem; exact Hb]. }
           { exact Hnew. }
           exists R', N'. split; [eapply S_rem; eassumption | split; assumption].
        -- (* new goal: goal must be in N *)
           assert (HgN : In goal N).
           { destruct (Hg goal (or_introl eq_refl)) as [Hr|Hn]; [|exact Hn].
             destruct (HR goal Hr) as [o' [Ho' _]]. congruence. }
           pose proof (unseen_le R goal seen) as Hle.
           destruct (IHj gtr (sins goal seen) rem (goal :: new) ltac:(lia) ltac:(lia) Hg' Hrem) as [R' [N' [Hrun [H1 H2]]]].
           { intros b [Hb|Hb]; [subst; exact HgN | apply Hnew; exact Hb]. }
           exists R', N'. split; [apply S_new; assumption | split; assumption].
Qed.
End SubRun.

(* the resolution step is monotone in the goal set *)
Theorem resolves_at_mono : forall S S' R N,
  (forall b, In b S' -> In b S) ->
  resolves_at g pos S (R, N) ->
  exists R' N', resolves_at g pos S' (R', N') /\
                (forall b, In b R' -> In b R) /\ (forall b, In b N' -> In b N).
Proof.
  intros S S' R N Hsub H.
  destruct (resolves_at_facts g pos _ _ _ H) as [FA [FB FC]].
  unfold resolves_at in H. destruct (resolves_to_S _ _ _ _ _ H) as [sg Hs].
  assert (HR : forall b, In b R ->
             exists o, find_origin g b pos = Some o /\ In (sg b) (o_ssets o) /\
                       forall c, In c (sg b) -> In c R \/ In c N).
  { intros b Hb. destruct (S_closure _ _ _ _ _ _ _ Hs ltac:(intros c []) b Hb) as [[]|Hc]. exact Hc. }
  set (gtr' := filter (at_pos g pos) S').
  set (new' := rev (filter (fun b => negb (smem b gtr')) S')).
  destruct (sub_exists sg R N HR FC (unseen R []) (length gtr') gtr' [] [] new'
              (Nat.le_refl _) (Nat.le_refl _)) as [R' [N' [Hrun [H1 H2]]]].
  - intros b Hb. subst gtr'. apply filter_In in Hb. apply FA. apply Hsub. tauto.
  - intros b [].
  - intros b Hb. subst new'. rewrite <- in_rev in Hb. apply filter_In in Hb. destruct Hb as [Hb1 Hb2].
    destruct (FA b (Hsub b Hb1)) as [Hr|Hn]; [|exact Hn]. exfalso.
    apply negb_true_iff in Hb2. apply smem_false in Hb2. apply Hb2. subst gtr'.
    apply filter_In. split; [exact Hb1|]. apply at_pos_origin. apply FB. exact Hr.
  - exists R', N'. split; [|split; assumption]. unfold resolves_at. apply S_to_resolves in Hrun. exact Hrun.
Qed.
End Mono.

(* ---- conflicts are monotone ---- *)
Lemma goals_conflict_from_false : forall g goals vars,
  goals_conflict_from g vars goals = false <->
  (forall b, In b goals -> ~ In (var_of g b) vars) /\ NoDup (map (var_of g) goals).
Proof.
  intros g. induction goals as [|b t IH]; intros vars; simpl.
  - split; [intros _; split; [intros b [] | constructor] | reflexivity].
  - destruct (smem (var_of g b) vars) eqn:E.
    + split; [discriminate|]. intros [H _]. apply smem_In in E. exfalso. apply (H b); auto.
    + rewrite IH. apply smem_false in E. split.
      * intros [H1 H2]. split.
        -- intros c [Hc|Hc]; [subst; exact E|]. intros Hin. apply (H1 c Hc). right. exact Hin.
        -- constructor; [|exact H2]. intros Hin. apply in_map_iff in Hin. destruct Hin as [c [Hc1 Hc2]].
           apply (H1 c Hc2). left. symmetry. exact Hc1.
      * intros [H1 H2]. inversion H2; subst. split; [|assumption].
        intros c Hc [Hin|Hin].
        -- apply H3. apply in_map_iff. exists c. split; [symmetry; exact Hin | exact Hc].
        -- apply (H1 c); [right; exact Hc | exact Hin].
Qed.

Lemma SS_NoDup : forall l, SS l -> NoDup l.
Proof.
  induction l as [|x t IH]; intros H; [constructor|].
  destruct (SS_cons_inv _ _ H) as [H1 H2]. constructor; [|apply IH; exact H1].
  intros Hin. specialize (H2 _ Hin). lia.
Qed.

Lemma NoDup_map_inj : forall {A B} (f : A -> B) l, NoDup (map f l) ->
  forall x y, In x l -> In y l -> f x = f y -> x = y.
Proof.
  intros A B f. induction l as [|a t IH]; intros H x y Hx Hy E; [destruct Hx|].
  simpl in H. inversion H; subst. destruct Hx as [Hx|Hx]; destruct Hy as [Hy|Hy]; subst; auto.
  - exfalso. apply H2. rewrite E. apply in_map. exact Hy.
  - exfalso. apply H2. rewrite <- E. apply in_map. exact Hx.
Qed.

Lemma NoDup_map_of_inj : forall {A B} (f : A -> B) l, NoDup l ->
  (forall x y, In x l -> In y l -> f x = f y -> x = y) -> NoDup (map f l).
Proof.
  intros A B f. induction l as [|a t IH]; intros Hnd Hinj; simpl; [constructor|].
  inversion Hnd; subst. constructor.
  - intros Hin. apply in_map_iff in Hin. destruct Hin as [c [Hc1 Hc2]].
    assert (c = a) by (apply Hinj; [right; exact Hc2 | left; reflexivity | exact Hc1]). subst. contradiction.
  - apply IH; [assumption|]. intros x y Hx Hy. apply Hinj; right; assumption.
Qed.

Lemma goals_conflict_mono : forall g R R',
  SS R' -> (forall b, In b R' -> In b R) ->
  goals_conflict g R = false -> goals_conflict g R' = false.
Proof.
  intros g R R' Hs Hsub H. unfold goals_conflict in *.
  apply goals_conflict_from_false in H. destruct H as [_ Hnd].
  apply goals_conflict_from_false. split; [intros b _ []|].
  apply NoDup_map_of_inj; [apply SS_NoDup; exact Hs|].
  intros x y Hx Hy. apply (NoDup_map_inj _ _ Hnd); apply Hsub; assumption.
Qed.

(* ---- blocked sets are monotone ---- *)
Lemma In_blocked_of : forall g new x,
  In x (blocked_of g new) <-> exists b, In b new /\ In x (var_nodes g (var_of g b)).
Proof.
  intros g new x. unfold blocked_of.
  assert (H : forall acc, In x (fold_left (fun acc b => sunion acc (var_nodes g (var_of g b))) new acc) <->
                          In x acc \/ exists b, In b new /\ In x (var_nodes g (var_of g b))).
  { induction new as [|b t IH]; intros acc; simpl.
    - split; [auto | intros [H|[b [[] _]]]; exact H].
    - rewrite IH, In_sunion. split.
      + intros [[H|H]|[c [Hc Hx]]]; [left; exact H | right; exists b; auto | right; exists c; auto].
      + intros [H|[c [[Hc|Hc] Hx]]]; [left; left; exact H | subst; left; right; exact Hx | right; exists c; auto]. }
  rewrite H. simpl. split; [intros [[]|H0]; exact H0 | intros H0; right; exact H0].
Qed.

Lemma resolves_at_none : forall g p N' R2 N2,
  SS N' -> filter (at_pos g p) N' = [] -> resolves_at g p N' (R2, N2) -> R2 = [] /\ N2 = N'.
Proof.
  intros g p N' R2 N2 Hss Ef H. unfold resolves_at in H. rewrite Ef in H. simpl in H.
  inversion H; subst. split; [reflexivity|].
  apply sof_list_sorted_id; [exact Hss|]. intros z. rewrite <- in_rev, filter_In. tauto.
Qed.

(* ---- Expl is monotone in the goal set ---- *)
Theorem Expl_mono : forall g n S,
  Expl g n S -> forall S', SS S' -> (forall b, In b S' -> In b S) -> Expl g n S'.
Proof.
  intros g n S H. induction H as [n S removed Hr Hc | n S removed new b o Hr Hc Hb Ho Hcr Hex IH];
    intros S' Hss Hsub.
  - destruct (resolves_at_mono g n S S' _ _ Hsub Hr) as [R' [N' [Hr' [H1 H2]]]].
    assert (N' = []) by (destruct N' as [|x t]; [reflexivity | destruct (H2 x (or_introl eq_refl))]). subst N'.
    eapply Expl_done; [exact Hr'|].
    eapply goals_conflict_mono; [|exact H1|exact Hc].
    unfold resolves_at in Hr'. apply resolves_sorted in Hr'. tauto.
  - destruct (resolves_at_mono g n S S' _ _ Hsub Hr) as [R' [N' [Hr' [H1 H2]]]].
    assert (HssR : SS R' /\ SS N') by (unfold resolves_at in Hr'; apply resolves_sorted in Hr'; exact Hr').
    destruct HssR as [HssR HssN].
    assert (Hc' : goals_conflict g R' = false) by (eapply goals_conflict_mono; eauto).
    destruct N' as [|x0 t0] eqn:EN; [eapply Expl_done; eauto|].
    assert (HNne : N' <> []) by (rewrite EN; discriminate). rewrite <- EN in *. clear EN x0 t0.
    assert (Hex' : Expl g (o_where o) N') by (apply IH; assumption).
    assert (Hblk : forall m, smem m (blocked_of g N') = true -> smem m (blocked_of g new) = true).
    { intros m Hm. apply smem_In. apply smem_In in Hm. apply In_blocked_of in Hm.
      destruct Hm as [c [Hc1 Hc2]]. apply In_blocked_of. exists c. split; [apply H2; exact Hc1 | exact Hc2]. }
    assert (Hcr' : creach g (blocked_of g N') n (o_where o)) by (eapply creach_antitone; eauto).
    destruct (filter (at_pos g (o_where o)) N') as [|b' rest] eqn:Ef.
    + (* no goal of N' originates at that node: fuse the two jumps *)
      inversion Hex' as [n0 S0 rm2 Hr2 Hc2 | n0 S0 rm2 nw2 b2 o2 Hr2 Hc2 Hb2 Ho2 Hcr2 Hex2]; subst.
      * destruct (resolves_at_none _ _ _ _ _ HssN Ef Hr2) as [_ E]. congruence.
      * destruct (resolves_at_none _ _ _ _ _ HssN Ef Hr2) as [_ E]. subst nw2.
        eapply Expl_jump; [exact Hr' | exact Hc' | exact Hb2 | exact Ho2 | | exact Hex2].
        eapply creach_trans; eassumption.
    + assert (Hb' : In b' (filter (at_pos g (o_where o)) N')) by (rewrite Ef; left; reflexivity).
      apply filter_In in Hb'. destruct Hb' as [Hb1 Hb2]. apply at_pos_origin in Hb2.
      destruct (find_origin g b' (o_where o)) as [o'|] eqn:Eo; [|congruence].
      unfold find_origin in Eo. apply find_some in Eo. destruct Eo as [Eo1 Eo2]. apply Nat.eqb_eq in Eo2.
      rewrite <- Eo2 in Hex', Hcr'.
      eapply Expl_jump; eauto.
Qed.
