(* C08 on CYCLIC condition-free graphs: history independence for the queries whose search cannot run into a
   cycle.  WFS s ("clean"): there is no infinite FindSolution descent from the search state s (s is accessible
   for the successor relation Succ).  On a graph without node conditions, in ANY sequence of queries sharing one
   solver - whatever else was asked before or in between, clean or not - a query whose start states are clean is
   answered with the declarative truth Expl, hence with what a fresh solver answers.  On an acyclic graph every
   state is clean (all_clean_acyclic), so this contains the acyclic theorem.
   Invariant (InvW): every memo entry OF A CLEAN STATE is exact (or provisional for a stack state); entries of
   unclean states are unconstrained - they are never consulted by the search below a clean state, because Succ
   preserves cleanness and a clean state lies on no Succ-cycle. *)
From Coq Require Import List Arith Bool Lia Relations Wf_nat.
From PV Require Import Typegraph.Graph Typegraph.Solver Typegraph.Spec Typegraph.SetLemmas
  Typegraph.RfgProofs Typegraph.PathProofs Typegraph.SearchProofs Typegraph.SolverProofs
  Typegraph.ResolveMono Typegraph.ExactProofs.
Import ListNotations.

Section Clean.
Variable g : graph.
Hypothesis Hnc : no_conditions g = true.

Definition WFS (s : state) : Prop := Acc (fun a b => Succ g b a) s.

Lemma WFS_succ : forall s s', WFS s -> Succ g s s' -> WFS s'.
Proof. intros s s' H Hs. exact (Acc_inv H Hs). Qed.

Lemma WFS_no_cycle : forall s, WFS s -> ~ clos_trans _ (Succ g) s s.
Proof.
  intros s H. induction H as [s _ IH]. intros Hc.
  apply clos_trans_t1n in Hc. inversion Hc as [y Hy | y z Hy Hrest]; subst.
  - apply (IH s Hy). apply t_step. exact Hy.
  - apply (IH y Hy). eapply t_trans; [apply clos_t1n_trans; exact Hrest | apply t_step; exact Hy].
Qed.

Definition CtxW (s : state) (seen : list state) : Prop :=
  forall t, In t seen -> clos_trans _ (Succ g) t s.

Definition InvW (m : memo) (seen : list state) : Prop :=
  forall s b, WFS s -> memo_get s m = Some b -> (In s seen /\ b = true) \/ (b = true <-> ExplS g s).

Lemma recall_exact_wf : forall fuel0 fuel st s seen st' r,
  recall_or_find fuel0 fuel g st s seen = Some (st', r) ->
  SS (snd s) -> CtxW s seen -> pc_exact g (s_paths st) -> InvW (s_memo st) seen ->
  pc_exact g (s_paths st') /\ InvW (s_memo st') seen /\ (WFS s -> (r = true <-> ExplS g s)).
Proof.
  intros fuel0. induction fuel as [|f IH]; intros st s seen st' r H Hss Hctx Hpc Hinv; [discriminate|].
  assert (Hnotin : WFS s -> ~ In s seen).
  { intros Hw Hin. apply (WFS_no_cycle s Hw). apply Hctx. exact Hin. }
  simpl in H. destruct (memo_get s (s_memo st)) as [b|] eqn:Em.
  - inversion H; subst. split; [exact Hpc|]. split; [exact Hinv|]. intros Hw.
    destruct (Hinv _ _ Hw Em) as [[Hin _]|He]; [exfalso; apply (Hnotin Hw Hin) | exact He].
  - set (seen1 := if seen_mem s seen then seen else s :: seen) in *.
    assert (Hs1 : In s seen1).
    { subst seen1. destruct (seen_mem s seen) eqn:E; [apply seen_mem_In; exact E | left; reflexivity]. }
    assert (Hsub : forall t, In t seen -> In t seen1).
    { subst seen1. intros t Ht. destruct (seen_mem s seen); [exact Ht | right; exact Ht]. }
    assert (Hsup : forall t, In t seen1 -> t = s \/ In t seen).
    { subst seen1. intros t Ht. destruct (seen_mem s seen); [right; exact Ht|].
      destruct Ht as [Ht|Ht]; [left; symmetry; exact Ht | right; exact Ht]. }
    assert (Hctx1 : forall s', Succ g s s' -> CtxW s' seen1).
    { intros s' Hs' t Ht. destruct (Hsup _ Ht) as [E|Hi].
      - subst t. apply t_step. exact Hs'.
      - eapply t_trans; [apply Hctx; exact Hi | apply t_step; exact Hs']. }
    destruct (find_solution (recall_or_find fuel0 f g) fuel0 g
                (mkS (memo_set s true (s_memo st)) (s_paths st)) s seen1) as [[st2 res]|] eqn:Ef; [|discriminate].
    inversion H; subst. clear H.
    assert (HP1 : P g (fun m => InvW m seen1) (mkS (memo_set s true (s_memo st)) (s_paths st))).
    { split; [exact Hpc|]. simpl. intros t b Hw Ht. rewrite memo_get_set in Ht.
      destruct (state_eqb t s) eqn:Et.
      - apply state_eqb_eq in Et. subst. inversion Ht; subst. left. split; [exact Hs1 | reflexivity].
      - destruct (Hinv t b Hw Ht) as [[Hi Hb]|He]; [left; split; [apply Hsub; exact Hi | exact Hb] | right; exact He]. }
    destruct (find_solution_spec g (recall_or_find fuel0 f g) (fun m => InvW m seen1)
                (fun s' => WFS s' -> ExplS g s') (fun s' => WFS s' -> ~ ExplS g s') seen1 fuel0 _ s st2 r Hss HP1)
      as [[A1 A2] [B C]].
    { intros st0 s' st1 r0 [HPa HPb] Hsucc Hrec.
      destruct (IH _ _ _ _ _ Hrec (Succ_sorted _ _ _ Hsucc) (Hctx1 _ Hsucc) HPa HPb) as [X [Y Z]].
      split; [split; assumption|]. split.
      - intros Hr Hw. apply (Z Hw). exact Hr.
      - intros Hr Hw He. apply (Z Hw) in He. congruence. }
    { exact Ef. }
    assert (Hexact : WFS s -> (r = true <-> ExplS g s)).
    { intros Hw. destruct r.
      - split; [|reflexivity]. intros _. destruct (B eq_refl) as [Hl|[s' [Hs' HQ]]].
        + apply (Leaf_expl g Hnc). exact Hl.
        + eapply (Succ_expl g Hnc); [exact Hs' | apply HQ; eapply WFS_succ; eauto].
      - split; [discriminate|]. intros He. exfalso.
        destruct (C eq_refl) as [C1 [C2 C3]].
        destruct s as [pos sg]. unfold ExplS in He. simpl in He.
        inversion He as [n0 S0 removed Hra0 Hcf0 | n0 S0 removed new b o Hra0 Hcf0 Hb Ho Hcr Hex']; subst.
        + apply C1. exists removed. rewrite (goals_of_nocond g Hnc). simpl. split; assumption.
        + assert (Hra : resolves_at g (fst (pos, sg)) (goals_of g (pos, sg)) (removed, new)).
          { rewrite (goals_of_nocond g Hnc). simpl. assumption. }
          assert (Hne : new <> []) by (intros E; subst; contradiction).
          assert (Hfin : In (o_where o) (finish_nodes g new)).
          { apply In_finish_nodes. exists b, o. auto. }
          destruct (C3 _ _ Hra Hcf0 Hne _ Hfin) as [[ex path] Hcomp].
          pose proof (nocond_path_nil g Hnc _ _ _ _ _ Hcomp) as Hpn. subst path.
          destruct (fnb_compute_spec g _ _ _ _ _ Hcomp) as [Hex _].
          assert (ex = true) by (apply Hex; assumption). subst ex.
          assert (Hsucc : Succ g (pos, sg) (o_where o, new)).
          { exists removed, new. repeat split; auto. exists (o_where o), []. repeat split; auto. }
          destruct (C2 _ Hsucc) as [Hsm|Hn].
          * apply seen_mem_In in Hsm. apply (WFS_no_cycle _ Hw).
            destruct (Hsup _ Hsm) as [E|Hin].
            -- rewrite E in Hsucc. apply t_step. exact Hsucc.
            -- eapply t_trans; [apply t_step; exact Hsucc | apply Hctx; exact Hin].
          * apply (Hn (WFS_succ _ _ Hw Hsucc)). exact Hex'. }
    simpl. split; [exact A1|]. split; [|exact Hexact].
    intros t b Hw Ht. rewrite memo_get_set in Ht. destruct (state_eqb t s) eqn:Et.
    + apply state_eqb_eq in Et. subst t. inversion Ht; subst. right. apply Hexact. exact Hw.
    + destruct (A2 t b Hw Ht) as [[Hi Hb]|He].
      * destruct (Hsup _ Hi) as [E|Hi'].
        -- subst t. rewrite state_eqb_refl in Et. discriminate.
        -- left. split; assumption.
      * right. exact He.
Qed.

Definition st_okW (st : sstate) : Prop := pc_exact g (s_paths st) /\ InvW (s_memo st) [].

Lemma st_okW_empty : st_okW sstate_empty.
Proof. split; [apply pc_exact_nil | intros s b _ H; discriminate]. Qed.

Lemma top_exact_wf : forall fuel st s st' r,
  recall_or_find fuel fuel g st s [] = Some (st', r) -> SS (snd s) -> st_okW st ->
  st_okW st' /\ (WFS s -> (r = true <-> ExplS g s)).
Proof.
  intros fuel st s st' r H Hss [Hpc Hinv].
  destruct (recall_exact_wf _ _ _ _ _ _ _ H Hss (fun t (Ht : In t []) => match Ht with end) Hpc Hinv) as [A [B C]].
  split; [split; assumption | exact C].
Qed.

Lemma can_have_solution_exact_wf : forall fuel attrs st n st' r,
  can_have_solution fuel g st attrs n = Some (st', r) -> st_okW st ->
  st_okW st' /\ (r = true -> forall a, In a attrs -> WFS (n, sof_list [a]) -> Expl g n (sof_list [a])) /\
  (r = false -> exists a, In a attrs /\ (WFS (n, sof_list [a]) -> ~ Expl g n (sof_list [a]))).
Proof.
  intros fuel. induction attrs as [|a rest IH]; intros st n st' r H Hok.
  - simpl in H. inversion H; subst. split; [exact Hok|]. split; [intros _ a [] | discriminate].
  - simpl in H. unfold solve_single in H.
    destruct (recall_or_find fuel fuel g st (n, sof_list [a]) []) as [[st1 [|]]|] eqn:E; [| |discriminate].
    + destruct (top_exact_wf _ _ _ _ _ E (SS_sof_list [a]) Hok) as [Hok1 Hg].
      destruct (IH _ _ _ _ H Hok1) as [Hok' [Hall Hex]]. split; [exact Hok'|]. split.
      * intros Hr b [Hb|Hb] Hw; [subst; apply (Hg Hw); reflexivity | apply Hall; assumption].
      * intros Hr. destruct (Hex Hr) as [b [Hb Hn]]. exists b. split; [right; exact Hb | exact Hn].
    + inversion H; subst. destruct (top_exact_wf _ _ _ _ _ E (SS_sof_list [a]) Hok) as [Hok1 Hg].
      split; [exact Hok1|]. split; [discriminate|]. intros _. exists a. split; [left; reflexivity|].
      intros Hw He. apply (Hg Hw) in He. discriminate.
Qed.

(* a query is clean when its start state is and, for a vector of more than one binding, the start states of the
   CanHaveSolution pre-check are *)
Definition clean_query (attrs : list bid) (n : node) : Prop :=
  WFS (n, sof_list attrs) /\ forall a, In a attrs -> WFS (n, sof_list [a]).

Theorem solve_exact_wf : forall fuel st attrs n st' r,
  solve fuel g st attrs n = Some (st', r) -> st_okW st ->
  st_okW st' /\ (clean_query attrs n -> (r = true <-> Expl g n (sof_list attrs))).
Proof.
  intros fuel st attrs n st' r H Hok. unfold solve in H.
  destruct (1 <? length attrs) eqn:El.
  - destruct (can_have_solution fuel g st attrs n) as [[st1 [|]]|] eqn:Ec; [| |discriminate].
    + destruct (can_have_solution_exact_wf _ _ _ _ _ _ Ec Hok) as [Hok1 _].
      destruct (top_exact_wf _ _ _ _ _ H (SS_sof_list attrs) Hok1) as [Hok' Hg].
      split; [exact Hok'|]. intros [Hw _]. exact (Hg Hw).
    + inversion H; subst. destruct (can_have_solution_exact_wf _ _ _ _ _ _ Ec Hok) as [Hok1 [_ Hex]].
      split; [exact Hok1|]. intros [_ Hws]. split; [discriminate|]. intros He. exfalso.
      destruct (Hex eq_refl) as [a [Ha Hn]]. apply (Hn (Hws a Ha)).
      eapply Expl_mono; [exact He | apply SS_sof_list |].
      intros b Hb. apply In_sof_list in Hb. destruct Hb as [Hb|[]]. subst b. apply In_sof_list. exact Ha.
  - destruct (top_exact_wf _ _ _ _ _ H (SS_sof_list attrs) Hok) as [Hok' Hg].
    split; [exact Hok'|]. intros [Hw _]. exact (Hg Hw).
Qed.

Theorem run_queries_exact_wf : forall fuel qs st st' answers,
  run_queries fuel g st qs = Some (st', answers) -> st_okW st ->
  st_okW st' /\
  Forall2 (fun q a => clean_query (fst q) (snd q) -> (a = true <-> Expl g (snd q) (sof_list (fst q)))) qs answers.
Proof.
  intros fuel. induction qs as [|[attrs n] rest IH]; intros st st' answers H Hok.
  - simpl in H. inversion H; subst. split; [exact Hok | constructor].
  - simpl in H. destruct (solve fuel g st attrs n) as [[st1 a]|] eqn:E; [|discriminate].
    destruct (run_queries fuel g st1 rest) as [[st2 ans]|] eqn:E2; [|discriminate].
    inversion H; subst. destruct (solve_exact_wf _ _ _ _ _ _ E Hok) as [Hok1 Ha].
    destruct (IH _ _ _ E2 Hok1) as [Hok2 Hall]. split; [exact Hok2|].
    constructor; [exact Ha | exact Hall].
Qed.
End Clean.

(* on an acyclic graph every search state is clean *)
Lemma all_clean_acyclic : forall g rank, ranked g rank -> forall s, WFS g s.
Proof.
  intros g rank Hrank s. remember (rank (fst s)) as k eqn:Ek. revert s Ek.
  induction k as [k IH] using lt_wf_ind. intros s Ek. constructor. intros s' Hs.
  apply (IH (rank (fst s'))); [|reflexivity]. subst k. apply (Succ_rank g rank Hrank). exact Hs.
Qed.

(* THE HISTORY-INDEPENDENCE STATEMENT for clean queries: in any run of queries sharing one solver on a
   condition-free graph (cycles allowed), the answer to a clean query equals the answer of a fresh solver *)
Theorem clean_query_fresh_answer : forall g fuel fuel' qs st' answers,
  no_conditions g = true ->
  run_queries fuel g sstate_empty qs = Some (st', answers) ->
  Forall2 (fun q a => clean_query g (fst q) (snd q) ->
                      forall a', solve_fresh fuel' g (fst q) (snd q) = Some a' -> a = a') qs answers.
Proof.
  intros g fuel fuel' qs st' answers Hnc H.
  destruct (run_queries_exact_wf g Hnc fuel qs _ _ _ H (st_okW_empty g)) as [_ A].
  clear H. induction A as [|[attrs n] a qs' ans' Hq _ IHA]; [constructor|]. constructor; [|exact IHA].
  intros Hc a' Hf. simpl in *.
  unfold solve_fresh in Hf.
  destruct (solve fuel' g sstate_empty attrs n) as [[st1 r]|] eqn:E; [|discriminate]. simpl in Hf. inversion Hf; subst r.
  destruct (solve_exact_wf g Hnc _ _ _ _ _ _ E (st_okW_empty g)) as [_ B].
  specialize (Hq Hc). specialize (B Hc).
  destruct a, a'; try reflexivity; exfalso.
  - assert (X : false = true) by (apply B; apply Hq; reflexivity). discriminate.
  - assert (X : false = true) by (apply Hq; apply B; reflexivity). discriminate.
Qed.

(* non-vacuity on a graph WITH a CFG cycle: nodes 0 <-> 1, binding 0 defined at node 0, binding 1 never defined;
   every search state is clean although the graph is cyclic *)
Definition loop2 : graph :=
  mkGraph [mkNode [1] None; mkNode [0] None] [mkBinding 0 [mkOrigin 0 [[]]]; mkBinding 1 []].

Lemma loop2_origins : forall b o, In o (origins loop2 b) -> b = 0 /\ o_where o = 0.
Proof.
  intros [|[|b]] o H; simpl in H.
  - destruct H as [H|[]]. subst o. split; reflexivity.
  - destruct H.
  - destruct b; destruct H.
Qed.

Lemma loop2_succ_at_0 : forall s t, Succ loop2 s t -> fst t = 0.
Proof.
  intros s t [removed [new [_ [_ [_ [[fin [path [Hf [Hc Hw]]]] _]]]]]].
  apply In_finish_nodes in Hf. destruct Hf as [b [o [_ [Ho Hwo]]]].
  destruct (loop2_origins _ _ Ho) as [_ E]. rewrite E in Hwo. subst fin.
  rewrite (nocond_path_nil loop2 eq_refl _ _ _ _ _ Hc) in Hw. exact Hw.
Qed.

Lemma loop2_no_succ_from_0 : forall goals t, ~ Succ loop2 (0, goals) t.
Proof.
  intros goals t [removed [new [Hr [_ [_ [[fin [path [Hf _]]] _]]]]]].
  apply In_finish_nodes in Hf. destruct Hf as [b [o [Hb [Ho _]]]].
  destruct (loop2_origins _ _ Ho) as [E _]. subst b.
  destruct (resolves_at_facts _ _ _ _ _ Hr) as [_ [_ C]]. specialize (C 0 Hb). simpl in C. discriminate.
Qed.

Lemma loop2_all_clean : forall s, WFS loop2 s.
Proof.
  intros s. constructor. intros t Hs. constructor. intros u Hu. exfalso.
  pose proof (loop2_succ_at_0 _ _ Hs) as E. destruct t as [p gl]. simpl in E. subst p.
  exact (loop2_no_succ_from_0 _ _ Hu).
Qed.

Lemma loop2_facts : wf_graph loop2 = true /\ no_conditions loop2 = true /\ acyclicb loop2 = false /\
  clean_query loop2 [0] 1 /\ clean_query loop2 [0; 1] 0.
Proof.
  split; [reflexivity|]. split; [reflexivity|]. split; [reflexivity|].
  split; split; intros; apply loop2_all_clean.
Qed.
