(* Lemmas about id-ordered sets (strictly increasing lists) and the association maps of the model. *)
From Coq Require Import List Arith Bool Lia.
From PV Require Import Typegraph.Graph Typegraph.Solver.
Import ListNotations.

Definition SS (l : list nat) : Prop := ssorted l = true.

Lemma smem_In : forall x l, smem x l = true <-> In x l.
Proof.
  intros x l. unfold smem. rewrite existsb_exists. split.
  - intros [y [Hy He]]. apply Nat.eqb_eq in He. subst. exact Hy.
  - intros H. exists x. split; [exact H | apply Nat.eqb_refl].
Qed.

Lemma smem_false : forall x l, smem x l = false <-> ~ In x l.
Proof.
  intros. rewrite <- smem_In. destruct (smem x l); split; intros H; try congruence; auto.
Qed.

Lemma In_sins : forall x y l, In x (sins y l) <-> x = y \/ In x l.
Proof.
  intros x y l. induction l as [|h t IH]; simpl.
  - split; intros [H|H]; auto; try contradiction.
  - destruct (y <? h) eqn:E1.
    + simpl. split; intros [H|H]; auto.
    + destruct (y =? h) eqn:E2.
      * apply Nat.eqb_eq in E2. subst. simpl. split; intros H; [tauto|]. destruct H as [H|H]; [left; congruence|exact H].
      * simpl. rewrite IH. split; intros H; tauto.
Qed.

Lemma smem_sins : forall x y l, smem x (sins y l) = (x =? y) || smem x l.
Proof.
  intros. destruct (smem x (sins y l)) eqn:E.
  - apply smem_In in E. apply In_sins in E. destruct E as [E|E].
    + subst. rewrite Nat.eqb_refl. reflexivity.
    + apply smem_In in E. rewrite E. symmetry. apply orb_true_r.
  - symmetry. apply orb_false_iff. split.
    + destruct (x =? y) eqn:E2; auto. apply Nat.eqb_eq in E2. subst.
      apply smem_false in E. exfalso. apply E. apply In_sins. auto.
    + apply smem_false. apply smem_false in E. intro H. apply E. apply In_sins. auto.
Qed.

(* a strictly sorted list: head below everything in the tail *)
Lemma SS_cons_inv : forall x l, SS (x :: l) -> SS l /\ forall y, In y l -> x < y.
Proof.
  intros x l. revert x. induction l as [|h t IH]; intros x H.
  - split; [reflexivity | intros y []].
  - unfold SS in H. simpl in H. apply andb_true_iff in H. destruct H as [H1 H2].
    apply Nat.ltb_lt in H1. split; [exact H2|].
    intros y [Hy|Hy]; [subst; exact H1|].
    destruct (IH h H2) as [_ IH2]. specialize (IH2 y Hy). lia.
Qed.

Lemma SS_cons : forall x l, SS l -> (forall y, In y l -> x < y) -> SS (x :: l).
Proof.
  intros x l Hl Hx. destruct l as [|h t]; [reflexivity|].
  unfold SS. simpl. apply andb_true_iff. split; [|exact Hl].
  apply Nat.ltb_lt. apply Hx. left. reflexivity.
Qed.

Lemma SS_nil : SS []. Proof. reflexivity. Qed.

Lemma SS_sins : forall x l, SS l -> SS (sins x l).
Proof.
  intros x l. induction l as [|h t IH]; intros Hl.
  - reflexivity.
  - simpl. destruct (x <? h) eqn:E1.
    + apply Nat.ltb_lt in E1. apply SS_cons; [exact Hl|].
      intros y [Hy|Hy]; [subst; exact E1|].
      destruct (SS_cons_inv _ _ Hl) as [_ H2]. specialize (H2 y Hy). lia.
    + destruct (x =? h) eqn:E2; [exact Hl|].
      destruct (SS_cons_inv _ _ Hl) as [H1 H2].
      apply SS_cons; [apply IH; exact H1|].
      intros y Hy. apply In_sins in Hy. destruct Hy as [Hy|Hy].
      * subst. apply Nat.ltb_ge in E1. apply Nat.eqb_neq in E2. lia.
      * apply H2. exact Hy.
Qed.

Lemma sins_head : forall x l, SS (x :: l) -> sins x l = x :: l.
Proof.
  intros x l H. destruct l as [|h t]; [reflexivity|].
  destruct (SS_cons_inv _ _ H) as [_ H2]. simpl.
  assert (x < h) by (apply H2; left; reflexivity).
  apply Nat.ltb_lt in H0. rewrite H0. reflexivity.
Qed.

Lemma srem_sins : forall x l, SS l -> smem x l = false -> srem x (sins x l) = l.
Proof.
  intros x l. induction l as [|h t IH]; intros Hl Hx.
  - simpl. rewrite Nat.eqb_refl. reflexivity.
  - simpl. destruct (x <? h) eqn:E1.
    + simpl. rewrite Nat.eqb_refl. reflexivity.
    + simpl in Hx. apply orb_false_iff in Hx. destruct Hx as [Hx1 Hx2].
      rewrite Hx1. simpl. rewrite Hx1.
      destruct (SS_cons_inv _ _ Hl) as [H1 _]. rewrite IH; auto.
Qed.

Lemma In_srem_incl : forall x y l, In x (srem y l) -> In x l.
Proof.
  intros x y l. induction l as [|h t IH]; simpl; auto.
  destruct (y =? h); simpl; intros H; auto. destruct H; auto.
Qed.

Lemma SS_srem : forall x l, SS l -> SS (srem x l).
Proof.
  intros x l. induction l as [|h t IH]; intros Hl; [reflexivity|].
  simpl. destruct (SS_cons_inv _ _ Hl) as [H1 H2].
  destruct (x =? h); [exact H1|].
  apply SS_cons; [apply IH; exact H1|].
  intros y Hy. apply H2. eapply In_srem_incl. exact Hy.
Qed.

Lemma In_sunion : forall x a b, In x (sunion a b) <-> In x a \/ In x b.
Proof.
  intros x a b. unfold sunion. revert a. induction b as [|h t IH]; intros a; simpl.
  - tauto.
  - rewrite IH. rewrite In_sins. intuition (subst; auto).
Qed.

Lemma SS_sunion : forall a b, SS a -> SS (sunion a b).
Proof.
  intros a b. unfold sunion. revert a. induction b as [|h t IH]; intros a Ha; simpl; auto.
  apply IH. apply SS_sins. exact Ha.
Qed.

Lemma In_sof_list : forall x l, In x (sof_list l) <-> In x l.
Proof.
  intros. unfold sof_list. change (In x (sunion [] l) <-> In x l). rewrite In_sunion. simpl. tauto.
Qed.

Lemma SS_sof_list : forall l, SS (sof_list l).
Proof. intros. apply (SS_sunion [] l). reflexivity. Qed.

Lemma SS_filter : forall f l, SS l -> SS (filter f l).
Proof.
  intros f l. induction l as [|h t IH]; intros Hl; [reflexivity|].
  destruct (SS_cons_inv _ _ Hl) as [H1 H2]. simpl.
  destruct (f h); [|apply IH; exact H1].
  apply SS_cons; [apply IH; exact H1|].
  intros y Hy. apply filter_In in Hy. apply H2. tauto.
Qed.

(* two strictly sorted lists with the same elements are equal *)
Lemma SS_ext : forall a b, SS a -> SS b -> (forall x, In x a <-> In x b) -> a = b.
Proof.
  induction a as [|x a IH]; intros b Ha Hb H.
  - destruct b as [|y b]; [reflexivity|]. exfalso. apply (H y). left. reflexivity.
  - destruct b as [|y b]; [exfalso; apply (H x); left; reflexivity|].
    destruct (SS_cons_inv _ _ Ha) as [Ha1 Ha2]. destruct (SS_cons_inv _ _ Hb) as [Hb1 Hb2].
    assert (x = y).
    { assert (In x (y :: b)) by (apply H; left; reflexivity).
      assert (In y (x :: a)) by (apply H; left; reflexivity).
      destruct H0 as [H0|H0]; [auto|]. destruct H1 as [H1|H1]; [auto|].
      specialize (Ha2 _ H1). specialize (Hb2 _ H0). lia. }
    subst y. f_equal. apply IH; auto.
    intros z. split; intros Hz.
    + assert (In z (x :: b)) by (apply H; right; exact Hz). destruct H0; [|auto].
      subst. specialize (Ha2 _ Hz). lia.
    + assert (In z (x :: a)) by (apply H; right; exact Hz). destruct H0; [|auto].
      subst. specialize (Hb2 _ Hz). lia.
Qed.

Lemma sof_list_sorted_id : forall l l', SS l -> (forall x, In x l' <-> In x l) -> sof_list l' = l.
Proof.
  intros. apply SS_ext; [apply SS_sof_list | exact H |].
  intros x. rewrite In_sof_list. apply H0.
Qed.

(* ---- equality tests ---- *)
Lemma list_eqb_eq : forall a b, list_eqb a b = true <-> a = b.
Proof.
  induction a as [|x a IH]; destruct b as [|y b]; simpl; split; intros H; try congruence; auto.
  - apply andb_true_iff in H. destruct H as [H1 H2]. apply Nat.eqb_eq in H1. apply IH in H2. congruence.
  - inversion H; subst. rewrite Nat.eqb_refl. simpl. apply IH. reflexivity.
Qed.

Lemma state_eqb_eq : forall a b : state, state_eqb a b = true <-> a = b.
Proof.
  intros [p1 g1] [p2 g2]. unfold state_eqb. simpl. rewrite andb_true_iff, Nat.eqb_eq, list_eqb_eq.
  split; intros H; [destruct H; congruence | inversion H; auto].
Qed.

Lemma state_eqb_refl : forall a, state_eqb a a = true.
Proof. intros. apply state_eqb_eq. reflexivity. Qed.

Lemma pkey_eqb_eq : forall a b : pkey, pkey_eqb a b = true <-> a = b.
Proof.
  intros [[s1 f1] b1] [[s2 f2] b2]. unfold pkey_eqb.
  rewrite !andb_true_iff, !Nat.eqb_eq, list_eqb_eq.
  split; intros H; [destruct H as [[? ?] ?]; congruence | inversion H; auto].
Qed.

Lemma seen_mem_In : forall s seen, seen_mem s seen = true <-> In s seen.
Proof.
  intros. unfold seen_mem. rewrite existsb_exists. split.
  - intros [y [Hy He]]. apply state_eqb_eq in He. subst. exact Hy.
  - intros H. exists s. split; [exact H | apply state_eqb_refl].
Qed.

Lemma memo_get_set : forall s s' v m,
  memo_get s (memo_set s' v m) = if state_eqb s s' then Some v else memo_get s m.
Proof.
  intros s s' v m. induction m as [|[k w] t IH]; simpl.
  - destruct (state_eqb s s'); reflexivity.
  - destruct (state_eqb s' k) eqn:E1; simpl.
    + apply state_eqb_eq in E1. subst k. destruct (state_eqb s s'); reflexivity.
    + destruct (state_eqb s k) eqn:E2.
      * destruct (state_eqb s s') eqn:E3; [|reflexivity].
        apply state_eqb_eq in E2. apply state_eqb_eq in E3. subst.
        rewrite state_eqb_refl in E1. discriminate.
      * exact IH.
Qed.

Lemma pc_get_set : forall k k' v c,
  pc_get k (pc_set k' v c) = if pkey_eqb k k' then Some v else pc_get k c.
Proof.
  intros k k' v c. induction c as [|[q w] t IH]; simpl.
  - destruct (pkey_eqb k k'); reflexivity.
  - destruct (pkey_eqb k' q) eqn:E1; simpl.
    + apply pkey_eqb_eq in E1. subst q. destruct (pkey_eqb k k'); reflexivity.
    + destruct (pkey_eqb k q) eqn:E2.
      * destruct (pkey_eqb k k') eqn:E3; [|reflexivity].
        apply pkey_eqb_eq in E2. apply pkey_eqb_eq in E3. subst.
        assert (pkey_eqb q q = true) by (apply pkey_eqb_eq; reflexivity). congruence.
      * exact IH.
Qed.
