(* C08 x C07: the history model of History.v instantiated with the REAL memoised solver of Solver.v
   (memo table with provisional entries, seen_states rule, path cache, CanHaveSolution short-circuit).

   S     := sstate (solved_states_ + path_trie_),  fresh := sstate_empty,
   ask v st (n, goals) := Solver.solve at node n on the goal vector `goals`, threading st, run with a
   fuel that suffices (first a cheap guess computed from the graph; if that runs out, the least
   sufficient fuel, found by constructive search whose termination is the C07 fuel theorem
   FuelProofs.solve_total; if the graph is not recognisably acyclic or the path cache is not exact
   for it, the query is answered `false` and the state kept - that branch is never taken on the
   histories the theorems speak about).

   Main result (history_independent_solver): for every well-formed history, from any start graph,
   under a safe invalidation table, if the solver-visible graph is acyclic and condition-free at every
   query, then the run with the live memoised solver equals the reference run in which every query is
   answered by a fresh solver, and every answer is the declarative Expl truth on the graph at that
   point.  No well-formedness of the graph is needed (the C07 exactness and fuel theorems do not
   need it).  History.v / HistoryProofs.v are used unchanged. *)
From Coq Require Import List Arith Bool Lia ConstructiveEpsilon.
From PV Require Import Typegraph.Graph Typegraph.Solver Typegraph.Spec Typegraph.SetLemmas
  Typegraph.PathProofs Typegraph.SolverProofs Typegraph.ExactProofs Typegraph.FuelProofs.
From PV Require Typegraph.History Typegraph.HistoryProofs.
Import ListNotations.

Definition hview : Type := (list History.gnode * list History.gbinding)%type.

(* ---------------------------------------------------------------- (1) the conversion *)
(* total; binding id = position in the list; source sets in the order History keeps them *)
Definition to_solver_graph (v : hview) : graph :=
  mkGraph (map (fun n => mkNode (History.incoming n) (History.cond n)) (fst v))
          (map (fun b => mkBinding (History.bvar b)
                                   (map (fun o => mkOrigin (fst o) (snd o)) (History.origins b)))
               (snd v)).

(* ---------------------------------------------------------------- decidable side conditions *)
(* acyclicity certificate: the length of the longest backward path (cut at depth d) is a rank *)
Fixpoint depth (g : graph) (d : nat) (n : node) : nat :=
  match d with
  | O => 0
  | S d' => S (fold_right (fun m acc => Nat.max (depth g d' m) acc) 0 (incoming g n))
  end.

Definition ranked_check (g : graph) : bool :=
  let f := depth g (S (n_nodes g)) in
  forallb (fun n => forallb (fun m => f m <? f n) (incoming g n)) (seq 0 (n_nodes g)).

Lemma ranked_check_acyclic : forall g, ranked_check g = true -> acyclic g.
Proof.
  intros g H. exists (depth g (S (n_nodes g))). intros n m Hm.
  destruct (Nat.lt_ge_cases n (n_nodes g)) as [Hlt|Hge].
  - unfold ranked_check in H. rewrite forallb_forall in H.
    assert (Hin : In n (seq 0 (n_nodes g))) by (apply in_seq; lia).
    specialize (H n Hin). rewrite forallb_forall in H. specialize (H m Hm).
    apply Nat.ltb_lt in H. exact H.
  - unfold incoming, get_node in Hm. unfold n_nodes in Hge. rewrite nth_overflow in Hm by exact Hge.
    destruct Hm.
Qed.

(* the solver-visible graph is acyclic (certified) and has no node condition *)
Definition solver_okb (v : hview) : bool :=
  ranked_check (to_solver_graph v) && no_conditions (to_solver_graph v).
Definition solver_ok (v : hview) : Prop := solver_okb v = true.

Lemma solver_ok_facts : forall v, solver_ok v ->
  acyclic (to_solver_graph v) /\ no_conditions (to_solver_graph v) = true.
Proof.
  intros v H. unfold solver_ok, solver_okb in H. apply andb_true_iff in H. destruct H as [H1 H2].
  split; [apply ranked_check_acyclic; exact H1 | exact H2].
Qed.

(* pc_exact is decidable *)
Definition qres_eqb (a b : qresult) : bool := Bool.eqb (fst a) (fst b) && list_eqb (snd a) (snd b).
Definition oqres_eqb (a b : option qresult) : bool :=
  match a, b with Some x, Some y => qres_eqb x y | None, None => true | _, _ => false end.

Lemma qres_eqb_eq : forall a b, qres_eqb a b = true <-> a = b.
Proof.
  intros [a1 a2] [b1 b2]. unfold qres_eqb. simpl. rewrite andb_true_iff, eqb_true_iff, list_eqb_eq.
  split; intros H; [destruct H; congruence | inversion H; auto].
Qed.

Lemma oqres_eqb_eq : forall a b, oqres_eqb a b = true <-> a = b.
Proof.
  intros [a|] [b|]; simpl; try (split; congruence).
  rewrite qres_eqb_eq. split; congruence.
Qed.

Definition pc_exactb (g : graph) (pc : pcache) : bool :=
  forallb (fun e : pkey * qresult =>
             match pc_get (fst e) pc with
             | Some r' =>
               if qres_eqb (snd e) r'
               then let '(s, f, b) := fst e in oqres_eqb (find_node_backwards_compute g s f b) (Some r')
               else true
             | None => true
             end) pc.

Lemma pc_get_In : forall k pc r, pc_get k pc = Some r -> In (k, r) pc.
Proof.
  intros k pc r. induction pc as [|[k' v] t IH]; simpl; intros H; [discriminate|].
  destruct (pkey_eqb k k') eqn:E.
  - apply pkey_eqb_eq in E. subst. inversion H; subst. left. reflexivity.
  - right. apply IH. exact H.
Qed.

Lemma pc_exactb_sound : forall g pc, pc_exactb g pc = true -> pc_exact g pc.
Proof.
  intros g pc H s f b r Hget. unfold pc_exactb in H. rewrite forallb_forall in H.
  specialize (H _ (pc_get_In _ _ _ Hget)). simpl in H. rewrite Hget in H.
  assert (E : qres_eqb r r = true) by (apply qres_eqb_eq; reflexivity). rewrite E in H.
  apply oqres_eqb_eq in H. exact H.
Qed.

Lemma pc_exactb_complete : forall g pc, pc_exact g pc -> pc_exactb g pc = true.
Proof.
  intros g pc H. unfold pc_exactb. apply forallb_forall. intros [[[s f] b] r] _. simpl.
  destruct (pc_get (s, f, b) pc) as [r'|] eqn:E; [|reflexivity].
  destruct (qres_eqb r r'); [|reflexivity]. apply oqres_eqb_eq. apply H. exact E.
Qed.

(* ---------------------------------------------------------------- (2) the solver as `ask` *)
Definition guess_fuel (g : graph) : nat :=
  100 + 10 * (n_nodes g + n_bindings g) * (n_nodes g + n_bindings g + 4).

Definition guardb (g : graph) (st : sstate) : bool := ranked_check g && pc_exactb g (s_paths st).

Definition Pfuel (g : graph) (st : sstate) (goals : list bid) (n : node) (F : nat) : Prop :=
  solve F g st goals n <> None.

Lemma Pfuel_dec : forall g st goals n F, {Pfuel g st goals n F} + {~ Pfuel g st goals n F}.
Proof.
  intros. unfold Pfuel. destruct (solve F g st goals n); [left; discriminate | right; intros H; apply H; reflexivity].
Defined.

Lemma Pfuel_ex : forall g st goals n, guardb g st = true -> exists F, Pfuel g st goals n F.
Proof.
  intros g st goals n H. unfold guardb in H. apply andb_true_iff in H. destruct H as [H1 H2].
  destruct (ranked_check_acyclic g H1) as [rank Hrank].
  destruct (solve_total g rank Hrank goals n) as [F HF]. exists F. unfold Pfuel.
  destruct (HF F st (Nat.le_refl _) (pc_exactb_sound g _ H2)) as [st' [r [E _]]]. congruence.
Qed.

(* the least fuel with which this query returns (constructive search; terminates by FuelProofs.solve_total) *)
Definition search_fuel (g : graph) (st : sstate) (goals : list bid) (n : node)
    (H : guardb g st = true) : nat :=
  proj1_sig (constructive_indefinite_ground_description_nat
               (Pfuel g st goals n) (Pfuel_dec g st goals n) (Pfuel_ex g st goals n H)).

Lemma search_fuel_spec : forall g st goals n H, Pfuel g st goals n (search_fuel g st goals n H).
Proof.
  intros. unfold search_fuel.
  exact (proj2_sig (constructive_indefinite_ground_description_nat
                      (Pfuel g st goals n) (Pfuel_dec g st goals n) (Pfuel_ex g st goals n H))).
Qed.

Definition ask (v : hview) (st : sstate) (q : History.query) : sstate * bool :=
  let g := to_solver_graph v in
  match solve (guess_fuel g) g st (snd q) (fst q) with
  | Some r => r
  | None =>
    match bool_dec (guardb g st) true with
    | left H =>
      match solve (search_fuel g st (snd q) (fst q) H) g st (snd q) (fst q) with
      | Some r => r
      | None => (st, false)
      end
    | right _ => (st, false)
    end
  end.

(* on an acyclic graph, from a state whose path cache is exact, ask IS Solver.solve run to completion *)
Lemma ask_is_solve : forall v st (q : History.query),
  ranked_check (to_solver_graph v) = true -> pc_exact (to_solver_graph v) (s_paths st) ->
  exists F, solve F (to_solver_graph v) st (snd q) (fst q) = Some (ask v st q).
Proof.
  intros v st q Hr Hpc. unfold ask. cbv zeta.
  destruct (solve (guess_fuel (to_solver_graph v)) (to_solver_graph v) st (snd q) (fst q)) as [r|] eqn:E.
  - exists (guess_fuel (to_solver_graph v)). exact E.
  - destruct (bool_dec (guardb (to_solver_graph v) st) true) as [H|H].
    + pose proof (search_fuel_spec (to_solver_graph v) st (snd q) (fst q) H) as Hs. unfold Pfuel in Hs.
      destruct (solve (search_fuel (to_solver_graph v) st (snd q) (fst q) H) (to_solver_graph v) st (snd q) (fst q))
        as [r|] eqn:E2; [|congruence].
      exists (search_fuel (to_solver_graph v) st (snd q) (fst q) H). exact E2.
    + exfalso. apply H. unfold guardb. rewrite Hr. simpl. apply pc_exactb_complete. exact Hpc.
Qed.

(* ---------------------------------------------------------------- (3)+(4) the memo laws *)
(* Good: the memo-exactness invariant of ExactProofs (every memo entry is the Expl truth, the path
   cache is exact) for the solver graph of the view *)
Definition Good (v : hview) (st : sstate) : Prop := st_okE (to_solver_graph v) st.

Lemma good_fresh : forall v, Good v sstate_empty.
Proof. intros v. apply st_okE_empty. Qed.

Lemma bool_iff_eq : forall (a b : bool) (P : Prop), (a = true <-> P) -> (b = true <-> P) -> a = b.
Proof. intros [|] [|] P H1 H2; try reflexivity; exfalso; [assert (false = true) by tauto | assert (false = true) by tauto]; discriminate. Qed.

(* asking a Good state: the state stays Good and the answer is the declarative truth *)
Lemma ask_exact : forall v st (q : History.query), solver_ok v -> Good v st ->
  Good v (fst (ask v st q)) /\
  (snd (ask v st q) = true <-> Expl (to_solver_graph v) (fst q) (sof_list (snd q))).
Proof.
  intros v st q Hok Hg. destruct (solver_ok_facts v Hok) as [[rank Hrank] Hnc].
  unfold solver_ok, solver_okb in Hok. apply andb_true_iff in Hok. destruct Hok as [Hr _].
  destruct (ask_is_solve v st q Hr (proj1 Hg)) as [F HF].
  destruct (ask v st q) as [st' r]. simpl.
  exact (solve_exact_full (to_solver_graph v) rank Hrank Hnc F st (snd q) (fst q) st' r HF Hg).
Qed.

(* the memo laws of HistoryProofs.history_independent_generic, under solver_ok *)
Lemma good_ask : forall v st (q : History.query), solver_ok v -> Good v st ->
  Good v (fst (ask v st q)) /\ snd (ask v st q) = snd (ask v sstate_empty q).
Proof.
  intros v st q Hok Hg. destruct (ask_exact v st q Hok Hg) as [A B].
  destruct (ask_exact v sstate_empty q Hok (good_fresh v)) as [_ B0].
  split; [exact A | eapply bool_iff_eq; eassumption].
Qed.

(* ---------------------------------------------------------------- (5) histories *)
(* the solver-visible graph is acyclic and condition-free whenever a query is asked *)
Fixpoint asks_ok (g : History.graph) (ops : list History.hop) : Prop :=
  match ops with
  | [] => True
  | History.Api ms :: t => asks_ok (History.apply_all g ms) t
  | History.Ask _ :: t => solver_ok (History.view g) /\ asks_ok g t
  end.

(* stronger, simpler to state: every graph reached along the history is acyclic and condition-free *)
Fixpoint all_ok (g : History.graph) (ops : list History.hop) : Prop :=
  solver_ok (History.view g) /\
  match ops with
  | [] => True
  | History.Api ms :: t => all_ok (History.apply_all g ms) t
  | History.Ask _ :: t => all_ok g t
  end.

Lemma all_ok_asks_ok : forall ops g, all_ok g ops -> asks_ok g ops.
Proof.
  induction ops as [|[ms|q] t IH]; intros g H; simpl in *; [exact I | |].
  - apply IH. tauto.
  - destruct H as [H1 H2]. split; [exact H1|]. apply IH. exact H2.
Qed.

(* each answered query is the declarative truth on the graph at that point *)
Fixpoint exact_run (g : History.graph) (ops : list History.hop) (outs : list (option bool)) : Prop :=
  match ops, outs with
  | [], [] => True
  | History.Api ms :: t, None :: o => exact_run (History.apply_all g ms) t o
  | History.Ask q :: t, Some b :: o =>
    (b = true <-> Expl (to_solver_graph (History.view g)) (fst q) (sof_list (snd q))) /\ exact_run g t o
  | _, _ => False
  end.

Section Coherence.
Variable tbl : History.inv_table.
Hypothesis Hsafe : HistoryProofs.tbl_safe tbl = true.

Definition st_good (st : @History.hst sstate) : Prop :=
  match History.hs st with Some s => Good (History.view (History.hg st)) s | None => True end.

(* HistoryProofs.run_coherent re-proved with the memo laws available only where solver_ok holds *)
Lemma run_coherent_solver : forall ops st,
  HistoryProofs.ops_wf ops -> asks_ok (History.hg st) ops -> st_good st ->
  History.hrun tbl sstate_empty ask st ops = History.href sstate_empty ask (History.hg st) ops.
Proof.
  induction ops as [|o t IH]; intros st Hwf Hok Hg; [reflexivity|].
  inversion Hwf as [|o' t' Ho Ht]; subst.
  destruct o as [ms|q]; cbn [History.hrun History.href History.hstep fst snd].
  - f_equal. simpl in Hok. rewrite IH; [reflexivity | assumption | exact Hok |].
    unfold st_good. cbn [History.hs History.hg].
    destruct (History.inval_all tbl (History.hg st) ms) eqn:Hi; [exact I|].
    unfold st_good in Hg. destruct (History.hs st) as [s|]; [|exact I].
    rewrite (HistoryProofs.keep_view_api tbl Hsafe ms (History.hg st) Ho Hi). exact Hg.
  - simpl in Hok. destruct Hok as [Hv Hok]. unfold st_good in Hg.
    destruct (History.hs st) as [s|] eqn:Hs.
    + destruct (good_ask (History.view (History.hg st)) s q Hv Hg) as [Hg' He].
      f_equal; [f_equal; exact He|].
      rewrite IH; [reflexivity | assumption | exact Hok |]. unfold st_good. cbn [History.hs History.hg]. exact Hg'.
    + destruct (good_ask (History.view (History.hg st)) sstate_empty q Hv (good_fresh _)) as [Hg' _].
      f_equal. rewrite IH; [reflexivity | assumption | exact Hok |].
      unfold st_good. cbn [History.hs History.hg]. exact Hg'.
Qed.
End Coherence.

Lemma href_exact : forall ops g, asks_ok g ops -> exact_run g ops (History.href sstate_empty ask g ops).
Proof.
  induction ops as [|[ms|q] t IH]; intros g Hok; simpl in *; [exact I | apply IH; exact Hok |].
  destruct Hok as [Hv Hok]. split; [|apply IH; exact Hok].
  apply (ask_exact (History.view g) sstate_empty q Hv (good_fresh _)).
Qed.

(* C08 with the real memoised solver, on acyclic condition-free graphs *)
Theorem history_independent_solver : forall tbl ops g,
  HistoryProofs.tbl_safe tbl = true -> HistoryProofs.ops_wf ops -> asks_ok g ops ->
  History.hrun tbl sstate_empty ask (History.mkSt g None) ops = History.href sstate_empty ask g ops /\
  exact_run g ops (History.hrun tbl sstate_empty ask (History.mkSt g None) ops).
Proof.
  intros tbl ops g Hsafe Hwf Hok.
  assert (E : History.hrun tbl sstate_empty ask (History.mkSt g None) ops = History.href sstate_empty ask g ops).
  { apply (run_coherent_solver tbl Hsafe ops (History.mkSt g None) Hwf Hok). exact I. }
  split; [exact E|]. rewrite E. apply href_exact. exact Hok.
Qed.

(* the same with the hypothesis "every graph reached along the history is acyclic and condition-free" *)
Corollary history_independent_solver_all_ok : forall tbl ops g,
  HistoryProofs.tbl_safe tbl = true -> HistoryProofs.ops_wf ops -> all_ok g ops ->
  History.hrun tbl sstate_empty ask (History.mkSt g None) ops = History.href sstate_empty ask g ops /\
  exact_run g ops (History.hrun tbl sstate_empty ask (History.mkSt g None) ops).
Proof. intros. apply history_independent_solver; auto. apply all_ok_asks_ok. assumption. Qed.

(* the live solver and the query-by-query threading of C07 agree: on a fixed graph, a run of queries
   through hrun is a run of Solver.solve threading one state *)
Lemma ask_threads_solve : forall v st (q : History.query), solver_ok v -> Good v st ->
  exists F, solve F (to_solver_graph v) st (snd q) (fst q) = Some (ask v st q).
Proof.
  intros v st q Hok Hg. unfold solver_ok, solver_okb in Hok. apply andb_true_iff in Hok.
  apply ask_is_solve; [tauto | exact (proj1 Hg)].
Qed.

(* ---------------------------------------------------------------- example *)
(* build 0 -> 1, bind variable 0 to data 0 at node 0; ask at node 1; extend 1 -> 2; ask at node 2;
   RE-BIND variable 0 (data 1) at node 1; ask the old binding, the new one, and both together *)
Definition ex_ops : list History.hop :=
  [History.Api [History.MNewNode None];
   History.Api [History.MNewNode None; History.MConnect 0 1];
   History.Api [History.MNewVariable];
   History.Api [History.MFindOrAddBinding 0 0; History.MAddOrigin 0 0; History.MAddSourceSet 0 0 []];
   History.Ask (1, [0]);
   History.Api [History.MNewNode None; History.MConnect 1 2];
   History.Ask (2, [0]);
   History.Api [History.MFindOrAddBinding 0 1; History.MAddOrigin 1 1; History.MAddSourceSet 1 1 []];
   History.Ask (2, [0]); History.Ask (2, [1]); History.Ask (2, [0; 1])].

Example ex_run :
  History.hrun History.tbl_current sstate_empty ask (History.mkSt History.graph0 None) ex_ops
  = [None; None; None; None; Some true; None; Some true; None; Some false; Some true; Some false].
Proof. vm_compute. reflexivity. Qed.

Example ex_hyps : HistoryProofs.ops_wf ex_ops /\ asks_ok History.graph0 ex_ops /\ all_ok History.graph0 ex_ops.
Proof.
  split; [repeat constructor|]. split.
  - simpl. unfold solver_ok. repeat split; vm_compute; reflexivity.
  - simpl. unfold solver_ok. repeat split; vm_compute; reflexivity.
Qed.

(* the theorem applied to the example: the stale-looking third answer (binding 0 at node 2 after the
   re-binding) is the declarative truth on the graph at that point *)
Example ex_applied :
  exact_run History.graph0 ex_ops
    (History.hrun History.tbl_current sstate_empty ask (History.mkSt History.graph0 None) ex_ops).
Proof.
  destruct ex_hyps as [Hwf [Hok _]].
  apply (history_independent_solver History.tbl_current ex_ops History.graph0 eq_refl Hwf Hok).
Qed.

(* the model does capture staleness: under the invalidation table of the tree BEFORE the two C08 fixes
   (node.condition = b did not drop the solver) the live memo answers `true` from its stale entry where
   a fresh solver answers `false` - so the hypothesis tbl_safe of the theorem is not decorative *)
Definition ex_stale_ops : list History.hop :=
  [History.Api [History.MNewNode None]; History.Api [History.MNewVariable]; History.Api [History.MNewVariable];
   History.Api [History.MFindOrAddBinding 0 0; History.MAddOrigin 0 0; History.MAddSourceSet 0 0 []];
   History.Api [History.MFindOrAddBinding 1 0];
   History.Ask (0, [0]);
   History.Api [History.MSetCondition 0 (Some 1)];
   History.Ask (0, [0])].

Example ex_stale_before_fixes :
  HistoryProofs.ops_wf ex_stale_ops /\
  History.hrun History.tbl_before_fixes sstate_empty ask (History.mkSt History.graph0 None) ex_stale_ops
  = [None; None; None; None; None; Some true; None; Some true] /\
  History.href sstate_empty ask History.graph0 ex_stale_ops
  = [None; None; None; None; None; Some true; None; Some false] /\
  History.hrun History.tbl_current sstate_empty ask (History.mkSt History.graph0 None) ex_stale_ops
  = History.href sstate_empty ask History.graph0 ex_stale_ops.
Proof. split; [repeat constructor|]. vm_compute. repeat split; reflexivity. Qed.
