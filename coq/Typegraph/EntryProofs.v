(* C09 — the entrypoint attribute is irrelevant to reachability answers (proofs for Entry.v). *)
From Coq Require Import List Arith Bool Relations.
From PV Require Import Typegraph.Reach Typegraph.ReachProofs Typegraph.Prune Typegraph.PruneProofs Typegraph.Entry.
Import ListNotations.

Lemma pe_run_from_core s h :
  pe_core (pe_run_from s h) = py_run_from (pe_core s) (core_ops h).
Proof.
  revert s; induction h as [|o h IH]; intros s; [reflexivity|].
  destruct o as [c|n]; cbn [pe_run_from fold_left core_ops py_run_from].
  - change (fold_left pe_step h (pe_step s (ECore c))) with (pe_run_from (pe_step s (ECore c)) h).
    rewrite IH. reflexivity.
  - change (fold_left pe_step h (pe_step s (ESetEntry n))) with (pe_run_from (pe_step s (ESetEntry n)) h).
    rewrite IH. reflexivity.
Qed.

Lemma pe_run_core_lemma d h : pe_core (pe_run d h) = py_run d (core_ops h).
Proof. unfold pe_run, py_run. rewrite pe_run_from_core. reflexivity. Qed.

Lemma pe_run_from_entry s h : pe_entry (pe_run_from s h) = last_entry (pe_entry s) h.
Proof.
  revert s; induction h as [|o h IH]; intros s; [reflexivity|].
  destruct o as [c|n]; cbn [pe_run_from fold_left last_entry].
  - change (fold_left pe_step h (pe_step s (ECore c))) with (pe_run_from (pe_step s (ECore c)) h).
    rewrite IH. reflexivity.
  - change (fold_left pe_step h (pe_step s (ESetEntry n))) with (pe_run_from (pe_step s (ESetEntry n)) h).
    rewrite IH. reflexivity.
Qed.

Lemma pe_entry_last_write_lemma d h : pe_entry (pe_run d h) = last_entry None h.
Proof. unfold pe_run. rewrite pe_run_from_entry. reflexivity. Qed.

Lemma pe_wf_from_core s h : pe_wf_from s h = true -> py_wf_from (pe_core s) (core_ops h) = true.
Proof.
  revert s; induction h as [|o h IH]; intros s H; [reflexivity|].
  destruct o as [c|[n|]]; cbn [pe_wf_from core_ops py_wf_from] in *.
  - apply andb_true_iff in H. destruct H as [H1 H2]. rewrite H1. cbn [andb].
    apply IH in H2. exact H2.
  - apply andb_true_iff in H. destruct H as [_ H2]. apply IH in H2. exact H2.
  - apply IH in H. exact H.
Qed.

Lemma pe_wf_core d h : pe_wf d h = true -> py_wf d (core_ops h) = true.
Proof. unfold pe_wf, py_wf. intros H. apply pe_wf_from_core in H. exact H. Qed.

(* is_reachable after an extended history = graph reachability over the edges its graph-building calls inserted,
   whatever was written to the entrypoint attribute and whenever *)
Theorem pe_reach_correct_lemma d h a b :
  pe_wf d h = true ->
  a < nodes (ps_prog (pe_core (pe_run d h))) -> b < nodes (ps_prog (pe_core (pe_run d h))) ->
  (pe_is_reachable (pe_run d h) a b = true <->
   clos_refl_trans nat (fun x y => In (x, y) (py_edges (core_ops h))) a b).
Proof.
  intros Hwf Ha Hb. unfold pe_is_reachable. rewrite pe_run_core_lemma in *.
  apply py_reach_correct_lemma; [apply pe_wf_core; exact Hwf | exact Ha | exact Hb].
Qed.

(* two histories that differ only in their entrypoint writes give the same answers to every reachability query *)
Theorem entrypoint_irrelevant_lemma d h1 h2 a b :
  core_ops h1 = core_ops h2 -> pe_is_reachable (pe_run d h1) a b = pe_is_reachable (pe_run d h2) a b.
Proof.
  intros E. unfold pe_is_reachable. rewrite !pe_run_core_lemma, E. reflexivity.
Qed.
