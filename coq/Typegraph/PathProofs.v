(* PathFinder: FindShortestPathToNode finds a path iff one exists that avoids `blocked` before its
   last node (finish tested before blocked); the nodes FindNodeBackwards returns are conditional
   nodes backward reachable from the start. *)
From Coq Require Import List Arith Bool Lia Relations.
From PV Require Import Typegraph.Graph Typegraph.Solver Typegraph.Spec Typegraph.SetLemmas.
Import ListNotations.

Section Path.
Variable g : graph.

Lemma creach_breach : forall blocked s x, creach g blocked s x -> breach g s x.
Proof.
  intros blocked s x H. induction H.
  - apply rt_refl.
  - eapply rt_trans; [exact IHcreach|]. apply rt_step. exact H1.
Qed.

Lemma creach_antitone : forall b1 b2 s x,
  (forall n, smem n b2 = true -> smem n b1 = true) -> creach g b1 s x -> creach g b2 s x.
Proof.
  intros b1 b2 s x Hb H. induction H.
  - constructor.
  - apply creach_step with (n := n); [exact IHcreach | | exact H1].
    destruct (smem n b2) eqn:E; [|reflexivity]. apply Hb in E. congruence.
Qed.

Lemma creach_trans : forall blocked s p q,
  creach g blocked s p -> creach g blocked p q -> creach g blocked s q.
Proof.
  intros blocked s p q H1 H2. induction H2.
  - exact H1.
  - apply creach_step with (n := n); assumption.
Qed.

(* ---------------- BFS ---------------- *)
Section Bfs.
Variable finish : node.
Variable blocked : list node.
Variable start : node.

Lemma bfs_sound : forall fuel queue seen prev prev',
  (forall x, In x queue -> creach g blocked start x) ->
  bfs_loop fuel g finish blocked queue seen prev = Some (true, prev') ->
  creach g blocked start finish.
Proof.
  induction fuel as [|f IH]; intros queue seen prev prev' Hq H; [discriminate|].
  simpl in H. destruct queue as [|nd q]; [discriminate|].
  destruct (nd =? finish) eqn:E.
  - apply Nat.eqb_eq in E. subst. apply Hq. left. reflexivity.
  - destruct (smem nd seen || smem nd blocked) eqn:E2.
    + eapply IH; [|exact H]. intros x Hx. apply Hq. right. exact Hx.
    + apply orb_false_iff in E2. destruct E2 as [_ Eb].
      eapply IH; [|exact H]. intros x Hx. apply in_app_iff in Hx. destruct Hx as [Hx|Hx].
      * apply Hq. right. exact Hx.
      * eapply creach_step; [apply Hq; left; reflexivity | exact Eb | exact Hx].
Qed.

Definition bfs_done (queue seen : list node) (m : node) : Prop :=
  In m queue \/ In m seen \/ (smem m blocked = true /\ m <> finish).

Definition bfs_inv (queue seen : list node) : Prop :=
  bfs_done queue seen start /\
  forall n, In n seen ->
    smem n blocked = false /\ n <> finish /\ forall m, In m (incoming g n) -> bfs_done queue seen m.

Lemma bfs_complete : forall fuel queue seen prev prev',
  bfs_inv queue seen ->
  bfs_loop fuel g finish blocked queue seen prev = Some (false, prev') ->
  ~ creach g blocked start finish.
Proof.
  induction fuel as [|f IH]; intros queue seen prev prev' Hinv H; [discriminate|].
  simpl in H. destruct queue as [|nd q].
  - (* queue exhausted: seen is closed *)
    destruct Hinv as [Hs Hc].
    assert (Hall : forall x, creach g blocked start x -> In x seen \/ (smem x blocked = true /\ x <> finish)).
    { intros x Hx. induction Hx.
      - destruct Hs as [[]|Hs]; exact Hs.
      - destruct IHHx as [Hn|[Hn _]]; [|congruence].
        destruct (Hc n Hn) as [_ [_ Hm]]. destruct (Hm m H1) as [[]|Hd]; exact Hd. }
    intros Hf. destruct (Hall _ Hf) as [Hin|[_ Hne]]; [|congruence].
    destruct (Hc _ Hin) as [_ [Hne _]]. congruence.
  - destruct (nd =? finish) eqn:E; [discriminate|]. apply Nat.eqb_neq in E.
    destruct (smem nd seen || smem nd blocked) eqn:E2.
    + eapply IH; [|exact H]. destruct Hinv as [Hs Hc].
      assert (Hnd : In nd seen \/ smem nd blocked = true /\ nd <> finish).
      { apply orb_true_iff in E2. destruct E2 as [E2|E2]; [left; apply smem_In; exact E2 | right; auto]. }
      assert (Hmove : forall m, bfs_done (nd :: q) seen m -> bfs_done q seen m).
      { intros m [[Hm|Hm]|Hm].
        - subst. right. exact Hnd.
        - left. exact Hm.
        - right. exact Hm. }
      split; [apply Hmove; exact Hs|].
      intros n Hn. destruct (Hc n Hn) as [A [B C]]. repeat split; auto.
    + apply orb_false_iff in E2. destruct E2 as [Es Eb].
      eapply IH; [|exact H]. destruct Hinv as [Hs Hc].
      assert (Hmove : forall m, bfs_done (nd :: q) seen m ->
                                bfs_done (q ++ incoming g nd) (sins nd seen) m).
      { intros m [[Hm|Hm]|[Hm|Hm]].
        - subst. right. left. apply In_sins. left. reflexivity.
        - left. apply in_app_iff. left. exact Hm.
        - right. left. apply In_sins. right. exact Hm.
        - right. right. exact Hm. }
      split; [apply Hmove; exact Hs|].
      intros n Hn. apply In_sins in Hn. destruct Hn as [Hn|Hn].
      * subst. repeat split; auto. intros m Hm. left. apply in_app_iff. right. exact Hm.
      * destruct (Hc n Hn) as [A [B C]]. repeat split; auto.
Qed.

Lemma bfs_inv_init : bfs_inv [start] [].
Proof. split; [left; left; reflexivity | intros n []]. Qed.
End Bfs.

Lemma build_path_suffix : forall fuel prev nd acc p,
  build_path fuel prev nd acc = Some p -> exists pre, p = pre ++ acc.
Proof.
  induction fuel as [|f IH]; intros prev nd acc p H; [discriminate|].
  simpl in H. destruct nd as [n|].
  - apply IH in H. destruct H as [pre H]. exists (pre ++ [n]). rewrite <- app_assoc. exact H.
  - inversion H. exists []. reflexivity.
Qed.

Lemma build_path_nonempty : forall fuel prev n acc p,
  build_path fuel prev (Some n) acc = Some p -> p <> [].
Proof.
  intros fuel prev n acc p H. destruct fuel as [|f]; [discriminate|]. simpl in H.
  apply build_path_suffix in H. destruct H as [pre H]. subst. destruct pre; simpl; congruence.
Qed.

(* FindShortestPathToNode returns a non-empty path exactly when a clear path exists *)
Theorem find_shortest_path_spec : forall start finish blocked sp,
  find_shortest_path g start finish blocked = Some sp ->
  (sp <> [] <-> creach g blocked start finish).
Proof.
  intros start finish blocked sp H. unfold find_shortest_path in H.
  destruct (bfs_loop (edge_count g + 2) g finish blocked [start] [] [(start, None)])
    as [[[|] prev]|] eqn:E; [| |discriminate].
  - split.
    + intros _. eapply bfs_sound; [|exact E]. intros x [Hx|[]]. subst. constructor.
    + intros _. eapply build_path_nonempty. exact H.
  - inversion H; subst. split; [congruence|].
    intros Hc. exfalso. eapply bfs_complete; [apply bfs_inv_init | exact E | exact Hc].
Qed.

(* ---------------- FindHighestReachableWeight / articulation loop ---------------- *)
Lemma fhrw_reach : forall fuel start sp stack seen best nx seen',
  fhrw_loop fuel g start sp stack seen best = Some (Some nx, seen') ->
  (forall x, In x stack -> breach g start x) ->
  (forall w n, best = Some (w, n) -> breach g start n) ->
  breach g start nx.
Proof.
  induction fuel as [|f IH]; intros start sp stack seen best nx seen' H Hst Hb; [discriminate|].
  simpl in H. destruct stack as [|nd stk].
  - destruct best as [[w n]|]; [|discriminate]. simpl in H. inversion H; subst. eapply Hb. reflexivity.
  - destruct (nd =? start) eqn:E.
    + eapply IH; [exact H| |exact Hb]. intros x Hx. apply Hst. right. exact Hx.
    + assert (Hnd : breach g start nd) by (apply Hst; left; reflexivity).
      match type of H with context [fhrw_loop f g start sp _ _ ?b'] => set (best' := b') in * end.
      assert (Hb' : forall w n, best' = Some (w, n) -> breach g start n).
      { intros w n Hw. subst best'. destruct (windex nd sp) as [w0|].
        - destruct best as [[bw bn]|].
          + destruct (bw <? w0); [inversion Hw; subst; exact Hnd | eapply Hb; exact Hw].
          + inversion Hw; subst. exact Hnd.
        - eapply Hb. exact Hw. }
      destruct (smem nd seen).
      * eapply IH; [exact H| |exact Hb']. intros x Hx. apply Hst. right. exact Hx.
      * eapply IH; [exact H| |exact Hb']. intros x Hx. apply in_app_iff in Hx. destruct Hx as [Hx|Hx].
        -- rewrite <- in_rev in Hx. eapply rt_trans; [exact Hnd|]. apply rt_step. exact Hx.
        -- apply Hst. right. exact Hx.
Qed.

Lemma artic_spec : forall fuel finish sp nd blk path out,
  artic_loop fuel g finish sp nd blk path = Some out ->
  exists ext, out = path ++ ext /\ forall x, In x ext -> breach g nd x /\ cond g x <> None.
Proof.
  induction fuel as [|f IH]; intros finish sp nd blk path out H; [discriminate|].
  simpl in H.
  set (path' := match cond g nd with Some _ => path ++ [nd] | None => path end) in *.
  assert (Hp : exists e0, path' = path ++ e0 /\ forall x, In x e0 -> breach g nd x /\ cond g x <> None).
  { subst path'. destruct (cond g nd) eqn:Ec.
    - exists [nd]. split; [reflexivity|]. intros x [Hx|[]]. subst. split; [apply rt_refl | congruence].
    - exists []. split; [rewrite app_nil_r; reflexivity | intros x []]. }
  destruct Hp as [e0 [He0 Hall0]].
  destruct (nd =? finish).
  - inversion H; subst. exists e0. split; assumption.
  - destruct (find_highest_reachable_weight g nd sp blk) as [[[nx|] blk']|] eqn:Ef; try discriminate.
    assert (Hnx : breach g nd nx).
    { unfold find_highest_reachable_weight in Ef. eapply fhrw_reach; [exact Ef| |intros; discriminate].
      intros x Hx. rewrite <- in_rev in Hx. apply rt_step. exact Hx. }
    destruct (IH _ _ _ _ _ _ H) as [ext [Hout Hall]].
    exists (e0 ++ ext). split.
    + rewrite Hout, He0, app_assoc. reflexivity.
    + intros x Hx. apply in_app_iff in Hx. destruct Hx as [Hx|Hx]; [apply Hall0; exact Hx|].
      destruct (Hall x Hx) as [A B]. split; [|exact B]. eapply rt_trans; eassumption.
Qed.

(* the uncached FindNodeBackwards *)
Theorem fnb_compute_spec : forall start finish blocked ex path,
  find_node_backwards_compute g start finish blocked = Some (ex, path) ->
  (ex = true <-> creach g blocked start finish) /\
  (forall x, In x path -> breach g start x /\ cond g x <> None).
Proof.
  intros start finish blocked ex path H. unfold find_node_backwards_compute in H.
  destruct (find_shortest_path g start finish blocked) as [sp|] eqn:Es; [|discriminate].
  pose proof (find_shortest_path_spec _ _ _ _ Es) as Hsp.
  destruct sp as [|x sp].
  - inversion H; subst. split; [|intros x []].
    split; [discriminate|]. intros Hc. apply Hsp in Hc. congruence.
  - destruct (artic_loop (length (x :: sp) + 1) g finish (x :: sp) start (sunion blocked (x :: sp)) [])
      as [p|] eqn:Ea; [|discriminate].
    inversion H; subst. split.
    + split; [intros _; apply Hsp; discriminate | reflexivity].
    + destruct (artic_spec _ _ _ _ _ _ _ Ea) as [ext [Hout Hall]]. simpl in Hout. subst. exact Hall.
Qed.

Lemma no_conditions_cond : forall x, no_conditions g = true -> cond g x = None.
Proof.
  intros x H. unfold cond, get_node, no_conditions in *. rewrite forallb_forall in H.
  destruct (Nat.lt_ge_cases x (length (g_nodes g))) as [Hlt|Hge].
  - specialize (H (nth x (g_nodes g) (mkNode [] None)) (nth_In _ _ Hlt)).
    destruct (n_cond (nth x (g_nodes g) (mkNode [] None))); [discriminate | reflexivity].
  - rewrite nth_overflow by exact Hge. reflexivity.
Qed.

(* ---------------- the path cache ---------------- *)
Definition pc_exact (pc : pcache) : Prop :=
  forall s f b r, pc_get (s, f, b) pc = Some r -> find_node_backwards_compute g s f b = Some r.

Lemma pc_exact_nil : pc_exact [].
Proof. intros s f b r H. discriminate. Qed.

Lemma find_node_backwards_spec : forall pc s f b r pc',
  pc_exact pc -> find_node_backwards g pc s f b = Some (r, pc') ->
  pc_exact pc' /\ find_node_backwards_compute g s f b = Some r.
Proof.
  intros pc s f b r pc' Hpc H. unfold find_node_backwards in H.
  destruct (pc_get (s, f, b) pc) as [r0|] eqn:E.
  - inversion H; subst. split; [exact Hpc | apply Hpc; exact E].
  - destruct (find_node_backwards_compute g s f b) as [r0|] eqn:Ec; [|discriminate].
    inversion H; subst. split; [|reflexivity].
    intros s' f' b' r' Hget. rewrite pc_get_set in Hget.
    destruct (pkey_eqb (s', f', b') (s, f, b)) eqn:Ek.
    + apply pkey_eqb_eq in Ek. inversion Ek; subst. inversion Hget; subst. exact Ec.
    + apply Hpc. exact Hget.
Qed.
End Path.
