(* C07/C08 model, part 2: pytype/typegraph/solver.cc, function by function, branch by branch.
   Definitions only (no proofs).  The solver state (memo table solved_states_ and the path cache
   path_trie_) is an explicit value threaded through every call; C08 builds its history model on it.

   Fuel: [Solver::RecallOrFindSolution]/[FindSolution] recurse on [fuel] (recursion DEPTH) and the
   action-stack loop of remove_finished_goals runs for at most [fuel] STEPS; both return None when
   the fuel is exhausted.  The worklist loops of the path finder carry a fuel computed from the
   graph (number of edges), proved sufficient in SolverProofs.v; they too return None on
   exhaustion rather than a made-up value.

   Modelled, not mirrored: std::unordered_* containers are used by the C++ only for membership /
   lookup (GoalsConflict's map, blocked_, weights, previous, solved_states_, unique_finish_nodes) -
   their iteration order never reaches an answer - and are lists here.  StateSet orders State
   pointers by State::Hash(); the model takes the hash to be injective (set of states by equality). *)
From Coq Require Import List Arith Bool.
From PV Require Import Typegraph.Graph.
Import ListNotations.

(* ================= remove_finished_goals (solver.cc:27-189) ================= *)

(* struct RemoveResult { GoalSet removed_goals; GoalSet new_goals; } *)
Definition rresult := (list bid * list bid)%type.

(* struct TraverseState.  The two std::vectors are kept REVERSED (push_back = cons, pop_back = tl). *)
Record tstate := mkT {
  t_gtr : list bid;       (* GoalSet goals_to_remove *)
  t_seen : list bid;      (* GoalSet seen_goals *)
  t_removed : list bid;   (* std::vector removed_goals, reversed *)
  t_new : list bid        (* std::vector new_goals, reversed *)
}.

(* enum ActionType + union payload.  TRAVERSE_ALL_SOURCE_SETS carries the iterator pair
   [source_sets_it[0], source_sets_it[1]) as the non-empty remaining suffix cur :: rest. *)
Inductive action :=
| A_TRAVERSE
| A_TRAVERSE_ALL (cur : list bid) (rest : list (list bid))
| A_INSERT_GTR (goal : bid)
| A_ERASE_GTR (goal : bid)
| A_ERASE_SEEN (goal : bid)          (* erase_it: iterator to the element inserted into seen_goals *)
| A_ERASE_NEW
| A_ERASE_REMOVED.

(* static void traverse(position, results, actions, state)      (stack top = list head) *)
Definition traverse (g : graph) (pos : node) (results : list rresult) (actions : list action)
    (st : tstate) : list rresult * list action * tstate :=
  match t_gtr st with
  | [] =>
    (* results.emplace_back(GoalSet(removed_goals), GoalSet(new_goals)); return; *)
    (results ++ [(sof_list (t_removed st), sof_list (t_new st))], actions, st)
  | goal :: gtr' =>
    (* goal = *goals_to_remove.begin(); erase it; actions.emplace(INSERT_GOALS_TO_REMOVE, goal) *)
    let st := mkT gtr' (t_seen st) (t_removed st) (t_new st) in
    let actions := A_INSERT_GTR goal :: actions in
    if smem goal (t_seen st) then
      (results, A_TRAVERSE :: actions, st)
    else
      let st := mkT (t_gtr st) (sins goal (t_seen st)) (t_removed st) (t_new st) in
      let actions := A_ERASE_SEEN goal :: actions in
      match find_origin g goal pos with
      | None =>
        (results, A_TRAVERSE :: A_ERASE_NEW :: actions,
         mkT (t_gtr st) (t_seen st) (t_removed st) (goal :: t_new st))
      | Some o =>
        let st := mkT (t_gtr st) (t_seen st) (goal :: t_removed st) (t_new st) in
        let actions := A_ERASE_REMOVED :: actions in
        match o_ssets o with
        | [] => (results, actions, st)           (* no source set: nothing pushed, the branch dies *)
        | cur :: rest => (results, A_TRAVERSE_ALL cur rest :: actions, st)
        end
      end
  end.

(* for (next_goal : source_set) { auto [it, added] = goals_to_remove.insert(next_goal);
                                  if (added) actions.emplace(ERASE_GOALS_TO_REMOVE, next_goal); } *)
Definition insert_source_set (cur : list bid) (gtr : list bid) (actions : list action)
    : list bid * list action :=
  fold_left (fun '(gt, acts) ng => if smem ng gt then (gt, acts) else (sins ng gt, A_ERASE_GTR ng :: acts))
            cur (gtr, actions).

(* the  while (!actions.empty())  loop of remove_finished_goals *)
Fixpoint rfg_loop (fuel : nat) (g : graph) (pos : node) (results : list rresult)
    (actions : list action) (st : tstate) : option (list rresult) :=
  match fuel with
  | O => None
  | S f =>
    match actions with
    | [] => Some results
    | a :: actions =>
      match a with
      | A_TRAVERSE =>
        let '(results', actions', st') := traverse g pos results actions st in
        rfg_loop f g pos results' actions' st'
      | A_TRAVERSE_ALL cur rest =>
        let actions := match rest with [] => actions | c :: r => A_TRAVERSE_ALL c r :: actions end in
        let '(gtr', actions) := insert_source_set cur (t_gtr st) actions in
        rfg_loop f g pos results (A_TRAVERSE :: actions) (mkT gtr' (t_seen st) (t_removed st) (t_new st))
      | A_INSERT_GTR x =>
        rfg_loop f g pos results actions (mkT (sins x (t_gtr st)) (t_seen st) (t_removed st) (t_new st))
      | A_ERASE_GTR x =>
        rfg_loop f g pos results actions (mkT (srem x (t_gtr st)) (t_seen st) (t_removed st) (t_new st))
      | A_ERASE_SEEN x =>
        rfg_loop f g pos results actions (mkT (t_gtr st) (srem x (t_seen st)) (t_removed st) (t_new st))
      | A_ERASE_NEW =>
        rfg_loop f g pos results actions (mkT (t_gtr st) (t_seen st) (t_removed st) (tl (t_new st)))
      | A_ERASE_REMOVED =>
        rfg_loop f g pos results actions (mkT (t_gtr st) (t_seen st) (tl (t_removed st)) (t_new st))
      end
    end
  end.

(* static std::vector<RemoveResult> remove_finished_goals(const CFGNode* pos, const GoalSet& goals) *)
Definition remove_finished_goals (fuel : nat) (g : graph) (pos : node) (goals : list bid)
    : option (list rresult) :=
  let at_pos := bindings_at g pos in
  (* for (goal : pos->bindings()) if (goals.count(goal)) goals_to_remove.insert(goal); *)
  let gtr := filter (fun b => smem b at_pos) goals in
  (* std::set_difference(goals, goals_to_remove) -> new_goals   (ascending; stored reversed) *)
  let new0 := filter (fun b => negb (smem b gtr)) goals in
  rfg_loop fuel g pos [] [A_TRAVERSE] (mkT gtr [] [] (rev new0)).

(* ================= Solver::GoalsConflict (solver.cc:365) ================= *)
Fixpoint goals_conflict_from (g : graph) (vars : list varid) (goals : list bid) : bool :=
  match goals with
  | [] => false
  | b :: t =>
    let v := var_of g b in
    if smem v vars then true else goals_conflict_from g (v :: vars) t
  end.
Definition goals_conflict (g : graph) (goals : list bid) : bool := goals_conflict_from g [] goals.

(* ================= PathFinder (solver.cc:252-352) ================= *)

(* std::unordered_map<const CFGNode*, const CFGNode*> previous;  emplace does not overwrite *)
Definition prevmap := list (node * option node).
Fixpoint plookup (n : node) (p : prevmap) : option (option node) :=
  match p with
  | [] => None
  | (k, v) :: t => if k =? n then Some v else plookup n t
  end.
Definition pemplace (n : node) (v : option node) (p : prevmap) : prevmap :=
  match plookup n p with Some _ => p | None => p ++ [(n, v)] end.

(* the  while (!queue.empty())  loop of FindShortestPathToNode: finish is tested BEFORE blocked *)
Fixpoint bfs_loop (fuel : nat) (g : graph) (finish : node) (blocked : list node)
    (queue : list node) (seen : list node) (prev : prevmap) : option (bool * prevmap) :=
  match fuel with
  | O => None
  | S f =>
    match queue with
    | [] => Some (false, prev)
    | nd :: q =>
      if nd =? finish then Some (true, prev)
      else if smem nd seen || smem nd blocked then bfs_loop f g finish blocked q seen prev
      else
        let inc := incoming g nd in
        bfs_loop f g finish blocked (q ++ inc) (sins nd seen)
                 (fold_left (fun p n => pemplace n (Some nd) p) inc prev)
    end
  end.

(* node = finish; while (node) { path.push_front(node); node = previous[node]; } *)
Fixpoint build_path (fuel : nat) (prev : prevmap) (nd : option node) (acc : list node)
    : option (list node) :=
  match fuel with
  | O => None
  | S f =>
    match nd with
    | None => Some acc
    | Some n =>
      build_path f prev (match plookup n prev with Some v => v | None => None end) (n :: acc)
    end
  end.

(* std::deque<const CFGNode*> PathFinder::FindShortestPathToNode(start, finish, blocked) const
   (empty deque = no path) *)
Definition find_shortest_path (g : graph) (start finish : node) (blocked : list node)
    : option (list node) :=
  match bfs_loop (edge_count g + 2) g finish blocked [start] [] [(start, None)] with
  | None => None
  | Some (false, _) => Some []
  | Some (true, prev) => build_path (length prev + 2) prev (Some finish) []
  end.

(* position of a node on the shortest path = its weight *)
Fixpoint windex (n : node) (sp : list node) : option nat :=
  match sp with
  | [] => None
  | h :: t => if h =? n then Some 0 else option_map S (windex n t)
  end.

(* the  while (!stack.empty())  loop of FindHighestReachableWeight; [seen] is the caller's
   blocked_ set, passed by reference and MUTATED; best = None models best_weight = -1 *)
Fixpoint fhrw_loop (fuel : nat) (g : graph) (start : node) (sp : list node)
    (stack : list node) (seen : list node) (best : option (nat * node))
    : option (option node * list node) :=
  match fuel with
  | O => None
  | S f =>
    match stack with
    | [] => Some (option_map snd best, seen)
    | nd :: stk =>
      if nd =? start then fhrw_loop f g start sp stk seen best     (* no loops back to the start *)
      else
        let best' :=
          match windex nd sp with
          | Some w => match best with
                      | None => Some (w, nd)
                      | Some (bw, _) => if bw <? w then Some (w, nd) else best
                      end
          | None => best
          end in
        if smem nd seen then fhrw_loop f g start sp stk seen best'
        else fhrw_loop f g start sp (rev (incoming g nd) ++ stk) (sins nd seen) best'
    end
  end.

(* const CFGNode* FindHighestReachableWeight(start, seen&, weight_map) *)
Definition find_highest_reachable_weight (g : graph) (start : node) (sp : list node)
    (seen : list node) : option (option node * list node) :=
  fhrw_loop (2 * edge_count g + 2) g start sp (rev (incoming g start)) seen None.

(* the  while (true)  loop of FindNodeBackwards collecting the conditional articulation points;
   a nullptr from FindHighestReachableWeight would be dereferenced by the C++ - the model fails *)
Fixpoint artic_loop (fuel : nat) (g : graph) (finish : node) (sp : list node)
    (nd : node) (blk : list node) (path : list node) : option (list node) :=
  match fuel with
  | O => None
  | S f =>
    let path := match cond g nd with Some _ => path ++ [nd] | None => path end in
    if nd =? finish then Some path
    else match find_highest_reachable_weight g nd sp blk with
         | Some (Some nx, blk') => artic_loop f g finish sp nx blk' path
         | _ => None
         end
  end.

(* struct QueryResult { bool path_exists; const std::deque<const CFGNode*>* path; } *)
Definition qresult := (bool * list node)%type.

(* PathCacheTrie: root_[start][finish] then one trie level per blocked id in increasing order; a
   result is stored at, and only found at, the trie node of the exact blocked sequence.  That is
   a map keyed by (start, finish, blocked). *)
Definition pkey := (node * node * list node)%type.
Definition pcache := list (pkey * qresult).
Definition pkey_eqb (a b : pkey) : bool :=
  let '(s1, f1, b1) := a in let '(s2, f2, b2) := b in
  (s1 =? s2) && (f1 =? f2) && list_eqb b1 b2.
Fixpoint pc_get (k : pkey) (c : pcache) : option qresult :=          (* PathCacheTrie::GetResult *)
  match c with
  | [] => None
  | (k', v) :: t => if pkey_eqb k k' then Some v else pc_get k t
  end.
Fixpoint pc_set (k : pkey) (v : qresult) (c : pcache) : pcache :=    (* PathCacheTrie::InsertResult *)
  match c with
  | [] => [(k, v)]
  | (k', v') :: t => if pkey_eqb k k' then (k, v) :: t else (k', v') :: pc_set k v t
  end.

(* the uncached body of FindNodeBackwards *)
Definition find_node_backwards_compute (g : graph) (start finish : node) (blocked : list node)
    : option qresult :=
  match find_shortest_path g start finish blocked with
  | None => None
  | Some [] => Some (false, [])
  | Some sp =>
    (* blocked_ = blocked + shortest_path;  weights[x] = position of x on the path *)
    match artic_loop (length sp + 1) g finish sp start (sunion blocked sp) [] with
    | None => None
    | Some path => Some (true, path)
    end
  end.

(* QueryResult PathFinder::FindNodeBackwards(start, finish, blocked) *)
Definition find_node_backwards (g : graph) (pc : pcache) (start finish : node) (blocked : list node)
    : option (qresult * pcache) :=
  match pc_get (start, finish, blocked) pc with
  | Some r => Some (r, pc)
  | None =>
    match find_node_backwards_compute g start finish blocked with
    | None => None
    | Some r => Some (r, pc_set (start, finish, blocked) r pc)
    end
  end.

(* ================= State, memo (solver.h:63-102) ================= *)
Definition state := (node * list bid)%type.           (* pos_, goals_ *)
Definition state_eqb (a b : state) : bool := (fst a =? fst b) && list_eqb (snd a) (snd b).
Definition memo := list (state * bool).               (* StateMap solved_states_ *)
Fixpoint memo_get (s : state) (m : memo) : option bool :=
  match m with
  | [] => None
  | (k, v) :: t => if state_eqb s k then Some v else memo_get s t
  end.
Fixpoint memo_set (s : state) (v : bool) (m : memo) : memo :=      (* solved_states_[state] = v *)
  match m with
  | [] => [(s, v)]
  | (k, v') :: t => if state_eqb s k then (k, v) :: t else (k, v') :: memo_set s v t
  end.
Definition seen_mem (s : state) (seen : list state) : bool := existsb (state_eqb s) seen.

(* the solver object: solved_states_ and path_finder_.path_trie_ *)
Record sstate := mkS { s_memo : memo; s_paths : pcache }.
Definition sstate_empty : sstate := mkS [] [].

(* ================= Solver::FindSolution (solver.cc:379) ================= *)

(* CFGNodeSet blocked: for (goal : new_goals) blocked.insert(goal->variable()->nodes()) *)
Definition blocked_of (g : graph) (new_goals : list bid) : list node :=
  fold_left (fun acc b => sunion acc (var_nodes g (var_of g b))) new_goals [].

(* std::unordered_set unique_finish_nodes: every origin node of every new goal (first-occurrence
   order here; the order only decides in which order path-cache entries are created) *)
Definition finish_nodes (g : graph) (new_goals : list bid) : list node :=
  fold_left (fun acc n => if smem n acc then acc else acc ++ [n])
            (flat_map (fun b => map o_where (origins g b)) new_goals) [].

(* for (finish_node : unique_finish_nodes) { FindNodeBackwards...; if (path_exists) { where = first
   node of the returned condition path that is not state.pos(), else finish_node;
   new_positions.insert(where); } } *)
Fixpoint collect_positions (g : graph) (pc : pcache) (pos : node) (blocked : list node)
    (finishes : list node) (acc : list node) : option (list node * pcache) :=
  match finishes with
  | [] => Some (acc, pc)
  | fin :: rest =>
    match find_node_backwards g pc pos fin blocked with
    | None => None
    | Some ((exists_, path), pc') =>
      if exists_ then
        let wh := match find (fun n => negb (n =? pos)) path with Some n => n | None => fin end in
        collect_positions g pc' pos blocked rest (sins wh acc)
      else collect_positions g pc' pos blocked rest acc
    end
  end.

Section FindSolution.
  (* the recursive call RecallOrFindSolution(new_state, seen_states, depth+1) *)
  Variable rec : sstate -> state -> list state -> option (sstate * bool).

  (* for (new_pos : new_positions) { State new_state(new_pos, new_goals);
       if (seen_states.count(&new_state) > 0 && new_positions.size() > 1) continue;
       if (RecallOrFindSolution(new_state, ...)) return true; } *)
  Fixpoint try_positions (st : sstate) (new_goals : list bid) (seen : list state) (npos : nat)
      (positions : list node) : option (sstate * bool) :=
    match positions with
    | [] => Some (st, false)
    | p :: rest =>
      let ns : state := (p, new_goals) in
      if seen_mem ns seen && (1 <? npos) then try_positions st new_goals seen npos rest
      else match rec st ns seen with
           | None => None
           | Some (st', true) => Some (st', true)
           | Some (st', false) => try_positions st' new_goals seen npos rest
           end
    end.

  (* for (const auto& result : results) { ... } return false; *)
  Fixpoint try_results (g : graph) (st : sstate) (pos : node) (seen : list state)
      (results : list rresult) : option (sstate * bool) :=
    match results with
    | [] => Some (st, false)
    | (removed, new_goals) :: rest =>
      if goals_conflict g removed then try_results g st pos seen rest
      else match new_goals with
           | [] => Some (st, true)
           | _ =>
             match collect_positions g (s_paths st) pos (blocked_of g new_goals)
                                     (finish_nodes g new_goals) [] with
             | None => None
             | Some (positions, pc') =>
               match try_positions (mkS (s_memo st) pc') new_goals seen (length positions) positions with
               | None => None
               | Some (st', true) => Some (st', true)
               | Some (st', false) => try_results g st' pos seen rest
               end
             end
           end
    end.

  (* bool Solver::FindSolution(state, seen_states, depth) *)
  Definition find_solution (fuel : nat) (g : graph) (st : sstate) (s : state) (seen : list state)
      : option (sstate * bool) :=
    let '(pos, sgoals) := s in
    (* GoalSet goals(state.goals()); if (pos->condition()) goals.insert(condition); *)
    let goals := match cond g pos with Some c => sins c sgoals | None => sgoals end in
    match remove_finished_goals fuel g pos goals with
    | None => None
    | Some results => try_results g st pos seen results
    end.
End FindSolution.

(* ================= Solver::RecallOrFindSolution (solver.cc:498) ================= *)
Fixpoint recall_or_find (fuel0 fuel : nat) (g : graph) (st : sstate) (s : state) (seen : list state)
    : option (sstate * bool) :=
  match fuel with
  | O => None
  | S f =>
    match memo_get s (s_memo st) with
    | Some b => Some (st, b)                                   (* known state *)
    | None =>
      (* solved_states_[state] = true;  seen_states.insert(&state) *)
      let st1 := mkS (memo_set s true (s_memo st)) (s_paths st) in
      let seen1 := if seen_mem s seen then seen else s :: seen in
      match find_solution (recall_or_find fuel0 f g) fuel0 g st1 s seen1 with
      | None => None
      | Some (st2, result) =>
        (* solved_states_[state] = result; if (inserted.second) seen_states.erase(inserted.first):
           the caller keeps using its own [seen], which is the set without the inserted element *)
        Some (mkS (memo_set s result (s_memo st2)) (s_paths st2), result)
      end
    end
  end.

(* ================= Solver::Solve_ / CanHaveSolution / Solve (solver.cc:484-551) ================= *)
(* Solve_ on a one-element vector: size() > 1 is false, straight to RecallOrFindSolution *)
Definition solve_single (fuel : nat) (g : graph) (st : sstate) (goal : bid) (start : node)
    : option (sstate * bool) :=
  recall_or_find fuel fuel g st (start, sof_list [goal]) [].

(* bool Solver::CanHaveSolution(start_attrs, start_node): for (goal : start_attrs)
     if (!Solve_({goal}, start_node)) return false;  return true; *)
Fixpoint can_have_solution (fuel : nat) (g : graph) (st : sstate) (attrs : list bid) (start : node)
    : option (sstate * bool) :=
  match attrs with
  | [] => Some (st, true)
  | goal :: rest =>
    match solve_single fuel g st goal start with
    | None => None
    | Some (st', false) => Some (st', false)
    | Some (st', true) => can_have_solution fuel g st' rest start
    end
  end.

(* bool Solver::Solve(start_attrs, start_node)   (= Solve_ plus metrics) *)
Definition solve (fuel : nat) (g : graph) (st : sstate) (attrs : list bid) (start : node)
    : option (sstate * bool) :=
  let go (st : sstate) := recall_or_find fuel fuel g st (start, sof_list attrs) [] in
  if 1 <? length attrs then
    match can_have_solution fuel g st attrs start with
    | None => None
    | Some (st', false) => Some (st', false)               (* short-circuited *)
    | Some (st', true) => go st'
    end
  else go st.

(* a query against a freshly created solver (Program::GetSolver after InvalidateSolver) *)
Definition solve_fresh (fuel : nat) (g : graph) (attrs : list bid) (start : node) : option bool :=
  option_map snd (solve fuel g sstate_empty attrs start).

(* ================= the other query entry points (typegraph.cc) ================= *)
(* bool Binding::IsVisible(viewpoint) = Solve({this}, viewpoint) *)
Definition is_visible (fuel : nat) (g : graph) (st : sstate) (b : bid) (viewpoint : node) :=
  solve fuel g st [b] viewpoint.

(* std::vector<Binding*> Variable::Filter(viewpoint, strict): bindings of the variable in creation
   (= id) order; with !strict a single-binding variable is returned without asking the solver *)
Definition var_bindings (g : graph) (v : varid) : list bid :=
  filter (fun b => var_of g b =? v) (seq 0 (n_bindings g)).
Fixpoint filter_loop (fuel : nat) (g : graph) (st : sstate) (viewpoint : node) (skip : bool)
    (bs : list bid) (acc : list bid) : option (sstate * list bid) :=
  match bs with
  | [] => Some (st, acc)
  | b :: rest =>
    if skip then filter_loop fuel g st viewpoint skip rest (acc ++ [b])
    else match is_visible fuel g st b viewpoint with
         | None => None
         | Some (st', true) => filter_loop fuel g st' viewpoint skip rest (acc ++ [b])
         | Some (st', false) => filter_loop fuel g st' viewpoint skip rest acc
         end
  end.
Definition var_filter (fuel : nat) (g : graph) (st : sstate) (v : varid) (viewpoint : node)
    (strict : bool) : option (sstate * list bid) :=
  let bs := var_bindings g v in
  filter_loop fuel g st viewpoint (negb strict && (length bs =? 1)) bs [].

(* bool CFGNode::CanHaveCombination(bindings): every binding has an origin whose node is backward
   reachable from this node according to the C09 reachability matrix; C09 proves the matrix equal to
   graph reachability, which is what is computed here *)
Definition back_reach (g : graph) (n : node) : list node :=
  reach_steps g (n_nodes g) [n].
Definition can_have_combination (g : graph) (attrs : list bid) (n : node) : bool :=
  let r := back_reach g n in
  forallb (fun b => existsb (fun o => smem (o_where o) r) (origins g b)) attrs.
