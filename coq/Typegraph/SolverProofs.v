(* The memoised search: invariants of RecallOrFindSolution / Solve, clause (iii) of C07
   (accepted => every goal has a backward reachable origin) on acyclic graphs and on condition-free
   graphs, and the refutation of that clause on a cyclic graph with a node condition. *)
From Coq Require Import List Arith Bool Lia Relations.
From PV Require Import Typegraph.Graph Typegraph.Solver Typegraph.Spec Typegraph.SetLemmas
  Typegraph.RfgProofs Typegraph.PathProofs Typegraph.SearchProofs.
Import ListNotations.

Lemma Succ_sorted : forall g s s', Succ g s s' -> SS (snd s').
Proof.
  intros g s s' [removed [new [Hr [_ [_ [_ Hs]]]]]]. rewrite Hs.
  unfold resolves_at in Hr. apply resolves_sorted in Hr. tauto.
Qed.

Lemma Succ_reach : forall g s s', Succ g s s' -> breach g (fst s) (fst s').
Proof. intros g s s' [removed [new [_ [_ [_ [Hp _]]]]]]. eapply position_reach. exact Hp. Qed.

Lemma Succ_neq : forall g s s', Succ g s s' -> fst s' <> fst s.
Proof.
  intros g s s' [removed [new [Hr [_ [_ [Hp _]]]]]]. eapply position_neq; [|exact Hp].
  apply resolves_at_facts in Hr. tauto.
Qed.

(* ------------------------------------------------------------------------------------------ *)
(* Generic invariant of the memoised search: every `true` entry of the memo is Good or stands for
   a state that is currently on the recursion stack (the provisional entry). *)
Section Reach.
Variable g : graph.
Variable Good : state -> Prop.
Variable Ctx : state -> list state -> Prop.
Hypothesis Ctx_succ : forall s s' seen, Ctx s seen -> Succ g s s' -> Ctx s' (s :: seen).
Hypothesis Ctx_weaken : forall s x seen, Ctx s (x :: seen) -> Ctx s seen.
Hypothesis Ctx_nil : forall s, Ctx s [].
Hypothesis Step : forall s seen, SS (snd s) -> Ctx s seen ->
  (Leaf g s \/ exists s', Succ g s s' /\ (Good s' \/ In s' (s :: seen))) -> Good s.

Definition Inv (m : memo) (seen : list state) : Prop :=
  forall s, memo_get s m = Some true -> Good s \/ In s seen.

Lemma recall_reach : forall fuel0 fuel st s seen st' r,
  recall_or_find fuel0 fuel g st s seen = Some (st', r) ->
  SS (snd s) -> Ctx s seen -> pc_exact g (s_paths st) -> Inv (s_memo st) seen ->
  pc_exact g (s_paths st') /\ Inv (s_memo st') seen /\ (r = true -> Good s \/ In s seen).
Proof.
  intros fuel0. induction fuel as [|f IH]; intros st s seen st' r H Hss Hctx Hpc Hinv; [discriminate|].
  simpl in H. destruct (memo_get s (s_memo st)) as [b|] eqn:Em.
  - inversion H; subst. split; [exact Hpc|]. split; [exact Hinv|]. intros Hr. subst. apply Hinv. exact Em.
  - set (seen1 := if seen_mem s seen then seen else s :: seen) in *.
    assert (Hs1 : In s seen1).
    { subst seen1. destruct (seen_mem s seen) eqn:E; [apply seen_mem_In; exact E | left; reflexivity]. }
    assert (Hsub : forall t, In t seen -> In t seen1).
    { subst seen1. intros t Ht. destruct (seen_mem s seen); [exact Ht | right; exact Ht]. }
    assert (Hsup : forall t, In t seen1 -> t = s \/ In t seen).
    { subst seen1. intros t Ht. destruct (seen_mem s seen); [right; exact Ht|].
      destruct Ht as [Ht|Ht]; [left; symmetry; exact Ht | right; exact Ht]. }
    assert (Hctx1 : forall s', Succ g s s' -> Ctx s' seen1).
    { intros s' Hs'. pose proof (Ctx_succ _ _ _ Hctx Hs') as Hc. subst seen1.
      destruct (seen_mem s seen); [eapply Ctx_weaken; exact Hc | exact Hc]. }
    destruct (find_solution (recall_or_find fuel0 f g) fuel0 g
                (mkS (memo_set s true (s_memo st)) (s_paths st)) s seen1) as [[st2 res]|] eqn:Ef; [|discriminate].
    inversion H; subst. clear H.
    assert (HP1 : P g (fun m => Inv m seen1) (mkS (memo_set s true (s_memo st)) (s_paths st))).
    { split; [exact Hpc|]. simpl. intros t Ht. rewrite memo_get_set in Ht.
      destruct (state_eqb t s) eqn:Et.
      - apply state_eqb_eq in Et. subst. right. exact Hs1.
      - destruct (Hinv t Ht) as [Hg|Hi]; [left; exact Hg | right; apply Hsub; exact Hi]. }
    destruct (find_solution_spec g (recall_or_find fuel0 f g) (fun m => Inv m seen1)
                (fun s' => Good s' \/ In s' seen1) (fun _ => True) seen1 fuel0 _ s st2 r Hss HP1) as [[A1 A2] [B _]].
    { intros st0 s' st1 r0 [HPa HPb] Hsucc Hrec.
      destruct (IH _ _ _ _ _ Hrec (Succ_sorted _ _ _ Hsucc) (Hctx1 _ Hsucc) HPa HPb) as [X [Y Z]].
      split; [split; assumption|]. split; [exact Z | auto]. }
    { exact Ef. }
    assert (Hgood : r = true -> Good s).
    { intros Hr. apply (Step s seen Hss Hctx). destruct (B Hr) as [Hl|[s' [Hs' HQ]]]; [left; exact Hl|].
      right. exists s'. split; [exact Hs'|]. destruct HQ as [HQ|HQ]; [left; exact HQ|].
      right. destruct (Hsup _ HQ) as [E|E]; [left; symmetry; exact E | right; exact E]. }
    simpl. split; [exact A1|]. split.
    + intros t Ht. rewrite memo_get_set in Ht. destruct (state_eqb t s) eqn:Et.
      * apply state_eqb_eq in Et. subst t. inversion Ht; subst. left. apply Hgood. reflexivity.
      * destruct (A2 t Ht) as [Hg|Hi]; [left; exact Hg|].
        destruct (Hsup _ Hi) as [E|E]; [|right; exact E].
        subst t. rewrite state_eqb_refl in Et. discriminate.
    + intros Hr. left. apply Hgood. exact Hr.
Qed.

Definition st_ok (st : sstate) : Prop := pc_exact g (s_paths st) /\ Inv (s_memo st) [].

Lemma st_ok_empty : st_ok sstate_empty.
Proof. split; [apply pc_exact_nil | intros s H; discriminate]. Qed.

Lemma top_reach : forall fuel st s st' r,
  recall_or_find fuel fuel g st s [] = Some (st', r) -> SS (snd s) -> st_ok st ->
  st_ok st' /\ (r = true -> Good s).
Proof.
  intros fuel st s st' r H Hss [Hpc Hinv].
  destruct (recall_reach _ _ _ _ _ _ _ H Hss (Ctx_nil s) Hpc Hinv) as [A [B C]].
  split; [split; assumption|]. intros Hr. destruct (C Hr) as [Hg|[]]. exact Hg.
Qed.

Lemma can_have_solution_reach : forall fuel attrs st n st' r,
  can_have_solution fuel g st attrs n = Some (st', r) -> st_ok st ->
  st_ok st' /\ (r = true -> forall a, In a attrs -> Good (n, [a])).
Proof.
  intros fuel. induction attrs as [|a rest IH]; intros st n st' r H Hok.
  - simpl in H. inversion H; subst. split; [exact Hok | intros _ a []].
  - simpl in H. unfold solve_single in H.
    destruct (recall_or_find fuel fuel g st (n, sof_list [a]) []) as [[st1 [|]]|] eqn:E; [| |discriminate].
    + destruct (top_reach _ _ _ _ _ E (SS_sof_list [a]) Hok) as [Hok1 Hg].
      destruct (IH _ _ _ _ H Hok1) as [Hok' Hall]. split; [exact Hok'|].
      intros Hr b [Hb|Hb]; [subst; apply Hg; reflexivity | apply Hall; assumption].
    + inversion H; subst. destruct (top_reach _ _ _ _ _ E (SS_sof_list [a]) Hok) as [Hok1 _].
      split; [exact Hok1 | discriminate].
Qed.

Lemma solve_reach : forall fuel st attrs n st' r,
  solve fuel g st attrs n = Some (st', r) -> st_ok st ->
  st_ok st' /\ (r = true -> Good (n, sof_list attrs) /\
                            (1 < length attrs -> forall a, In a attrs -> Good (n, [a]))).
Proof.
  intros fuel st attrs n st' r H Hok. unfold solve in H.
  destruct (1 <? length attrs) eqn:El.
  - destruct (can_have_solution fuel g st attrs n) as [[st1 [|]]|] eqn:Ec; [| |discriminate].
    + destruct (can_have_solution_reach _ _ _ _ _ _ Ec Hok) as [Hok1 Hall].
      destruct (top_reach _ _ _ _ _ H (SS_sof_list attrs) Hok1) as [Hok' Hg].
      split; [exact Hok'|]. intros Hr. split; [apply Hg; exact Hr | intros _; apply Hall; reflexivity].
    + inversion H; subst. destruct (can_have_solution_reach _ _ _ _ _ _ Ec Hok) as [Hok1 _].
      split; [exact Hok1 | discriminate].
  - destruct (top_reach _ _ _ _ _ H (SS_sof_list attrs) Hok) as [Hok' Hg].
    split; [exact Hok'|]. intros Hr. split; [apply Hg; exact Hr|].
    intros Hl. apply Nat.ltb_ge in El. lia.
Qed.
End Reach.

(* ------------------------------------------------------------------------------------------ *)
(* Instance 1: acyclic graphs (node conditions allowed): Good = Reach1 *)
Lemma breach_rank : forall g rank n m, ranked g rank -> breach g n m -> m = n \/ rank m < rank n.
Proof.
  intros g rank n m Hr H. induction H.
  - right. apply Hr. exact H.
  - left. reflexivity.
  - destruct IHclos_refl_trans1 as [E1|L1]; destruct IHclos_refl_trans2 as [E2|L2]; subst; auto.
    right. lia.
Qed.

Lemma origin_here : forall g b pos, find_origin g b pos <> None ->
  exists o, In o (origins g b) /\ o_where o = pos.
Proof.
  intros g b pos H. unfold find_origin in H.
  destruct (find (fun o => o_where o =? pos) (origins g b)) as [o|] eqn:E; [|congruence].
  apply find_some in E. destruct E as [E1 E2]. apply Nat.eqb_eq in E2. exists o. auto.
Qed.

Lemma In_goals_of : forall g (s : state) b, In b (snd s) -> In b (goals_of g s).
Proof.
  intros g s b H. unfold goals_of. generalize (cond g (fst s)). intros [c|]; [|exact H].
  apply In_sins. right. exact H.
Qed.

Section Acyclic.
Variable g : graph.
Variable rank : node -> nat.
Hypothesis Hrank : ranked g rank.

Definition GoodA (s : state) : Prop := Reach1 g (fst s) (snd s).
Definition CtxA (s : state) (seen : list state) : Prop :=
  forall t, In t seen -> rank (fst s) < rank (fst t).

Lemma Succ_rank : forall s s', Succ g s s' -> rank (fst s') < rank (fst s).
Proof.
  intros s s' H. destruct (breach_rank _ _ _ _ Hrank (Succ_reach _ _ _ H)) as [E|L]; [|exact L].
  exfalso. eapply Succ_neq; eauto.
Qed.

Lemma StepA : forall s seen, SS (snd s) -> CtxA s seen ->
  (Leaf g s \/ exists s', Succ g s s' /\ (GoodA s' \/ In s' (s :: seen))) -> GoodA s.
Proof.
  intros s seen Hss Hctx [[removed [Hr Hc]]|[s' [Hsucc HQ]]]; intros b Hb.
  - destruct (resolves_at_facts _ _ _ _ _ Hr) as [A [B _]].
    destruct (A b (In_goals_of _ _ _ Hb)) as [HbR|[]].
    destruct (origin_here _ _ _ (B b HbR)) as [o [Ho Hw]]. exists o. split; [exact Ho|].
    rewrite Hw. apply rt_refl.
  - pose proof (Succ_rank _ _ Hsucc) as Hlt.
    destruct HQ as [HG|[E|Hin]].
    + destruct Hsucc as [removed [new [Hr [Hc [Hne [Hp Hs]]]]]].
      destruct (resolves_at_facts _ _ _ _ _ Hr) as [A [B _]].
      destruct (A b (In_goals_of _ _ _ Hb)) as [HbR|HbN].
      * destruct (origin_here _ _ _ (B b HbR)) as [o [Ho Hw]]. exists o. split; [exact Ho|].
        rewrite Hw. apply rt_refl.
      * rewrite <- Hs in HbN. destruct (HG b HbN) as [o [Ho Hre]]. exists o. split; [exact Ho|].
        eapply rt_trans; [eapply position_reach; exact Hp | exact Hre].
    + subst s'. lia.
    + specialize (Hctx _ Hin). lia.
Qed.

Lemma CtxA_succ : forall s s' seen, CtxA s seen -> Succ g s s' -> CtxA s' (s :: seen).
Proof.
  intros s s' seen Hc Hs t [Ht|Ht].
  - subst. apply Succ_rank. exact Hs.
  - pose proof (Succ_rank _ _ Hs). specialize (Hc _ Ht). lia.
Qed.

Lemma CtxA_weaken : forall s x seen, CtxA s (x :: seen) -> CtxA s seen.
Proof. intros s x seen H t Ht. apply H. right. exact Ht. Qed.

Lemma CtxA_nil : forall s, CtxA s [].
Proof. intros s t []. Qed.

Definition st_okA := st_ok g GoodA.

Lemma solve_reach_acyclic : forall fuel st attrs n st' r,
  solve fuel g st attrs n = Some (st', r) -> st_okA st ->
  st_okA st' /\ (r = true -> Reach1 g n attrs).
Proof.
  intros fuel st attrs n st' r H Hok.
  destruct (solve_reach g GoodA CtxA CtxA_succ CtxA_weaken CtxA_nil StepA _ _ _ _ _ _ H Hok) as [A B].
  split; [exact A|]. intros Hr. destruct (B Hr) as [HG _].
  intros b Hb. apply HG. simpl. apply In_sof_list. exact Hb.
Qed.
End Acyclic.

(* ------------------------------------------------------------------------------------------ *)
(* Instance 2: graphs without node conditions, cycles allowed: Good = Reach1 on one-goal states *)
Section NoCond.
Variable g : graph.
Hypothesis Hnc : no_conditions g = true.

Definition GoodN (s : state) : Prop := forall b, snd s = [b] -> Reach1 g (fst s) [b].

Lemma goals_of_nocond : forall s, goals_of g s = snd s.
Proof. intros s. unfold goals_of. rewrite (no_conditions_cond g (fst s) Hnc). reflexivity. Qed.

Lemma resolves_at_single_absent : forall pos b R N,
  find_origin g b pos = None -> resolves_at g pos [b] (R, N) -> N = [b].
Proof.
  intros pos b R N Hno H. unfold resolves_at in H.
  assert (Ea : at_pos g pos b = false).
  { destruct (at_pos g pos b) eqn:E; [|reflexivity]. apply at_pos_origin in E. congruence. }
  simpl in H. rewrite Ea in H. simpl in H. inversion H; subst. reflexivity.
Qed.

Lemma StepN : forall s (seen : list state), SS (snd s) -> True ->
  (Leaf g s \/ exists s', Succ g s s' /\ (GoodN s' \/ In s' (s :: seen))) -> GoodN s.
Proof.
  intros [pos sg] seen Hss _ H b Hb c Hc. simpl in *. subst sg. destruct Hc as [Hc|[]]. subst c.
  destruct H as [[removed [Hr Hcf]]|[s' [[removed [new [Hr [Hcf [Hne [Hp Hs]]]]]] _]]];
    rewrite goals_of_nocond in Hr; simpl in Hr;
    destruct (resolves_at_facts _ _ _ _ _ Hr) as [A [B C]].
  - destruct (A b (or_introl eq_refl)) as [HbR|[]].
    destruct (origin_here _ _ _ (B b HbR)) as [o [Ho Hw]]. exists o. split; [exact Ho|].
    rewrite Hw. apply rt_refl.
  - destruct (A b (or_introl eq_refl)) as [HbR|HbN].
    + destruct (origin_here _ _ _ (B b HbR)) as [o [Ho Hw]]. exists o. split; [exact Ho|].
      rewrite Hw. apply rt_refl.
    + pose proof (resolves_at_single_absent _ _ _ _ (C b HbN) Hr) as HN.
      destruct Hp as [fin [path [Hf [Hcomp Hw]]]].
      apply In_finish_nodes in Hf. destruct Hf as [b' [o [Hb' [Ho Hwo]]]].
      rewrite HN in Hb'. destruct Hb' as [Hb'|[]]. subst b'. exists o. split; [exact Ho|].
      rewrite Hwo. destruct (fnb_compute_spec g _ _ _ _ _ Hcomp) as [Hex _].
      eapply creach_breach. apply Hex. reflexivity.
Qed.

Definition st_okN := st_ok g GoodN.

Lemma solve_reach_nocond : forall fuel st attrs n st' r,
  solve fuel g st attrs n = Some (st', r) -> st_okN st ->
  st_okN st' /\ (r = true -> Reach1 g n attrs).
Proof.
  intros fuel st attrs n st' r H Hok.
  destruct (solve_reach g GoodN (fun _ _ => True) (fun _ _ _ _ _ => I) (fun _ _ _ _ => I) (fun _ => I)
              StepN _ _ _ _ _ _ H Hok) as [A B].
  split; [exact A|]. intros Hr. destruct (B Hr) as [HG Hall].
  destruct attrs as [|a [|a2 rest]].
  - intros b [].
  - apply (HG a). reflexivity.
  - intros b Hb. assert (Hl : 1 < length (a :: a2 :: rest)) by (simpl; lia).
    specialize (Hall Hl b Hb b eq_refl). apply Hall. left. reflexivity.
Qed.
End NoCond.

(* ------------------------------------------------------------------------------------------ *)
(* sequences of queries answered by one solver *)
Lemma run_queries_reach : forall g (ok : sstate -> Prop),
  (forall fuel st attrs n st' r, solve fuel g st attrs n = Some (st', r) -> ok st ->
                                 ok st' /\ (r = true -> Reach1 g n attrs)) ->
  forall fuel qs st st' answers,
  run_queries fuel g st qs = Some (st', answers) -> ok st ->
  ok st' /\ Forall2 (fun q a => a = true -> Reach1 g (snd q) (fst q)) qs answers.
Proof.
  intros g ok Hsolve fuel. induction qs as [|[attrs n] rest IH]; intros st st' answers H Hok.
  - simpl in H. inversion H; subst. split; [exact Hok | constructor].
  - simpl in H. destruct (solve fuel g st attrs n) as [[st1 a]|] eqn:E; [|discriminate].
    destruct (run_queries fuel g st1 rest) as [[st2 ans]|] eqn:E2; [|discriminate].
    inversion H; subst. destruct (Hsolve _ _ _ _ _ _ E Hok) as [Hok1 Ha].
    destruct (IH _ _ _ E2 Hok1) as [Hok2 Hall]. split; [exact Hok2|].
    constructor; [exact Ha | exact Hall].
Qed.

Theorem accepted_reachable_acyclic_lemma : forall g fuel qs st' answers,
  acyclic g ->
  run_queries fuel g sstate_empty qs = Some (st', answers) ->
  Forall2 (fun q a => a = true -> Reach1 g (snd q) (fst q)) qs answers.
Proof.
  intros g fuel qs st' answers [rank Hrank] H.
  destruct (run_queries_reach g (st_okA g) (solve_reach_acyclic g rank Hrank) fuel qs _ _ _ H
              (st_ok_empty g (GoodA g))) as [_ A].
  exact A.
Qed.

Theorem accepted_reachable_nocond_lemma : forall g fuel qs st' answers,
  no_conditions g = true ->
  run_queries fuel g sstate_empty qs = Some (st', answers) ->
  Forall2 (fun q a => a = true -> Reach1 g (snd q) (fst q)) qs answers.
Proof.
  intros g fuel qs st' answers Hnc H.
  destruct (run_queries_reach g (st_okN g) (solve_reach_nocond g Hnc) fuel qs _ _ _ H
              (st_ok_empty g (GoodN g))) as [_ A].
  exact A.
Qed.

Theorem accepted_reachable_partial_lemma : forall g fuel qs st' answers,
  acyclic g \/ no_conditions g = true ->
  run_queries fuel g sstate_empty qs = Some (st', answers) ->
  Forall2 (fun q a => a = true -> Reach1 g (snd q) (fst q)) qs answers.
Proof.
  intros g fuel qs st' answers [H|H] Hr.
  - eapply accepted_reachable_acyclic_lemma; eauto.
  - eapply accepted_reachable_nocond_lemma; eauto.
Qed.

(* the clause is false on a cyclic graph with a node condition: binding 0 has no origin at all,
   node 2 carries condition binding 1, bindings 1 and 2 explain each other around the loop 0 <-> 1 *)
Definition refute_iii : graph :=
  mkGraph [mkNode [1] None; mkNode [0] None; mkNode [0] (Some 1)]
          [mkBinding 0 []; mkBinding 1 [mkOrigin 0 [[2]]]; mkBinding 2 [mkOrigin 1 [[1]]]].

Theorem accepted_reachable_refuted_lemma :
  exists g fuel n S, wf_graph g = true /\ solve_fresh fuel g S n = Some true /\ ~ Reach1 g n S.
Proof.
  exists refute_iii, 100, 2, [0]. split; [vm_compute; reflexivity|]. split; [vm_compute; reflexivity|].
  intros H. destruct (H 0 (or_introl eq_refl)) as [o [Ho _]]. exact Ho.
Qed.

(* a checkable sufficient condition for acyclicity: every edge goes from a smaller to a larger id *)
Definition topo_ids (g : graph) : bool :=
  forallb_i (fun i n => forallb (fun m => m <? i) (n_incoming n)) 0 (g_nodes g).

Lemma forallb_i_nth : forall {A} (f : nat -> A -> bool) l k j d,
  forallb_i f k l = true -> j < length l -> f (k + j) (nth j l d) = true.
Proof.
  intros A f. induction l as [|x t IH]; intros k j d H Hj; [simpl in Hj; lia|].
  simpl in H. apply andb_true_iff in H. destruct H as [H1 H2].
  destruct j as [|j]; simpl.
  - rewrite Nat.add_0_r. exact H1.
  - rewrite <- Nat.add_succ_comm. apply IH; [exact H2 | simpl in Hj; lia].
Qed.

Lemma topo_ids_acyclic : forall g, topo_ids g = true -> acyclic g.
Proof.
  intros g H. exists (fun n => n). intros n m Hm. unfold incoming, get_node in Hm.
  destruct (Nat.lt_ge_cases n (length (g_nodes g))) as [Hlt|Hge].
  - pose proof (forallb_i_nth _ _ 0 n (mkNode [] None) H Hlt) as Hf. simpl in Hf.
    rewrite forallb_forall in Hf. specialize (Hf m Hm). apply Nat.ltb_lt in Hf. exact Hf.
  - rewrite nth_overflow in Hm by exact Hge. destruct Hm.
Qed.

(* Clause (ii) is false for the code as it is: FindNodeBackwards reports node 1 as a conditional
   articulation point between node 5 and node 0 although the walk 5,3,2,0 avoids it (the search for
   the next articulation point only follows detours that leave the shortest path at the current
   node); node 1's condition is unsatisfiable, the walk 5,3,2,0 carries no condition at all. *)
Definition refute_ii : graph :=
  mkGraph [mkNode [] None; mkNode [0] (Some 1); mkNode [0] None; mkNode [1; 2] None; mkNode [1] None;
           mkNode [3; 4] None]
          [mkBinding 0 [mkOrigin 0 [[]]]; mkBinding 1 []].

Lemma refute_ii_pass : forall n, n = 5 \/ n = 3 \/ n = 2 ->
  resolves_at refute_ii n (with_cond refute_ii n [0]) ([], [0]) /\
  smem n (blocked_of refute_ii [0]) = false.
Proof.
  intros n [H|[H|H]]; subst; (split; [exact (R_done refute_ii _ _ _ _) | reflexivity]).
Qed.

Theorem complete_with_conditions_refuted_lemma :
  exists g fuel n S, wf_graph g = true /\ acyclic g /\ ExplC g n S /\ solve_fresh fuel g S n = Some false.
Proof.
  exists refute_ii, 100, 5, [0]. split; [reflexivity|]. split; [apply topo_ids_acyclic; reflexivity|].
  split; [|vm_compute; reflexivity].
  destruct (refute_ii_pass 5 (or_introl eq_refl)) as [A5 B5].
  destruct (refute_ii_pass 3 (or_intror (or_introl eq_refl))) as [A3 B3].
  destruct (refute_ii_pass 2 (or_intror (or_intror eq_refl))) as [A2 B2].
  eapply EC_step; [exact A5 | reflexivity | exact B5 | left; reflexivity |].
  eapply EC_step; [exact A3 | reflexivity | exact B3 | right; left; reflexivity |].
  eapply EC_step; [exact A2 | reflexivity | exact B2 | left; reflexivity |].
  eapply EC_done with (removed := [0]); [|reflexivity].
  unfold resolves_at. simpl.
  eapply R_rem with (o := mkOrigin 0 [[]]) (ss := []); [reflexivity | reflexivity | left; reflexivity |].
  exact (R_done refute_ii _ _ _ _).
Qed.

(* Clause (iv) is false on graphs with a CFG cycle: loop 1 <-> 2, binding 0 (node 1) from binding 1,
   binding 1 (node 2) from binding 0, binding 2 at the entry node; no node conditions.  A fresh
   solver accepts {0,1,2} at node 4 and rejects {1,2}: whether the provisional memo entry is taken
   for an answer depends on the seen_states rule `new_positions.size() > 1`, hence on the goal set.
   The last component shows the history dependence (C08): after {0,1,2} the same solver accepts {1,2}. *)
Definition refute_iv : graph :=
  mkGraph [mkNode [] None; mkNode [0; 2] None; mkNode [1] None; mkNode [2] None; mkNode [3] None]
          [mkBinding 0 [mkOrigin 1 [[1]]]; mkBinding 1 [mkOrigin 2 [[0]]]; mkBinding 2 [mkOrigin 0 [[]]]].

Theorem subset_closed_refuted_lemma :
  exists g fuel n S S', wf_graph g = true /\ no_conditions g = true /\ incl S' S /\
    solve_fresh fuel g S n = Some true /\ solve_fresh fuel g S' n = Some false /\
    option_map snd (run_queries fuel g sstate_empty [(S, n); (S', n)]) = Some [true; true].
Proof.
  exists refute_iv, 100, 4, [0; 1; 2], [1; 2].
  split; [reflexivity|]. split; [reflexivity|].
  split; [intros x [H|[H|[]]]; subst; simpl; auto|].
  split; [vm_compute; reflexivity|]. split; vm_compute; reflexivity.
Qed.

(* Clause (iv) is also false on ACYCLIC graphs that carry a node condition (a consequence of the
   false-articulation-point defect of clause (ii)): goals 0,2,4 (variables 0,1,2) originate at node 0,
   each variable is re-bound at one inner node (bindings 1,3,5 at nodes 8,6,9), so the blocked set -
   and the shortest path FindNodeBackwards follows from node 10 - depends on which goals are pending.
   {0,2}: blocked {0,8,6}, the shortest path runs over node 5 and node 1 is (wrongly) taken for a
   conditional articulation point; its condition (binding 6) is unsatisfiable: rejected.
   {0,2,4}: node 9 is blocked too; accepted.  Every single goal is accepted. *)
Definition refute_iv_acyc : graph :=
  mkGraph [mkNode [] None; mkNode [0] (Some 6); mkNode [0] None; mkNode [0] None; mkNode [0] None;
           mkNode [1; 2] None; mkNode [3] None; mkNode [1] None; mkNode [4] None; mkNode [7] None;
           mkNode [8; 6; 5; 9] None]
          [mkBinding 0 [mkOrigin 0 [[]]]; mkBinding 0 [mkOrigin 8 [[]]]; mkBinding 1 [mkOrigin 0 [[]]];
           mkBinding 1 [mkOrigin 6 [[]]]; mkBinding 2 [mkOrigin 0 [[]]]; mkBinding 2 [mkOrigin 9 [[]]];
           mkBinding 3 []].

Theorem subset_closed_acyclic_cond_refuted_lemma :
  exists g fuel n S S', wf_graph g = true /\ acyclic g /\ incl S' S /\
    solve_fresh fuel g S n = Some true /\ solve_fresh fuel g S' n = Some false /\
    option_map snd (run_queries fuel g sstate_empty [(S, n); (S', n)]) = Some [true; false].
Proof.
  exists refute_iv_acyc, 100, 10, [0; 2; 4], [0; 2].
  split; [reflexivity|]. split; [apply topo_ids_acyclic; reflexivity|].
  split; [intros x [H|[H|[]]]; subst; simpl; auto|].
  split; [vm_compute; reflexivity|]. split; vm_compute; reflexivity.
Qed.
