(* Bridge between the C07 solver model and the C09 model of reachable.cc.
   CFGNode::CanHaveCombination asks the bit matrix: backward_reachability_->is_reachable(this->id(),
   origin->where->id()), i.e. (Program::is_reachable(src,dst) = backward is_reachable(dst,src))
   Reach.is_reachable p where this.  The C07 model (Solver.can_have_combination) instead computes the
   set of nodes backward reachable from `this` over the incoming lists (Solver.back_reach) and tests
   membership.  Here: for a graph whose incoming lists were built by a history h of NewCFGNode /
   ConnectTo operations, the two tests are equal - using C09's theorem that the bit matrix is the
   reflexive-transitive closure of the inserted edges. *)
From Coq Require Import List Arith Bool Lia Relations.
From PV Require Import Typegraph.Graph Typegraph.Solver Typegraph.Spec Typegraph.SetLemmas.
From PV Require Typegraph.Reach Typegraph.ReachProofs.
Import ListNotations.

(* ---------------------------------------------------------------- back_reach is the closure *)
Section Closure.
Variable g : graph.
Hypothesis Hrange : forall n m, In m (incoming g n) -> m < n_nodes g.

Definition stepF (F : list node) : list node := sunion F (flat_map (incoming g) F).
Definition closed (F : list node) : Prop := forall x, In x F -> forall m, In m (incoming g x) -> In m F.
Definition closedb (F : list node) : bool :=
  forallb (fun x => forallb (fun m => smem m F) (incoming g x)) F.

Lemma reach_steps_S : forall k F, reach_steps g (S k) F = reach_steps g k (stepF F).
Proof. reflexivity. Qed.

Lemma In_stepF : forall F x, In x (stepF F) <-> In x F \/ exists y, In y F /\ In x (incoming g y).
Proof. intros. unfold stepF. rewrite In_sunion, in_flat_map. tauto. Qed.

Lemma closedb_true : forall F, closedb F = true -> closed F.
Proof.
  intros F H x Hx m Hm. unfold closedb in H. rewrite forallb_forall in H. specialize (H x Hx).
  rewrite forallb_forall in H. apply smem_In. apply H. exact Hm.
Qed.

Lemma forallb_false : forall {A} (f : A -> bool) l, forallb f l = false -> exists x, In x l /\ f x = false.
Proof.
  intros A f. induction l as [|a t IH]; simpl; intros H; [discriminate|].
  destruct (f a) eqn:E; [|exists a; auto]. destruct (IH H) as [x [Hx Hf]]. exists x. auto.
Qed.

Lemma closedb_false : forall F, closedb F = false ->
  exists x m, In x F /\ In m (incoming g x) /\ ~ In m F.
Proof.
  intros F H. unfold closedb in H. apply forallb_false in H. destruct H as [x [Hx H]].
  apply forallb_false in H. destruct H as [m [Hm H]]. exists x, m. split; [exact Hx|]. split; [exact Hm|].
  apply smem_false. exact H.
Qed.

Lemma stepF_closed_id : forall F, SS F -> closed F -> stepF F = F.
Proof.
  intros F Hs Hc. apply SS_ext; [apply SS_sunion; exact Hs | exact Hs|].
  intros x. rewrite In_stepF. split; [|auto]. intros [H|[y [Hy Hx]]]; [exact H | eapply Hc; eauto].
Qed.

Lemma reach_steps_closed : forall k F, SS F -> closed F -> reach_steps g k F = F.
Proof.
  induction k as [|k IH]; intros F Hs Hc; [reflexivity|].
  rewrite reach_steps_S, stepF_closed_id by assumption. apply IH; assumption.
Qed.

Lemma reach_steps_incl : forall k F x, In x F -> In x (reach_steps g k F).
Proof.
  induction k as [|k IH]; intros F x H; [exact H|]. rewrite reach_steps_S. apply IH. apply In_stepF. auto.
Qed.

Lemma reach_steps_SS : forall k F, SS F -> SS (reach_steps g k F).
Proof.
  induction k as [|k IH]; intros F H; [exact H|]. rewrite reach_steps_S. apply IH. apply SS_sunion. exact H.
Qed.

Definition bounded (F : list node) : Prop := forall x, In x F -> x < n_nodes g.

Lemma stepF_bounded : forall F, bounded F -> bounded (stepF F).
Proof. intros F H x Hx. apply In_stepF in Hx. destruct Hx as [Hx|[y [Hy Hx]]]; [auto | eapply Hrange; eauto]. Qed.

Lemma reach_steps_bounded : forall k F, bounded F -> bounded (reach_steps g k F).
Proof.
  induction k as [|k IH]; intros F H; [exact H|]. rewrite reach_steps_S. apply IH. apply stepF_bounded. exact H.
Qed.

Lemma SS_NoDup : forall l, SS l -> NoDup l.
Proof.
  induction l as [|x t IH]; intros H; [constructor|].
  destruct (SS_cons_inv _ _ H) as [H1 H2]. constructor; [|apply IH; exact H1].
  intros Hin. specialize (H2 _ Hin). lia.
Qed.

Lemma bounded_length : forall F, SS F -> bounded F -> length F <= n_nodes g.
Proof.
  intros F Hs Hb. rewrite <- (seq_length (n_nodes g) 0). apply NoDup_incl_length; [apply SS_NoDup; exact Hs|].
  intros x Hx. apply in_seq. specialize (Hb x Hx). split; [apply Nat.le_0_l | simpl; exact Hb].
Qed.

Lemma stepF_grows : forall F, SS F -> closedb F = false -> length F < length (stepF F).
Proof.
  intros F Hs H. destruct (closedb_false F H) as [x [m [Hx [Hm Hn]]]].
  assert (Hlen : length (m :: F) <= length (stepF F)).
  { apply NoDup_incl_length.
    - constructor; [exact Hn | apply SS_NoDup; exact Hs].
    - intros y [Hy|Hy]; apply In_stepF; [subst; right; exists x; auto | left; exact Hy]. }
  change (S (length F) <= length (stepF F)) in Hlen. lia.
Qed.

Lemma saturate : forall k F, SS F ->
  closed (reach_steps g k F) \/ length F + k <= length (reach_steps g k F).
Proof.
  induction k as [|k IH]; intros F Hs; [right; rewrite Nat.add_0_r; apply Nat.le_refl|].
  destruct (closedb F) eqn:E.
  - left. rewrite reach_steps_closed; [|exact Hs|]; apply closedb_true; exact E.
  - rewrite reach_steps_S. pose proof (stepF_grows F Hs E) as Hg.
    destruct (IH (stepF F) (SS_sunion _ _ Hs)) as [Hc|Hl]; [left; exact Hc | right; unfold node in *; lia].
Qed.

Lemma closed_reach : forall F, closed F -> forall a b, breach g a b -> In a F -> In b F.
Proof.
  intros F Hc a b H. induction H; intros Ha.
  - eapply Hc; eauto.
  - exact Ha.
  - auto.
Qed.

Lemma reach_steps_sound : forall n k F, (forall y, In y F -> breach g n y) ->
  forall x, In x (reach_steps g k F) -> breach g n x.
Proof.
  intros n. induction k as [|k IH]; intros F HF x Hx; [apply HF; exact Hx|].
  rewrite reach_steps_S in Hx. eapply IH; [|exact Hx].
  intros y Hy. apply In_stepF in Hy. destruct Hy as [Hy|[z [Hz Hy]]]; [apply HF; exact Hy|].
  eapply rt_trans; [apply HF; exact Hz | apply rt_step; exact Hy].
Qed.

(* Solver.back_reach g n is exactly the set of nodes backward reachable from n *)
Theorem back_reach_correct : forall n x, n < n_nodes g ->
  (smem x (back_reach g n) = true <-> breach g n x).
Proof.
  intros n x Hn. rewrite smem_In. unfold back_reach. split.
  - apply reach_steps_sound. intros y [Hy|[]]. subst. apply rt_refl.
  - intros Hb.
    assert (Hs : SS [n]) by reflexivity.
    assert (Hbd : bounded [n]) by (intros y [Hy|[]]; subst; exact Hn).
    destruct (saturate (n_nodes g) [n] Hs) as [Hc|Hl].
    + eapply closed_reach; [exact Hc | exact Hb|]. apply reach_steps_incl. left. reflexivity.
    + exfalso. pose proof (bounded_length _ (reach_steps_SS (n_nodes g) [n] Hs)
                             (reach_steps_bounded (n_nodes g) [n] Hbd)). simpl in Hl. unfold node in *. lia.
Qed.
End Closure.

(* ---------------------------------------------------------------- incoming lists of a history *)
(* CFGNode::incoming_ after a history of Program::NewCFGNode / CFGNode::ConnectTo (typegraph.cc:128:
   self edges and duplicate edges are ignored; a.ConnectTo(b) appends a to b.incoming_) *)
Definition inc_step (inc : list (list nat)) (o : Reach.op) : list (list nat) :=
  match o with
  | Reach.NewNode => inc ++ [[]]
  | Reach.Connect a b =>
    if Nat.eqb a b then inc
    else if existsb (Nat.eqb a) (nth b inc []) then inc
    else Reach.upd b (nth b inc [] ++ [a]) inc
  end.
Definition inc_of_hist (h : list Reach.op) : list (list nat) := fold_left inc_step h [].

(* the solver graph has exactly these incoming lists (conditions and bindings are arbitrary) *)
Definition built_by (g : graph) (h : list Reach.op) : Prop := map n_incoming (g_nodes g) = inc_of_hist h.

Definition inc_rel (inc : list (list nat)) (E : list (nat * nat)) : Prop :=
  forall n m, In m (nth n inc []) <-> (In (m, n) E /\ m <> n).

Lemma inc_run : forall h inc E,
  inc_rel inc E -> Reach.wf_hist_from (length inc) h = true ->
  inc_rel (fold_left inc_step h inc) (rev (Reach.edges h) ++ E) /\
  length (fold_left inc_step h inc) = length inc + Reach.count_nodes h.
Proof.
  induction h as [|o h IH]; intros inc E Hr Hwf.
  - simpl. split; [exact Hr | lia].
  - destruct o as [|a b]; cbn [fold_left inc_step Reach.edges Reach.count_nodes Reach.wf_hist_from] in *.
    + destruct (IH (inc ++ [[]]) E) as [I1 I2].
      * intros n m. destruct (Nat.lt_ge_cases n (length inc)) as [Hl|Hg].
        -- rewrite app_nth1 by exact Hl. apply Hr.
        -- rewrite <- (Hr n m). rewrite (nth_overflow inc) by exact Hg.
           destruct (Nat.eq_dec n (length inc)) as [He|Hne].
           ++ subst. rewrite app_nth2, Nat.sub_diag by lia. simpl. tauto.
           ++ rewrite nth_overflow by (rewrite app_length; simpl; lia). tauto.
      * rewrite app_length. simpl. replace (length inc + 1) with (S (length inc)) by lia. exact Hwf.
      * split; [exact I1|]. rewrite I2, app_length. simpl. lia.
    + apply andb_prop in Hwf. destruct Hwf as [Hab Hwf]. apply andb_prop in Hab. destruct Hab as [Ha Hb].
      apply Nat.ltb_lt in Ha. apply Nat.ltb_lt in Hb.
      assert (Hgoal : forall inc', length inc' = length inc -> inc_rel inc' ((a, b) :: E) ->
                inc_rel (fold_left inc_step h inc') (rev (Reach.edges h) ++ (a, b) :: E) /\
                length (fold_left inc_step h inc') = length inc + Reach.count_nodes h).
      { intros inc' Hlen Hr'. destruct (IH inc' ((a, b) :: E) Hr') as [I1 I2]; [rewrite Hlen; exact Hwf|].
        split; [exact I1 | rewrite I2, Hlen; reflexivity]. }
      simpl. rewrite <- app_assoc. simpl.
      destruct (Nat.eqb a b) eqn:Eab.
      * apply Nat.eqb_eq in Eab. subst b. apply Hgoal; [reflexivity|].
        intros n m. rewrite (Hr n m). split.
        -- intros [H1 H2]. split; [right; exact H1 | exact H2].
        -- intros [[H1|H1] H2]; [inversion H1; subst; congruence | split; assumption].
      * apply Nat.eqb_neq in Eab.
        destruct (existsb (Nat.eqb a) (nth b inc [])) eqn:Eex.
        -- apply Hgoal; [reflexivity|]. apply existsb_exists in Eex. destruct Eex as [a' [Hin He]].
           apply Nat.eqb_eq in He. subst a'.
           intros n m. rewrite (Hr n m). split.
           ++ intros [H1 H2]. split; [right; exact H1 | exact H2].
           ++ intros [[H1|H1] H2]; [|split; assumption]. inversion H1; subst. apply Hr. exact Hin.
        -- apply Hgoal; [apply ReachProofs.length_upd|].
           intros n m. destruct (Nat.eq_dec n b) as [He|Hne].
           ++ subst n. rewrite ReachProofs.nth_upd_eq by exact Hb. rewrite in_app_iff, (Hr b m). simpl. split.
              ** intros [[H1 H2]|[H1|[]]]; [split; [right; exact H1 | exact H2]|]. subst m. split; [left; reflexivity | exact Eab].
              ** intros [[H1|H1] H2]; [inversion H1; subst; right; left; reflexivity | left; split; assumption].
           ++ rewrite ReachProofs.nth_upd_neq by congruence. rewrite (Hr n m). split.
              ** intros [H1 H2]. split; [right; exact H1 | exact H2].
              ** intros [[H1|H1] H2]; [inversion H1; subst; congruence | split; assumption].
Qed.

Lemma inc_of_hist_spec : forall h, Reach.wf_hist h = true ->
  inc_rel (inc_of_hist h) (Reach.edges h) /\ length (inc_of_hist h) = Reach.count_nodes h.
Proof.
  intros h Hwf. destruct (inc_run h [] []) as [I1 I2].
  - intros n m. destruct n; simpl; tauto.
  - exact Hwf.
  - split; [|exact I2]. intros n m. rewrite (I1 n m), app_nil_r, <- in_rev. tauto.
Qed.

Lemma forallb_ext_in' : forall {A} (f f' : A -> bool) l, (forall x, In x l -> f x = f' x) -> forallb f l = forallb f' l.
Proof.
  intros A f f'. induction l as [|a t IH]; intros H; [reflexivity|]. simpl.
  rewrite (H a (or_introl eq_refl)), IH; [reflexivity|]. intros x Hx. apply H. right. exact Hx.
Qed.
Lemma existsb_ext_in' : forall {A} (f f' : A -> bool) l, (forall x, In x l -> f x = f' x) -> existsb f l = existsb f' l.
Proof.
  intros A f f'. induction l as [|a t IH]; intros H; [reflexivity|]. simpl.
  rewrite (H a (or_introl eq_refl)), IH; [reflexivity|]. intros x Hx. apply H. right. exact Hx.
Qed.

(* ---------------------------------------------------------------- the bridge *)
Section Bridge.
Variable g : graph.
Variable h : list Reach.op.
Hypothesis Hwf : Reach.wf_hist h = true.
Hypothesis Hbuilt : built_by g h.

Lemma incoming_hist : forall n, incoming g n = nth n (inc_of_hist h) [].
Proof.
  intros n. unfold incoming, get_node. rewrite <- Hbuilt.
  exact (eq_sym (map_nth n_incoming (g_nodes g) (mkNode [] None) n)).
Qed.

Lemma n_nodes_hist : n_nodes g = Reach.nodes (Reach.run h).
Proof.
  destruct (ReachProofs.run_Inv h Hwf) as [_ Hn]. destruct (inc_of_hist_spec h Hwf) as [_ Hl].
  unfold n_nodes. rewrite <- (map_length n_incoming (g_nodes g)).
  unfold built_by in Hbuilt. rewrite Hbuilt. exact (eq_trans Hl (eq_sym Hn)).
Qed.

Lemma edges_in_range : forall a b, In (a, b) (Reach.edges h) -> a < n_nodes g /\ b < n_nodes g.
Proof.
  intros a b H. destruct (ReachProofs.run_Inv h Hwf) as [HI _].
  rewrite n_nodes_hist. exact (ReachProofs.inv_edges _ _ HI a b H).
Qed.

Lemma incoming_edge : forall n m, In m (incoming g n) <-> (In (m, n) (Reach.edges h) /\ m <> n).
Proof. intros n m. rewrite incoming_hist. apply (proj1 (inc_of_hist_spec h Hwf)). Qed.

Lemma incoming_range : forall n m, In m (incoming g n) -> m < n_nodes g.
Proof. intros n m H. apply incoming_edge in H. destruct H as [H _]. apply edges_in_range in H. tauto. Qed.

(* backward reachability over the incoming lists = forward reachability over the inserted edges *)
Lemma breach_rtc : forall n x, breach g n x <-> ReachProofs.rtc (Reach.edges h) x n.
Proof.
  intros n x. split; intros H.
  - induction H.
    + apply rt_step. apply incoming_edge in H. exact (proj1 H).
    + apply rt_refl.
    + eapply rt_trans; eassumption.
  - induction H as [a b H| |a b c _ IH1 _ IH2].
    + destruct (Nat.eq_dec a b) as [E|E]; [subst; apply rt_refl|].
      apply rt_step. apply incoming_edge. split; assumption.
    + apply rt_refl.
    + eapply rt_trans; eassumption.
Qed.

(* the reachability test of the C07 model = the bit-matrix query CFGNode::CanHaveCombination makes:
   backward_reachability_->is_reachable(this, where) = Reach.is_reachable (run h) where this *)
Theorem back_reach_is_bit_matrix : forall this where_, this < n_nodes g -> where_ < n_nodes g ->
  smem where_ (back_reach g this) = Reach.is_reachable (Reach.run h) where_ this.
Proof.
  intros this w Ht Hw.
  assert (H1 := back_reach_correct g incoming_range this w Ht).
  assert (H2 := ReachProofs.reach_correct_lemma h w this Hwf
                  ltac:(rewrite <- n_nodes_hist; exact Hw) ltac:(rewrite <- n_nodes_hist; exact Ht)).
  rewrite breach_rtc in H1.
  destruct (smem w (back_reach g this)); destruct (Reach.is_reachable (Reach.run h) w this); try reflexivity.
  - symmetry. apply (proj2 H2). apply (proj1 H1). reflexivity.
  - apply (proj2 H1). apply (proj1 H2). reflexivity.
Qed.

(* CFGNode::CanHaveCombination, the C++ loop, over the bit matrix *)
Definition can_have_combination_matrix (attrs : list bid) (this : node) : bool :=
  forallb (fun b => existsb (fun o => Reach.is_reachable (Reach.run h) (o_where o) this) (origins g b)) attrs.

Theorem can_have_combination_bit_matrix_lemma : forall attrs this,
  this < n_nodes g ->
  (forall b o, In b attrs -> In o (origins g b) -> o_where o < n_nodes g) ->
  can_have_combination g attrs this = can_have_combination_matrix attrs this.
Proof.
  intros attrs this Ht Ho. unfold can_have_combination, can_have_combination_matrix.
  apply forallb_ext_in'. intros b Hb. apply existsb_ext_in'. intros o Hin.
  apply back_reach_is_bit_matrix; [exact Ht | eapply Ho; eauto].
Qed.
End Bridge.
