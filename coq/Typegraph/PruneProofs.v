(* C09 proofs, part 2: the Python-level CFG operations refine Reach.v, the state invariant of the variable
   tables, Variable::Prune = reaching definitions, termination of its loop, and the single-binding shortcut. *)
From Coq Require Import List NArith Arith Bool Lia Relations.
From PV Require Import Typegraph.Reach Typegraph.ReachProofs Typegraph.Prune.
Import ListNotations.

(* ------------------------------------------------------------------ small list facts *)
Lemma updf_length {A} i (f : A -> A) l : length (updf i f l) = length l.
Proof. revert i; induction l; intros [|i]; simpl; auto. Qed.

Lemma nth_updf {A} i k (f : A -> A) l d :
  nth k (updf i f l) d = if Nat.eqb i k then (if Nat.ltb k (length l) then f (nth k l d) else d) else nth k l d.
Proof.
  revert i k; induction l as [|h t IH]; intros [|i] [|k]; simpl; auto.
  - destruct (Nat.eqb i k); reflexivity.
  - rewrite IH. destruct (Nat.eqb i k); [|reflexivity].
    change (S k <? S (length t)) with (k <? length t). reflexivity.
Qed.

Lemma Forall_updf {A} (P : A -> Prop) i f l : Forall P l -> (forall x, P x -> P (f x)) -> Forall P (updf i f l).
Proof.
  intros H Hf; revert i; induction H; intros [|i]; simpl; constructor; auto.
Qed.

Lemma mem_In x l : mem x l = true <-> In x l.
Proof.
  unfold mem. rewrite existsb_exists. split.
  - intros [y [Hy He]]. apply Nat.eqb_eq in He. subst. exact Hy.
  - intro H. exists x. split; [exact H|apply Nat.eqb_refl].
Qed.
Lemma mem_false x l : mem x l = false <-> ~ In x l.
Proof. rewrite <- mem_In. destruct (mem x l); split; intros; try discriminate; auto; exfalso; auto. Qed.

Lemma sset_insert_In b l x : In x (sset_insert b l) <-> x = b \/ In x l.
Proof.
  induction l as [|h t IH]; simpl.
  - intuition.
  - destruct (Nat.ltb b h); simpl; [intuition|].
    destruct (Nat.eqb b h) eqn:E; simpl.
    + apply Nat.eqb_eq in E. subst. intuition.
    + rewrite IH. intuition.
Qed.

Lemma sset_insert_nonnil b l : sset_insert b l <> [].
Proof. destruct l as [|h t]; simpl; [discriminate|]. destruct (Nat.ltb b h); [discriminate|]. destruct (Nat.eqb b h); discriminate. Qed.

Lemma nodemap_find_register n b m k :
  nodemap_find k (nodemap_register n b m) =
  if Nat.eqb k n then Some (sset_insert b (match nodemap_find n m with Some bs => bs | None => [] end))
  else nodemap_find k m.
Proof.
  induction m as [|[k0 bs] t IH]; simpl.
  - rewrite (Nat.eqb_sym n k). destruct (Nat.eqb k n); reflexivity.
  - destruct (Nat.eqb k0 n) eqn:E0; simpl.
    + apply Nat.eqb_eq in E0. subst k0. rewrite (Nat.eqb_sym n k). destruct (Nat.eqb k n); reflexivity.
    + destruct (Nat.eqb k0 k) eqn:E1.
      * apply Nat.eqb_eq in E1. subst k0. rewrite E0. reflexivity.
      * exact IH.
Qed.

Lemma nodemap_find_In n m bs : nodemap_find n m = Some bs -> In (n, bs) m.
Proof.
  induction m as [|[k b] t IH]; simpl; [discriminate|].
  destruct (Nat.eqb k n) eqn:E.
  - apply Nat.eqb_eq in E. intro H. inversion H. subst. left. reflexivity.
  - intro H. right. auto.
Qed.
Lemma nodemap_In_find n m bs : In (n, bs) m -> exists bs', nodemap_find n m = Some bs'.
Proof.
  induction m as [|[k b] t IH]; simpl; [intros []|].
  intros [H|H].
  - inversion H. subst. rewrite Nat.eqb_refl. eauto.
  - destruct (Nat.eqb k n); eauto.
Qed.

Lemma add_results_In bs : forall r b, In b (add_results bs r) <-> In b r \/ In b bs.
Proof.
  unfold add_results. induction bs as [|h t IH]; intros r b; simpl.
  - intuition.
  - rewrite IH. destruct (mem h r) eqn:E.
    + apply mem_In in E. intuition. subst. auto.
    + rewrite in_app_iff. simpl. intuition.
Qed.
Lemma NoDup_snoc {A} (r : list A) h : NoDup r -> ~ In h r -> NoDup (r ++ [h]).
Proof.
  induction 1 as [|x l Hx Hl IH]; intro Hn; simpl.
  - constructor; [intros []|constructor].
  - constructor.
    + rewrite in_app_iff. simpl. intros [H|[H|[]]]; [auto|]. subst. apply Hn. left. reflexivity.
    + apply IH. intro H. apply Hn. right. exact H.
Qed.
Lemma add_results_NoDup bs : forall r, NoDup r -> NoDup (add_results bs r).
Proof.
  unfold add_results. induction bs as [|h t IH]; intros r Hr; simpl; [exact Hr|].
  apply IH. destruct (mem h r) eqn:E; [exact Hr|].
  apply mem_false in E. apply NoDup_snoc; auto.
Qed.

(* ------------------------------------------------------------------ the backward walk *)
Section Walk.
Variable inc : list (list nat).
Variable m : list (nat * list nat).
Variable n : nat.

(* x is reached by the backward walk from n: n itself, or a predecessor of a reached node that carries no
   binding of the variable *)
Inductive bw : nat -> Prop :=
| bw_refl : bw n
| bw_step x y : bw x -> nodemap_find x m = None -> In y (nth x inc []) -> bw y.

Record WI (stack seen result : list nat) : Prop := {
  wi_sound : forall x, In x stack \/ In x seen -> bw x;
  wi_start : In n seen \/ In n stack;
  wi_closed : forall x, In x seen -> nodemap_find x m = None ->
              forall y, In y (nth x inc []) -> In y seen \/ In y stack;
  wi_result : forall b, In b result <-> exists x bs, In x seen /\ nodemap_find x m = Some bs /\ In b bs;
  wi_nodup : NoDup result
}.

Lemma WI_init : WI [n] [] [].
Proof.
  constructor.
  - intros x [[<-|[]]|[]]. apply bw_refl.
  - right. left. reflexivity.
  - intros x [].
  - intro b. split; [intros []|]. intros [x [bs [[] _]]].
  - constructor.
Qed.

Lemma WI_step_some node rest seen result bs :
  WI (node :: rest) seen result -> nodemap_find node m = Some bs ->
  WI rest (node :: seen) (add_results bs result).
Proof.
  intros [H1 H2 H3 H4 H5] Hf. constructor.
  - intros x [H|[<-|H]]; apply H1; simpl; auto.
  - destruct H2 as [H|[<-|H]]; simpl; auto.
  - intros x [<-|Hx] Hn y Hy.
    + rewrite Hf in Hn. discriminate.
    + destruct (H3 x Hx Hn y Hy) as [H|[<-|H]]; simpl; auto.
  - intro b. rewrite add_results_In, H4. split.
    + intros [[x [bs' [Hx [Hb Hi]]]]|H].
      * exists x, bs'. simpl. auto.
      * exists node, bs. simpl. auto.
    + intros [x [bs' [[<-|Hx] [Hb Hi]]]].
      * right. rewrite Hf in Hb. inversion Hb. subst. exact Hi.
      * left. exists x, bs'. auto.
  - apply add_results_NoDup. exact H5.
Qed.

Lemma WI_step_none node rest seen result :
  WI (node :: rest) seen result -> nodemap_find node m = None ->
  WI (rev (filter (fun x => negb (mem x (node :: seen))) (nth node inc [])) ++ rest) (node :: seen) result.
Proof.
  intros [H1 H2 H3 H4 H5] Hf. constructor.
  - intros x [H|[<-|H]].
    + apply in_app_or in H. destruct H as [H|H].
      * apply in_rev, filter_In in H. destruct H as [H _].
        eapply bw_step; [|exact Hf|exact H]. apply H1. simpl. auto.
      * apply H1. simpl. auto.
    + apply H1. simpl. auto.
    + apply H1. auto.
  - destruct H2 as [H|[<-|H]]; simpl; auto. right. apply in_or_app. auto.
  - assert (Hpush : forall x y, (x = node \/ In x seen) -> nodemap_find x m = None -> In y (nth x inc []) ->
                    (In y seen \/ In y (node :: rest)) \/ x = node ->
                    In y (node :: seen) \/
                    In y (rev (filter (fun x => negb (mem x (node :: seen))) (nth node inc [])) ++ rest)).
    { intros x y _ _ Hy [[H|[<-|H]]| ->].
      - left. right. exact H.
      - left. left. reflexivity.
      - right. apply in_or_app. right. exact H.
      - destruct (mem y (node :: seen)) eqn:E.
        + apply mem_In in E. left. exact E.
        + right. apply in_or_app. left. apply -> in_rev. apply filter_In. split; [exact Hy|].
          cbv beta. rewrite E. reflexivity. }
    intros x [<-|Hx] Hn y Hy.
    + apply (Hpush node y); auto.
    + apply (Hpush x y); auto. left. apply (H3 x Hx Hn y Hy).
  - intro b. rewrite H4. split; intros [x [bs [Hx [Hb Hi]]]].
    + exists x, bs. simpl. auto.
    + destruct Hx as [<-|Hx]; [rewrite Hf in Hb; discriminate|]. exists x, bs. auto.
  - exact H5.
Qed.

Lemma WI_final seen result : WI [] seen result ->
  NoDup result /\ forall b, In b result <-> exists x bs, bw x /\ nodemap_find x m = Some bs /\ In b bs.
Proof.
  intros [H1 H2 H3 H4 H5]. split; [exact H5|].
  assert (Hall : forall x, bw x -> In x seen).
  { induction 1 as [|x y Hx IH Hn Hy].
    - destruct H2 as [H|[]]. exact H.
    - destruct (H3 x IH Hn y Hy) as [H|[]]. exact H. }
  intro b. rewrite H4. split; intros [x [bs [Hx Hr]]]; exists x, bs; split; auto.
Qed.

Lemma prune_walk_sound fuel : forall stack seen result r,
  WI stack seen result -> prune_walk fuel inc m stack seen result = Some r ->
  NoDup r /\ forall b, In b r <-> exists x bs, bw x /\ nodemap_find x m = Some bs /\ In b bs.
Proof.
  induction fuel as [|f IH]; intros stack seen result r HW Hr.
  - destruct stack; simpl in Hr; [|discriminate]. inversion Hr. subst. apply WI_final with seen. exact HW.
  - destruct stack as [|node rest]; simpl in Hr.
    + inversion Hr. subst. apply WI_final with seen. exact HW.
    + destruct (nodemap_find node m) as [bs|] eqn:Hf.
      * eapply IH; [|exact Hr]. apply WI_step_some; assumption.
      * eapply IH; [|exact Hr]. apply WI_step_none; assumption.
Qed.

(* ---- termination: the stack discipline makes a second pop of a node push nothing ---- *)
Definition LIFO (stack seen : list nat) : Prop :=
  forall x, In x seen -> nodemap_find x m = None ->
  forall y, In y (nth x inc []) -> ~ In y seen ->
  forall pre post, stack = pre ++ x :: post -> In y pre.

Lemma split_push (pushed rest pre post : list nat) x :
  pushed ++ rest = pre ++ x :: post -> ~ In x pushed ->
  exists pre', pre = pushed ++ pre' /\ rest = pre' ++ x :: post.
Proof.
  revert pre. induction pushed as [|h t IH]; intros pre He Hn; simpl in *.
  - exists pre. auto.
  - destruct pre as [|p pre]; simpl in He; inversion He; subst.
    + exfalso. apply Hn. left. reflexivity.
    + destruct (IH pre H1) as [pre' [-> ->]]; [intro; apply Hn; right; assumption|].
      exists pre'. auto.
Qed.

Lemma LIFO_init : LIFO [n] [].
Proof. intros x []. Qed.

Lemma LIFO_step_some node rest seen :
  LIFO (node :: rest) seen -> nodemap_find node m <> None -> LIFO rest (node :: seen).
Proof.
  intros HL Hf x [<-|Hx] Hn y Hy Hys pre post He; [contradiction|].
  assert (In y (node :: pre)) as [<-|H].
  { apply (HL x Hx Hn y Hy) with post; [|subst; reflexivity]. intro. apply Hys. right. assumption. }
  - exfalso. apply Hys. left. reflexivity.
  - exact H.
Qed.

Lemma LIFO_step_none node rest seen :
  LIFO (node :: rest) seen -> nodemap_find node m = None ->
  LIFO (rev (filter (fun x => negb (mem x (node :: seen))) (nth node inc [])) ++ rest) (node :: seen).
Proof.
  intros HL Hf x Hx Hn y Hy Hys pre post He.
  set (pushed := rev (filter (fun x => negb (mem x (node :: seen))) (nth node inc []))) in *.
  assert (Hxp : ~ In x pushed).
  { unfold pushed. intro H. apply in_rev, filter_In in H. destruct H as [_ H].
    apply negb_true_iff, mem_false in H. auto. }
  destruct (split_push pushed rest pre post x He Hxp) as [pre' [-> Hrest]].
  apply in_or_app.
  destruct (Nat.eq_dec x node) as [->|Hne].
  - left. unfold pushed. apply -> in_rev. apply filter_In. split; [exact Hy|].
    apply negb_true_iff, mem_false. exact Hys.
  - destruct Hx as [Hx|Hx]; [congruence|]. right.
    assert (In y (node :: pre')) as [<-|H].
    { apply (HL x Hx Hn y Hy) with post; [|rewrite Hrest; reflexivity]. intro. apply Hys. right. assumption. }
    + exfalso. apply Hys. left. reflexivity.
    + exact H.
Qed.

(* a node popped again (already in seen, no binding) has no unseen predecessor left *)
Lemma LIFO_repop node rest seen :
  LIFO (node :: rest) seen -> In node seen -> nodemap_find node m = None ->
  filter (fun x => negb (mem x (node :: seen))) (nth node inc []) = [].
Proof.
  intros HL Hs Hf.
  destruct (filter _ _) as [|y t] eqn:E; [reflexivity|exfalso].
  assert (Hy : In y (filter (fun x => negb (mem x (node :: seen))) (nth node inc []))) by (rewrite E; left; reflexivity).
  apply filter_In in Hy. destruct Hy as [Hy Hm]. apply negb_true_iff, mem_false in Hm.
  apply (HL node Hs Hf y Hy) with (pre := []) (post := rest); [|reflexivity].
  intro. apply Hm. right. assumption.
Qed.

Notation wsum seen := (walk_weight inc seen).

Lemma filter_len_le {A} (f : A -> bool) l : length (filter f l) <= length l.
Proof. induction l as [|h t IH]; simpl; [lia|]. destruct (f h); simpl; lia. Qed.

Lemma list_sum_le {A} (f g : A -> nat) l : (forall x, In x l -> f x <= g x) -> list_sum (map f l) <= list_sum (map g l).
Proof.
  induction l as [|h t IH]; simpl; intro H; [lia|].
  pose proof (H h (or_introl eq_refl)). assert (list_sum (map f t) <= list_sum (map g t)) by (apply IH; intros; apply H; right; assumption). lia.
Qed.

Lemma list_sum_drop (f g : nat -> nat) l x c :
  NoDup l -> In x l -> g x + c = f x -> (forall y, y <> x -> g y = f y) ->
  list_sum (map g l) + c = list_sum (map f l).
Proof.
  intros Hnd Hin Hx Hy. induction Hnd as [|h t Hh Ht IH]; [destruct Hin|]. simpl.
  destruct Hin as [->|Hin].
  - assert (list_sum (map g t) = list_sum (map f t)).
    { f_equal. apply map_ext_in. intros y Hyt. apply Hy. intro. subst. contradiction. }
    lia.
  - rewrite (Hy h) by (intro; subst; contradiction). specialize (IH Hin). lia.
Qed.

Lemma wsum_le x seen : wsum (x :: seen) <= wsum seen.
Proof.
  unfold walk_weight. apply list_sum_le. intros y _. unfold mem. simpl.
  destruct (Nat.eqb y x); simpl; [lia|]. destruct (existsb (Nat.eqb y) seen); lia.
Qed.

Lemma wsum_drop x seen : x < length inc -> ~ In x seen ->
  wsum (x :: seen) + S (length (nth x inc [])) = wsum seen.
Proof.
  intros Hx Hs. unfold walk_weight. apply list_sum_drop with (x := x).
  - apply seq_NoDup.
  - apply in_seq. lia.
  - apply mem_false in Hs. rewrite Hs. simpl. rewrite Nat.eqb_refl. reflexivity.
  - intros y Hy. simpl. apply Nat.eqb_neq in Hy. rewrite Hy. reflexivity.
Qed.

Hypothesis inc_bound : forall x y, In y (nth x inc []) -> y < length inc.

Lemma prune_walk_terminates fuel : forall stack seen result,
  LIFO stack seen -> (forall x, In x stack -> x < length inc) ->
  length stack + wsum seen <= fuel ->
  prune_walk fuel inc m stack seen result <> None.
Proof.
  induction fuel as [|f IH]; intros stack seen result HL Hb Hf.
  - destruct stack; simpl in *; [discriminate|lia].
  - destruct stack as [|node rest]; cbn [prune_walk]; [discriminate|].
    destruct (nodemap_find node m) as [bs|] eqn:Hm.
    + apply IH.
      * apply LIFO_step_some; [exact HL|congruence].
      * intros; apply Hb; right; assumption.
      * pose proof (wsum_le node seen). simpl in Hf. lia.
    + assert (Hbound : forall x, In x (rev (filter (fun x => negb (mem x (node :: seen))) (nth node inc [])) ++ rest) ->
                       x < length inc).
      { intros x Hx. apply in_app_or in Hx. destruct Hx as [Hx|Hx]; [|apply Hb; right; assumption].
        apply in_rev, filter_In in Hx. destruct Hx as [Hx _]. eapply inc_bound. exact Hx. }
      destruct (in_dec Nat.eq_dec node seen) as [Hs|Hs].
      * rewrite (LIFO_repop node rest seen HL Hs Hm) in *.
        apply IH.
        -- pose proof (LIFO_step_none node rest seen HL Hm) as H.
           rewrite (LIFO_repop node rest seen HL Hs Hm) in H. exact H.
        -- intros; apply Hb; right; assumption.
        -- pose proof (wsum_le node seen). cbn [rev app length] in *. lia.
      * apply IH.
        -- apply LIFO_step_none; assumption.
        -- exact Hbound.
        -- pose proof (wsum_drop node seen (Hb node (or_introl eq_refl)) Hs).
           rewrite app_length, rev_length.
           pose proof (filter_len_le (fun x => negb (mem x (node :: seen))) (nth node inc [])).
           cbn [length] in Hf. lia.
Qed.

End Walk.

(* ------------------------------------------------------------------ the state invariant *)
(* cfg_node_to_bindings_ of a variable is exactly "which bindings have an origin at this node" *)
Record VInv (nn : nat) (pv : pvar) : Prop := {
  vi_some : forall n bs, nodemap_find n (pv_nodemap pv) = Some bs ->
     n < nn /\ bs <> [] /\
     forall b, In b bs <-> exists pb, In pb (pv_bindings pv) /\ pb_id pb = b /\ In n (pb_origins pb);
  vi_none : forall n, nodemap_find n (pv_nodemap pv) = None ->
     forall pb, In pb (pv_bindings pv) -> ~ In n (pb_origins pb)
}.

Record PInv (s : pstate) (E : list (nat * nat)) : Prop := {
  pi_reach : Inv (ps_prog s) E;
  pi_inc_len : length (ps_incoming s) = nodes (ps_prog s);
  pi_inc : forall a b, In a (nth b (ps_incoming s) []) <-> (a <> b /\ In (a, b) E);
  pi_vars : Forall (VInv (nodes (ps_prog s))) (ps_vars s)
}.

Lemma VInv_mono nn nn' pv : nn <= nn' -> VInv nn pv -> VInv nn' pv.
Proof.
  intros Hle [H1 H2]. constructor; [|exact H2].
  intros n bs Hf. destruct (H1 n bs Hf) as [? [? ?]]. split; [lia|]. split; assumption.
Qed.

Lemma VInv_pvar0 nn : VInv nn pvar0.
Proof. constructor; simpl; [discriminate|]. intros _ _ pb []. Qed.

Lemma VInv_add_binding nn pv b d :
  VInv nn pv -> VInv nn (mkPV (pv_bindings pv ++ [mkPB b d []]) (pv_nodemap pv)).
Proof.
  intros [H1 H2]. constructor; simpl.
  - intros n bs Hf. destruct (H1 n bs Hf) as [Hn [Hne Hb]]. repeat split; auto.
    + intro Hi. apply Hb in Hi. destruct Hi as [pb [Hp Hr]]. exists pb. split; [apply in_or_app; auto|exact Hr].
    + intros [pb [Hp [Hid Ho]]]. apply in_app_or in Hp. destruct Hp as [Hp|[<-|[]]]; [|destruct Ho].
      apply Hb. exists pb. auto.
  - intros n Hf pb Hp. apply in_app_or in Hp. destruct Hp as [Hp|[<-|[]]]; [apply H2; assumption|intros []].
Qed.

Lemma VInv_foao_var nn pv b n : n < nn -> VInv nn pv -> VInv nn (foao_var b n pv).
Proof.
  intros Hn HV. unfold foao_var.
  destruct (find (fun pb => Nat.eqb (pb_id pb) b) (pv_bindings pv)) as [pb0|] eqn:Hfind; [|exact HV].
  destruct (existsb (Nat.eqb n) (pb_origins pb0)); [exact HV|].
  apply find_some in Hfind. destruct Hfind as [Hin0 Hid0]. apply Nat.eqb_eq in Hid0.
  destruct HV as [H1 H2].
  set (upd1 := fun x : pbind => if Nat.eqb (pb_id x) b then mkPB (pb_id x) (pb_data x) (pb_origins x ++ [n]) else x).
  assert (Hid : forall x, pb_id (upd1 x) = pb_id x).
  { intro x. unfold upd1. destruct (Nat.eqb (pb_id x) b); reflexivity. }
  assert (Hor : forall x k, In k (pb_origins (upd1 x)) <-> In k (pb_origins x) \/ (pb_id x = b /\ k = n)).
  { intros x k. unfold upd1. destruct (Nat.eqb (pb_id x) b) eqn:E; simpl.
    - apply Nat.eqb_eq in E. rewrite in_app_iff. simpl. intuition.
    - apply Nat.eqb_neq in E. intuition. }
  constructor; simpl.
  - intros k bs. rewrite nodemap_find_register. destruct (Nat.eqb k n) eqn:Ek.
    + apply Nat.eqb_eq in Ek. subst k. intro Hs. inversion Hs. subst bs. clear Hs.
      split; [exact Hn|]. split; [apply sset_insert_nonnil|].
      intro b'. rewrite sset_insert_In. split.
      * intros [->|Hi].
        -- exists (upd1 pb0). split; [apply in_map; exact Hin0|]. split; [rewrite Hid; exact Hid0|].
           apply Hor. right. auto.
        -- destruct (nodemap_find n (pv_nodemap pv)) as [bs0|] eqn:Hf0; [|destruct Hi].
           destruct (H1 n bs0 Hf0) as [_ [_ Hb]]. apply Hb in Hi. destruct Hi as [pb [Hp [Hi Ho]]].
           exists (upd1 pb). split; [apply in_map; exact Hp|]. split; [rewrite Hid; exact Hi|]. apply Hor. auto.
      * intros [pb' [Hp [Hi Ho]]]. apply in_map_iff in Hp. destruct Hp as [pb [<- Hp]].
        rewrite Hid in Hi. apply Hor in Ho. destruct Ho as [Ho|[Ho _]]; [|left; congruence].
        destruct (nodemap_find n (pv_nodemap pv)) as [bs0|] eqn:Hf0.
        -- right. destruct (H1 n bs0 Hf0) as [_ [_ Hb]]. apply Hb. exists pb. auto.
        -- exfalso. exact (H2 n Hf0 pb Hp Ho).
    + apply Nat.eqb_neq in Ek. intro Hf. destruct (H1 k bs Hf) as [Hk [Hne Hb]]. repeat split; auto.
      * intro Hi. apply Hb in Hi. destruct Hi as [pb [Hp [Hi Ho]]].
        exists (upd1 pb). split; [apply in_map; exact Hp|]. split; [rewrite Hid; exact Hi|]. apply Hor. auto.
      * intros [pb' [Hp [Hi Ho]]]. apply in_map_iff in Hp. destruct Hp as [pb [<- Hp]].
        rewrite Hid in Hi. apply Hor in Ho. destruct Ho as [Ho|[_ Ho]]; [|congruence].
        apply Hb. exists pb. auto.
  - intros k. rewrite nodemap_find_register. destruct (Nat.eqb k n) eqn:Ek; [discriminate|].
    apply Nat.eqb_neq in Ek. intros Hf pb' Hp. apply in_map_iff in Hp. destruct Hp as [pb [<- Hp]].
    intro Ho. apply Hor in Ho. destruct Ho as [Ho|[_ Ho]]; [|congruence]. exact (H2 k Hf pb Hp Ho).
Qed.

Lemma VInv_origin_lt nn pv pb n : VInv nn pv -> In pb (pv_bindings pv) -> In n (pb_origins pb) -> n < nn.
Proof.
  intros [H1 H2] Hp Ho. destruct (nodemap_find n (pv_nodemap pv)) as [bs|] eqn:Hf.
  - apply (H1 n bs Hf).
  - exfalso. exact (H2 n Hf pb Hp Ho).
Qed.

Lemma VInv_get_var s E v : PInv s E -> VInv (nodes (ps_prog s)) (get_var s v).
Proof.
  intros [_ _ _ H]. unfold get_var. destruct (Nat.lt_ge_cases v (length (ps_vars s))) as [Hv|Hv].
  - eapply Forall_forall; [exact H|]. apply nth_In. exact Hv.
  - rewrite nth_overflow by exact Hv. apply VInv_pvar0.
Qed.

(* ---- every primitive preserves the invariant; the variable primitives leave the CFG alone ---- *)
Definition OK (s : pstate) (E : list (nat * nat)) (s' : pstate) : Prop := PInv s' E /\ ps_prog s' = ps_prog s.

Lemma OK_refl s E : PInv s E -> OK s E s.
Proof. intro. split; auto. Qed.
Lemma OK_trans s E s1 s2 : OK s E s1 -> OK s1 E s2 -> OK s E s2.
Proof. intros [H1 H2] [H3 H4]. split; [exact H3|congruence]. Qed.

Lemma PInv_new_node s E : PInv s E -> PInv (py_new_node s) E.
Proof.
  intros [H1 H2 H3 H4]. pose proof H1 as [_ _ _ _ He Hol _].
  constructor; simpl.
  - apply Inv_new_node. exact H1.
  - rewrite app_length. simpl. unfold nodes in *. simpl. lia.
  - intros a b. destruct (Nat.lt_ge_cases b (length (ps_incoming s))) as [Hb|Hb].
    + rewrite app_nth1 by exact Hb. apply H3.
    + split.
      * intro Hi. exfalso. destruct (Nat.eq_dec b (length (ps_incoming s))) as [->|Hne].
        -- rewrite nth_middle in Hi. destruct Hi.
        -- rewrite nth_overflow in Hi; [destruct Hi|]. rewrite app_length. simpl. lia.
      * intros [_ Hi]. apply He in Hi. unfold nodes in H2. lia.
  - eapply Forall_impl; [|exact H4]. intros pv. apply VInv_mono. unfold nodes. simpl. lia.
Qed.

Lemma nodes_connect_to p a b : nodes (connect_to p a b) = nodes p.
Proof. pose proof (nodes_step p (Connect a b)) as H. exact H. Qed.

Lemma PInv_connect s E a b : PInv s E -> a < nodes (ps_prog s) -> b < nodes (ps_prog s) ->
  PInv (py_connect s a b) ((a, b) :: E) /\ nodes (ps_prog (py_connect s a b)) = nodes (ps_prog s).
Proof.
  intros [H1 H2 H3 H4] Ha Hb.
  pose proof (Inv_connect _ _ a b H1 Ha Hb) as HI.
  pose proof (nodes_connect_to (ps_prog s) a b) as Hnn.
  pose proof H1 as [_ _ _ _ He Hol Hout].
  unfold py_connect.
  destruct (Nat.eqb_spec a b) as [->|Hab].
  - assert (Hc : connect_to (ps_prog s) b b = ps_prog s) by (unfold connect_to; rewrite Nat.eqb_refl; reflexivity).
    rewrite Hc in HI. split; [|reflexivity]. constructor; auto.
    intros x y. rewrite H3. simpl. split; [tauto|]. intros [Hne [Heq|Hi]]; [inversion Heq; congruence|auto].
  - destruct (existsb (Nat.eqb b) (nth a (outgoing (ps_prog s)) [])) eqn:Hex.
    + assert (Hc : connect_to (ps_prog s) a b = ps_prog s).
      { unfold connect_to. destruct (Nat.eqb_spec a b); [congruence|]. rewrite Hex. reflexivity. }
      rewrite Hc in HI. split; [|reflexivity]. constructor; auto.
      intros x y. rewrite H3. simpl. split; [tauto|]. intros [Hne [Heq|Hi]]; [|auto].
      inversion Heq. subst. split; [exact Hne|]. apply Hout.
      apply existsb_exists in Hex. destruct Hex as [z [Hz Hbz]]. apply Nat.eqb_eq in Hbz. subst. exact Hz.
    + split; [|cbn [ps_prog]; exact Hnn].
      constructor; cbn [ps_prog ps_incoming ps_vars].
      * exact HI.
      * rewrite length_upd, Hnn. exact H2.
      * intros x y. destruct (Nat.eq_dec y b) as [->|Hyb].
        -- rewrite nth_upd_eq by (rewrite H2; exact Hb). rewrite in_app_iff, H3. simpl.
           split.
           ++ intros [[Hne Hi]|[<-|[]]]; auto.
           ++ intros [Hne [Heq|Hi]]; [inversion Heq; auto|auto].
        -- rewrite nth_upd_neq by auto. rewrite H3. simpl. split; [tauto|].
           intros [Hne [Heq|Hi]]; [inversion Heq; congruence|auto].
      * rewrite Hnn. exact H4.
Qed.

Lemma PInv_new_variable s E : PInv s E -> OK s E (py_new_variable s).
Proof.
  intros [H1 H2 H3 H4]. split; [|reflexivity]. constructor; simpl; auto.
  apply Forall_app. split; [exact H4|]. constructor; [apply VInv_pvar0|constructor].
Qed.

Lemma PInv_set_var s E v f : PInv s E ->
  (forall pv, VInv (nodes (ps_prog s)) pv -> VInv (nodes (ps_prog s)) (f pv)) -> OK s E (set_var s v f).
Proof.
  intros [H1 H2 H3 H4] Hf. split; [|reflexivity]. constructor; simpl; auto.
  apply Forall_updf; assumption.
Qed.

Lemma PInv_foab_helper s E v d : PInv s E -> OK s E (fst (foab_helper s v d)).
Proof.
  intro HP. unfold foab_helper. destruct (find_data d _); simpl; [apply OK_refl; exact HP|].
  destruct HP as [H1 H2 H3 H4]. split; [|reflexivity]. constructor; simpl; auto.
  apply Forall_updf; [exact H4|]. intros pv. apply VInv_add_binding.
Qed.

Lemma PInv_foab s E v d : PInv s E -> OK s E (fst (foab s v d)).
Proof. intro HP. unfold foab. destruct (_ && _); apply PInv_foab_helper; exact HP. Qed.

Lemma PInv_foao s E v b n : PInv s E -> n < nodes (ps_prog s) -> OK s E (foao s v b n).
Proof. intros HP Hn. apply PInv_set_var; [exact HP|]. intros pv. apply VInv_foao_var. exact Hn. Qed.

Lemma OK_fold {A} (f : pstate -> A -> pstate) (P : A -> Prop) E :
  (forall s x, PInv s E -> P x -> OK s E (f s x)) ->
  forall l s, PInv s E -> Forall P l -> OK s E (fold_left f l s).
Proof.
  intros Hf. induction l as [|h t IH]; intros s HP HF; simpl; [apply OK_refl; exact HP|].
  inversion HF; subst. pose proof (Hf s h HP H1) as Hs. eapply OK_trans; [exact Hs|].
  apply IH; [apply Hs|assumption].
Qed.

Lemma OK_fold_nodes {A} (f : pstate -> A -> pstate) (P : nat -> A -> Prop) E :
  (forall s x, PInv s E -> P (nodes (ps_prog s)) x -> OK s E (f s x)) ->
  forall l s, PInv s E -> Forall (P (nodes (ps_prog s))) l -> OK s E (fold_left f l s).
Proof.
  intros Hf. induction l as [|h t IH]; intros s HP HF; simpl; [apply OK_refl; exact HP|].
  inversion HF; subst. pose proof (Hf s h HP H1) as Hs. eapply OK_trans; [exact Hs|].
  destruct Hs as [Hs1 Hs2]. apply IH; [exact Hs1|]. rewrite Hs2. assumption.
Qed.

Lemma PInv_copy_origins s E v b os w : PInv s E ->
  Forall (fun n => n < nodes (ps_prog s)) os -> opt_lt w (nodes (ps_prog s)) = true ->
  OK s E (copy_origins s v b os w).
Proof.
  intros HP Hos Hw. unfold copy_origins. destruct w as [n|].
  - apply PInv_foao; [exact HP|]. apply Nat.ltb_lt. exact Hw.
  - apply (OK_fold_nodes (fun s' n => foao s' v b n) (fun nn n => n < nn)); auto.
    intros s0 x HP0 Hx. apply PInv_foao; assumption.
Qed.

Lemma PInv_paste_binding s E dst d os w : PInv s E ->
  Forall (fun n => n < nodes (ps_prog s)) os -> opt_lt w (nodes (ps_prog s)) = true ->
  OK s E (paste_binding s dst d os w).
Proof.
  intros HP Hos Hw. unfold paste_binding.
  pose proof (PInv_foab s E dst d HP) as H1. destruct (foab s dst d) as [s1 b]. simpl in H1.
  destruct H1 as [H1 H1e].
  assert (Hc : forall w', opt_lt w' (nodes (ps_prog s)) = true -> OK s E (copy_origins s1 dst b os w')).
  { intros w' Hw'. eapply OK_trans; [split; [exact H1|exact H1e]|].
    apply PInv_copy_origins; rewrite ?H1e; auto. }
  destruct w as [n|]; [|apply Hc; reflexivity].
  destruct (existsb _ os); apply Hc; auto.
Qed.

Lemma PInv_add_binding_at s E v d n : PInv s E -> n < nodes (ps_prog s) -> OK s E (add_binding_at s v d n).
Proof.
  intros HP Hn. unfold add_binding_at.
  pose proof (PInv_foab s E v d HP) as H1. destruct (foab s v d) as [s1 b]. simpl in H1.
  eapply OK_trans; [exact H1|]. destruct H1 as [H1 H1e]. apply PInv_foao; [exact H1|]. rewrite H1e. exact Hn.
Qed.

Lemma snapshot_origins s E v :
  PInv s E -> Forall (fun pb => Forall (fun n => n < nodes (ps_prog s)) (pb_origins pb)) (pv_bindings (get_var s v)).
Proof.
  intro HP. apply Forall_forall. intros pb Hp. apply Forall_forall. intros n Hn.
  eapply VInv_origin_lt; [eapply VInv_get_var; exact HP|exact Hp|exact Hn].
Qed.

(* edges and nodes one operation adds *)
Definition op_edges (n : nat) (o : pyop) : list (nat * nat) :=
  match o with PConnectNew a => [(a, n)] | PConnectTo a b => [(a, b)] | _ => [] end.
Definition op_nodes (o : pyop) : nat :=
  match o with PNewCFGNode | PConnectNew _ => 1 | _ => 0 end.

Lemma py_edges_from_cons n o t :
  py_edges_from n (o :: t) = op_edges n o ++ py_edges_from (n + op_nodes o) t.
Proof. destruct o; simpl; rewrite ?Nat.add_0_r, ?Nat.add_1_r; reflexivity. Qed.

Lemma OK_nodes s E s' : OK s E s' -> PInv s' (op_edges (nodes (ps_prog s)) PNewVariable ++ E) /\
                                      nodes (ps_prog s') = nodes (ps_prog s) + 0.
Proof. intros [H1 H2]. simpl. rewrite H2, Nat.add_0_r. auto. Qed.

Lemma PInv_assign_one s E v d os w : PInv s E ->
  Forall (fun n => n < nodes (ps_prog s)) os -> opt_lt w (nodes (ps_prog s)) = true ->
  OK s E (let '(s1, b) := foab s v d in copy_origins s1 v b os w).
Proof.
  intros HP Hos Hw.
  pose proof (PInv_foab s E v d HP) as H1. destruct (foab s v d) as [s1 b]. simpl in H1.
  eapply OK_trans; [exact H1|]. destruct H1 as [H1 H1e].
  apply PInv_copy_origins; rewrite ?H1e; auto.
Qed.

Lemma opt_lt_some n nn : opt_lt (Some n) nn = true -> n < nn.
Proof. simpl. apply Nat.ltb_lt. Qed.

Lemma py_step_PInv s E o : PInv s E -> py_wf_op s o = true ->
  PInv (py_step s o) (op_edges (nodes (ps_prog s)) o ++ E) /\
  nodes (ps_prog (py_step s o)) = nodes (ps_prog s) + op_nodes o.
Proof.
  intros HP Hwf. destruct o as [|a|a b| |ds n|v d w|v b n|dst src b w|dst src w|src w];
    cbn [py_step op_edges op_nodes app]; cbn [py_wf_op] in Hwf.
  - split; [apply PInv_new_node; exact HP|]. unfold nodes. simpl. lia.
  - apply Nat.ltb_lt in Hwf. unfold py_connect_new.
    pose proof (PInv_new_node s E HP) as HN.
    assert (Hn : nodes (ps_prog (py_new_node s)) = S (nodes (ps_prog s))) by (unfold nodes; reflexivity).
    destruct (PInv_connect (py_new_node s) E a (nodes (ps_prog s)) HN) as [H1 H2]; [lia|lia|].
    split; [exact H1|]. rewrite H2, Hn. lia.
  - apply andb_prop in Hwf. destruct Hwf as [Ha Hb]. apply Nat.ltb_lt in Ha. apply Nat.ltb_lt in Hb.
    destruct (PInv_connect s E a b HP) as [H1 H2]; auto. split; [exact H1|]. lia.
  - apply (OK_nodes s E). apply PInv_new_variable. exact HP.
  - apply Nat.ltb_lt in Hwf. apply (OK_nodes s E).
    pose proof (PInv_new_variable s E HP) as HV. eapply OK_trans; [exact HV|]. destruct HV as [HV HVe].
    apply (OK_fold_nodes (fun s' d => add_binding_at s' (length (ps_vars s)) d n) (fun nn _ => n < nn)).
    + intros s0 x HP0 Hx. apply PInv_add_binding_at; assumption.
    + exact HV.
    + apply Forall_forall. intros x _. rewrite HVe. exact Hwf.
  - apply andb_prop in Hwf. destruct Hwf as [_ Hw]. apply (OK_nodes s E). destruct w as [n|].
    + apply PInv_add_binding_at; [exact HP|]. apply opt_lt_some. exact Hw.
    + apply PInv_foab. exact HP.
  - apply andb_prop in Hwf. destruct Hwf as [Hwf _]. apply andb_prop in Hwf. destruct Hwf as [_ Hn].
    apply Nat.ltb_lt in Hn. apply (OK_nodes s E). apply PInv_foao; assumption.
  - apply andb_prop in Hwf. destruct Hwf as [Hwf _]. apply andb_prop in Hwf. destruct Hwf as [_ Hw].
    apply (OK_nodes s E). destruct (find_bind (get_var s src) b) as [pb|] eqn:Hf; [|apply OK_refl; exact HP].
    apply PInv_paste_binding; [exact HP| |exact Hw].
    apply find_some in Hf. destruct Hf as [Hf _].
    pose proof (snapshot_origins s E src HP) as Hs. eapply Forall_forall in Hs; [exact Hs|exact Hf].
  - apply andb_prop in Hwf. destruct Hwf as [_ Hw]. apply (OK_nodes s E).
    apply (OK_fold_nodes (fun s' pb => paste_binding s' dst (pb_data pb) (pb_origins pb) w)
            (fun nn pb => Forall (fun n => n < nn) (pb_origins pb) /\ opt_lt w nn = true)).
    + intros s0 x HP0 [Hx1 Hx2]. apply PInv_paste_binding; assumption.
    + exact HP.
    + pose proof (snapshot_origins s E src HP) as Hs. eapply Forall_impl; [|exact Hs]. intros pb Hpb. split; assumption.
  - apply andb_prop in Hwf. destruct Hwf as [_ Hw]. apply (OK_nodes s E).
    pose proof (PInv_new_variable s E HP) as HV. eapply OK_trans; [exact HV|]. destruct HV as [HV HVe].
    apply (OK_fold_nodes (fun s' pb => let '(s1, b) := foab s' (length (ps_vars s)) (pb_data pb) in
                                       copy_origins s1 (length (ps_vars s)) b (pb_origins pb) w)
            (fun nn pb => Forall (fun n => n < nn) (pb_origins pb) /\ opt_lt w nn = true)).
    + intros s0 x HP0 [Hx1 Hx2]. apply PInv_assign_one; assumption.
    + exact HV.
    + rewrite HVe. pose proof (snapshot_origins s E src HP) as Hs. eapply Forall_impl; [|exact Hs].
      intros pb Hpb. split; assumption.
Qed.

Lemma PInv_init d : PInv (pstate0 d) [].
Proof.
  constructor; simpl.
  - apply Inv_empty.
  - reflexivity.
  - intros a b. split; [destruct b; intros []|intros [_ []]].
  - constructor.
Qed.

Lemma py_run_from_PInv h : forall s E, PInv s E -> py_wf_from s h = true ->
  PInv (py_run_from s h) (rev (py_edges_from (nodes (ps_prog s)) h) ++ E).
Proof.
  induction h as [|o t IH]; intros s E HP Hwf; [exact HP|].
  cbn [py_wf_from] in Hwf. apply andb_prop in Hwf. destruct Hwf as [Ho Ht].
  destruct (py_step_PInv s E o HP Ho) as [H1 H2].
  rewrite py_edges_from_cons, rev_app_distr, <- app_assoc.
  unfold py_run_from. cbn [fold_left]. fold (py_run_from (py_step s o) t).
  specialize (IH (py_step s o) (op_edges (nodes (ps_prog s)) o ++ E) H1 Ht).
  rewrite H2 in IH.
  assert (Hr : rev (op_edges (nodes (ps_prog s)) o) = op_edges (nodes (ps_prog s)) o) by (destruct o; reflexivity).
  rewrite Hr. exact IH.
Qed.

(* ------------------------------------------------------------------ Prune = reaching definitions *)
Lemma is_reachable_rtc s E a b : PInv s E -> a < nodes (ps_prog s) -> b < nodes (ps_prog s) ->
  (py_is_reachable s a b = true <-> rtc E a b).
Proof.
  intros [[H1 H2 H3 H4 H5 H6 H7] _ _ _] Ha Hb.
  unfold py_is_reachable, is_reachable, ra_is_reachable. rewrite word_has_bit.
  unfold nodes in *. rewrite H4 by assumption. tauto.
Qed.

Lemma clean_path_ext E (f g : nat -> Prop) : (forall x, f x <-> g x) ->
  forall a b, clean_path E f a b -> clean_path E g a b.
Proof.
  intros Hfg a b H. induction H as [|m0 x n0 He Hf _ IH]; [apply cp_refl|].
  eapply cp_step; [exact He|apply Hfg; exact Hf|exact IH].
Qed.

Lemma clean_path_rtc E f a b : clean_path E f a b -> rtc E a b.
Proof.
  induction 1 as [|m0 x n0 He _ _ IH]; [apply rt_refl|].
  eapply rt_trans; [apply rt_step; exact He|exact IH].
Qed.

Section StateLevel.
Variable s : pstate.
Variable E : list (nat * nat).
Variable v : nat.
Hypothesis HP : PInv s E.

Let pv := get_var s v.
Let m := pv_nodemap pv.
Let inc := ps_incoming s.
Let nn := nodes (ps_prog s).
Let freeM := fun x => nodemap_find x m = None.

Lemma HV : VInv nn pv.
Proof. apply (VInv_get_var s E v HP). Qed.

Lemma free_unbound x : freeM x <-> unbound s v x.
Proof.
  unfold freeM, unbound. fold pv. split.
  - intro H. exact (vi_none _ _ HV x H).
  - intro H. destruct (nodemap_find x m) as [bs|] eqn:Hf; [exfalso|reflexivity].
    destruct (vi_some _ _ HV x bs Hf) as [_ [Hne Hb]].
    destruct bs as [|b t]; [congruence|].
    destruct (proj1 (Hb b) (or_introl eq_refl)) as [pb [Hp [_ Ho]]]. exact (H pb Hp Ho).
Qed.

Lemma some_has_origin x bs b : nodemap_find x m = Some bs -> (In b bs <-> has_origin s v b x).
Proof. intro Hf. destruct (vi_some _ _ HV x bs Hf) as [_ [_ Hb]]. apply Hb. Qed.

Lemma origin_some x b : has_origin s v b x -> exists bs, nodemap_find x m = Some bs /\ In b bs.
Proof.
  intros Ho. destruct (nodemap_find x m) as [bs|] eqn:Hf.
  - exists bs. split; [reflexivity|]. apply (some_has_origin x bs b Hf). exact Ho.
  - exfalso. destruct Ho as [pb [Hp [_ Ho]]]. exact (vi_none _ _ HV x Hf pb Hp Ho).
Qed.

Lemma bw_clean n y : bw inc m n y <-> clean_path E freeM y n.
Proof.
  split.
  - induction 1 as [|x y Hx IH Hn Hy]; [apply cp_refl|].
    apply (pi_inc _ _ HP) in Hy. destruct Hy as [_ Hy]. eapply cp_step; [exact Hy|exact Hn|exact IH].
  - induction 1 as [|m0 x n0 He Hf _ IH]; [apply bw_refl|].
    destruct (Nat.eq_dec m0 x) as [->|Hne]; [exact IH|].
    eapply bw_step; [exact IH|exact Hf|]. apply (pi_inc _ _ HP). auto.
Qed.

Lemma inc_bounded x y : In y (nth x inc []) -> y < length inc.
Proof.
  intro H. apply (pi_inc _ _ HP) in H. destruct H as [_ H].
  apply (inv_edges _ _ (pi_reach _ _ HP)) in H. unfold inc. rewrite (pi_inc_len _ _ HP). unfold nodes. tauto.
Qed.

Theorem prune_general_correct_lemma n : n < nn ->
  exists r, prune_general s v n = Some r /\ NoDup r /\ forall b, In b r <-> reaching_def E s v b n.
Proof.
  intro Hn. unfold prune_general. fold pv m inc.
  destruct (prune_walk (walk_fuel s) inc m [n] [] []) as [r|] eqn:Hr.
  - exists r. split; [reflexivity|].
    destruct (prune_walk_sound inc m n _ _ _ _ r (WI_init inc m n) Hr) as [Hnd Hb]. split; [exact Hnd|].
    intro b. rewrite Hb. unfold reaching_def. split.
    + intros [x [bs [Hx [Hf Hi]]]]. exists x. split; [apply (some_has_origin x bs b Hf); exact Hi|].
      eapply clean_path_ext; [apply free_unbound|]. apply bw_clean. exact Hx.
    + intros [x [Ho Hc]]. destruct (origin_some x b Ho) as [bs [Hf Hi]]. exists x, bs. split; [|auto].
      apply bw_clean. eapply clean_path_ext; [|exact Hc]. intro. symmetry. apply free_unbound.
  - exfalso. revert Hr. apply prune_walk_terminates.
    + exact inc_bounded.
    + apply LIFO_init.
    + intros x [<-|[]]. unfold inc. rewrite (pi_inc_len _ _ HP). exact Hn.
    + unfold walk_fuel. fold inc. simpl. lia.
Qed.

(* the last node carrying a binding on a path k ->* n *)
Lemma last_binding k n : rtc E k n ->
  clean_path E freeM k n \/ exists m' bs, nodemap_find m' m = Some bs /\ clean_path E freeM m' n.
Proof.
  intro H. apply clos_rt_rt1n in H. induction H as [x|x y z Hxy _ IH]; [left; apply cp_refl|].
  destruct IH as [IH|IH]; [|right; exact IH].
  destruct (nodemap_find y m) as [bs|] eqn:Hf.
  - right. exists y, bs. auto.
  - left. eapply cp_step; [exact Hxy|exact Hf|exact IH].
Qed.

Lemma NoDup_single (r : list nat) x : NoDup r -> (forall b, In b r -> b = x) -> In x r -> r = [x].
Proof.
  intros Hnd Hall Hin. destruct r as [|a t]; [destruct Hin|].
  assert (a = x) by (apply Hall; left; reflexivity). subst a.
  destruct t as [|b t]; [reflexivity|exfalso].
  assert (b = x) by (apply Hall; right; left; reflexivity). subst b.
  inversion Hnd. apply H1. left. reflexivity.
Qed.

Theorem prune_shortcut_lemma n : n < nn -> length (pv_bindings pv) = 1 ->
  prune s v (Some n) = prune_general s v n.
Proof.
  intros Hn Hlen. destruct (prune_general_correct_lemma n Hn) as [r [Hr [Hnd Hb]]]. rewrite Hr.
  unfold prune. fold pv m. rewrite Hlen. cbn [Nat.eqb].
  destruct (pv_bindings pv) as [|pb0 [|? ?]] eqn:Hbs; try discriminate. clear Hlen.
  assert (Honly : forall b x, has_origin s v b x -> b = pb_id pb0 /\ In x (pb_origins pb0)).
  { intros b x [pb [Hp [Hid Ho]]]. fold pv in Hp. rewrite Hbs in Hp. destruct Hp as [<-|[]]. auto. }
  assert (Hall : forall b, In b r -> b = pb_id pb0).
  { intros b Hi. apply Hb in Hi. destruct Hi as [x [Ho _]]. apply (Honly b x Ho). }
  assert (HA : existsb (fun kv => py_is_reachable s (fst kv) n) m = true <-> reaching_def E s v (pb_id pb0) n).
  { split.
    - intro Hex. apply existsb_exists in Hex. destruct Hex as [[k bs] [Hin Hreach]]. simpl in Hreach.
      destruct (nodemap_In_find k m bs Hin) as [bs' Hf].
      destruct (vi_some _ _ HV k bs' Hf) as [Hk _].
      apply (is_reachable_rtc s E k n HP Hk Hn) in Hreach.
      assert (Hsome : forall x bs0, nodemap_find x m = Some bs0 -> has_origin s v (pb_id pb0) x).
      { intros x bs0 Hf0. destruct (vi_some _ _ HV x bs0 Hf0) as [_ [Hne Hb0]].
        destruct bs0 as [|b t]; [congruence|].
        assert (Ho : has_origin s v b x) by (apply (some_has_origin x (b :: t) b Hf0); left; reflexivity).
        destruct (Honly b x Ho) as [-> _]. exact Ho. }
      destruct (last_binding k n Hreach) as [Hc|[m' [bs0 [Hf0 Hc]]]].
      + exists k. split; [exact (Hsome k bs' Hf)|]. eapply clean_path_ext; [apply free_unbound|exact Hc].
      + exists m'. split; [exact (Hsome m' bs0 Hf0)|]. eapply clean_path_ext; [apply free_unbound|exact Hc].
    - intros [x [Ho Hc]]. apply existsb_exists.
      destruct (origin_some x _ Ho) as [bs [Hf _]]. exists (x, bs). split; [apply nodemap_find_In; exact Hf|].
      simpl. destruct (vi_some _ _ HV x bs Hf) as [Hx _].
      apply (is_reachable_rtc s E x n HP Hx Hn). eapply clean_path_rtc. exact Hc. }
  destruct (existsb (fun kv => py_is_reachable s (fst kv) n) m) eqn:Hex.
  - unfold all_bindings. rewrite Hbs. simpl. f_equal. symmetry. apply NoDup_single; auto.
    apply Hb. apply HA. reflexivity.
  - destruct r as [|b t]; [reflexivity|exfalso].
    assert (Hbb : b = pb_id pb0) by (apply Hall; left; reflexivity).
    assert (Hrd : reaching_def E s v (pb_id pb0) n) by (rewrite <- Hbb; apply Hb; left; reflexivity).
    apply HA in Hrd. discriminate.
Qed.

Theorem prune_correct_lemma n : n < nn ->
  exists r, prune s v (Some n) = Some r /\ NoDup r /\ forall b, In b r <-> reaching_def E s v b n.
Proof.
  intro Hn. destruct (Nat.eq_dec (length (pv_bindings pv)) 1) as [H1|H1].
  - rewrite (prune_shortcut_lemma n Hn H1). apply prune_general_correct_lemma. exact Hn.
  - unfold prune. fold pv. apply Nat.eqb_neq in H1. rewrite H1. apply prune_general_correct_lemma. exact Hn.
Qed.

End StateLevel.

(* ------------------------------------------------------------------ history level *)
Lemma PInv_ext s E E' : (forall e, In e E <-> In e E') -> PInv s E -> PInv s E'.
Proof.
  intros Hee [H1 H2 H3 H4]. constructor; auto.
  - eapply Inv_ext; [exact Hee|exact H1].
  - intros a b. rewrite H3, (Hee (a, b)). tauto.
Qed.

Lemma py_run_PInv d h : py_wf d h = true -> PInv (py_run d h) (py_edges h).
Proof.
  intro Hwf. pose proof (py_run_from_PInv h (pstate0 d) [] (PInv_init d) Hwf) as H.
  eapply PInv_ext; [|exact H]. intro e. rewrite app_nil_r. symmetry. apply in_rev.
Qed.

Theorem py_reach_correct_lemma d h a b :
  py_wf d h = true -> a < nodes (ps_prog (py_run d h)) -> b < nodes (ps_prog (py_run d h)) ->
  (py_is_reachable (py_run d h) a b = true <->
   clos_refl_trans nat (fun x y => In (x, y) (py_edges h)) a b).
Proof. intros Hwf Ha Hb. apply is_reachable_rtc; auto. apply py_run_PInv. exact Hwf. Qed.

Theorem prune_reaching_definitions_lemma d h v n :
  py_wf d h = true -> n < nodes (ps_prog (py_run d h)) ->
  exists r, prune (py_run d h) v (Some n) = Some r /\ NoDup r /\
            forall b, In b r <-> reaching_def (py_edges h) (py_run d h) v b n.
Proof. intros Hwf Hn. apply prune_correct_lemma; [apply py_run_PInv; exact Hwf|exact Hn]. Qed.

Theorem prune_general_reaching_definitions_lemma d h v n :
  py_wf d h = true -> n < nodes (ps_prog (py_run d h)) ->
  exists r, prune_general (py_run d h) v n = Some r /\ NoDup r /\
            forall b, In b r <-> reaching_def (py_edges h) (py_run d h) v b n.
Proof. intros Hwf Hn. apply prune_general_correct_lemma; [apply py_run_PInv; exact Hwf|exact Hn]. Qed.

Theorem prune_shortcut_agrees_lemma d h v n :
  py_wf d h = true -> n < nodes (ps_prog (py_run d h)) ->
  length (pv_bindings (get_var (py_run d h) v)) = 1 ->
  prune (py_run d h) v (Some n) = prune_general (py_run d h) v n.
Proof. intros Hwf Hn H1. eapply prune_shortcut_lemma; [apply py_run_PInv; exact Hwf|exact Hn|exact H1]. Qed.

Theorem prune_none_all_lemma s v : prune s v None = Some (all_bindings (get_var s v)).
Proof. reflexivity. Qed.

(* ------------------------------------------------------------------ Filter *)
Theorem filter_strict_lemma vis s v n :
  filter_model vis s v n true = filter (fun b => vis b n) (all_bindings (get_var s v)).
Proof. unfold filter_model. apply filter_ext. intro b. reflexivity. Qed.

Theorem filter_nonstrict_multi_lemma vis s v n : length (pv_bindings (get_var s v)) <> 1 ->
  filter_model vis s v n false = filter (fun b => vis b n) (all_bindings (get_var s v)).
Proof.
  intro H. unfold filter_model. apply filter_ext. intro b. apply Nat.eqb_neq in H. rewrite H. reflexivity.
Qed.

Theorem filter_nonstrict_single_lemma vis s v n : length (pv_bindings (get_var s v)) = 1 ->
  filter_model vis s v n false = all_bindings (get_var s v).
Proof.
  intro H. unfold filter_model. rewrite H. simpl.
  induction (all_bindings (get_var s v)) as [|h t IH]; simpl; [reflexivity|]. rewrite IH. reflexivity.
Qed.
