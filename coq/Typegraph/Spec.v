(* C07 specification: the declarative reading of the property statement.  Definitions only. *)
From Coq Require Import List Arith Bool Relations.
From PV Require Import Typegraph.Graph Typegraph.Solver.
Import ListNotations.

(* one backward step n ~> m : the CFG has the edge m -> n *)
Definition bstep (g : graph) (n m : node) : Prop := In m (incoming g n).
(* m is backward reachable from n (n itself included) *)
Definition breach (g : graph) : node -> node -> Prop := clos_refl_trans node (bstep g).

(* clause (iii): every goal has an origin at a node that is backward reachable from n *)
Definition Reach1 (g : graph) (n : node) (S : list bid) : Prop :=
  forall b, In b S -> exists o, In o (origins g b) /\ breach g n (o_where o).

(* a backward path from [start] to x all of whose nodes BEFORE x lie outside [blocked]
   (x itself may be blocked: FindShortestPathToNode tests `finish` before `blocked`) *)
Inductive creach (g : graph) (blocked : list node) (start : node) : node -> Prop :=
| creach_start : creach g blocked start start
| creach_step : forall n m, creach g blocked start n -> smem n blocked = false ->
                            In m (incoming g n) -> creach g blocked start m.

(* the resolution step at one node: the recursive enumeration that the explicit action stack of
   remove_finished_goals implements.  State = (goals still to remove, goals already processed,
   removed so far, new goals so far); the least pending goal is taken first; a goal is processed
   once; a goal without an origin here becomes a new goal; a goal with an origin here is removed
   and ONE of that origin's source sets joins the pending goals (no source set: no outcome). *)
Inductive resolves (g : graph) (pos : node)
  : list bid -> list bid -> list bid -> list bid -> rresult -> Prop :=
| R_done : forall seen rem new,
    resolves g pos [] seen rem new (sof_list rem, sof_list new)
| R_seen : forall goal gtr seen rem new r,
    smem goal seen = true ->
    resolves g pos gtr seen rem new r ->
    resolves g pos (goal :: gtr) seen rem new r
| R_new : forall goal gtr seen rem new r,
    smem goal seen = false -> find_origin g goal pos = None ->
    resolves g pos gtr (sins goal seen) rem (goal :: new) r ->
    resolves g pos (goal :: gtr) seen rem new r
| R_rem : forall goal gtr seen rem new r o ss,
    smem goal seen = false -> find_origin g goal pos = Some o -> In ss (o_ssets o) ->
    resolves g pos (sunion gtr ss) (sins goal seen) (goal :: rem) new r ->
    resolves g pos (goal :: gtr) seen rem new r.

Definition at_pos (g : graph) (pos : node) (b : bid) : bool := smem b (bindings_at g pos).

(* all outcomes (removed, new) of resolving the goal set [goals] at [pos] *)
Definition resolves_at (g : graph) (pos : node) (goals : list bid) (r : rresult) : Prop :=
  resolves g pos (filter (at_pos g pos) goals) [] []
           (rev (filter (fun b => negb (smem b (filter (at_pos g pos) goals))) goals)) r.

(* Expl g n S: "some backward path explains S at n" (clause (i), condition-free reading):
   resolve at n every goal that originates there (each by one of its source sets, transitively),
   the goals resolved together must not contain two bindings of one variable; then either nothing
   is left, or the explanation continues at an origin node p of a remaining goal, reached by a
   backward path none of whose nodes before p (n included) binds a variable of a remaining goal. *)
Inductive Expl (g : graph) : node -> list bid -> Prop :=
| Expl_done : forall n S removed,
    resolves_at g n S (removed, []) -> goals_conflict g removed = false ->
    Expl g n S
| Expl_jump : forall n S removed new b o,
    resolves_at g n S (removed, new) -> goals_conflict g removed = false ->
    In b new -> In o (origins g b) ->
    creach g (blocked_of g new) n (o_where o) ->
    Expl g (o_where o) new ->
    Expl g n S.

(* answering a sequence of HasCombination queries with one solver, as Program::solver_ does *)
Fixpoint run_queries (fuel : nat) (g : graph) (st : sstate) (qs : list (list bid * node))
    : option (sstate * list bool) :=
  match qs with
  | [] => Some (st, [])
  | (attrs, n) :: rest =>
    match solve fuel g st attrs n with
    | None => None
    | Some (st', a) =>
      match run_queries fuel g st' rest with
      | None => None
      | Some (st'', answers) => Some (st'', a :: answers)
      end
    end
  end.

(* clause (ii), strict reading: a node-by-node backward walk on which the condition of EVERY node
   visited joins the goals at that node; a node may be left only if it binds no variable of a goal
   that is still pending *)
Definition with_cond (g : graph) (n : node) (S : list bid) : list bid :=
  match cond g n with Some c => sins c S | None => S end.

Inductive ExplC (g : graph) : node -> list bid -> Prop :=
| EC_done : forall n S removed,
    resolves_at g n (with_cond g n S) (removed, []) -> goals_conflict g removed = false ->
    ExplC g n S
| EC_step : forall n S removed new m,
    resolves_at g n (with_cond g n S) (removed, new) -> goals_conflict g removed = false ->
    smem n (blocked_of g new) = false -> In m (incoming g n) ->
    ExplC g m new ->
    ExplC g n S.
