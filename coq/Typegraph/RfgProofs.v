(* remove_finished_goals: the explicit action-stack machine of solver.cc computes exactly the
   outcomes of the recursive resolution relation [resolves] (soundness and completeness), and the
   structural facts about those outcomes that the search proofs use. *)
From Coq Require Import List Arith Bool Lia Wf_nat.
From PV Require Import Typegraph.Graph Typegraph.Solver Typegraph.Spec Typegraph.SetLemmas.
Import ListNotations.

Lemma sins_mem : forall x l, SS l -> smem x l = true -> sins x l = l.
Proof.
  intros x l. induction l as [|h t IH]; intros Hl Hx; [discriminate|].
  destruct (SS_cons_inv _ _ Hl) as [H1 H2]. simpl in *.
  destruct (x =? h) eqn:E.
  - apply Nat.eqb_eq in E. subst. rewrite Nat.ltb_irrefl. reflexivity.
  - simpl in Hx. apply smem_In in Hx. specialize (H2 _ Hx).
    assert (x <? h = false) by (apply Nat.ltb_ge; lia). rewrite H.
    f_equal. apply IH; auto. apply smem_In. exact Hx.
Qed.

Section Rfg.
Variable g : graph.
Variable pos : node.

(* ---- one-step equations of the machine ---- *)
Lemma traverse_nil : forall results acts seen rem new,
  traverse g pos results acts (mkT [] seen rem new)
  = (results ++ [(sof_list rem, sof_list new)], acts, mkT [] seen rem new).
Proof. reflexivity. Qed.

Lemma traverse_seen : forall results acts goal gtr seen rem new,
  smem goal seen = true ->
  traverse g pos results acts (mkT (goal :: gtr) seen rem new)
  = (results, A_TRAVERSE :: A_INSERT_GTR goal :: acts, mkT gtr seen rem new).
Proof. intros. unfold traverse. simpl. rewrite H. reflexivity. Qed.

Lemma traverse_new : forall results acts goal gtr seen rem new,
  smem goal seen = false -> find_origin g goal pos = None ->
  traverse g pos results acts (mkT (goal :: gtr) seen rem new)
  = (results, A_TRAVERSE :: A_ERASE_NEW :: A_ERASE_SEEN goal :: A_INSERT_GTR goal :: acts,
     mkT gtr (sins goal seen) rem (goal :: new)).
Proof. intros. unfold traverse. simpl. rewrite H, H0. reflexivity. Qed.

Lemma traverse_rem0 : forall results acts goal gtr seen rem new o,
  smem goal seen = false -> find_origin g goal pos = Some o -> o_ssets o = [] ->
  traverse g pos results acts (mkT (goal :: gtr) seen rem new)
  = (results, A_ERASE_REMOVED :: A_ERASE_SEEN goal :: A_INSERT_GTR goal :: acts,
     mkT gtr (sins goal seen) (goal :: rem) new).
Proof. intros. unfold traverse. simpl. rewrite H, H0, H1. reflexivity. Qed.

Lemma traverse_rem : forall results acts goal gtr seen rem new o cur rest,
  smem goal seen = false -> find_origin g goal pos = Some o -> o_ssets o = cur :: rest ->
  traverse g pos results acts (mkT (goal :: gtr) seen rem new)
  = (results, A_TRAVERSE_ALL cur rest :: A_ERASE_REMOVED :: A_ERASE_SEEN goal :: A_INSERT_GTR goal :: acts,
     mkT gtr (sins goal seen) (goal :: rem) new).
Proof. intros. unfold traverse. simpl. rewrite H, H0, H1. reflexivity. Qed.

Lemma step_traverse : forall f results acts st,
  rfg_loop (S f) g pos results (A_TRAVERSE :: acts) st
  = let '(r, a, s) := traverse g pos results acts st in rfg_loop f g pos r a s.
Proof. reflexivity. Qed.

(* the three undo actions that close the processing of one goal *)
Lemma undo3_new : forall fuel results acts goal gtr seen rem new out,
  SS (goal :: gtr) -> SS seen -> smem goal seen = false ->
  rfg_loop fuel g pos results (A_ERASE_NEW :: A_ERASE_SEEN goal :: A_INSERT_GTR goal :: acts)
           (mkT gtr (sins goal seen) rem (goal :: new)) = Some out ->
  exists fuel', fuel' < fuel /\
    rfg_loop fuel' g pos results acts (mkT (goal :: gtr) seen rem new) = Some out.
Proof.
  intros fuel results acts goal gtr seen rem new out Hg Hs Hm H.
  destruct fuel as [|[|[|f]]]; try discriminate. simpl in H.
  rewrite srem_sins in H by assumption. rewrite sins_head in H by assumption.
  exists f. split; [lia | exact H].
Qed.

Lemma undo3_rem : forall fuel results acts goal gtr seen rem new out,
  SS (goal :: gtr) -> SS seen -> smem goal seen = false ->
  rfg_loop fuel g pos results (A_ERASE_REMOVED :: A_ERASE_SEEN goal :: A_INSERT_GTR goal :: acts)
           (mkT gtr (sins goal seen) (goal :: rem) new) = Some out ->
  exists fuel', fuel' < fuel /\
    rfg_loop fuel' g pos results acts (mkT (goal :: gtr) seen rem new) = Some out.
Proof.
  intros fuel results acts goal gtr seen rem new out Hg Hs Hm H.
  destruct fuel as [|[|[|f]]]; try discriminate. simpl in H.
  rewrite srem_sins in H by assumption. rewrite sins_head in H by assumption.
  exists f. split; [lia | exact H].
Qed.

Lemma erase_run : forall xs fuel results acts gtr seen rem new out,
  rfg_loop fuel g pos results (map A_ERASE_GTR xs ++ acts) (mkT gtr seen rem new) = Some out ->
  exists fuel', fuel' <= fuel /\
    rfg_loop fuel' g pos results acts
             (mkT (fold_left (fun l x => srem x l) xs gtr) seen rem new) = Some out.
Proof.
  induction xs as [|x xs IH]; intros fuel results acts gtr seen rem new out H.
  - exists fuel. split; [lia | exact H].
  - destruct fuel as [|f]; [discriminate|]. simpl in H.
    destruct (IH _ _ _ _ _ _ _ _ H) as [f' [Hf Hr]]. exists f'. split; [lia | exact Hr].
Qed.

Lemma iss_cons : forall x cur gtr acts,
  insert_source_set (x :: cur) gtr acts
  = if smem x gtr then insert_source_set cur gtr acts
    else insert_source_set cur (sins x gtr) (A_ERASE_GTR x :: acts).
Proof. intros. unfold insert_source_set. simpl. destruct (smem x gtr); reflexivity. Qed.

Lemma sunion_cons : forall a x b, sunion a (x :: b) = sunion (sins x a) b.
Proof. reflexivity. Qed.

Lemma insert_source_set_spec : forall cur gtr acts, SS gtr ->
  exists added : list nat,
    insert_source_set cur gtr acts = (sunion gtr cur, map A_ERASE_GTR added ++ acts) /\
    fold_left (fun (l : list nat) (x : nat) => srem x l) added (sunion gtr cur) = gtr.
Proof.
  induction cur as [|x cur IH]; intros gtr acts Hg.
  - exists []. split; reflexivity.
  - rewrite iss_cons, sunion_cons. destruct (smem x gtr) eqn:E.
    + destruct (IH gtr acts Hg) as [added [H1 H2]]. exists added.
      rewrite (sins_mem x gtr Hg E). split; assumption.
    + destruct (IH (sins x gtr) (A_ERASE_GTR x :: acts) (SS_sins x gtr Hg)) as [added [H1 H2]].
      exists (added ++ [x]). rewrite H1. split.
      * rewrite map_app. simpl. rewrite <- app_assoc. reflexivity.
      * rewrite fold_left_app. rewrite H2. cbn [fold_left]. apply srem_sins; assumption.
Qed.

(* ---- the frame lemma: TRAVERSE (resp. TRAVERSE_ALL_SOURCE_SETS) appends exactly the outcomes of
   the recursive enumeration and hands the SAME traverse state to the rest of the stack ---- *)
Lemma frame : forall fuel,
  (forall results acts gtr seen rem new out,
     rfg_loop fuel g pos results (A_TRAVERSE :: acts) (mkT gtr seen rem new) = Some out ->
     SS gtr -> SS seen ->
     exists fuel' rs, fuel' < fuel /\
       rfg_loop fuel' g pos (results ++ rs) acts (mkT gtr seen rem new) = Some out /\
       (forall r, In r rs <-> resolves g pos gtr seen rem new r)) /\
  (forall results cur rest acts gtr seen rem new out,
     rfg_loop fuel g pos results (A_TRAVERSE_ALL cur rest :: acts) (mkT gtr seen rem new) = Some out ->
     SS gtr -> SS seen ->
     exists fuel' rs, fuel' < fuel /\
       rfg_loop fuel' g pos (results ++ rs) acts (mkT gtr seen rem new) = Some out /\
       (forall r, In r rs <->
                  exists ss, In ss (cur :: rest) /\ resolves g pos (sunion gtr ss) seen rem new r)).
Proof.
  induction fuel as [fuel IHf] using lt_wf_ind. split.
  - (* TRAVERSE *)
    intros results acts gtr seen rem new out H Hg Hs.
    destruct fuel as [|f]; [discriminate|]. rewrite step_traverse in H.
    destruct gtr as [|goal gtr].
    + rewrite traverse_nil in H.
      exists f, [(sof_list rem, sof_list new)]. split; [lia|]. split; [exact H|].
      intros r. split.
      * intros [Hr|[]]. subst. constructor.
      * intros Hr. inversion Hr; subst. left. reflexivity.
    + destruct (SS_cons_inv _ _ Hg) as [Hg' _].
      destruct (smem goal seen) eqn:Eseen.
      * rewrite traverse_seen in H by assumption.
        destruct (IHf f (Nat.lt_succ_diag_r f)) as [IHT _].
        destruct (IHT _ _ _ _ _ _ _ H Hg' Hs) as [f1 [rs [Hf1 [Hrun Hrs]]]].
        destruct f1 as [|f2]; [discriminate|]. simpl in Hrun.
        rewrite sins_head in Hrun by assumption.
        exists f2, rs. split; [lia|]. split; [exact Hrun|].
        intros r. rewrite Hrs. split.
        -- intros Hr. apply R_seen; assumption.
        -- intros Hr. inversion Hr; subst; try congruence.
      * destruct (find_origin g goal pos) as [o|] eqn:Eor.
        -- destruct (o_ssets o) as [|cur rest] eqn:Ess.
           ++ rewrite (traverse_rem0 _ _ _ _ _ _ _ o) in H by assumption.
              destruct (undo3_rem _ _ _ _ _ _ _ _ _ Hg Hs Eseen H) as [f1 [Hf1 Hrun]].
              exists f1, []. split; [lia|]. split; [rewrite app_nil_r; exact Hrun|].
              intros r. split; [intros []|].
              intros Hr. inversion Hr; subst; try congruence.
              match goal with Ho : find_origin g goal pos = Some ?o', Hi : In _ (o_ssets ?o') |- _ =>
                rewrite Eor in Ho; inversion Ho; subst; rewrite Ess in Hi; destruct Hi end.
           ++ rewrite (traverse_rem _ _ _ _ _ _ _ o cur rest) in H by assumption.
              destruct (IHf f (Nat.lt_succ_diag_r f)) as [_ IHA].
              destruct (IHA _ _ _ _ _ _ _ _ _ H Hg' (SS_sins goal seen Hs)) as [f1 [rs [Hf1 [Hrun Hrs]]]].
              destruct (undo3_rem _ _ _ _ _ _ _ _ _ Hg Hs Eseen Hrun) as [f2 [Hf2 Hrun2]].
              exists f2, rs. split; [lia|]. split; [exact Hrun2|].
              intros r. rewrite Hrs. split.
              ** intros [ss [Hin Hr]]. eapply R_rem; eauto. rewrite Ess. exact Hin.
              ** intros Hr. inversion Hr; subst; try congruence.
                 match goal with Ho : find_origin g goal pos = Some ?o', Hi : In _ (o_ssets ?o') |- _ =>
                   rewrite Eor in Ho; inversion Ho; subst; rewrite Ess in Hi end.
                 exists ss. split; assumption.
        -- rewrite traverse_new in H by assumption.
           destruct (IHf f (Nat.lt_succ_diag_r f)) as [IHT _].
           destruct (IHT _ _ _ _ _ _ _ H Hg' (SS_sins goal seen Hs)) as [f1 [rs [Hf1 [Hrun Hrs]]]].
           destruct (undo3_new _ _ _ _ _ _ _ _ _ Hg Hs Eseen Hrun) as [f2 [Hf2 Hrun2]].
           exists f2, rs. split; [lia|]. split; [exact Hrun2|].
           intros r. rewrite Hrs. split.
           ++ intros Hr. apply R_new; assumption.
           ++ intros Hr. inversion Hr; subst; try congruence.
  - (* TRAVERSE_ALL_SOURCE_SETS *)
    intros results cur rest acts gtr seen rem new out H Hg Hs.
    destruct fuel as [|f]; [discriminate|].
    set (acts2 := match rest with [] => acts | c :: r => A_TRAVERSE_ALL c r :: acts end) in *.
    destruct (insert_source_set_spec cur gtr acts2 Hg) as [added [Hins Hundo]].
    assert (H' : rfg_loop f g pos results (A_TRAVERSE :: map A_ERASE_GTR added ++ acts2)
                          (mkT (sunion gtr cur) seen rem new) = Some out).
    { simpl in H. fold acts2 in H. rewrite Hins in H. exact H. }
    clear H.
    destruct (IHf f (Nat.lt_succ_diag_r f)) as [IHT _].
    destruct (IHT _ _ _ _ _ _ _ H' (SS_sunion gtr cur Hg) Hs) as [f1 [rs1 [Hf1 [Hrun Hrs1]]]].
    destruct (erase_run _ _ _ _ _ _ _ _ _ Hrun) as [f2 [Hf2 Hrun2]].
    rewrite Hundo in Hrun2.
    destruct rest as [|c r].
    + subst acts2. exists f2, rs1. split; [lia|]. split; [exact Hrun2|].
      intros x. rewrite Hrs1. split.
      * intros Hx. exists cur. split; [left; reflexivity | exact Hx].
      * intros [ss [[Hin|[]] Hx]]. subst. exact Hx.
    + subst acts2.
      assert (Hlt : f2 < S f) by lia.
      destruct (IHf f2 Hlt) as [_ IHA].
      destruct (IHA _ _ _ _ _ _ _ _ _ Hrun2 Hg Hs) as [f3 [rs2 [Hf3 [Hrun3 Hrs2]]]].
      exists f3, (rs1 ++ rs2). split; [lia|]. split; [rewrite app_assoc; exact Hrun3|].
      intros x. rewrite in_app_iff, Hrs1, Hrs2. split.
      * intros [Hx|[ss [Hin Hx]]].
        -- exists cur. split; [left; reflexivity | exact Hx].
        -- exists ss. split; [right; exact Hin | exact Hx].
      * intros [ss [[Hin|Hin] Hx]].
        -- subst. left. exact Hx.
        -- right. exists ss. split; assumption.
Qed.

(* remove_finished_goals is sound and complete for the resolution step *)
Theorem rfg_correct : forall fuel goals results,
  SS goals ->
  remove_finished_goals fuel g pos goals = Some results ->
  forall r, In r results <-> resolves_at g pos goals r.
Proof.
  intros fuel goals results Hg H r. unfold remove_finished_goals in H.
  destruct (frame fuel) as [FT _].
  destruct (FT _ _ _ _ _ _ _ H (SS_filter _ _ Hg) SS_nil) as [f1 [rs [_ [Hrun Hrs]]]].
  destruct f1 as [|f1]; [discriminate|]. simpl in Hrun. inversion Hrun; subst.
  unfold resolves_at, at_pos. apply Hrs.
Qed.

(* ---- structural facts about the outcomes ---- *)
Lemma resolves_facts : forall gtr seen rem new R N,
  resolves g pos gtr seen rem new (R, N) ->
  (forall b, In b seen -> In b rem \/ In b new) ->
  (forall b, In b gtr \/ In b rem \/ In b new -> In b R \/ In b N) /\
  (forall b, In b R -> In b rem \/ find_origin g b pos <> None) /\
  (forall b, In b N -> In b new \/ find_origin g b pos = None).
Proof.
  intros gtr seen rem new R N H. remember (R, N) as r eqn:Er. revert R N Er.
  induction H; intros R N Er Hseen.
  - inversion Er; subst. repeat split.
    + intros b [[]|[Hb|Hb]]; [left|right]; apply In_sof_list; exact Hb.
    + intros b Hb. left. apply In_sof_list. exact Hb.
    + intros b Hb. left. apply In_sof_list. exact Hb.
  - destruct (IHresolves R N Er Hseen) as [A [B C]]. repeat split; auto.
    intros b [[Hb|Hb]|Hb].
    + subst. apply smem_In in H. apply A. right. apply Hseen. exact H.
    + apply A. auto.
    + apply A. auto.
  - destruct (IHresolves R N Er) as [A [B C]].
    { intros b Hb. apply In_sins in Hb. destruct Hb as [Hb|Hb].
      - subst. right. left. reflexivity.
      - destruct (Hseen b Hb); [left | right; right]; assumption. }
    repeat split.
    + intros b [[Hb|Hb]|[Hb|Hb]]; apply A; auto.
      * subst. right. right. left. reflexivity.
      * right. right. right. exact Hb.
    + exact B.
    + intros b Hb. destruct (C b Hb) as [[Hc|Hc]|Hc]; auto. subst. right. exact H0.
  - destruct (IHresolves R N Er) as [A [B C]].
    { intros b Hb. apply In_sins in Hb. destruct Hb as [Hb|Hb].
      - subst. left. left. reflexivity.
      - destruct (Hseen b Hb); [left; right | right]; assumption. }
    repeat split.
    + intros b [[Hb|Hb]|[Hb|Hb]]; apply A.
      * subst. right. left. left. reflexivity.
      * left. apply In_sunion. left. exact Hb.
      * right. left. right. exact Hb.
      * right. right. exact Hb.
    + intros b Hb. destruct (B b Hb) as [[Hc|Hc]|Hc]; auto. subst. right. congruence.
    + exact C.
Qed.

Lemma at_pos_origin : forall b, at_pos g pos b = true <-> find_origin g b pos <> None.
Proof.
  intros b. unfold at_pos, bindings_at. rewrite smem_In, filter_In, in_seq. split.
  - intros [_ H] E. rewrite E in H. discriminate.
  - intros H. split.
    + split; [lia|]. simpl.
      destruct (Nat.lt_ge_cases b (n_bindings g)) as [Hlt|Hge]; [exact Hlt|].
      exfalso. apply H. unfold find_origin, origins, get_binding.
      rewrite nth_overflow by exact Hge. reflexivity.
    + destruct (find_origin g b pos); [reflexivity | congruence].
Qed.

(* every goal is either removed (and then originates at pos) or still a goal (and then does not
   originate at pos) *)
Theorem resolves_at_facts : forall goals R N,
  resolves_at g pos goals (R, N) ->
  (forall b, In b goals -> In b R \/ In b N) /\
  (forall b, In b R -> find_origin g b pos <> None) /\
  (forall b, In b N -> find_origin g b pos = None).
Proof.
  intros goals R N H. unfold resolves_at in H.
  destruct (resolves_facts _ _ _ _ _ _ H) as [A [B C]]; [intros b []|].
  repeat split.
  - intros b Hb. apply A. destruct (at_pos g pos b) eqn:E.
    + left. apply filter_In. split; assumption.
    + right. right. rewrite <- in_rev. apply filter_In. split; [exact Hb|].
      apply negb_true_iff. apply smem_false. intros Hc. apply filter_In in Hc. destruct Hc. congruence.
  - intros b Hb. destruct (B b Hb) as [[]|Hc]. exact Hc.
  - intros b Hb. destruct (C b Hb) as [Hc|Hc]; [|exact Hc].
    rewrite <- in_rev in Hc. apply filter_In in Hc. destruct Hc as [Hc1 Hc2].
    apply negb_true_iff in Hc2. apply smem_false in Hc2.
    destruct (find_origin g b pos) eqn:E; [|reflexivity]. exfalso. apply Hc2.
    apply filter_In. split; [exact Hc1|]. apply at_pos_origin. congruence.
Qed.

Lemma resolves_sorted : forall gtr seen rem new R N,
  resolves g pos gtr seen rem new (R, N) -> SS R /\ SS N.
Proof.
  intros gtr seen rem new R N H. remember (R, N) as r eqn:Er. revert R N Er.
  induction H; intros R N Er; auto.
  inversion Er; subst. split; apply SS_sof_list.
Qed.
End Rfg.
