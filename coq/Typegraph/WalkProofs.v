(* On graphs without node conditions the node-by-node walk reading of the statement (ExplC, the
   reading the Python oracle implements) and the jump reading (Expl, the one the solver is proved
   exact for) coincide. *)
From Coq Require Import List Arith Bool Lia Relations.
From PV Require Import Typegraph.Graph Typegraph.Solver Typegraph.Spec Typegraph.SetLemmas
  Typegraph.RfgProofs Typegraph.PathProofs Typegraph.ResolveMono Typegraph.SearchProofs
  Typegraph.SolverProofs Typegraph.ExactProofs.
Import ListNotations.

Section Walk.
Variable g : graph.
Hypothesis Hnc : no_conditions g = true.

Lemma with_cond_nocond : forall n S, with_cond g n S = S.
Proof. intros. unfold with_cond. rewrite (no_conditions_cond g n Hnc). reflexivity. Qed.

Lemma creach_prepend : forall blocked n m q,
  smem n blocked = false -> In m (incoming g n) -> creach g blocked m q -> creach g blocked n q.
Proof.
  intros blocked n m q Hn Hm H. induction H.
  - eapply creach_step; [constructor | exact Hn | exact Hm].
  - eapply creach_step; eauto.
Qed.

Lemma In_var_nodes_origin : forall b y o,
  find_origin g b y = Some o -> In y (var_nodes g (var_of g b)).
Proof.
  intros b y o H. unfold find_origin in H. apply find_some in H. destruct H as [Ho Hw].
  apply Nat.eqb_eq in Hw. unfold var_nodes. apply In_sof_list. apply in_flat_map.
  unfold origins, get_binding in Ho.
  destruct (Nat.lt_ge_cases b (length (g_bindings g))) as [Hlt|Hge].
  - exists (nth b (g_bindings g) (mkBinding 0 [])). split; [apply nth_In; exact Hlt|].
    unfold var_of, get_binding. rewrite Nat.eqb_refl. apply in_map_iff. exists o. auto.
  - rewrite nth_overflow in Ho by exact Hge. destruct Ho.
Qed.

Lemma unblocked_no_origin : forall y new,
  smem y (blocked_of g new) = false -> forall b, In b new -> find_origin g b y = None.
Proof.
  intros y new H b Hb. destruct (find_origin g b y) as [o|] eqn:E; [|reflexivity]. exfalso.
  apply smem_false in H. apply H. apply In_blocked_of. exists b. split; [exact Hb|].
  eapply In_var_nodes_origin. exact E.
Qed.

Lemma filter_nil : forall {A} (f : A -> bool) l, (forall x, In x l -> f x = false) -> filter f l = [].
Proof.
  intros A f. induction l as [|a t IH]; intros H; [reflexivity|]. simpl.
  rewrite (H a (or_introl eq_refl)). apply IH. intros x Hx. apply H. right. exact Hx.
Qed.

Lemma resolves_at_trivial : forall y new,
  SS new -> (forall b, In b new -> find_origin g b y = None) -> resolves_at g y new ([], new).
Proof.
  intros y new Hss H. unfold resolves_at.
  assert (Ef : filter (at_pos g y) new = []).
  { apply filter_nil. intros b Hb. destruct (at_pos g y b) eqn:E; [|reflexivity].
    apply at_pos_origin in E. specialize (H b Hb). congruence. }
  rewrite Ef. simpl.
  assert (E : sof_list (rev (filter (fun _ : nat => true) new)) = new).
  { apply sof_list_sorted_id; [exact Hss|]. intros z. rewrite <- in_rev, filter_In. tauto. }
  rewrite <- E at 2. exact (R_done g y _ _ _).
Qed.

Lemma resolves_at_sorted : forall n S R N, resolves_at g n S (R, N) -> SS R /\ SS N.
Proof. intros n S R N H. unfold resolves_at in H. eapply resolves_sorted. exact H. Qed.

(* walk => jump *)
Lemma ExplC_Expl : forall n S, ExplC g n S -> Expl g n S.
Proof.
  intros n S H. induction H as [n S removed Hr Hc | n S removed new m Hr Hc Hb Hm Hw IH].
  - rewrite with_cond_nocond in Hr. eapply Expl_done; eauto.
  - rewrite with_cond_nocond in Hr.
    destruct new as [|x0 t0] eqn:EN; [eapply Expl_done; eauto|].
    assert (HNne : new <> []) by (rewrite EN; discriminate). rewrite <- EN in *. clear EN x0 t0.
    destruct (resolves_at_sorted _ _ _ _ Hr) as [_ HssN].
    destruct (filter (at_pos g m) new) as [|b' rest] eqn:Ef.
    + inversion IH as [n0 S0 rm2 Hr2 Hc2 | n0 S0 rm2 nw2 b2 o2 Hr2 Hc2 Hb2 Ho2 Hcr2 Hex2]; subst.
      * destruct (resolves_at_none _ _ _ _ _ HssN Ef Hr2) as [_ E]. congruence.
      * destruct (resolves_at_none _ _ _ _ _ HssN Ef Hr2) as [_ E]. subst nw2.
        eapply Expl_jump; [exact Hr | exact Hc | exact Hb2 | exact Ho2 | | exact Hex2].
        eapply creach_prepend; eassumption.
    + assert (Hb' : In b' (filter (at_pos g m) new)) by (rewrite Ef; left; reflexivity).
      apply filter_In in Hb'. destruct Hb' as [Hb1 Hb2]. apply at_pos_origin in Hb2.
      destruct (find_origin g b' m) as [o'|] eqn:Eo; [|congruence].
      unfold find_origin in Eo. apply find_some in Eo. destruct Eo as [Eo1 Eo2]. apply Nat.eqb_eq in Eo2.
      rewrite <- Eo2 in IH.
      eapply Expl_jump; [exact Hr | exact Hc | exact Hb1 | exact Eo1 | | exact IH].
      rewrite Eo2. eapply creach_step; [constructor | exact Hb | exact Hm].
Qed.

(* jump => walk *)
Lemma creach_walk : forall new start x, SS new ->
  creach g (blocked_of g new) start x -> ExplC g x new -> ExplC g start new.
Proof.
  intros new start x Hss H. induction H; intros Hx; [exact Hx|].
  apply IHcreach. eapply EC_step with (removed := []) (new := new) (m := m); auto.
  rewrite with_cond_nocond. apply resolves_at_trivial; [exact Hss|].
  apply unblocked_no_origin. exact H0.
Qed.

Lemma Expl_ExplC : forall n S, Expl g n S -> ExplC g n S.
Proof.
  intros n S H. induction H as [n S removed Hr Hc | n S removed new b o Hr Hc Hb Ho Hcr Hex IH].
  - eapply EC_done; [rewrite with_cond_nocond; exact Hr | exact Hc].
  - destruct (resolves_at_sorted _ _ _ _ Hr) as [_ HssN].
    (* the first step of the clear path leaves n *)
    assert (Hgen : forall x, creach g (blocked_of g new) n x -> ExplC g x new ->
                             x = n \/ exists m, In m (incoming g n) /\ smem n (blocked_of g new) = false /\ ExplC g m new).
    { intros x Hx. induction Hx; intros Hw; [left; reflexivity|].
      right. destruct (IHHx) as [E|[m0 [Hm0 [Hnb Hw0]]]].
      - eapply EC_step with (removed := []) (new := new) (m := m); auto.
        rewrite with_cond_nocond. apply resolves_at_trivial; [exact HssN|].
        apply unblocked_no_origin. exact H.
      - subst n0. exists m. auto.
      - exists m0. auto. }
    destruct (Hgen _ Hcr IH) as [E|[m [Hm [Hnb Hw]]]].
    + (* the origin node is n itself: impossible, b is still a goal so it does not originate at n *)
      exfalso. destruct (resolves_at_facts g n _ _ _ Hr) as [_ [_ C]]. specialize (C b Hb).
      unfold find_origin in C. eapply find_none in C; [|exact Ho]. simpl in C.
      rewrite E, Nat.eqb_refl in C. discriminate.
    + eapply EC_step; [rewrite with_cond_nocond; exact Hr | exact Hc | exact Hnb | exact Hm | exact Hw].
Qed.

Theorem Expl_iff_ExplC : forall n S, Expl g n S <-> ExplC g n S.
Proof. intros. split; [apply Expl_ExplC | apply ExplC_Expl]. Qed.
End Walk.

(* clause (ii) where it holds: without conditions the strict walk reading is the jump reading *)
Theorem complete_nocond_lemma : forall g fuel qs st' answers,
  acyclic g -> no_conditions g = true ->
  run_queries fuel g sstate_empty qs = Some (st', answers) ->
  Forall2 (fun q a => ExplC g (snd q) (sof_list (fst q)) -> a = true) qs answers.
Proof.
  intros g fuel qs st' answers Ha Hnc H.
  pose proof (solver_exact_acyclic_lemma g fuel qs st' answers Ha Hnc H) as HF.
  clear H. induction HF as [|q a qs0 as0 Hq _ IH]; [constructor|]. constructor; [|exact IH].
  intros He. apply Hq. apply (Expl_iff_ExplC g Hnc). exact He.
Qed.
