(* C12 — serialised stubs decode to the same declarations, byte-stably; node equality and hashing agree.
   Property theorems only; each is closed by [exact] and followed by Print Assumptions.
   [pytd_schema] is regenerated from the live classes of the repository on every run
   (Generated/C12_Schema.v); [pytd_grammar] is the dialect G of Serial/Grammar.v. *)
From Coq Require Import List String ZArith Bool.
From PV Require Import Serial.Model Serial.Proofs Serial.HashProofs Serial.Grammar Serial.GrammarProofs.
From PV Require Import Generated.C12_Schema Serial.SchemaFacts.
Import ListNotations.
Local Open Scope string_scope.

(* Any schema whose classes have distinct field names (and a tag field that is no field), any value, any
   declared type: a value that conforms to the type is restored exactly by decode after encode. *)
Theorem roundtrip_generic : forall S hv, schema_wf S = true ->
  forall v f, conforms S hv v f = true -> decode S hv f (encode S v) = Some v.
Proof. exact roundtrip_lemma. Qed.
Print Assumptions roundtrip_generic.

(* the same for the schema of the live node classes (its well-formedness is decided by computation) *)
Theorem roundtrip : forall hv v f,
  conforms pytd_schema hv v f = true -> decode pytd_schema hv f (encode pytd_schema v) = Some v.
Proof. exact roundtrip_pytd. Qed.
Print Assumptions roundtrip.

(* Every AST of the dialect G (any size) whose unions are what _FlattenTypes leaves and whose
   class_type_nodes are the ClassType nodes of the AST conforms to the regenerated schema: each production's
   field shapes are covered by the declared field types (prods_ok, decided by computation). *)
Theorem grammar_conforms : forall hv v,
  in_G v = true -> hooks_all pytd_schema hv v = true -> conforms pytd_schema hv v (FStruct root) = true.
Proof. exact grammar_conforms_pytd. Qed.
Print Assumptions grammar_conforms.

(* hence DecodeAst(Encode(sa)) restores every SerializableAst of the dialect *)
Theorem ast_roundtrip : forall hv v,
  in_G v = true -> hooks_all pytd_schema hv v = true ->
  decode pytd_schema hv (FStruct root) (encode pytd_schema v) = Some v.
Proof. exact ast_roundtrip_pytd. Qed.
Print Assumptions ast_roundtrip.

(* encoding the decoded value again gives the same msgpack tree *)
Theorem reencode_stable : forall hv v f,
  conforms pytd_schema hv v f = true ->
  option_map (encode pytd_schema) (decode pytd_schema hv f (encode pytd_schema v)) = Some (encode pytd_schema v).
Proof. exact reencode_stable_pytd. Qed.
Print Assumptions reencode_stable.

(* == implies equal hashes, with __hash__ = hash(frozenset(type_list)) (fixes/C12-union-hash.patch) *)
Theorem eq_hash_law : forall a b,
  members_hash_distinct pytd_schema HvFixed a = true -> members_hash_distinct pytd_schema HvFixed b = true ->
  node_eqb pytd_schema HvFixed a b = true -> hk pytd_schema HvFixed a = hk pytd_schema HvFixed b.
Proof. exact eq_hash_law_fixed_pytd. Qed.
Print Assumptions eq_hash_law.

(* the unchanged __hash__ = hash(self.type_list) violates the law *)
Theorem eq_hash_law_refuted : exists a b,
  members_hash_distinct pytd_schema HvOrig a = true /\ members_hash_distinct pytd_schema HvOrig b = true /\
  node_eqb pytd_schema HvOrig a b = true /\ hk pytd_schema HvOrig a <> hk pytd_schema HvOrig b.
Proof. exact eq_hash_law_refuted_pytd. Qed.
Print Assumptions eq_hash_law_refuted.

(* ... and satisfies it only between nodes whose unions list their members in one canonical order *)
Theorem eq_hash_law_partial : forall a b,
  members_hash_distinct pytd_schema HvOrig a = true -> members_hash_distinct pytd_schema HvOrig b = true ->
  members_hash_sorted pytd_schema HvOrig a = true -> members_hash_sorted pytd_schema HvOrig b = true ->
  node_eqb pytd_schema HvOrig a b = true -> hk pytd_schema HvOrig a = hk pytd_schema HvOrig b.
Proof. exact eq_hash_law_partial_pytd. Qed.
Print Assumptions eq_hash_law_partial.

(* ---- non-vacuity ---- *)
Definition ex_sig : value :=
  VStruct "Signature" [VTuple [VStruct cls_Param [VStr "x"; union_str_int; VEnumS "ParameterKind" "regular";
                                                    VBool false; VNone]];
                       VNone; VNone; VStruct "ClassType" [VStr "m.A"; VNone]; VTuple []; VTuple []].
Definition ex_unit : value :=
  VStruct "TypeDeclUnit" [VStr "m";
    VTuple [VStruct "Constant" [VStr "m.c"; VStruct "Literal" [VInt 3]; VTuple [VStr "a"; VStr "b"]]];
    VTuple [VStruct "TypeParameter" [VStr "T"; VTuple []; VNone; VNone; VStr "m"]];
    VTuple [VStruct "Class" [VStr "m.A"; VTuple []; VTuple [VStruct "ClassType" [VStr "builtins.object"; VNone]];
                             VTuple []; VTuple []; VTuple []; VTuple []; VNone; VTuple []; VDict [] []]];
    VTuple [VStruct "Function" [VStr "m.f"; VTuple [ex_sig]; VEnumS "MethodKind" "method"; VEnumI "MethodFlag" 1;
                                VTuple []]];
    VTuple []; VDict [] []].
Definition ex_sast : value :=
  VStruct "SerializableAst" [ex_unit; VList [VTuple [VStr "builtins"; VSet [VStr "builtins.object"]]]; VList [];
                             VNone; VList [VStr "meta"];
                             VList [VStruct "ClassType" [VStr "builtins.object"; VNone];
                                    VStruct "ClassType" [VStr "m.A"; VNone]]].
Example ex_in_G : in_G ex_sast = true /\ hooks_all pytd_schema HvOrig ex_sast = true /\
                  hooks_all pytd_schema HvFixed ex_sast = true.
Proof. vm_compute. repeat split; reflexivity. Qed.
Example ex_roundtrips :
  decode pytd_schema HvOrig (FStruct root) (encode pytd_schema ex_sast) = Some ex_sast.
Proof. vm_compute. reflexivity. Qed.
(* a float inside Literal, a class the union does not list, an uncleared class pointer: not conforming, rejected *)
Example ex_rejected :
  conforms pytd_schema HvOrig (VStruct "Literal" [VFloat 1]) (FStruct "Literal") = false /\
  decode pytd_schema HvOrig (FStruct "Literal") (encode pytd_schema (VStruct "Literal" [VFloat 1])) = None /\
  decode pytd_schema HvOrig (FStruct cls_Param)
    (encode pytd_schema (VStruct cls_Param [VStr "x"; VStruct "Module" [VStr "a"; VStr "b"];
                                              VEnumS "ParameterKind" "regular"; VBool false; VNone])) = None /\
  conforms pytd_schema HvOrig (VStruct "ClassType" [VStr "A"; VStruct "Class" []]) (FStruct "ClassType") = false.
Proof. vm_compute. repeat split; reflexivity. Qed.
(* the hypotheses of the hash law are satisfiable on a pair of different, equal nodes *)
Example ex_law_instance :
  members_hash_distinct pytd_schema HvFixed union_int_str = true /\
  node_eqb pytd_schema HvFixed union_int_str union_str_int = true /\
  union_int_str <> union_str_int.
Proof. repeat split; try (vm_compute; reflexivity). intros H. discriminate H. Qed.
