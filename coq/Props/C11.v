(* C11 — stub optimisation only ever widens types and is idempotent.
   Property theorems only; each is closed by [exact] and followed by Print Assumptions.
   Model: Opt/Model.v (optimize.py, pytd_utils.JoinTypes, Node.Visit, UnionType.__post_init__);
   statement vocabulary: Opt/Spec.v; pass list and flags: Generated/C11_Passes.v (regenerated from the
   AST of optimize.Optimize on every run). *)
From Coq Require Import List Arith Bool.
From PV Require Import Opt.Syntax Generated.C11_Passes Opt.Model Opt.Spec Opt.Proofs Opt.Idem Opt.Stable.
Import ListNotations.

(* ---------------------------------------------------------------- per pass: never stricter.
   For every hierarchy, type and value (unbounded). *)

(* pytd_utils.JoinTypes admits whatever any of its arguments admits *)
Theorem join_types_widens : forall H ts t, In t ts -> wider H t (join ts).
Proof. exact join_widens. Qed.
Print Assumptions join_types_widens.

Theorem simplify_unions_widens : forall H t, wider H t (simplify_unions t).
Proof. exact simplify_unions_widens_lemma. Qed.
Print Assumptions simplify_unions_widens.

(* tuple/callable degeneration, pointwise zip-join, first-occurrence placement, re-visit *)
Theorem combine_containers_widens : forall H k t, wf k t -> wider H t (combine_containers t).
Proof. exact combine_containers_widens_lemma. Qed.
Print Assumptions combine_containers_widens.

(* both variants of SimplifyContainers (with / without the one-member-union collapse) *)
Theorem simplify_containers_widens : forall H b t, wider H t (simplify_containers b t).
Proof. exact simplify_containers_widens_lemma. Qed.
Print Assumptions simplify_containers_widens.

(* Counter over ExpandSubClasses: a dropped member always has a kept superclass in the union *)
Theorem simplify_superclasses_widens : forall H k t,
  ranked H -> wf k t -> wider H t (simplify_superclasses H t).
Proof. exact simplify_superclasses_widens_lemma. Qed.
Print Assumptions simplify_superclasses_widens.

Theorem collapse_long_unions_widens : forall H n t, wider H t (collapse_long_unions n t).
Proof. exact collapse_long_unions_widens_lemma. Qed.
Print Assumptions collapse_long_unions_widens.

Theorem adjust_generic_type_widens : forall H t, wider H t (adjust_generic_type t).
Proof. exact adjust_generic_type_widens_lemma. Qed.
Print Assumptions adjust_generic_type_widens.

Theorem absorb_mutable_widens : forall H p, param_wider H p (absorb_param p).
Proof. exact absorb_mutable_widens_lemma. Qed.
Print Assumptions absorb_mutable_widens.

Theorem normalize_generic_self_widens : forall H cls s, sig_wider H s (normalize_self_sig cls s).
Proof. exact normalize_self_sig_wider. Qed.
Print Assumptions normalize_generic_self_widens.

Theorem lookup_classes_widens : forall H u, unit_wider H u (resolve_unit u).
Proof. exact resolve_unit_wider. Qed.
Print Assumptions lookup_classes_widens.

(* ---------------------------------------------------------------- signature level *)

(* RemoveDuplicates: every signature is still there *)
Theorem remove_duplicates_sound : forall H f, func_wider H f (remove_duplicates_f f).
Proof. exact remove_duplicates_wider. Qed.
Print Assumptions remove_duplicates_sound.

(* CombineReturnsAndExceptions: a call admitted by some original signature is admitted by a merged
   one with the same parameters and a return type at least as wide *)
Theorem signature_merge_sound : forall H f, func_wider H f (combine_returns_f f).
Proof. exact combine_returns_wider. Qed.
Print Assumptions signature_merge_sound.

(* ---------------------------------------------------------------- the pipeline Optimize runs *)

(* For the regenerated pass list, every option setting of the model (lossy passes make [opt] return
   None), every hierarchy, every well-formed unit: constants, parameters and returns are never
   stricter afterwards and every original signature is covered.  With remove_mutable the unit must have
   no classes (AdjustSelf deliberately rewrites `self: Any` to the class). *)
Theorem optimize_widens : forall k o Hd u u',
  ranked (hier_of u ++ Hd) -> wf_unit k u -> (o_remove_mutable o = true -> u_classes u = []) ->
  opt o Hd u = Some u' -> unit_wider (hier_of u ++ Hd) u u'.
Proof. exact optimize_widens_thm. Qed.
Print Assumptions optimize_widens.

(* Optimize applied to a bare type (print_pytd, PyTDFunction return joining) *)
Theorem optimize_ty_widens : forall H k o t t', wf k t -> opt_ty o t = Some t' -> wider H t t'.
Proof. exact optimize_ty_widens_lemma. Qed.
Print Assumptions optimize_ty_widens.

(* ---------------------------------------------------------------- idempotence *)

(* The statement "optimising an optimised stub changes nothing" is REFUTED for the code as it is, on
   well-formed resolved input with pytype's own settings: `def f() -> Union[object, List[int]]`
   optimises to `Union[Any, List[int]]` and then to `Any` (AdjustReturnAndConstantGenericType runs after
   the unions were simplified).  The witness does not involve one-member unions, so it holds with and
   without fix C11-single-member-union. *)
Theorem optimize_idempotent_refuted : exists o Hd u u1 u2,
  lossless o /\ ranked (hier_of u ++ Hd) /\ wf_unit KClass u /\
  opt o Hd u = Some u1 /\ opt o Hd u1 = Some u2 /\ u1 <> u2.
Proof. exact optimize_idempotent_refuted_lemma. Qed.
Print Assumptions optimize_idempotent_refuted.

(* a second, independent way: the final SimplifyContainers turns List[Any] into list after
   SimplifyUnionsWithSuperclasses has run: Union[List[object], Sequence] -> Union[list, Sequence] -> Sequence *)
Theorem optimize_idempotent_refuted_subclass :
  ranked (hier_of w2 ++ w_deps) /\ wf_unit KClass w2 /\
  opt pytype_opts w_deps w2 = Some w2_once /\ opt pytype_opts w_deps w2_once = Some w2_twice /\
  w2_once <> w2_twice.
Proof. exact optimize_idempotent_refuted_subclass_lemma. Qed.
Print Assumptions optimize_idempotent_refuted_subclass.

(* the one-member union (x: Union[List[object], list] -> UnionType((list,)) -> list): present in the
   pipeline whose SimplifyContainers lacks the collapsing VisitUnionType ... *)
Theorem single_member_union_refuted :
  run_passes false pytype_opts w_deps passes w3 = Some w3_once /\
  run_passes false pytype_opts w_deps passes w3_once = Some w3_twice /\ w3_once <> w3_twice.
Proof. exact single_member_union_unfixed_lemma. Qed.
Print Assumptions single_member_union_refuted.
Theorem simplify_containers_single_member_refuted :
  no_single single_member_witness /\ ~ no_single (simplify_containers false single_member_witness).
Proof. exact simplify_containers_single_member_lemma. Qed.
Print Assumptions simplify_containers_single_member_refuted.

(* ... and gone with it: no type leaves SimplifyContainers with a one-member union anywhere, and the
   witness is a fixed point *)
Theorem simplify_containers_no_single_member : forall t, no_single (simplify_containers true t).
Proof. exact simplify_containers_no_single_lemma. Qed.
Print Assumptions simplify_containers_no_single_member.
Theorem single_member_union_fixed :
  run_passes true pytype_opts w_deps passes w3 = Some w3_twice /\
  run_passes true pytype_opts w_deps passes w3_twice = Some w3_twice.
Proof. exact single_member_union_fixed_lemma. Qed.
Print Assumptions single_member_union_fixed.

(* What does hold, for all lossless settings without remove_mutable, all hierarchies and stubs:
   a stub in optimiser normal form (Spec.stable_unit: flat duplicate-free unions of 2..max members
   without Any/nothing, no two containers with one merge key, nothing to degenerate, no member below
   another member, no all-Any container, no ClassType(object) in returns/constants, no two signatures
   with the same parameters, no self annotated with its own parameterised class, one spelling of class
   references) is a fixed point of Optimize; so optimisation is idempotent whenever its first result is
   in normal form. *)
Theorem optimize_idempotent_partial : forall kk o Hd u u1,
  lossless o -> (o_deps o && o_can_do_lookup o = true -> kk = KClass) ->
  opt o Hd u = Some u1 -> stable_unit kk o Hd u1 = true -> opt o Hd u1 = Some u1.
Proof. exact optimize_idempotent_partial_lemma. Qed.
Print Assumptions optimize_idempotent_partial.

Theorem optimize_normal_form_fixpoint : forall kk o Hd u,
  lossless o -> (o_deps o && o_can_do_lookup o = true -> kk = KClass) ->
  stable_unit kk o Hd u = true -> opt o Hd u = Some u.
Proof. exact optimize_stable_fixpoint. Qed.
Print Assumptions optimize_normal_form_fixpoint.

(* ---------------------------------------------------------------- non-vacuity *)
(* hierarchy: object(1) <- A(20) <- B(21), C(22) <- D(23 : B, C); list(10) <- Sequence(9) *)
Definition ex_deps : hier :=
  [(1, []); (2, [1]); (3, [1]); (5, [1]); (8, [1]); (9, [1]); (10, [9]); (20, [1]); (21, [20]); (22, [20]); (23, [21; 22])].
Definition ex_unit : unit_ :=
  mkUnit
    [mkConst 0 (TUnion [TName KClass 23; TName KClass 21; TName KClass 22; TName KClass 8])]
    []
    [mkFunc 1 0
       [mkSig [mkParam 2 (TUnion [TTup KClass 3 [TName KClass 8; TName KClass 21];
                                  TTup KClass 3 [TName KClass 20]]) 0 false None]
              None None (TName KClass 8) [] [];
        mkSig [mkParam 2 (TUnion [TTup KClass 3 [TName KClass 8; TName KClass 21];
                                  TTup KClass 3 [TName KClass 20]]) 0 false None]
              None None (TGen KClass 10 [TName KClass 1]) [] []]].
Definition ex_unit_opt : unit_ :=
  mkUnit
    [mkConst 0 (TUnion [TName KClass 21; TName KClass 22; TName KClass 8])]
    []
    [mkFunc 1 0
       [mkSig [mkParam 2 (TGen KClass 3 [TUnion [TName KClass 8; TName KClass 20]]) 0 false None]
              None None (TUnion [TName KClass 8; TName KClass 10]) [] []]].

(* the hypotheses of optimize_widens are met by a unit on which the pipeline does real work:
   D is absorbed by B and C, the tuples degenerate and merge, B is absorbed by A inside the merged
   parameter, the two signatures merge, List[object] becomes list *)
Example ex_hypotheses : ranked (hier_of ex_unit ++ ex_deps) /\ wf_unit KClass ex_unit.
Proof. split; [apply rankedb_ranked; vm_compute; reflexivity | unfold wf_unit; vm_compute; repeat constructor]. Qed.
Example ex_optimised : opt pytype_opts ex_deps ex_unit = Some ex_unit_opt.
Proof. vm_compute. reflexivity. Qed.
(* and the result is in normal form, so optimize_idempotent_partial applies to it *)
Example ex_stable : stable_unit KClass pytype_opts ex_deps ex_unit_opt = true.
Proof. vm_compute. reflexivity. Qed.
Example ex_idempotent : opt pytype_opts ex_deps ex_unit_opt = Some ex_unit_opt.
Proof. vm_compute. reflexivity. Qed.
(* a value: the tuple (int(), B()) is admitted by the parameter before and after *)
Example ex_value :
  admits ex_deps (TUnion [TTup KClass 3 [TName KClass 8; TName KClass 21]; TTup KClass 3 [TName KClass 20]])
         (Tup [Obj 8 []; Obj 21 []]) /\
  admits ex_deps (TGen KClass 3 [TUnion [TName KClass 8; TName KClass 20]]) (Tup [Obj 8 []; Obj 21 []]).
Proof.
  split.
  - simpl. left. repeat split; try apply sub_refl.
  - simpl. repeat split; try apply sub_refl.
    + left. apply sub_refl.
    + right. left. eapply sub_step; [simpl; left; reflexivity | apply sub_refl].
Qed.
(* the wf hypothesis of simplify_superclasses_widens is needed: NamedType("A") next to ClassType("A")
   is dropped entirely *)
Example mixed_spellings_narrow :
  simplify_superclasses ex_deps (TUnion [TName KNamed 20; TName KClass 20]) = TNothing.
Proof. vm_compute. reflexivity. Qed.

(* ================================================================ "the only changes are ..."
   The justified-rewrite relation (Opt/Rewrites.v): reflexive-transitive congruence closure of small named
   schemas — (1) JoinTypes housekeeping, (2) container merging, (3) hierarchy-justified union simplification
   and the max_union collapse, (4) identical signatures removed / equal-parameter signatures merged,
   (5) object->Any, C[Any..]->C, mutated parameter absorbed, self: C[..]->C — plus two schemas the property
   text does not name: NamedType->ClassType (LookupClasses) and x -> UnionType((x,)) (CombineContainers'
   one-member re-wrap). *)
From PV Require Import Opt.Rewrites Opt.RewriteProofs.

(* the relation itself cannot narrow: for all hierarchies, max_union, types, values *)
Theorem jr_widens : forall H mx t t', jr_ty H mx t t' -> forall v, admits H t v -> admits H t' v.
Proof. exact jr_widens_lemma. Qed.
Print Assumptions jr_widens.
Theorem jr_unit_widens : forall Hd mx u u', jr_unit Hd mx u u' -> unit_wider (hier_of u ++ Hd) u u'.
Proof. exact jr_unit_widens_lemma. Qed.
Print Assumptions jr_unit_widens.

(* per pass: P t is reachable from t by justified rewrites *)
Theorem join_types_justified : forall H mx ts, jr_ty H mx (TUnion ts) (join ts).
Proof. exact jr_join. Qed.
Print Assumptions join_types_justified.
Theorem simplify_unions_justified : forall H mx t, jr_ty H mx t (simplify_unions t).
Proof. exact simplify_unions_jr. Qed.
Print Assumptions simplify_unions_justified.
Theorem combine_containers_justified : forall H mx k t, wf k t -> jr_ty H mx t (combine_containers t).
Proof. exact combine_containers_jr. Qed.
Print Assumptions combine_containers_justified.
Theorem simplify_containers_justified : forall H mx b t, jr_ty H mx t (simplify_containers b t).
Proof. exact simplify_containers_jr. Qed.
Print Assumptions simplify_containers_justified.
Theorem simplify_superclasses_justified : forall H mx k t,
  ranked H -> wf k t -> jr_ty H mx t (simplify_superclasses H t).
Proof. exact simplify_superclasses_jr. Qed.
Print Assumptions simplify_superclasses_justified.
Theorem collapse_long_unions_justified : forall H mx t, mx <> 0 -> jr_ty H mx t (collapse_long_unions mx t).
Proof. exact collapse_long_unions_jr. Qed.
Print Assumptions collapse_long_unions_justified.
Theorem adjust_generic_type_justified : forall H mx t, jr_ty H mx t (adjust_generic_type t).
Proof. exact adjust_generic_type_jr. Qed.
Print Assumptions adjust_generic_type_justified.
Theorem remove_duplicates_justified : forall H mx cls f, jr_func H mx cls f (remove_duplicates_f f).
Proof. exact remove_duplicates_jr. Qed.
Print Assumptions remove_duplicates_justified.
Theorem signature_merge_justified : forall H mx cls f, jr_func H mx cls f (combine_returns_f f).
Proof. exact combine_returns_jr. Qed.
Print Assumptions signature_merge_justified.
Theorem normalize_generic_self_justified : forall H mx c s, jr_sig H mx (Some c) s (normalize_self_sig c s).
Proof. exact normalize_self_sig_jr. Qed.
Print Assumptions normalize_generic_self_justified.

(* the pipeline Optimize runs, for the regenerated pass list and every lossless setting (any deps /
   max_union / can_do_lookup; no remove_mutable): the optimised unit is reachable from the input by
   justified rewrites only.  Hypotheses as for optimize_widens: on the faithful model
   SimplifyUnionsWithSuperclasses is NOT a justified rewrite on units mixing NamedType("A") with
   ClassType("A") (it drops both), nor on cyclic hierarchies. *)
Theorem lossless_changes_only : forall k o Hd u u',
  lossless o -> ranked (hier_of u ++ Hd) -> wf_unit k u ->
  opt o Hd u = Some u' -> jr_unit Hd (o_max_union o) u u'.
Proof. exact lossless_changes_only_lemma. Qed.
Print Assumptions lossless_changes_only.

Theorem lossless_changes_only_ty : forall H k o t t',
  o_lossy o = false -> wf k t -> opt_ty o t = Some t' -> jr_ty H (o_max_union o) t t'.
Proof. exact lossless_changes_only_ty_lemma. Qed.
Print Assumptions lossless_changes_only_ty.

(* optimize_widens for the lossless settings is a corollary of the two theorems above *)
Corollary optimize_widens_by_rewrites : forall k o Hd u u',
  lossless o -> ranked (hier_of u ++ Hd) -> wf_unit k u ->
  opt o Hd u = Some u' -> unit_wider (hier_of u ++ Hd) u u'.
Proof. exact optimize_widens_from_rewrites. Qed.
Print Assumptions optimize_widens_by_rewrites.

(* non-vacuity: the example unit above (subclass absorption, tuple degeneration and merge, signature merge,
   List[object] -> list) is related to its optimised form; and a derivation spelled out with the named rules:
   Union[B, A, B] -> Union[B, A] (same members) -> Union[A] (B absorbed by its listed superclass A) -> A *)
Example ex_rewrites : jr_unit ex_deps 7 ex_unit ex_unit_opt.
Proof.
  destruct ex_hypotheses as [R W].
  exact (lossless_changes_only KClass pytype_opts ex_deps ex_unit ex_unit_opt lossless_pytype_opts R W ex_optimised).
Qed.
Example ex_rules : jr_ty ex_deps 7 (TUnion [TName KClass 21; TName KClass 20; TName KClass 21]) (TName KClass 20).
Proof.
  eapply jr_trans; [apply (jr_same_members _ _ _ [TName KClass 21; TName KClass 20])|].
  - intros x. split; intros [t [Hin M]]; exists t; split; try exact M; simpl in *; tauto.
  - eapply jr_trans; [apply (jr_subclass_absorbed ex_deps 7 [] KClass 21 [TName KClass 20] KClass 20)|].
    + left; reflexivity.
    + eapply sub_step; [simpl; left; reflexivity | apply sub_refl].
    + apply jr_one_member.
Qed.

(* ================================================================ MergeTypeParameters with templates
   (Opt/Model.v mtp_sig: TypeParameterScope's stack, the type_param_union of VisitUnionType, _AllContaining,
   _ReplaceByOuterIfNecessary, ReplaceTypeParameters, SimplifyUnions).  A type parameter is read as its upper
   value (TypeParameter.upper_value): union of the constraints, else the bound, else Any. *)

(* as stated, REFUTED: class A(Generic[T]) with T bound to int, def f(self, x: Union[T, T2]) -> T2 becomes
   def f(self, x: T) -> T; before, x and the result admit any object, afterwards only ints *)
Definition mtp_T_bounded := TVar 1 1 true [TName KClass 8].
Definition mtp_T := TVar 1 1 false [].
Definition mtp_T2 := TVar 2 2 false [].
Definition mtp_sig_ex (t : ty) : sig :=
  mkSig [mkParam 0 (TName KClass 20) 0 false None; mkParam 2 (TUnion [t; mtp_T2]) 0 false None] None None mtp_T2 []
        [mtp_T2].
Definition mtp_sig_ex_out (t : ty) : sig :=
  mkSig [mkParam 0 (TName KClass 20) 0 false None; mkParam 2 t 0 false None] None None t [] [].
Theorem merge_type_parameters_widens_refuted : exists H ct s s' v,
  mtp_sig ct s = Some s' /\ admits H (s_ret s) v /\ ~ admits H (s_ret s') v.
Proof.
  exists [], [mtp_T_bounded], (mtp_sig_ex mtp_T_bounded), (mtp_sig_ex_out mtp_T_bounded), (Obj 21 []).
  split; [vm_compute; reflexivity|]. split; [exact I|].
  simpl. intros S. inversion S; subst. simpl in H. contradiction.
Qed.
Print Assumptions merge_type_parameters_widens_refuted.

(* what holds: if the class's own type parameters have no bound and no constraints, every signature is covered
   (all hierarchies, signatures, templates; the function type parameters may be bounded) *)
Theorem merge_type_parameters_widens_partial : forall H ct s s',
  Forall unbounded_var ct -> mtp_sig ct s = Some s' -> sig_wider H s s'.
Proof. exact mtp_sig_wider. Qed.
Print Assumptions merge_type_parameters_widens_partial.
Theorem merge_type_parameters_unit_widens : forall H u u',
  unb_classes u -> merge_type_parameters u = Some u' -> unit_wider H u u'.
Proof. intros H u u' U E. exact (proj1 (merge_type_parameters_wider H u u' U E)). Qed.
Print Assumptions merge_type_parameters_unit_widens.
Example mtp_nonvacuous :
  Forall unbounded_var [mtp_T] /\ mtp_sig [mtp_T] (mtp_sig_ex mtp_T) = Some (mtp_sig_ex_out mtp_T).
Proof. split; [repeat constructor; exists 1, 1, false; reflexivity | vm_compute; reflexivity]. Qed.

(* ================================================================ idempotence, characterised
   (Opt/SecondRun.v).  second_run_changes classifies an input by running the modelled steps one at a time: the
   first step of run 2 that changes run 1's result against the last changing step of run 1. *)
From PV Require Import Opt.SecondRun Opt.SecondRunProofs.

(* exact: the second run returns its input iff the classification says CStable (every option setting of the
   model, every unit, no well-formedness needed) *)
Theorem optimize_idempotent_iff : forall o Hd u u1 u2,
  opt o Hd u = Some u1 -> opt o Hd u1 = Some u2 -> (u2 = u1 <-> second_run_changes o Hd u = CStable).
Proof. exact optimize_idempotent_iff_lemma. Qed.
Print Assumptions optimize_idempotent_iff.
(* every other clause names a step that is enabled and, applied to run 1's result, changes it *)
Theorem second_run_clause_sound : forall o Hd u u1 p,
  opt o Hd u = Some u1 ->
  (second_run_changes o Hd u = CSingleSweep p \/ second_run_changes o Hd u = CPassNotIdempotent p
   \/ second_run_changes o Hd u = CLatePass p) ->
  exists j fl, nth_error passes j = Some (fl, p) /\ forallb (enabled o) fl = true /\
               run_pass sc_collapse_single o Hd p u1 <> Some u1.
Proof. exact second_run_clause_lemma. Qed.
Print Assumptions second_run_clause_sound.
(* the refuted families are clauses of the predicate *)
Example clause_object_any : second_run_changes pytype_opts w_deps w1 = CSingleSweep PSimplifyUnions.
Proof. vm_compute. reflexivity. Qed.
Example clause_late_subclass : second_run_changes pytype_opts w_deps w2 = CSingleSweep PSimplifyUnionsWithSuperclasses.
Proof. vm_compute. reflexivity. Qed.
Example clause_single_member_unfixed :
  second_run_changes_in false pytype_opts w_deps passes w3 = CSingleSweep PSimplifyUnions /\
  second_run_changes pytype_opts w_deps w3 = CStable.
Proof. split; vm_compute; reflexivity. Qed.

(* a weaker sufficient condition than stable_unit, for EVERY option setting (remove_mutable included) and both
   spellings: if every enabled step on its own leaves the unit alone, Optimize leaves it alone *)
Theorem second_run_stable_fixpoint : forall o Hd u, second_run_stable o Hd u = true -> opt o Hd u = Some u.
Proof. exact second_run_stable_fixpoint_lemma. Qed.
Print Assumptions second_run_stable_fixpoint.
Theorem stable_unit_second_run_stable : forall kk o Hd u,
  lossless o -> (o_deps o && o_can_do_lookup o = true -> kk = KClass) ->
  stable_unit kk o Hd u = true -> second_run_stable o Hd u = true.
Proof. exact stable_unit_second_run_stable_lemma. Qed.
Print Assumptions stable_unit_second_run_stable.
(* strictly weaker: x: Union[NamedType K0, ClassType K1] without deps is no normal form in either spelling *)
Definition ex_mixed : unit_ := mkUnit [mkConst 0 (TUnion [TName KNamed 20; TName KClass 21])] [] [].
Definition ex_nodeps : opts := mkOpts false false false 7 false true.
Example second_run_stable_strictly_weaker :
  second_run_stable ex_nodeps [] ex_mixed = true /\
  stable_unit KNamed ex_nodeps [] ex_mixed = false /\ stable_unit KClass ex_nodeps [] ex_mixed = false.
Proof. vm_compute. auto. Qed.

(* ================================================================ Node.Visit's identity short-cut
   visit_sc hands the ORIGINAL union to the callback when no child changed (the code tests `is`; a child that is
   rebuilt equal takes the rebuilding branch, which then re-normalises to the same list).  On types whose unions
   were all built by the UnionType constructor it is the always-rebuilding visitor of the model. *)
Theorem visit_identity_shortcut : forall fU fG fN fB t,
  ctor_built t = true -> visit_sc fU fG fN fB t = visit fU fG fN fB t.
Proof. exact visit_sc_eq. Qed.
Print Assumptions visit_identity_shortcut.
Theorem visit_shortcut_needs_constructor_built :
  let t := TUnion [TUnion [TName KClass 8; TName KClass 2]] in
  ctor_built t = false /\ visit_sc TUnion TGen TName id_kind t <> visit TUnion TGen TName id_kind t.
Proof. exact visit_sc_needs_ctor_built. Qed.
Print Assumptions visit_shortcut_needs_constructor_built.

(* msgspec `==`/hash on Literal values is Python's: Literal(True) == Literal(1).  De-duplicating by it loses a
   nominally different literal (RemoveDuplicates drops `def f() -> Literal[1]` next to `-> Literal[True]`);
   without bool literals it IS the structural equality the model uses. *)
Theorem literal_eq_conflation_refuted : exists l v, In v l /\ ~ In v (dedup_by lv_py_eqb l).
Proof. exact literal_eq_conflation. Qed.
Print Assumptions literal_eq_conflation_refuted.
Theorem literal_eq_structural_partial : forall l,
  forallb is_lint l = true -> dedup_by lv_py_eqb l = dedup_by lv_eqb l.
Proof. exact literal_eq_no_bool. Qed.
Print Assumptions literal_eq_structural_partial.

(* ================================================================ CombineContainers: the fuel is sufficient
   (Opt/Fuel.v).  The re-visit of merged parameters is not structural; the model runs it with fuel 2*size+2.
   Measure: merged parameters have no union directly inside a union and a smaller container depth, so fuel
   2 * depth always suffices.  For EVERY type (no well-formedness): the model's CombineContainers never runs
   out of fuel, the totalised [combine_containers] is the fuelled function, and the pass never leaves the model. *)
From PV Require Import Opt.Fuel.
Theorem cc_fuel_sufficient : forall t, cc_top t <> None.
Proof. exact cc_top_total. Qed.
Print Assumptions cc_fuel_sufficient.
Theorem combine_containers_is_fuelled : forall t, cc_top t = Some (combine_containers t).
Proof. exact combine_containers_spec. Qed.
Print Assumptions combine_containers_is_fuelled.
Theorem combine_containers_pass_total : forall cs o Hd u,
  run_pass cs o Hd PCombineContainers u = Some (map_ty_unit combine_containers u).
Proof. intros cs o Hd u. simpl. rewrite cc_pass_total. reflexivity. Qed.
Print Assumptions combine_containers_pass_total.
(* non-vacuity: the merge re-visit really nests (a merge inside a merged parameter) *)
Example cc_nested_revisit :
  combine_containers (TUnion [TGen KClass 10 [TGen KClass 10 [TName KClass 8]];
                              TGen KClass 10 [TGen KClass 10 [TName KClass 2]]])
  = TGen KClass 10 [TGen KClass 10 [TUnion [TName KClass 8; TName KClass 2]]].
Proof. vm_compute. reflexivity. Qed.
