(* C17 -- boolean-equation terms (pytype/pytd/booleq.py) are built and simplified to logically
   equivalent terms.  Property theorems only; each is closed by [exact] and followed by Print Assumptions.
   All statements are for arbitrary names (any strings), terms of any size/depth, any assignment sigma and
   any table; nothing is bounded.  [sigma : name -> name] gives every variable (a name starting with "~")
   a value; any other name denotes itself.  TAnd/TOr nodes are Python sets, modelled as lists. *)
From Coq Require Import List Bool String Ascii Arith.
From PV Require Import Booleq.Model Booleq.Proofs.
Import ListNotations.
Open Scope string_scope.

(* ---------- constructors = plain connectives, under every assignment ---------- *)

(* And(es) (es any list of terms, also hand-made ones) is true exactly when every e in es is *)
Theorem and_equiv : forall (sigma : name -> name) (es : list term),
  eval sigma (AndC es) = forallb (eval sigma) es.
Proof. exact and_equiv_lemma. Qed.
Print Assumptions and_equiv.

Theorem or_equiv : forall (sigma : name -> name) (es : list term),
  eval sigma (OrC es) = existsb (eval sigma) es.
Proof. exact or_equiv_lemma. Qed.
Print Assumptions or_equiv.

(* Eq(l, r) is true exactly when both sides denote the same value (var=var, var=value, value=value) *)
Theorem eq_equiv : forall (sigma : name -> name) (l r : name),
  eval sigma (EqC l r) = String.eqb (val sigma l) (val sigma r).
Proof. exact eq_equiv_lemma. Qed.
Print Assumptions eq_equiv.

(* Eq(l, r) is TRUE when l == r and otherwise the _Eq over the same two names with the greater string on
   the left *)
Theorem eq_shape : forall l r : name,
  (l = r /\ EqC l r = T) \/
  (l <> r /\ exists a b, EqC l r = TEq a b /\ String.ltb b a = true /\
                         ((a = l /\ b = r) \/ (a = r /\ b = l))).
Proof. exact eq_shape_lemma. Qed.
Print Assumptions eq_shape.

(* ---------- normal form ---------- *)

(* FALSE anywhere in the argument list absorbs a conjunction, TRUE a disjunction *)
Theorem and_false_absorbed : forall es, In F es -> AndC es = F.
Proof. exact (opc_stop_lemma KAnd). Qed.
Print Assumptions and_false_absorbed.

Theorem or_true_absorbed : forall es, In T es -> OrC es = T.
Proof. exact (opc_stop_lemma KOr). Qed.
Print Assumptions or_true_absorbed.

(* TRUE arguments of And (FALSE arguments of Or) are dropped *)
Theorem and_true_dropped : forall es,
  AndC es = AndC (filter (fun e => negb (is_ident e T)) es).
Proof. exact (opc_skip_lemma KAnd). Qed.
Print Assumptions and_true_dropped.

Theorem or_false_dropped : forall es,
  OrC es = OrC (filter (fun e => negb (is_ident e F)) es).
Proof. exact (opc_skip_lemma KOr). Qed.
Print Assumptions or_false_dropped.

(* What simplify_exprs guarantees about ANY argument list (the precise extent of flattening): the result
   is TRUE, FALSE, or a term that is an argument which is not TRUE/FALSE/same-class or an immediate child
   of a same-class argument ([origin]); and when it is a freshly made node of class k, that node has at
   least two children, pairwise different under __eq__, each with such an origin.  Flattening is one
   level deep: children of a same-class argument are taken as they are. *)
Theorem constructor_shape : forall (k : kind) (es : list term),
  match OpC k es with
  | Op k' xs => (k' = k /\ 2 <= List.length xs /\ dupfree xs = true /\ forall x, In x xs -> origin k es x)
                \/ origin k es (Op k' xs)
  | T | F => True
  | TEq l r => origin k es (TEq l r)
  end.
Proof. exact opc_shape_lemma. Qed.
Print Assumptions constructor_shape.

(* hence: if the arguments are in normal form (hereditarily: no TRUE/FALSE/same-class child, >= 2 pairwise
   different children), so is the result -- in particular no nested And-in-And / Or-in-Or at any depth *)
Theorem and_normal : forall es, forallb normal es = true -> normal (AndC es) = true.
Proof. exact (opc_normal_lemma KAnd). Qed.
Print Assumptions and_normal.

Theorem or_normal : forall es, forallb normal es = true -> normal (OrC es) = true.
Proof. exact (opc_normal_lemma KOr). Qed.
Print Assumptions or_normal.

(* every term obtainable through the public API (TRUE, FALSE, Eq, And, Or) is in normal form and every
   _Eq in it has right < left *)
Theorem built_normal : forall t, built t -> normal t = true /\ oriented t = true.
Proof. exact built_wf_lemma. Qed.
Print Assumptions built_normal.

(* ---------- simplify(assignments) ---------- *)

(* Same truth value under every assignment drawn from the table, for ANY term (API-built or hand-made).
   Hypotheses: every variable of the term is a key of the table (else no assignment can be "drawn from
   the table"), sigma picks for every key variable one of its still-possible values, and the call
   returned (no KeyError). *)
Theorem simplify_equiv : forall (sigma : name -> name) (tbl : table) (t r : term),
  covers tbl t = true -> consistent sigma tbl ->
  simplify tbl t = Some r -> eval sigma r = eval sigma t.
Proof. exact simplify_equiv_lemma. Qed.
Print Assumptions simplify_equiv.

(* the call returns whenever every equality has a side that is a key of the table ... *)
Theorem simplify_total : forall tbl t, keyed tbl t = true -> exists r, simplify tbl t = Some r.
Proof. exact simplify_total_lemma. Qed.
Print Assumptions simplify_total.

(* ... which is the case when the variables are covered and every equality mentions a variable ... *)
Theorem covered_is_keyed : forall tbl t,
  covers tbl t = true -> mentions_var t = true -> keyed tbl t = true.
Proof. exact covers_keyed. Qed.
Print Assumptions covered_is_keyed.

(* ... and a KeyError can only come from an equality neither side of which is a key *)
Theorem simplify_keyerror : forall tbl t, simplify tbl t = None -> keyed tbl t = false.
Proof. exact simplify_none_lemma. Qed.
Print Assumptions simplify_keyerror.

(* simplification keeps the normal form (TRUE/FALSE produced by pruning are absorbed, a child that
   collapses to a same-class node is flattened) and the _Eq invariant *)
Theorem simplify_normal : forall tbl t r,
  normal t = true -> simplify tbl t = Some r -> normal r = true.
Proof. exact simplify_normal_lemma. Qed.
Print Assumptions simplify_normal.

Theorem simplify_oriented : forall tbl t r,
  oriented t = true -> simplify tbl t = Some r -> oriented r = true.
Proof. exact simplify_oriented_lemma. Qed.
Print Assumptions simplify_oriented.

(* every equality left in the result offers a still-possible value (or compares with another key) *)
Theorem simplify_pruned : forall tbl t r, simplify tbl t = Some r -> pruned tbl r = true.
Proof. exact simplify_pruned_lemma. Qed.
Print Assumptions simplify_pruned.

(* the property for API-built terms in one statement: the simplified term has the same truth value under
   every assignment drawn from the table, is again in normal form, and offers only still-possible values *)
Theorem api_simplify : forall (sigma : name -> name) (tbl : table) (t r : term),
  built t -> covers tbl t = true -> consistent sigma tbl -> simplify tbl t = Some r ->
  eval sigma r = eval sigma t /\ normal r = true /\ oriented r = true /\ pruned tbl r = true.
Proof. exact api_simplify_lemma. Qed.
Print Assumptions api_simplify.

(* ---------- non-vacuity ---------- *)
Definition va := "~a". Definition vb := "~b". Definition vc := "~c".

(* a depth-3 term through the public API with var=value, var=var, duplicates, TRUE, nested same-kind *)
Definition ex_t : term :=
  AndC [ OrC [EqC va "x"; EqC "y" va; EqC va "x"];
         AndC [EqC vb va; T; OrC [EqC vb "x"; AndC [EqC vc "z"; EqC vc vb]]] ].
Definition ex_tbl : table := [(va, ["x"; "y"]); (vb, ["x"]); (vc, ["y"; "z"])].
Definition ex_sigma (n : name) : name :=
  if String.eqb n va then "x" else if String.eqb n vb then "x" else "z".

(* the nested And was flattened into the outer one; the duplicate and TRUE are gone; Eq sorted its sides *)
Example ex_t_value :
  ex_t = TAnd [ TOr [TEq va "x"; TEq va "y"]; TEq vb va;
                TOr [TEq vb "x"; TAnd [TEq vc "z"; TEq vc vb]] ].
Proof. vm_compute. reflexivity. Qed.

Example ex_t_built : built ex_t.
Proof.
  unfold ex_t. repeat constructor.
Qed.

(* the hypotheses of simplify_equiv hold for it, with a non-trivial result *)
Example ex_hyps : oriented ex_t = true /\ covers ex_tbl ex_t = true /\ keyed ex_tbl ex_t = true /\
                  normal ex_t = true.
Proof. vm_compute. repeat split; reflexivity. Qed.

Example ex_consistent : consistent ex_sigma ex_tbl.
Proof.
  intros v vs H _. unfold ex_tbl in H. simpl in H.
  destruct (String.eqb v va) eqn:E1.
  { inversion H. subst vs. unfold ex_sigma. rewrite E1. simpl. auto. }
  destruct (String.eqb v vb) eqn:E2.
  { inversion H. subst vs. unfold ex_sigma. rewrite E1, E2. simpl. auto. }
  destruct (String.eqb v vc) eqn:E3; [|discriminate].
  inversion H. subst vs. unfold ex_sigma. rewrite E1, E2. simpl. auto.
Qed.

(* ~c = ~b is kept (both keys); ~b = x is kept; nothing is pruned here except through the table below *)
Example ex_simplify :
  simplify ex_tbl ex_t
  = Some (TAnd [ TOr [TEq va "x"; TEq va "y"]; TEq vb va;
                 TOr [TEq vb "x"; TAnd [TEq vc "z"; TEq vc vb]] ]) /\
  eval ex_sigma ex_t = true.
Proof. vm_compute. split; reflexivity. Qed.

(* pruning: with ~a restricted to {y} and ~c to {y}, the Or loses ~a = x and collapses to one equality,
   the inner And becomes FALSE and its Or collapses to ~b = x, which the outer And absorbs as a child *)
Example ex_simplify_pruning :
  simplify [(va, ["y"]); (vb, ["x"]); (vc, ["y"])] ex_t
  = Some (TAnd [TEq va "y"; TEq vb va; TEq vb "x"]).
Proof. vm_compute. reflexivity. Qed.

(* a child that simplifies to a same-class node is flattened into its parent *)
Example ex_simplify_flattens :
  simplify [(va, ["x"]); (vb, ["x"; "y"])]
           (AndC [EqC va "x"; OrC [EqC va "z"; AndC [EqC vb "x"; EqC vb va]]])
  = Some (TAnd [TEq va "x"; TEq vb "x"; TEq vb va]).
Proof. vm_compute. reflexivity. Qed.

(* KeyError: a value=value equality, or a variable that is not a key compared with a value *)
Example ex_keyerror :
  simplify ex_tbl (EqC "x" "y") = None /\ simplify ex_tbl (EqC "~d" "x") = None /\
  keyed ex_tbl (EqC "~d" "x") = false.
Proof. vm_compute. repeat split; reflexivity. Qed.

(* the generator is consumed lazily: the KeyError of a later child is not seen once FALSE was produced *)
Example ex_lazy_keyerror :
  simplify [(va, ["y"])] (TAnd [TEq va "x"; TEq "~d" "x"]) = Some F /\
  simplify [(va, ["y"])] (TAnd [TEq "~d" "x"; TEq va "x"]) = None.
Proof. vm_compute. split; reflexivity. Qed.

(* ---------- the coverage hypothesis of simplify_equiv is needed ---------- *)

(* without coverage: ~a is not a key, so ~b = ~a is read as "~b = the value called ~a" and pruned *)
Example ex_needs_covers :
  let tbl := [(vb, ["x"])] in
  let sigma := fun _ : name => "x" in
  consistent sigma tbl /\ covers tbl (EqC vb va) = false /\
  simplify tbl (EqC vb va) = Some F /\ eval sigma (EqC vb va) = true.
Proof.
  cbv zeta. split.
  - intros v vs H _. simpl in H. destruct (String.eqb v vb); [|discriminate].
    inversion H. simpl. auto.
  - vm_compute. repeat split; reflexivity.
Qed.

(* limit of the flattening on hand-made (non-API) input: And's docstring ("none of its immediate subterms
   is ... another conjunction") holds for API-built arguments (and_normal) but not for a raw _And whose
   own children were not flattened -- one level only *)
Example ex_one_level_only :
  AndC [TAnd [TAnd [TEq va "x"; TEq vb "x"]; TEq vc "x"]]
  = TAnd [TAnd [TEq va "x"; TEq vb "x"]; TEq vc "x"].
Proof. vm_compute. reflexivity. Qed.

(* ====================================================================================================
   The consumer: extract_pivots / extract_equalities and Solver.solve (model: Booleq/Solver.v).
   [ord] (and [eord]) is the order in which the interpreter iterates a set; every statement holds for
   every order.  Exceptions are [None]/[Raised].
   ==================================================================================================== *)
From PV Require Import Booleq.Solver Booleq.SolverProofs.

(* ---------- (a) extract_pivots, extract_equalities ---------- *)

(* the contract of extract_pivots: if sigma is drawn from the table and satisfies the term, every pivot that is a
   key of the table contains the value sigma gives it.  Holds for every term all of whose disjunctions are
   [guarded] (each table key among an _Or's pivots is a pivot of EVERY disjunct); in particular for every term
   without _Or.  var=var equalities: both sides get the intersection of their table entries. *)
Theorem pivots_sound_partial : forall (sigma : name -> name) (tbl : table) (t : term),
  keys_vars tbl -> consistent sigma tbl -> covers tbl t = true -> guarded tbl t = true ->
  eval sigma t = true ->
  forall p pv, In (p, pv) (extract_pivots tbl t) -> has_key tbl p = true -> In (sigma p) pv.
Proof. exact pivots_sound_lemma. Qed.
Print Assumptions pivots_sound_partial.

(* without [guarded] the contract fails: (~a = x | ~b = y) under ~a in {x,z}, ~b in {y} yields the pivot
   ~a -> {x}, although ~a = z, ~b = y satisfies the term.  _Or.extract_pivots takes the union over the
   disjuncts that mention a name; a disjunct that does not mention it allows any value.  FINDING. *)
Theorem pivots_sound_refuted :
  exists (sigma : name -> name) (tbl : table) (t : term),
    keys_vars tbl /\ consistent sigma tbl /\ covers tbl t = true /\ eval sigma t = true /\
    ~ (forall p pv, In (p, pv) (extract_pivots tbl t) -> has_key tbl p = true -> In (sigma p) pv).
Proof.
  exists w_sigma, w_tbl, w_term. destruct pivots_refuted_lemma as [A [B [C [D [_ E]]]]]. repeat split; assumption.
Qed.
Print Assumptions pivots_sound_refuted.

(* the result of extract_pivots is a dict: no key twice *)
Theorem pivots_keys_unique : forall tbl t, NoDup (map fst (extract_pivots tbl t)).
Proof. exact nodup_extract_pivots. Qed.
Print Assumptions pivots_keys_unique.

(* extract_equalities returns exactly the (left, right) pairs of the _Eq nodes of the term *)
Theorem equalities_spec : forall t l r, In (l, r) (extract_equalities t) <-> occurs_eq l r t.
Proof. exact equalities_spec_lemma. Qed.
Print Assumptions equalities_spec.

(* ---------- (b) Solver.solve ---------- *)

(* termination: the fuel solve() is run with (1 + size of the table) is never exhausted ... *)
Theorem solve_never_out_of_fuel : forall ord eord s, solve ord eord s <> OutOfFuel.
Proof. exact solve_fuel_lemma. Qed.
Print Assumptions solve_never_out_of_fuel.

(* ... because one iteration of `while something_changed` only shrinks the table: no key gains a value, the
   keys stay, the total size does not grow, it strictly decreases when the iteration reports a change, and
   the table is literally unchanged when it reports none *)
Theorem round_shrinks : forall ord variables tbl im tbl' im' ch site,
  round ord variables tbl im = Some (tbl', im', ch, site) ->
  tsize tbl' <= tsize tbl /\ (ch = true -> tsize tbl' < tsize tbl) /\ (ch = false -> tbl' = tbl) /\
  tbl_le tbl' tbl /\ (forall k, has_key tbl' k = has_key tbl k).
Proof.
  intros ord variables tbl im tbl' im' ch site H. destruct (round_rel _ _ _ _ _ _ _ _ H) as [A [B [C [D E]]]].
  split; [exact A|]. split; [intro X; destruct (B X); [discriminate | assumption]|].
  split; [intro X; apply C; exact X|]. split; assumption.
Qed.
Print Assumptions round_shrinks.

(* the result: its keys are the registered variables, every value it offers is a non-FALSE candidate of the
   completed implications, and it is a FIXED POINT: one more iteration (started from the table it returns and the
   implications of the last iteration) returns the same table, the returned implications, and "nothing changed" *)
Theorem solve_fixed_point : forall ord eord s im tbl im' tr,
  complete ord eord s = Some im -> solve ord eord s = Done (tbl, im', tr) ->
  (forall v vs, lookup tbl v = Some vs -> incl vs (nonfalse_values im v)) /\
  (forall k, has_key tbl k = mem_name k (ord (vars s))) /\
  exists im0 site, round ord (vars s) tbl im0 = Some (tbl, im', false, site).
Proof. exact solve_shape_lemma. Qed.
Print Assumptions solve_fixed_point.

(* _complete never replaces a registered implication and only ever adds TRUE *)
Theorem complete_extends : forall ord eord s im, complete ord eord s = Some im ->
  (forall var value imp, alookup (adict (imps s) var) value = Some imp -> alookup (adict im var) value = Some imp) /\
  (forall var value imp, alookup (adict im var) value = Some imp ->
     alookup (adict (imps s) var) value = Some imp \/ imp = T).
Proof. exact complete_ext_lemma. Qed.
Print Assumptions complete_extends.

(* one iteration never loses a solution -- this is where simplify_equiv is relied on: every implication is
   replaced by its simplification against the current table (same truth value under every assignment drawn
   from the table, [simplify_equiv]), a value is dropped only when its implication became FALSE, and the
   conjunction of the per-variable disjunctions is true under every solution, so its (guarded) pivots are sound.
   [sinv]: sigma is drawn from the table, and every variable's current implication at sigma's value is true. *)
Theorem round_preserves_solutions : forall sigma ord variables tbl0 tbl im tbl' im' ch site,
  ord_ok ord -> (forall v, In v variables -> is_var v = true) ->
  (forall k, has_key tbl0 k = true -> In k variables) ->
  sinv sigma variables tbl0 tbl im ->
  round ord variables tbl im = Some (tbl', im', ch, site) ->
  guarded (fst site) (snd site) = true ->
  sinv sigma variables tbl0 tbl' im'.
Proof. exact round_sound. Qed.
Print Assumptions round_preserves_solutions.

(* SOUNDNESS (partial): for a well-formed system (variables = the "~"-names, every "~"-name in a term registered),
   every solution sigma of the completed system -- ground truth true, every variable takes a candidate value whose
   implication is true -- survives: sigma(v) is in result(v) for every variable, PROVIDED every term pivots were
   extracted from during the run (the simplified ground truth, then And(Or(implications...)) of each iteration;
   the model returns them as [tr]) is [guarded]. *)
Theorem solve_sound_partial : forall sigma ord eord s im tbl im' tr,
  ord_ok ord -> wf_solver s ->
  complete ord eord s = Some im ->
  solution sigma (vars s) (ground s) im ->
  solve ord eord s = Done (tbl, im', tr) -> trace_guarded tr = true ->
  forall v, In v (vars s) -> exists vs, lookup tbl v = Some vs /\ In (sigma v) vs.
Proof.
  intros sigma ord eord s im tbl im' tr Ho W Hc Hsol Hsolve G.
  assert (Wi : wf_im (vars s) im) by (eapply wf_complete_lemma; eassumption).
  destruct W as [W1 [W2 W3]].
  exact (solve_sound_lemma sigma ord eord s im tbl im' tr Ho W1 W2 Wi Hc Hsol Hsolve G).
Qed.
Print Assumptions solve_sound_partial.

(* SOUNDNESS is FALSE in general (FINDING): ~a=x => ~b=p; ~a=y => ~c=q; ~b in {p,r}, ~c in {q,s} free.
   sigma = {~a:y, ~b:r, ~c:q} satisfies every implication, but solve() returns ~b = {p}: the pivots of
   (~b=p | ~c=q) restrict ~b although the second disjunct does not mention it. *)
Theorem solve_sound_refuted :
  exists sigma s im tbl im' tr,
    wf_solver s /\ complete oid eid s = Some im /\ solution sigma (vars s) (ground s) im /\
    solve oid eid s = Done (tbl, im', tr) /\
    exists v vs, In v (vars s) /\ lookup tbl v = Some vs /\ ~ In (sigma v) vs.
Proof.
  destruct solve_refuted_lemma as [im [tbl [im' [tr [_ [A [B [C [D [E [F _]]]]]]]]]]].
  exists u_sigma, u_solver, im, tbl, im', tr.
  split; [exact A|]. split; [exact B|]. split; [exact C|]. split; [exact D|].
  exists "~b", ["p"]. split; [vm_compute; auto|]. split; [exact E|].
  rewrite F. intros [X|[]]. discriminate.
Qed.
Print Assumptions solve_sound_refuted.

(* NOT guaranteed -- completeness: a value in the result need not extend to a solution.  Witness (inside the
   guarded fragment): ~a=x => ~b=x; ~a=y => ~b=y; ~b=x => ~a=y; ~b=y => ~a=x has no solution at all, yet solve()
   returns ~a = ~b = {x, y}. *)
Theorem solve_complete_refuted :
  exists s im tbl im' tr,
    wf_solver s /\ complete oid eid s = Some im /\ solve oid eid s = Done (tbl, im', tr) /\
    trace_guarded tr = true /\ lookup tbl "~a" = Some ["x"; "y"] /\
    forall sigma, ~ solution sigma (vars s) (ground s) im.
Proof.
  destruct solve_incomplete_lemma as [im [tbl [im' [tr [_ [A [B [C [D [E F]]]]]]]]]].
  exists i_solver, im, tbl, im', tr.
  split; [exact A|]. split; [exact B|]. split; [exact C|]. split; [exact D|].
  split; [subst tbl; reflexivity | exact F].
Qed.
Print Assumptions solve_complete_refuted.

(* ---------- non-vacuity of solve_sound_partial ---------- *)
(* test_solve_and-like system with a ground truth, var=var, a FALSE implication: guarded, solvable, pruned *)
Definition ex_script : list call := [CReg "~a"; CReg "~b"; CReg "~c";
  CTrue (OrC [EqC "~a" "x"; EqC "~a" "y"]);
  CImp (EqC "~a" "x") (AndC [EqC "~b" "x"; EqC "~c" "~b"]); CImp (EqC "~a" "y") (EqC "~b" "z");
  CImp (EqC "~a" "w") T;
  CImp (EqC "~b" "x") T; CImp (EqC "~b" "z") F; CImp (EqC "~c" "x") T; CImp (EqC "~c" "y") T].
Definition ex_solver : solver := match run_script ex_script with Some s => s | None => new_solver end.
Definition ex_sol (n : name) : name := "x".

Example ex_solve :
  exists im tbl im' tr,
    run_script ex_script = Some ex_solver /\ wf_solver ex_solver /\ complete oid eid ex_solver = Some im /\
    solution ex_sol (vars ex_solver) (ground ex_solver) im /\
    solve oid eid ex_solver = Done (tbl, im', tr) /\ trace_guarded tr = true /\
    tbl = [("~a", ["x"]); ("~b", ["x"]); ("~c", ["x"])] /\ List.length tr = 4.
Proof.
  eexists. eexists. eexists. eexists.
  split; [vm_compute; reflexivity|].
  split; [apply wf_solverb_ok; vm_compute; reflexivity|].
  split; [vm_compute; reflexivity|].
  split; [apply solutionb_ok; vm_compute; reflexivity|].
  split; [vm_compute; reflexivity|].
  split; [vm_compute; reflexivity|].
  split; vm_compute; reflexivity.
Qed.

(* exceptions are modelled: a value=value equality inside an implication makes _get_first_approximation raise *)
Example ex_solve_raises :
  match run_script [CReg "~a"; CImp (EqC "~a" "x") (EqC "x" "y")] with
  | Some s => solve oid eid s = Raised
  | None => False
  end.
Proof. vm_compute. reflexivity. Qed.
