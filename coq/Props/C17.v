(* C17 -- boolean-equation terms (pytype/pytd/booleq.py) are built and simplified to logically
   equivalent terms.  Property theorems only; each is closed by [exact] and followed by Print Assumptions.
   All statements are for arbitrary names (any strings), terms of any size/depth, any assignment sigma and
   any table; nothing is bounded.  [sigma : name -> name] gives every variable (a name starting with "~")
   a value; any other name denotes itself.  TAnd/TOr nodes are Python sets, modelled as lists. *)
From Coq Require Import List Bool String Ascii Arith.
From PV Require Import Booleq.Model Booleq.Proofs.
Import ListNotations.
Open Scope string_scope.

(* ---------- constructors = plain connectives, under every assignment ---------- *)

(* And(es) (es any list of terms, also hand-made ones) is true exactly when every e in es is *)
Theorem and_equiv : forall (sigma : name -> name) (es : list term),
  eval sigma (AndC es) = forallb (eval sigma) es.
Proof. exact and_equiv_lemma. Qed.
Print Assumptions and_equiv.

Theorem or_equiv : forall (sigma : name -> name) (es : list term),
  eval sigma (OrC es) = existsb (eval sigma) es.
Proof. exact or_equiv_lemma. Qed.
Print Assumptions or_equiv.

(* Eq(l, r) is true exactly when both sides denote the same value (var=var, var=value, value=value) *)
Theorem eq_equiv : forall (sigma : name -> name) (l r : name),
  eval sigma (EqC l r) = String.eqb (val sigma l) (val sigma r).
Proof. exact eq_equiv_lemma. Qed.
Print Assumptions eq_equiv.

(* Eq(l, r) is TRUE when l == r and otherwise the _Eq over the same two names with the greater string on
   the left *)
Theorem eq_shape : forall l r : name,
  (l = r /\ EqC l r = T) \/
  (l <> r /\ exists a b, EqC l r = TEq a b /\ String.ltb b a = true /\
                         ((a = l /\ b = r) \/ (a = r /\ b = l))).
Proof. exact eq_shape_lemma. Qed.
Print Assumptions eq_shape.

(* ---------- normal form ---------- *)

(* FALSE anywhere in the argument list absorbs a conjunction, TRUE a disjunction *)
Theorem and_false_absorbed : forall es, In F es -> AndC es = F.
Proof. exact (opc_stop_lemma KAnd). Qed.
Print Assumptions and_false_absorbed.

Theorem or_true_absorbed : forall es, In T es -> OrC es = T.
Proof. exact (opc_stop_lemma KOr). Qed.
Print Assumptions or_true_absorbed.

(* TRUE arguments of And (FALSE arguments of Or) are dropped *)
Theorem and_true_dropped : forall es,
  AndC es = AndC (filter (fun e => negb (is_ident e T)) es).
Proof. exact (opc_skip_lemma KAnd). Qed.
Print Assumptions and_true_dropped.

Theorem or_false_dropped : forall es,
  OrC es = OrC (filter (fun e => negb (is_ident e F)) es).
Proof. exact (opc_skip_lemma KOr). Qed.
Print Assumptions or_false_dropped.

(* What simplify_exprs guarantees about ANY argument list (the precise extent of flattening): the result
   is TRUE, FALSE, or a term that is an argument which is not TRUE/FALSE/same-class or an immediate child
   of a same-class argument ([origin]); and when it is a freshly made node of class k, that node has at
   least two children, pairwise different under __eq__, each with such an origin.  Flattening is one
   level deep: children of a same-class argument are taken as they are. *)
Theorem constructor_shape : forall (k : kind) (es : list term),
  match OpC k es with
  | Op k' xs => (k' = k /\ 2 <= List.length xs /\ dupfree xs = true /\ forall x, In x xs -> origin k es x)
                \/ origin k es (Op k' xs)
  | T | F => True
  | TEq l r => origin k es (TEq l r)
  end.
Proof. exact opc_shape_lemma. Qed.
Print Assumptions constructor_shape.

(* hence: if the arguments are in normal form (hereditarily: no TRUE/FALSE/same-class child, >= 2 pairwise
   different children), so is the result -- in particular no nested And-in-And / Or-in-Or at any depth *)
Theorem and_normal : forall es, forallb normal es = true -> normal (AndC es) = true.
Proof. exact (opc_normal_lemma KAnd). Qed.
Print Assumptions and_normal.

Theorem or_normal : forall es, forallb normal es = true -> normal (OrC es) = true.
Proof. exact (opc_normal_lemma KOr). Qed.
Print Assumptions or_normal.

(* every term obtainable through the public API (TRUE, FALSE, Eq, And, Or) is in normal form and every
   _Eq in it has right < left *)
Theorem built_normal : forall t, built t -> normal t = true /\ oriented t = true.
Proof. exact built_wf_lemma. Qed.
Print Assumptions built_normal.

(* ---------- simplify(assignments) ---------- *)

(* Same truth value under every assignment drawn from the table, for ANY term (API-built or hand-made).
   Hypotheses: every variable of the term is a key of the table (else no assignment can be "drawn from
   the table"), sigma picks for every key variable one of its still-possible values, and the call
   returned (no KeyError). *)
Theorem simplify_equiv : forall (sigma : name -> name) (tbl : table) (t r : term),
  covers tbl t = true -> consistent sigma tbl ->
  simplify tbl t = Some r -> eval sigma r = eval sigma t.
Proof. exact simplify_equiv_lemma. Qed.
Print Assumptions simplify_equiv.

(* the call returns whenever every equality has a side that is a key of the table ... *)
Theorem simplify_total : forall tbl t, keyed tbl t = true -> exists r, simplify tbl t = Some r.
Proof. exact simplify_total_lemma. Qed.
Print Assumptions simplify_total.

(* ... which is the case when the variables are covered and every equality mentions a variable ... *)
Theorem covered_is_keyed : forall tbl t,
  covers tbl t = true -> mentions_var t = true -> keyed tbl t = true.
Proof. exact covers_keyed. Qed.
Print Assumptions covered_is_keyed.

(* ... and a KeyError can only come from an equality neither side of which is a key *)
Theorem simplify_keyerror : forall tbl t, simplify tbl t = None -> keyed tbl t = false.
Proof. exact simplify_none_lemma. Qed.
Print Assumptions simplify_keyerror.

(* simplification keeps the normal form (TRUE/FALSE produced by pruning are absorbed, a child that
   collapses to a same-class node is flattened) and the _Eq invariant *)
Theorem simplify_normal : forall tbl t r,
  normal t = true -> simplify tbl t = Some r -> normal r = true.
Proof. exact simplify_normal_lemma. Qed.
Print Assumptions simplify_normal.

Theorem simplify_oriented : forall tbl t r,
  oriented t = true -> simplify tbl t = Some r -> oriented r = true.
Proof. exact simplify_oriented_lemma. Qed.
Print Assumptions simplify_oriented.

(* every equality left in the result offers a still-possible value (or compares with another key) *)
Theorem simplify_pruned : forall tbl t r, simplify tbl t = Some r -> pruned tbl r = true.
Proof. exact simplify_pruned_lemma. Qed.
Print Assumptions simplify_pruned.

(* the property for API-built terms in one statement: the simplified term has the same truth value under
   every assignment drawn from the table, is again in normal form, and offers only still-possible values *)
Theorem api_simplify : forall (sigma : name -> name) (tbl : table) (t r : term),
  built t -> covers tbl t = true -> consistent sigma tbl -> simplify tbl t = Some r ->
  eval sigma r = eval sigma t /\ normal r = true /\ oriented r = true /\ pruned tbl r = true.
Proof. exact api_simplify_lemma. Qed.
Print Assumptions api_simplify.

(* ---------- non-vacuity ---------- *)
Definition va := "~a". Definition vb := "~b". Definition vc := "~c".

(* a depth-3 term through the public API with var=value, var=var, duplicates, TRUE, nested same-kind *)
Definition ex_t : term :=
  AndC [ OrC [EqC va "x"; EqC "y" va; EqC va "x"];
         AndC [EqC vb va; T; OrC [EqC vb "x"; AndC [EqC vc "z"; EqC vc vb]]] ].
Definition ex_tbl : table := [(va, ["x"; "y"]); (vb, ["x"]); (vc, ["y"; "z"])].
Definition ex_sigma (n : name) : name :=
  if String.eqb n va then "x" else if String.eqb n vb then "x" else "z".

(* the nested And was flattened into the outer one; the duplicate and TRUE are gone; Eq sorted its sides *)
Example ex_t_value :
  ex_t = TAnd [ TOr [TEq va "x"; TEq va "y"]; TEq vb va;
                TOr [TEq vb "x"; TAnd [TEq vc "z"; TEq vc vb]] ].
Proof. vm_compute. reflexivity. Qed.

Example ex_t_built : built ex_t.
Proof.
  unfold ex_t. repeat constructor.
Qed.

(* the hypotheses of simplify_equiv hold for it, with a non-trivial result *)
Example ex_hyps : oriented ex_t = true /\ covers ex_tbl ex_t = true /\ keyed ex_tbl ex_t = true /\
                  normal ex_t = true.
Proof. vm_compute. repeat split; reflexivity. Qed.

Example ex_consistent : consistent ex_sigma ex_tbl.
Proof.
  intros v vs H _. unfold ex_tbl in H. simpl in H.
  destruct (String.eqb v va) eqn:E1.
  { inversion H. subst vs. unfold ex_sigma. rewrite E1. simpl. auto. }
  destruct (String.eqb v vb) eqn:E2.
  { inversion H. subst vs. unfold ex_sigma. rewrite E1, E2. simpl. auto. }
  destruct (String.eqb v vc) eqn:E3; [|discriminate].
  inversion H. subst vs. unfold ex_sigma. rewrite E1, E2. simpl. auto.
Qed.

(* ~c = ~b is kept (both keys); ~b = x is kept; nothing is pruned here except through the table below *)
Example ex_simplify :
  simplify ex_tbl ex_t
  = Some (TAnd [ TOr [TEq va "x"; TEq va "y"]; TEq vb va;
                 TOr [TEq vb "x"; TAnd [TEq vc "z"; TEq vc vb]] ]) /\
  eval ex_sigma ex_t = true.
Proof. vm_compute. split; reflexivity. Qed.

(* pruning: with ~a restricted to {y} and ~c to {y}, the Or loses ~a = x and collapses to one equality,
   the inner And becomes FALSE and its Or collapses to ~b = x, which the outer And absorbs as a child *)
Example ex_simplify_pruning :
  simplify [(va, ["y"]); (vb, ["x"]); (vc, ["y"])] ex_t
  = Some (TAnd [TEq va "y"; TEq vb va; TEq vb "x"]).
Proof. vm_compute. reflexivity. Qed.

(* a child that simplifies to a same-class node is flattened into its parent *)
Example ex_simplify_flattens :
  simplify [(va, ["x"]); (vb, ["x"; "y"])]
           (AndC [EqC va "x"; OrC [EqC va "z"; AndC [EqC vb "x"; EqC vb va]]])
  = Some (TAnd [TEq va "x"; TEq vb "x"; TEq vb va]).
Proof. vm_compute. reflexivity. Qed.

(* KeyError: a value=value equality, or a variable that is not a key compared with a value *)
Example ex_keyerror :
  simplify ex_tbl (EqC "x" "y") = None /\ simplify ex_tbl (EqC "~d" "x") = None /\
  keyed ex_tbl (EqC "~d" "x") = false.
Proof. vm_compute. repeat split; reflexivity. Qed.

(* the generator is consumed lazily: the KeyError of a later child is not seen once FALSE was produced *)
Example ex_lazy_keyerror :
  simplify [(va, ["y"])] (TAnd [TEq va "x"; TEq "~d" "x"]) = Some F /\
  simplify [(va, ["y"])] (TAnd [TEq "~d" "x"; TEq va "x"]) = None.
Proof. vm_compute. split; reflexivity. Qed.

(* ---------- the coverage hypothesis of simplify_equiv is needed ---------- *)

(* without coverage: ~a is not a key, so ~b = ~a is read as "~b = the value called ~a" and pruned *)
Example ex_needs_covers :
  let tbl := [(vb, ["x"])] in
  let sigma := fun _ : name => "x" in
  consistent sigma tbl /\ covers tbl (EqC vb va) = false /\
  simplify tbl (EqC vb va) = Some F /\ eval sigma (EqC vb va) = true.
Proof.
  cbv zeta. split.
  - intros v vs H _. simpl in H. destruct (String.eqb v vb); [|discriminate].
    inversion H. simpl. auto.
  - vm_compute. repeat split; reflexivity.
Qed.

(* limit of the flattening on hand-made (non-API) input: And's docstring ("none of its immediate subterms
   is ... another conjunction") holds for API-built arguments (and_normal) but not for a raw _And whose
   own children were not flattened -- one level only *)
Example ex_one_level_only :
  AndC [TAnd [TAnd [TEq va "x"; TEq vb "x"]; TEq vc "x"]]
  = TAnd [TAnd [TEq va "x"; TEq vb "x"]; TEq vc "x"].
Proof. vm_compute. reflexivity. Qed.
