(* C01 — inferred types admit every value the program actually computes (loop-free fragment L0).
   Property theorems only; each is closed by [exact] and followed by Print Assumptions.

   PARTIAL: the theorems cover the language L0 of Vm/Model.v (literals, names, list/tuple/dict/set displays,
   not / is None / is not None / isinstance, and / or / conditional expressions, calls of module-level
   functions; assignment, if/elif/else, def, pass, return), programs of any size and nesting.  Classes,
   attributes, closures, comprehensions, exceptions and builtin signatures are outside the model and are
   covered only by the end-to-end differential against CPython in harness/props/c01.py (search, not proof). *)
From Coq Require Import List ZArith Arith Bool.
From PV Require Import Vm.Model Vm.Lemmas Vm.TypesProofs Vm.Proofs.
Import ListNotations.
Open Scope nat_scope.

(* Main theorem.  For every L0 program p, every call-depth fuel, if the concrete (CPython reference) run of p
   completes with final globals sigma, then for every module-level name x holding v at the end, the type the
   abstract interpreter infers for x admits v.  [infer] is the strict (path-sensitive) run, the lower bound of
   what pytype prints. *)
Theorem infer_sound : forall (fuel : nat) (p : prog) (sigma : store) (x : name) (v : value),
  ceval fuel p = Some sigma -> slook sigma x = Some v -> admits (infer p x) v.
Proof. exact (infer_mode_sound_lemma false). Qed.
Print Assumptions infer_sound.

(* The same for the reaching-definitions run (how pytype's VM actually enters branches), the upper bound of
   what pytype prints. *)
Theorem infer_upper_sound : forall (fuel : nat) (p : prog) (sigma : store) (x : name) (v : value),
  ceval fuel p = Some sigma -> slook sigma x = Some v -> admits (infer_upper p x) v.
Proof. exact (infer_mode_sound_lemma true). Qed.
Print Assumptions infer_upper_sound.

(* Function-call results: whenever a concrete call f(vs) returns v (with any fuel n), and the abstract call is
   analysed (in either mode, with any remaining depth budget m, m = 0 being pytype's "maximum depth reached")
   on a set R of argument rows that contains a row (w, avs) describing the actual arguments in a world w whose
   module frame describes the actual globals, then one of the abstract return bindings for w describes v. *)
Theorem call_sound : forall (lz : bool) (n m : nat) (ft : ftable) (g : store) (f : fname)
  (vs : list value) (v : value),
  ccall_n n ft g f vs = Some v ->
  forall (R : list (world * list aval)) (w : world) (avs : list aval),
    In (w, avs) R -> Forall2 gamma avs vs -> w <> [] -> fmatch g (last w []) ->
    exists a, In (w, a) (acall_n lz m ft f R) /\ gamma a v.
Proof. exact call_sim_n. Qed.
Print Assumptions call_sound.

(* compat_sound: the if-splitting tests never exclude the branch that is actually taken.
   (compare.compatible_with, state._match_condition for None tests, IS_OP against None, isinstance) *)
Theorem compat_sound : forall (a : aval) (v : value), gamma a v -> compat a (truthy v) = true.
Proof. exact compat_sound_lemma. Qed.
Print Assumptions compat_sound.

Theorem compat_none_sound : forall (a : aval) (v : value), gamma a v ->
  if is_vnone v then compat_none a = true else compat_notnone a = true.
Proof. exact compat_none_sound_lemma. Qed.
Print Assumptions compat_none_sound.

Theorem isnone_sound : forall (a : aval) (v : value), gamma a v ->
  gamma (ABool (a_isnone a)) (VBool (is_vnone v)).
Proof. exact a_isnone_sound_lemma. Qed.
Print Assumptions isnone_sound.

Theorem isinstance_sound : forall (a : aval) (v : value) (c : cls), gamma a v ->
  gamma (ABool (a_isinst a c)) (VBool (isinst v c)).
Proof. exact a_isinst_sound_lemma. Qed.
Print Assumptions isinstance_sound.

(* the printed type of one binding admits what the binding stands for; the optimiser only widens *)
Theorem ty_of_sound : forall (a : aval) (v : value), gamma a v -> admits (ty_of a) v.
Proof. exact ty_of_sound_lemma. Qed.
Print Assumptions ty_of_sound.

Theorem optimize_widens : forall (n : nat) (t : ty) (v : value), admits t v -> admits (optimize n t) v.
Proof. exact optimize_widens_lemma. Qed.
Print Assumptions optimize_widens.

(* ---------------------------------------------------------------------------------------------------- *)
(* Non-vacuity.
     n0 = 100
     n1 = None if n0 else 5
     def f0(n20):
       if n20 is None: return 1.5
       return n20
     n2 = f0(n1)
     if n1 is None: n3 = n1; n4 = 's1'
     else:          n3 = 0;  n4 = 's2'
     if isinstance(n2, int): n5 = n2
     else:                   n5 = [n2, n3]
   Both arms of the None test survive for n3 (None | int), one type survives for n4 (str); the call result is
   float | int in the strict run (narrowed by the None test inside f0) and also None in the reaching-definitions
   run; the concrete run completes and every value is admitted. *)
Definition demo : prog :=
  [ TStmt (SAssign 0 (EInt 100));
    TStmt (SAssign 1 (EIf (EName 0) ENone (EInt 5)));
    TDef 0 [20] [SIf (EIsNone (EName 20)) [SReturn (EFloat 3)] []; SReturn (EName 20)];
    TStmt (SAssign 2 (ECall 0 [EName 1]));
    TStmt (SIf (EIsNone (EName 1)) [SAssign 3 (EName 1); SAssign 4 (EStr 1)] [SAssign 3 (EInt 0); SAssign 4 (EStr 2)]);
    TStmt (SIf (EIsInst (EName 2) Cint) [SAssign 5 (EName 2)] [SAssign 5 (EList [EName 2; EName 3])]) ].

Example demo_runs :
  ceval 3 demo = Some [(5, VList [VFloat 3; VNone]); (4, VStr 1); (3, VNone); (2, VFloat 3); (1, VNone); (0, VInt 100)].
Proof. vm_compute. reflexivity. Qed.

Example demo_infer :
  map (infer demo) [0; 1; 2; 3; 4; 5] =
  [TInt; TUnion [TInt; TNone]; TUnion [TInt; TFloat]; TUnion [TInt; TNone]; TStr;
   TUnion [TInt; TList (TUnion [TFloat; TNone])]].
Proof. vm_compute. reflexivity. Qed.

Example demo_infer_upper :
  map (infer_upper demo) [0; 1; 2; 3; 4; 5] =
  [TInt; TUnion [TNone; TInt]; TUnion [TFloat; TNone; TInt]; TUnion [TNone; TInt]; TStr;
   TUnion [TFloat; TNone; TInt; TList (TUnion [TFloat; TNone; TInt])]].
Proof. vm_compute. reflexivity. Qed.

(* the strict run is genuinely path-sensitive here: 2 final worlds against 16 in the lazy run *)
Example demo_worlds : (length (arun false [] W0 demo), length (arun true [] W0 demo)) = (2, 16).
Proof. vm_compute. reflexivity. Qed.

(* an instance of the main theorem's conclusion on the demo *)
Example demo_admits : admits (infer demo 5) (VList [VFloat 3; VNone]).
Proof. apply (infer_sound 3 demo _ 5 _ demo_runs). reflexivity. Qed.

(* the depth cut-off: five nested calls, the innermost returns Any *)
Definition deep : prog :=
  [ TDef 1 [20] [SReturn (EName 20)];
    TDef 2 [20] [SReturn (ECall 1 [EName 20])];
    TDef 3 [20] [SReturn (ECall 2 [EName 20])];
    TDef 4 [20] [SReturn (ECall 3 [EName 20])];
    TDef 5 [20] [SReturn (ECall 4 [EName 20])];
    TStmt (SAssign 0 (ECall 5 [EInt 2]));
    TStmt (SAssign 1 (ECall 4 [EInt 3])) ].
Example deep_infer : ceval 6 deep = Some [(1, VInt 3); (0, VInt 2)] /\ map (infer deep) [0; 1] = [TAny; TInt].
Proof. vm_compute. split; reflexivity. Qed.
