(* C01 — inferred types admit every value the program actually computes (loop-free fragment L0).
   Property theorems only; each is closed by [exact] and followed by Print Assumptions.

   PARTIAL: the theorems cover the language L0 of Vm/Model.v (literals, names, list/tuple/dict/set displays,
   not / is None / is not None / isinstance, and / or / conditional expressions, calls of module-level
   functions, subscripts e[i] of list/tuple values by int/bool values incl. negative indices, an index out of
   range being a run that does not complete; assignment, if/elif/else, def, pass, return) and its extension L1 of Vm/ClassModel.v (module-level
   classes with single/multiple inheritance, class attributes, __init__ and methods in A-normal form, instance
   creation, attribute reads and stores on self and on module-level instances, method calls, cooperative
   super()), programs of any size and nesting.  Objects stored in containers/attributes or passed as arguments,
   closures, comprehensions, exceptions and builtin signatures are outside the model and are covered only by the
   end-to-end differential against CPython in harness/props/c01.py (search, not proof). *)
From Coq Require Import List ZArith Arith Bool.
From PV Require Import Vm.Model Vm.Lemmas Vm.TypesProofs Vm.Proofs Vm.ClassModel Vm.ClassProofs.
Import ListNotations.
Open Scope nat_scope.

(* Main theorem.  For every L0 program p, every call-depth fuel, if the concrete (CPython reference) run of p
   completes with final globals sigma, then for every module-level name x holding v at the end, the type the
   abstract interpreter infers for x admits v.  [infer] is the strict (path-sensitive) run, the lower bound of
   what pytype prints. *)
Theorem infer_sound : forall (fuel : nat) (p : prog) (sigma : store) (x : name) (v : value),
  ceval fuel p = Some sigma -> slook sigma x = Some v -> admits (infer p x) v.
Proof. exact (infer_mode_sound_lemma false). Qed.
Print Assumptions infer_sound.

(* The same for the reaching-definitions run (how pytype's VM actually enters branches), the upper bound of
   what pytype prints. *)
Theorem infer_upper_sound : forall (fuel : nat) (p : prog) (sigma : store) (x : name) (v : value),
  ceval fuel p = Some sigma -> slook sigma x = Some v -> admits (infer_upper p x) v.
Proof. exact (infer_mode_sound_lemma true). Qed.
Print Assumptions infer_upper_sound.

(* Function-call results: whenever a concrete call f(vs) returns v (with any fuel n), and the abstract call is
   analysed (in either mode, with any remaining depth budget m, m = 0 being pytype's "maximum depth reached")
   on a set R of argument rows that contains a row (w, avs) describing the actual arguments in a world w whose
   module frame describes the actual globals, then one of the abstract return bindings for w describes v. *)
Theorem call_sound : forall (lz : bool) (n m : nat) (ft : ftable) (g : store) (f : fname)
  (vs : list value) (v : value),
  ccall_n n ft g f vs = Some v ->
  forall (R : list (world * list aval)) (w : world) (avs : list aval),
    In (w, avs) R -> Forall2 gamma avs vs -> w <> [] -> fmatch g (last w []) ->
    exists a, In (w, a) (acall_n lz m ft f R) /\ gamma a v.
Proof. exact call_sim_n. Qed.
Print Assumptions call_sound.

(* compat_sound: the if-splitting tests never exclude the branch that is actually taken.
   (compare.compatible_with, state._match_condition for None tests, IS_OP against None, isinstance) *)
Theorem compat_sound : forall (a : aval) (v : value), gamma a v -> compat a (truthy v) = true.
Proof. exact compat_sound_lemma. Qed.
Print Assumptions compat_sound.

Theorem compat_none_sound : forall (a : aval) (v : value), gamma a v ->
  if is_vnone v then compat_none a = true else compat_notnone a = true.
Proof. exact compat_none_sound_lemma. Qed.
Print Assumptions compat_none_sound.

Theorem isnone_sound : forall (a : aval) (v : value), gamma a v ->
  gamma (ABool (a_isnone a)) (VBool (is_vnone v)).
Proof. exact a_isnone_sound_lemma. Qed.
Print Assumptions isnone_sound.

Theorem isinstance_sound : forall (a : aval) (v : value) (c : cls), gamma a v ->
  gamma (ABool (a_isinst a c)) (VBool (isinst v c)).
Proof. exact a_isinst_sound_lemma. Qed.
Print Assumptions isinstance_sound.

(* the printed type of one binding admits what the binding stands for; the optimiser only widens *)
Theorem ty_of_sound : forall (a : aval) (v : value), gamma a v -> admits (ty_of a) v.
Proof. exact ty_of_sound_lemma. Qed.
Print Assumptions ty_of_sound.

Theorem optimize_widens : forall (n : nat) (t : ty) (v : value), admits t v -> admits (optimize n t) v.
Proof. exact optimize_widens_lemma. Qed.
Print Assumptions optimize_widens.

(* Subscripts (ESub, part of L0: infer_sound / infer_upper_sound / call_sound above quantify over programs that
   contain them).  The abstract subscript of abstract.List.getitem_slot / TupleClass.getitem_slot, in both modes
   and whatever the bindings [idxs] of the index variable are, returns a binding that describes the element
   CPython selects, whenever the concrete subscript completes. *)
Theorem subscript_sound : forall (lz : bool) (idxs : list aval) (a ai : aval) (v vi r : value),
  gamma a v -> gamma ai vi -> csub v vi = Some r -> exists b, In b (asub lz idxs a ai) /\ gamma b r.
Proof. exact asub_sound. Qed.
Print Assumptions subscript_sound.

(* the concrete side is Python's rule and never answers from a default: a completed subscript selected an existing
   element, at position z for 0 <= z < len and z + len for -len <= z < 0 *)
Theorem subscript_in_range : forall (v i r : value), csub v i = Some r ->
  exists xs z k, seq_items v = Some xs /\ idx_val i = Some z /\ norm_idx z (length xs) = Some k /\
                 k < length xs /\ nth_error xs k = Some r.
Proof. exact csub_in_range. Qed.
Print Assumptions subscript_in_range.

Theorem index_normalisation : forall (z : Z) (n k : nat),
  norm_idx z n = Some k <->
  ((0 <= z < Z.of_nat n)%Z /\ Z.of_nat k = z) \/ ((- Z.of_nat n <= z < 0)%Z /\ Z.of_nat k = (z + Z.of_nat n)%Z).
Proof. exact norm_idx_spec. Qed.
Print Assumptions index_normalisation.

(* Non-vacuity for subscripts.
     n0 = 100
     n10 = 0 if n0 else 1
     n8 = (1, 's1', None)
     n9 = [2.5, [n0]]
     n1 = n8[-1]          # None
     n2 = n9[n10]         # list, index variable with two constant bindings: both elements
     n3 = n8[n10]         # tuple, index variable with two bindings: pytype gives up (lazy: Any)
     n4 = n9[True][0]     # bool index, nested
     def f0(): return n9[n10]      # the global index loses its constant inside the function: all elements
     n5 = f0() *)
Definition demo_sub : prog :=
  [ TStmt (SAssign 0 (EInt 100));
    TStmt (SAssign 10 (EIf (EName 0) (EInt 0) (EInt 1)));
    TStmt (SAssign 8 (ETuple [EInt 1; EStr 1; ENone]));
    TStmt (SAssign 9 (EList [EFloat 5; EList [EName 0]]));
    TStmt (SAssign 1 (ESub (EName 8) (EInt (-1))));
    TStmt (SAssign 2 (ESub (EName 9) (EName 10)));
    TStmt (SAssign 3 (ESub (EName 8) (EName 10)));
    TStmt (SAssign 4 (ESub (ESub (EName 9) (EBool true)) (EInt 0)));
    TDef 0 [] [SReturn (ESub (EName 9) (EName 10))];
    TStmt (SAssign 5 (ECall 0 [])) ].

Example demo_sub_runs :
  option_map (fun g => map (slook g) [1; 2; 3; 4; 5]) (ceval 3 demo_sub)
  = Some [Some VNone; Some (VFloat 5); Some (VInt 1); Some (VInt 100); Some (VFloat 5)].
Proof. vm_compute. reflexivity. Qed.

Example demo_sub_infer :
  map (infer demo_sub) [1; 2; 3; 4; 5]
    = [TNone; TUnion [TFloat; TList TInt]; TUnion [TInt; TStr]; TInt; TUnion [TFloat; TList TInt]] /\
  map (infer_upper demo_sub) [1; 2; 3; 4; 5]
    = [TNone; TUnion [TFloat; TList TInt]; TAny; TInt; TUnion [TFloat; TList TInt]].
Proof. vm_compute. split; reflexivity. Qed.

(* an index out of range is a run that does not complete: excluded by the premise of the theorems *)
Example demo_sub_index_error : ceval 3 [TStmt (SAssign 0 (ESub (ETuple [EInt 1]) (EInt 1)))] = None.
Proof. vm_compute. reflexivity. Qed.

(* ---------------------------------------------------------------------------------------------------- *)
(* Non-vacuity.
     n0 = 100
     n1 = None if n0 else 5
     def f0(n20):
       if n20 is None: return 1.5
       return n20
     n2 = f0(n1)
     if n1 is None: n3 = n1; n4 = 's1'
     else:          n3 = 0;  n4 = 's2'
     if isinstance(n2, int): n5 = n2
     else:                   n5 = [n2, n3]
   Both arms of the None test survive for n3 (None | int), one type survives for n4 (str); the call result is
   float | int in the strict run (narrowed by the None test inside f0) and also None in the reaching-definitions
   run; the concrete run completes and every value is admitted. *)
Definition demo : prog :=
  [ TStmt (SAssign 0 (EInt 100));
    TStmt (SAssign 1 (EIf (EName 0) ENone (EInt 5)));
    TDef 0 [20] [SIf (EIsNone (EName 20)) [SReturn (EFloat 3)] []; SReturn (EName 20)];
    TStmt (SAssign 2 (ECall 0 [EName 1]));
    TStmt (SIf (EIsNone (EName 1)) [SAssign 3 (EName 1); SAssign 4 (EStr 1)] [SAssign 3 (EInt 0); SAssign 4 (EStr 2)]);
    TStmt (SIf (EIsInst (EName 2) Cint) [SAssign 5 (EName 2)] [SAssign 5 (EList [EName 2; EName 3])]) ].

Example demo_runs :
  ceval 3 demo = Some [(5, VList [VFloat 3; VNone]); (4, VStr 1); (3, VNone); (2, VFloat 3); (1, VNone); (0, VInt 100)].
Proof. vm_compute. reflexivity. Qed.

Example demo_infer :
  map (infer demo) [0; 1; 2; 3; 4; 5] =
  [TInt; TUnion [TInt; TNone]; TUnion [TInt; TFloat]; TUnion [TInt; TNone]; TStr;
   TUnion [TInt; TList (TUnion [TFloat; TNone])]].
Proof. vm_compute. reflexivity. Qed.

Example demo_infer_upper :
  map (infer_upper demo) [0; 1; 2; 3; 4; 5] =
  [TInt; TUnion [TNone; TInt]; TUnion [TFloat; TNone; TInt]; TUnion [TNone; TInt]; TStr;
   TUnion [TFloat; TNone; TInt; TList (TUnion [TFloat; TNone; TInt])]].
Proof. vm_compute. reflexivity. Qed.

(* the strict run is genuinely path-sensitive here: 2 final worlds against 16 in the lazy run *)
Example demo_worlds : (length (arun false [] W0 demo), length (arun true [] W0 demo)) = (2, 16).
Proof. vm_compute. reflexivity. Qed.

(* an instance of the main theorem's conclusion on the demo *)
Example demo_admits : admits (infer demo 5) (VList [VFloat 3; VNone]).
Proof. apply (infer_sound 3 demo _ 5 _ demo_runs). reflexivity. Qed.

(* the depth cut-off: five nested calls, the innermost returns Any *)
Definition deep : prog :=
  [ TDef 1 [20] [SReturn (EName 20)];
    TDef 2 [20] [SReturn (ECall 1 [EName 20])];
    TDef 3 [20] [SReturn (ECall 2 [EName 20])];
    TDef 4 [20] [SReturn (ECall 3 [EName 20])];
    TDef 5 [20] [SReturn (ECall 4 [EName 20])];
    TStmt (SAssign 0 (ECall 5 [EInt 2]));
    TStmt (SAssign 1 (ECall 4 [EInt 3])) ].
Example deep_infer : ceval 6 deep = Some [(1, VInt 3); (0, VInt 2)] /\ map (infer deep) [0; 1] = [TAny; TInt].
Proof. vm_compute. split; reflexivity. Qed.

(* ==================================================================================================== *)
(* Fragment L1: classes (Vm/ClassModel.v).                                                               *)

(* Module-level value names of an L1 program, both visibility modes (lz = false: strict run, the lower bound of
   what pytype prints; lz = true: reaching-definitions run, the upper bound). *)
Theorem l1_infer_sound : forall (lz : bool) (fuel : nat) (p : lprog) (st : lstate) (x : name) (v : value),
  leval fuel p = Some st -> slook (cg (lv st)) x = Some v -> admits (linfer_mode lz p x) v.
Proof. exact linfer_mode_sound_lemma. Qed.
Print Assumptions l1_infer_sound.

(* Instance attributes.  When the module has run to completion, for EVERY object on the heap (in particular every
   module-level instance), of class c with instance dict s, and every attribute a holding v, the type the stub
   declares for `class c: a: ...` (join over the instances of exactly c of the bindings visible at the exit, plus
   the canonical instance's) admits v.  Both modes. *)
Theorem attr_sound : forall (lz : bool) (fuel : nat) (p : lprog) (st : lstate) (i : nat) (c : cname) (s : store)
  (a : attr) (v : value),
  leval fuel p = Some st -> nth_error (lh st) i = Some (c, s) -> slook s a = Some v ->
  admits (infer_attr lz p c a) v.
Proof. exact attr_sound_lemma. Qed.
Print Assumptions attr_sound.

(* Method calls.  Whenever a concrete invocation of method m on the object i (looked up through the candidate
   classes cands: the MRO of type(self), or its tail for super()) returns v and leaves the state st', and the
   abstract invocation is analysed (either mode, any remaining depth budget m0; m0 = 0 is "maximum depth
   reached") on rows that contain a row (W, avs) describing the actual arguments in a world W whose module frame
   describes the globals and whose heap describes the heap object by object, then one of the abstract results
   (W', a) has a describing v, and W' describes the heap after the call (or is marked havocked). *)
Theorem method_call_sound : forall (lz : bool) (ce : cenv) (fuel0 n m0 : nat) (ft : ftable) (st : lstate) (i : nat)
  (cands : list cname) (m : mname) (vs : list value) (st' : lstate) (v : value),
  mcall_n ce fuel0 n ft st i cands m vs = Some (st', v) ->
  forall (rows : list (lworld * list aval)) (W : lworld) (avs : list aval),
    In (W, avs) rows -> Forall2 gamma avs vs ->
    aw W <> [] -> fmatch (cg (lv st)) (last (aw W) []) -> hv W = false ->
    lo st = ao W -> Forall2 hent_rel (lh st) (ah W) ->
    exists W' a, In (W', a) (amcall_n lz ce m0 ft rows i cands m) /\ gamma a v /\ aw W' = aw W
                 /\ hrel (hv W') (lo st') (lh st') (ao W') (ah W').
Proof. exact msim_n. Qed.
Print Assumptions method_call_sound.

(* ... and the result of a module-level method call, once bound to a module-level name, is covered by
   l1_infer_sound.  The DECLARED return type of the method is a different matter: output.py takes it from the
   canonical analysis of the class alone (self = the canonical instance, whose attributes are what __init__ stores
   when called with Any), so an attribute stored from outside the class is not reflected in it.
       class C0:
         def __init__(self): self.y = 1
         def m(self): t = self.y; return t
       o1 = C0(); o1.y = None; n1 = o1.m()
   declares `def m(self) -> int` while the call returns None (reproduced on real pytype; known finding
   method-return:attribute-redefined-outside-defining-class). *)
Definition refute_prog : lprog := mkprog
  [ mkclass [] [] [(0, ([], [LSet OSelf 0 (EInt 1)])); (1, ([], [LGet 9 OSelf 0; LReturn (EName 9)]))] ]
  [ LStmt (LNew 1 0 []); LStmt (LSet (OName 1) 0 ENone); LStmt (LCall 1 (OName 1) 1 []) ].

Theorem declared_return_refuted :
  exists (p : lprog) (fuel : nat) (st : lstate) (o : oname) (c : cname) (m : mname) (x : name) (v : value),
    leval fuel p = Some st /\ In (LStmt (LCall x (OName o) m [])) (pbody p) /\
    slook (cg (lv st)) x = Some v /\
    ~ admits (declared_ret false p c m) v /\ ~ admits (declared_ret true p c m) v.
Proof.
  exists refute_prog, 3. eexists. exists 1, 0, 1, 1, VNone.
  split; [vm_compute; reflexivity|].
  split; [simpl; auto|].
  split; [reflexivity|].
  split; vm_compute; intros H; exact H.
Qed.
Print Assumptions declared_return_refuted.

(* the declared return type is sound when the receiver is described by the canonical worlds: an instance of
   method_call_sound, stated for the canonical analysis ([canon_rets] is what [declared_ret] joins) *)
Theorem declared_return_sound_partial : forall (lz : bool) (p : lprog) (c : cname) (m : mname) (params : list name)
  (body : list lstmt) (fuel0 n : nat) (st st' : lstate) (i : nat) (vs : list value) (v : value) (W : lworld),
  alook (cmeths (nth c (pclasses p) dflt_class)) m = Some (params, body) ->
  mcall_n (acenv p) fuel0 n (ftable_of [] (pbody p)) st i [c] m vs = Some (st', v) ->
  length vs = length params ->
  In W (canon_worlds lz p c) -> i = pred (length (ah W)) ->
  aw W <> [] -> fmatch (cg (lv st)) (last (aw W) []) -> hv W = false ->
  lo st = ao W -> Forall2 hent_rel (lh st) (ah W) ->
  admits (declared_ret lz p c m) v.
Proof. exact declared_ret_partial_lemma. Qed.
Print Assumptions declared_return_sound_partial.

(* ---------------------------------------------------------------------------------------------------- *)
(* Non-vacuity: a cooperative diamond.
     class A:            __init__: self.x = 1                      m: return 1
     class B(A):         __init__: super().__init__(); self.y = 1  m: t = super().m(); return t
     class C(A):         __init__: super().__init__(); self.x = 's1'   m: return 's1'
     class D(B, C):      k = 1.5
     o1 = D(); n1 = o1.m(); n2 = o1.x; n3 = o1.k; n0 = 100
     if n0: o1.y = None
     n4 = o1.y *)
Definition diamond : lprog := mkprog
 [ mkclass [] [] [(0, ([], [LSet OSelf 0 (EInt 1)])); (1, ([], [LReturn (EInt 1)]))];
   mkclass [0] [] [(0, ([], [LSuper 9 0 []; LSet OSelf 1 (EInt 1)])); (1, ([], [LSuper 9 1 []; LReturn (EName 9)]))];
   mkclass [0] [] [(0, ([], [LSuper 9 0 []; LSet OSelf 0 (EStr 1)])); (1, ([], [LReturn (EStr 1)]))];
   mkclass [1;2] [(5, EFloat 3)] [] ]
 [ LStmt (LNew 1 3 []); LStmt (LCall 1 (OName 1) 1 []); LStmt (LGet 2 (OName 1) 0); LStmt (LGet 3 (OName 1) 5);
   LStmt (LAssign 0 (EInt 100));
   LStmt (LIf (EName 0) [LSet (OName 1) 1 ENone] []);
   LStmt (LGet 4 (OName 1) 1) ].

Example diamond_runs :
  leval 5 diamond = Some (mkl (mkc [(4, VNone); (0, VInt 100); (3, VFloat 3); (2, VStr 1); (1, VStr 1)] [])
                              [(1, 0)] [(3, [(1, VNone); (1, VInt 1); (0, VStr 1); (0, VInt 1)])]).
Proof. vm_compute. reflexivity. Qed.

(* super() in B.m reaches the sibling C.m (MRO D, B, C, A): n1 is str; D.x is str (C.__init__ runs after A's),
   D.y is int | None; B alone keeps x: int; the declared return types come from the canonical analysis *)
Example diamond_infer :
  map (linfer_mode false diamond) [1; 2; 3; 4] = [TStr; TStr; TFloat; TUnion [TNone; TInt]] /\
  map (fun ca => infer_attr false diamond (fst ca) (snd ca)) [(3, 0); (3, 1); (1, 0); (2, 0); (0, 0)]
    = [TStr; TUnion [TNone; TInt]; TInt; TStr; TInt] /\
  map (fun cm => declared_ret false diamond (fst cm) (snd cm)) [(0, 1); (1, 1); (2, 1)] = [TInt; TInt; TStr].
Proof. vm_compute. repeat split; reflexivity. Qed.

Example diamond_attr_admits : admits (infer_attr true diamond 3 1) VNone.
Proof. eapply (attr_sound true 5 diamond _ 0 3 _ 1 VNone diamond_runs); reflexivity. Qed.

(* the shared computation the harness evaluates ([lreport]) gives the same answers as the per-query definitions the
   theorems above are about *)
Example lreport_agrees_with_spec :
  let r := lreport diamond [1; 2; 3; 4] [1] [(3, 0); (3, 1); (1, 0); (0, 0)] [(0, 1); (1, 1); (2, 1)] 5 in
  (map (fun q => (snd (fst (fst q)), snd q)) (fst (fst (fst (fst (fst r))))),
   snd (fst (fst (fst (fst r)))), snd (fst (fst (fst r))))
  = lreport_spec diamond [1; 2; 3; 4] [(3, 0); (3, 1); (1, 0); (0, 0)] [(0, 1); (1, 1); (2, 1)].
Proof. vm_compute. reflexivity. Qed.
