(* C16 — every compiled code object becomes a well-formed ordered block graph.
   Property theorems only; each is closed by [exact] and followed by Print Assumptions.
   Model: Blocks/Model.v (opcodes.py _make_opcode_list/_add_jump_targets, blocks.py _split_bytecode with the
   3.12 SEND / async-for surgery, compute_order, cfg_utils.py compute_predecessors/order_nodes); the flag table
   Generated/C16_OpcodeFlags.v is regenerated from opcodes.py on every run and never unfolded by a proof. *)
From Coq Require Import List NArith Arith Bool Relations.
From PV Require Import Generated.C16_OpcodeFlags Blocks.Model Blocks.Proofs Blocks.Witness.
Import ListNotations.

(* ---- instruction indices and next/prev links are consistent; every jump has a resolved target ---------- *)
(* For every sorted offset table (any length, any elision), the list built by _make_opcode_list +
   _add_jump_targets has idx = position, next/prev = the neighbours, every target is an opcode of the list,
   and every opcode with a known jump has a target. *)
Theorem indices_consistent : forall (minor : N) (items : list item) (ops : list instr),
  build_ops minor items = Ok ops ->
  forall i o, nth_error ops i = Some o ->
    idx o = N.of_nat i /\
    next o = (if S i <? length ops then Some (N.of_nat (S i)) else None) /\
    prev o = (match i with O => None | S p => Some (N.of_nat p) end) /\
    (forall t, target o = Some t -> N.to_nat t < length ops) /\
    (has_known_jump o = true -> exists t, target o = Some t).
Proof. exact indices_consistent_lemma. Qed.
Print Assumptions indices_consistent.

(* ---- partition ---------------------------------------------------------------------------------------- *)
(* _split_bytecode (including the SEND windows of await / yield from / async for): whenever it returns, the
   blocks are non-empty, each has id = index of its first instruction, their concatenation is exactly the
   opcode list, and no instruction occurs twice. *)
Theorem split_partition : forall (v312 : bool) (ops : list instr) (bs : list block) (es : list edge),
  wf_opsb ops = true ->
  split_bytecode v312 ops = Ok (bs, es) ->
  concat (map code bs) = ops /\ Forall block_wf bs /\ NoDup (block_instrs bs).
Proof. exact split_partition_full. Qed.
Print Assumptions split_partition.

(* SEND-free code (no SEND, no CLEANUP_THROW, no end_async_for_target): the blocks handed to order_nodes by
   compute_order are that partition, unchanged, and no target was rewritten. *)
Theorem plain_partition : forall (pick : queue -> N) (v312 : bool) (ops : list instr) (r : ordered),
  wf_opsb ops = true -> plainb ops = true ->
  compute_order_gen pick v312 ops = Ok r ->
  concat (map code (r_blocks r)) = ops /\ Forall block_wf (r_blocks r) /\
  NoDup (block_instrs (r_blocks r)) /\ r_retarget r = [].
Proof. exact plain_final_lemma. Qed.
Print Assumptions plain_partition.

(* With the async-for surgery every block is still non-empty ... *)
Theorem blocks_nonempty : forall (pick : queue -> N) (v312 : bool) (ops : list instr) (r : ordered),
  compute_order_gen pick v312 ops = Ok r -> Forall (fun b => code b <> []) (r_blocks r).
Proof. exact blocks_nonempty_lemma. Qed.
Print Assumptions blocks_nonempty.

(* ... and contains only instructions of the code object ... *)
Theorem instructions_from_ops : forall (pick : queue -> N) (v312 : bool) (ops : list instr) (r : ordered),
  compute_order_gen pick v312 ops = Ok r ->
  forall b o, In b (r_blocks r) -> In o (code b) -> In o ops.
Proof. exact instructions_from_ops_lemma. Qed.
Print Assumptions instructions_from_ops.

(* ... but "each instruction is in exactly one block" is REFUTED for the unchanged code: the opcode list of
     async def f(it):
       async for i in it:
         if i: continue
         g(i)
   (as produced by CPython 3.12 + build_opcodes + add_pop_block_targets) is well-formed, compute_order returns,
   and END_ASYNC_FOR (index 23) is in two blocks: _remove_jmp_to_get_anext_and_merge appends the END_ASYNC_FOR
   block to every block that ends in a JUMP_BACKWARD to the same GET_ANEXT. *)
Theorem partition_refuted : exists ops r,
  wf_opsb ops = true /\ compute_order true ops = Ok r /\ ~ NoDup (block_instrs (r_blocks r)).
Proof. exact partition_refuted_lemma. Qed.
Print Assumptions partition_refuted.

(* partial: when every END_ASYNC_FOR block is merged into exactly one loop-back block (merge_simpleb: the merge
   list has pairwise distinct sources, pairwise distinct targets, and no block is both), the async surgery keeps
   "no instruction in two blocks".  merge_simpleb is evaluated (and reported) on every real opcode list. *)
Theorem partition_partial : forall (pick : queue -> N) (v312 : bool) (ops : list instr) (r : ordered),
  wf_opsb ops = true -> merge_simpleb ops = true ->
  compute_order_gen pick v312 ops = Ok r -> NoDup (block_instrs (r_blocks r)).
Proof. exact simple_merge_nodup_lemma. Qed.
Print Assumptions partition_partial.

(* ---- every resolved jump target starts a block (SEND-free code) ------------------------------------------ *)
Theorem targets_start_blocks : forall (pick : queue -> N) (v312 : bool) (ops : list instr) (r : ordered),
  wf_opsb ops = true -> anext_okb ops = true -> plainb ops = true ->
  compute_order_gen pick v312 ops = Ok r ->
  forall o t, In o ops -> target o = Some t ->
  exists b ot c, In b (r_blocks r) /\ nth_error ops (N.to_nat t) = Some ot /\
                 code b = ot :: c /\ bid b = t /\ idx ot = t.
Proof. exact plain_targets_lemma. Qed.
Print Assumptions targets_start_blocks.

(* ... and therefore compute_order raises no KeyError/IndexError while splitting, merging and connecting:
   every target, and every block_target, resolves in first_op_to_block ("every jump has a resolved target") *)
Theorem plain_connect_total : forall (v312 : bool) (ops : list instr),
  wf_opsb ops = true -> anext_okb ops = true -> plainb ops = true ->
  exists bs fm es,
    split_bytecode v312 ops = Ok (bs, []) /\
    (if v312 then remove_jmp_to_get_anext_and_merge (remove_jump_back_block ops bs) []
     else Ok (mkSu bs [] [] [])) = Ok (mkSu bs [] [] []) /\
    first_op_map bs [] = Ok fm /\
    connect_loop fm [] [] bs (Ok []) = Ok es.
Proof. exact plain_connect_total_lemma. Qed.
Print Assumptions plain_connect_total.

(* the hypothesis anext_okb is needed: _split_bytecode does not split before a GET_ANEXT that is a jump target *)
Theorem targets_start_blocks_needs_anext_ok : exists ops bs es o t,
  wf_opsb ops = true /\ plainb ops = true /\ split_bytecode true ops = Ok (bs, es) /\
  In o ops /\ target o = Some t /\ ~ In t (map bid bs).
Proof. exact anext_needed_lemma. Qed.
Print Assumptions targets_start_blocks_needs_anext_ok.

(* ---- the execution order (with or without the async surgery, for ANY priority function) ---------------- *)
(* order_nodes pops the queue entry chosen by [pick]; the real one is min over (len(predecessors), id).
   For every pick that returns a queued node: the order has no duplicates, starts with the entry block, lists
   exactly the blocks reachable from the entry along the edges compute_order created, and all are blocks. *)
Theorem order_complete_nodup : forall (pick : queue -> N) (v312 : bool) (ops : list instr) (r : ordered),
  pick_ok pick -> compute_order_gen pick v312 ops = Ok r ->
  match r_blocks r with
  | [] => r_order r = []
  | b0 :: _ =>
    NoDup (r_order r) /\
    (exists tl, r_order r = bid b0 :: tl) /\
    (forall b, In b (r_order r) <-> clos_refl_trans N (fun x y => In (x, y) (r_edges r)) (bid b0) b) /\
    (forall b, In b (r_order r) -> In b (map bid (r_blocks r)))
  end.
Proof. exact order_complete_nodup_lemma. Qed.
Print Assumptions order_complete_nodup.

(* every block that is not first in the order has one of its predecessors before it *)
Theorem order_pred_first : forall (pick : queue -> N) (v312 : bool) (ops : list instr) (r : ordered),
  pick_ok pick -> compute_order_gen pick v312 ops = Ok r ->
  forall l1 b l2, r_order r = l1 ++ b :: l2 -> l1 <> [] ->
  exists p, In p l1 /\ In (p, b) (r_edges r).
Proof. exact order_pred_first_lemma. Qed.
Print Assumptions order_pred_first.

(* the priority pytype uses is such a pick, so both theorems apply to [compute_order] itself *)
Theorem order_nodes_priority_ok : pick_ok pick_min.
Proof. exact pick_min_ok. Qed.
Print Assumptions order_nodes_priority_ok.

(* ---- non-vacuity ------------------------------------------------------------------------------------------ *)
(* def f(xs):
     for x in xs:
       try: g(x)
       except ValueError: continue
     return 1
   as built by pytype for CPython 3.12: loop, synthetic SETUP_EXCEPT_311 / POP_BLOCK with a block_target, dead
   cleanup block.  All hypotheses hold and the model returns the order pytype computes. *)
Example loop_try_except_hyps :
  wf_opsb loop_try_except = true /\ anext_okb loop_try_except = true /\ plainb loop_try_except = true.
Proof. vm_compute. auto. Qed.

Example loop_try_except_order :
  match compute_order true loop_try_except with
  | Ok r => length (r_blocks r) = 9 /\ length (r_order r) = 8 /\ hd 0%N (r_order r) = 0%N
  | Err _ => False
  end.
Proof. vm_compute. auto. Qed.

(* the async example is well-formed and goes through the SEND window, the jump-back removal and the merge *)
Example async_for_continue_runs :
  wf_opsb async_for_continue = true /\ plainb async_for_continue = false /\
  match compute_order true async_for_continue with
  | Ok r => (1 <? length (r_order r)) = true
  | Err _ => False
  end.
Proof. vm_compute. auto. Qed.

(* a plain `async for` satisfies the hypotheses of partition_partial, and the instruction set really shrinks
   (the loop-back JUMP_BACKWARD and the CLEANUP_THROW pair are dropped) *)
Example async_for_simple_hyps :
  wf_opsb async_for_simple = true /\ merge_simpleb async_for_simple = true /\
  merge_simpleb async_for_continue = false /\
  match compute_order true async_for_simple with
  | Ok r => length (block_instrs (r_blocks r)) = 21 /\ has_dup (block_instrs (r_blocks r)) = false
  | Err _ => False
  end.
Proof. vm_compute. auto. Qed.

(* the opcode-list model on a three-op table with a synthetic SETUP_EXCEPT_311 (offset key 2*0-1 is not
   representable, so the table starts at offset 2): indices, links and targets come out as stated *)
Example build_ops_example :
  build_ops 12 [mkItem 3 op_SETUP_EXCEPT_311 None (Some 8%N); mkItem 4 op_NOP None None;
                mkItem 6 op_JUMP_FORWARD (Some 8%N) None; mkItem 8 op_RETURN_CONST None None]
  = Ok [mkI 0 op_SETUP_EXCEPT_311 (Some 3%N) None None (Some 1%N) None;
        mkI 1 op_NOP None None None (Some 2%N) (Some 0%N);
        mkI 2 op_JUMP_FORWARD (Some 3%N) None None (Some 3%N) (Some 1%N);
        mkI 3 op_RETURN_CONST None None None None (Some 2%N)].
Proof. vm_compute. reflexivity. Qed.

(* ======================================================================================================== *)
(* The synthetic exception opcodes (opcodes.py _add_setup_except / _add_exception_block), tied to the exception
   table.  Hypothesis [wf_excb items entries] (monitored on every real code object, like wf_ops): the offset table
   holds only real instructions, sorted, at even byte offsets (keys 2*off+1, i.e. 1 mod 4); every entry starts and
   is handled at an instruction, start <= (inclusive) end; the entries are sorted and pairwise disjoint, as CPython
   emits them.  [kept_entries] are the entries pytype keeps (handler not END_ASYNC_FOR/CLEANUP_THROW/SWAP, not
   lasti, first kept entry of its source line). *)
From Coq Require Import Sorted.
From PV Require Import Blocks.ExcProofs.

(* (iv) no KeyError / ValueError path is taken *)
Theorem exception_ops_total : forall (items : list xitem) (entries : list exc_entry),
  wf_excb items entries = true -> exists out, add_setup_except entries items = Ok out.
Proof. exact exception_ops_total_lemma. Qed.
Print Assumptions exception_ops_total.

(* (ii) the real instructions and their order are unchanged: the output restricted to real (odd) keys is the input *)
Theorem exception_ops_preserve_real : forall (items : list xitem) (entries : list exc_entry) (out : list xitem),
  wf_excb items entries = true -> add_setup_except entries items = Ok out ->
  filter (fun it => N.odd (x_key it)) out = items.
Proof. exact exception_ops_preserve_real_lemma. Qed.
Print Assumptions exception_ops_preserve_real.

(* (i) no two ops share a key; there are exactly two synthetic ops per kept entry; every kept entry has its
   SETUP_EXCEPT_311 immediately before the instruction at its start, with target = the instruction at the entry's
   handler offset, and its POP_BLOCK immediately after the last instruction at or before its (inclusive) end *)
Theorem exception_ops_complete : forall (items : list xitem) (entries : list exc_entry) (out : list xitem),
  wf_excb items entries = true -> add_setup_except entries items = Ok out ->
  StronglySorted N.lt (map x_key out) /\
  length (filter (fun it => N.even (x_key it)) out) = (2 * length (kept_entries entries items))%nat /\
  forall e, In e (kept_entries entries items) ->
    (exists l1 s l2,
       out = l1 ++ mkX (key_of (e_start e) - 1) op_SETUP_EXCEPT_311 (x_line s) (Some (key_of (e_target e))) :: s :: l2 /\
       In s items /\ x_key s = key_of (e_start e)) /\
    (exists l1 lst l2,
       out = l1 ++ lst :: mkX (x_key lst + 1) op_POP_BLOCK (x_line lst) None :: l2 /\
       In lst items /\ (x_key lst <= key_of (e_end e))%N /\
       forall it, In it items -> (x_key it <= key_of (e_end e))%N -> (x_key it <= x_key lst)%N).
Proof. exact exception_ops_complete_lemma. Qed.
Print Assumptions exception_ops_complete.

(* (iii) along the output, SETUP_EXCEPT_311 (key 0 mod 4) and POP_BLOCK (key 2 mod 4) are properly bracketed: never
   two open at once, none open at the end *)
Theorem exception_ops_nested : forall (items : list xitem) (entries : list exc_entry) (out : list xitem),
  wf_excb items entries = true -> add_setup_except entries items = Ok out ->
  brk (map x_key out) false = true.
Proof. exact exception_ops_nested_lemma. Qed.
Print Assumptions exception_ops_nested.

(* non-vacuity: two ADJACENT ranges (offsets 2..4 -> handler 8 and 6..6 -> handler 10; the last instruction of the
   first range has no inline cache) - the POP_BLOCK of the first (key 10) and the SETUP of the second (key 12) get
   different keys, the hypotheses hold and both entries are kept *)
Example adjacent_ranges :
  let items := [mkX 1 op_RESUME 1 None; mkX 5 op_NOP 2 None; mkX 9 op_POP_TOP 2 None; mkX 13 op_NOP 3 None;
                mkX 17 op_PUSH_EXC_INFO 4 None; mkX 21 op_PUSH_EXC_INFO 5 None; mkX 25 op_RERAISE 5 None] in
  let entries := [mkE 2 4 8 false; mkE 6 6 10 false] in
  wf_excb items entries = true /\ length (kept_entries entries items) = 2 /\
  option_map (map x_key) (match add_setup_except entries items with Ok o => Some o | Err _ => None end)
  = Some [1; 4; 5; 9; 10; 12; 13; 14; 17; 21; 25]%N.
Proof. vm_compute. auto. Qed.

(* ======================================================================================================== *)
(* The loops of compute_predecessors / order_nodes (Python `while` loops, modelled with fuel derived from the size
   of the graph: pred_fuel = log2 (V*V*(E+1)) + 1, order_fuel = log2 (V*(E+1)+1) + 1 binary digits) and the final
   assertion of order_nodes.  All statements hold for EVERY node list and edge list (duplicates, dangling edges,
   any size), hence for every graph compute_order hands to order_nodes. *)
From PV Require Import Blocks.FuelProofs Blocks.TotalProofs.

(* fuel sufficiency: compute_predecessors never returns the fuel code 11; the only exception it can raise is the
   KeyError of predecessors[node] (10) *)
Theorem compute_predecessors_fuel_sufficient : forall (nodes : list N) (es : list edge) (c : nat),
  compute_predecessors nodes es = Err c -> c = 10.
Proof. exact compute_predecessors_fuel_lemma. Qed.
Print Assumptions compute_predecessors_fuel_sufficient.

(* exactness: the map has one entry per node, in order; every member of an entry is a node that reaches the key;
   the entry of every node n (first entry, if the list repeats n) is a strictly increasing list holding exactly the
   nodes m with m ->* n along the edges; and nothing outside the node list is reachable from it *)
Theorem compute_predecessors_exact : forall (nodes : list N) (es : list edge) (pm : list (N * list N)),
  compute_predecessors nodes es = Ok pm ->
  map fst pm = nodes /\
  (forall n ps m, In (n, ps) pm -> In m ps -> In m nodes /\ clos_refl_trans N (fun x y => In (x, y) es) m n) /\
  (forall n, In n nodes -> exists ps, assocN n pm = Some ps /\ StronglySorted N.lt ps /\
     forall m, In m ps <-> In m nodes /\ clos_refl_trans N (fun x y => In (x, y) es) m n) /\
  (forall x y, In x nodes -> clos_refl_trans N (fun x y => In (x, y) es) x y -> In y nodes).
Proof. exact compute_predecessors_exact_lemma. Qed.
Print Assumptions compute_predecessors_exact.

(* it raises nothing when no edge leaves the node list *)
Theorem compute_predecessors_total : forall (nodes : list N) (es : list edge),
  (forall x y, In (x, y) es -> In x nodes -> In y nodes) -> exists pm, compute_predecessors nodes es = Ok pm.
Proof. exact compute_predecessors_total_lemma. Qed.
Print Assumptions compute_predecessors_total.

(* order_nodes, for any priority function that picks a queued node: the fuel codes 11 / 15, the KeyError 13 of
   predecessor_map[root] and - the point - the final assertion `len(set(order) | dead) == len(set(nodes))` (14)
   are impossible; only the KeyErrors of predecessors[node] / predecessor_map[n] (an edge to a block that is not in
   the list) remain *)
Theorem order_nodes_assertion_never_fires : forall (pick : queue -> N) (nodes : list N) (es : list edge) (c : nat),
  pick_ok pick -> order_nodes_gen pick nodes es = Err c -> c = 10 \/ c = 12.
Proof. exact order_nodes_errors_lemma. Qed.
Print Assumptions order_nodes_assertion_never_fires.

(* ... and those are impossible when no edge leaves the node list *)
Theorem order_nodes_total : forall (pick : queue -> N) (nodes : list N) (es : list edge),
  pick_ok pick -> (forall x y, In (x, y) es -> In x nodes -> In y nodes) ->
  exists order, order_nodes_gen pick nodes es = Ok order.
Proof. exact order_nodes_total_lemma. Qed.
Print Assumptions order_nodes_total.

(* SEND-free well-formed code: every edge compute_order creates ends at a block of the list, so the whole of
   compute_order (split, connect, compute_predecessors, order_nodes incl. its assertion) raises nothing *)
Theorem plain_compute_order_total : forall (pick : queue -> N) (v312 : bool) (ops : list instr),
  pick_ok pick -> wf_opsb ops = true -> anext_okb ops = true -> plainb ops = true ->
  exists r, compute_order_gen pick v312 ops = Ok r.
Proof. exact plain_compute_order_total_lemma. Qed.
Print Assumptions plain_compute_order_total.

(* non-vacuity: a graph with a cycle, a dead node (3), a duplicate edge and an edge leaving the node list from the dead
   part only; the fuel 2^d really is small (d = 7 for 4 nodes / 6 edges) and is enough *)
Example predecessors_example :
  compute_predecessors [0; 1; 2; 3]%N [(0, 1); (1, 2); (2, 1); (1, 2); (3, 2)]%N
  = Ok [(0, [0]); (1, [0; 1; 2; 3]); (2, [0; 1; 2; 3]); (3, [3])]%N /\
  pred_fuel [0; 1; 2; 3]%N [(0, 1); (1, 2); (2, 1); (1, 2); (3, 2)]%N = 7 /\
  order_nodes [0; 1; 2; 3]%N [(0, 1); (1, 2); (2, 1); (1, 2); (3, 2)]%N = Ok [0; 1; 2]%N /\
  order_nodes [0; 1]%N [(0, 1); (1, 7)]%N = Err 10.
Proof. vm_compute. auto. Qed.

(* ======================================================================================================== *)
(* blocks.add_pop_block_targets (Blocks/Apbt.v): the block-stack walk that sets Opcode.block_target.
   [pxb] is the set of positions whose opcode has push_exc_block set. *)
From PV Require Import Blocks.Apbt Blocks.ApbtProofs.

(* termination: the while loop needs at most 2 * len(bytecode) + 1 iterations (fuel = that many in binary digits + 1);
   the fuel code 40 is never returned, for any list and any marks *)
Theorem apbt_fuel_sufficient : forall (ops : list instr) (pxb : list N),
  add_pop_block_targets ops pxb <> Err 40.
Proof. exact apbt_fuel_lemma. Qed.
Print Assumptions apbt_fuel_sufficient.

(* whenever it returns: only block_target fields change, and every block_target it sets is the jump target of a
   block-pushing opcode of the list (SETUP_FINALLY / SETUP_EXCEPT_311 / any PUSHES_BLOCK opcode: the op that was on
   top of the block stack, the innermost handler, or the enclosing SETUP_LOOP) *)
Theorem apbt_block_targets : forall (ops : list instr) (pxb : list N) (ops' : list instr),
  add_pop_block_targets ops pxb = Ok ops' ->
  length ops' = length ops /\
  forall k o', nth_error ops' k = Some o' ->
    exists o, nth_error ops k = Some o /\ o' = set_bt o (block_target o') /\
      forall t, block_target o' = Some t ->
        exists s, In s ops /\ (is_setup_except s || pushes_block s) = true /\ target s = Some t.
Proof. exact apbt_targets_lemma. Qed.
Print Assumptions apbt_block_targets.

(* hence the list handed to compute_order is well-formed whenever the list handed to add_pop_block_targets is: the
   two block_target clauses of wf_ops (an opcode of the list; a jump target) are proved, no longer only monitored *)
Theorem apbt_preserves_wf_ops : forall (ops : list instr) (pxb : list N) (ops' : list instr),
  wf_opsb ops = true -> add_pop_block_targets ops pxb = Ok ops' -> wf_opsb ops' = true.
Proof. exact apbt_wf_lemma. Qed.
Print Assumptions apbt_preserves_wf_ops.

(* ... and so every block_target starts a block after splitting (SEND-free code), composing with targets_start_blocks *)
Theorem block_targets_start_blocks : forall (pick : queue -> N) (v312 : bool) (ops : list instr) (pxb : list N)
    (ops' : list instr) (r : ordered),
  wf_opsb ops = true -> add_pop_block_targets ops pxb = Ok ops' ->
  anext_okb ops' = true -> plainb ops' = true -> compute_order_gen pick v312 ops' = Ok r ->
  forall o t, In o ops' -> block_target o = Some t ->
  exists b ot c, In b (r_blocks r) /\ nth_error ops' (N.to_nat t) = Some ot /\
                 code b = ot :: c /\ bid b = t /\ idx ot = t.
Proof. exact block_targets_start_blocks_lemma. Qed.
Print Assumptions block_targets_start_blocks.

(* properly bracketed input (apbt_okb, evaluated on every real list): reading the list left to right SETUP_EXCEPT_311
   and POP_BLOCK alternate (brk_ops - the list-level form of exception_ops_nested); no BREAK_LOOP; block-pushing ops
   have targets; a handler or an UNMARKED jump target inside a protected range is reached from inside a protected
   range; a jump marked push_exc_block lands inside a protected range; only a NO_NEXT opcode ends the list.
   Then no assertion of add_pop_block_targets fires and no attribute of None is taken - in particular POP_BLOCK never
   finds an empty block stack - and by apbt_block_targets every POP_BLOCK the walk reaches gets the target of the
   block on top of its stack. *)
Theorem apbt_total_on_bracketed_input : forall (ops : list instr) (pxb : list N),
  wf_links ops 0 (length ops) = true ->
  (forall o t, In o ops -> target o = Some t -> N.to_nat t < length ops) ->
  apbt_okb ops pxb = true ->
  exists ops', add_pop_block_targets ops pxb = Ok ops'.
Proof. exact apbt_total_lemma. Qed.
Print Assumptions apbt_total_on_bracketed_input.

(* the bracket hypothesis is needed: a POP_BLOCK that is reached with an empty block stack raises *)
Theorem apbt_needs_bracketing : exists ops,
  wf_opsb ops = true /\ add_pop_block_targets ops [] = Err 41.
Proof. exact apbt_needs_bracketing_lemma. Qed.
Print Assumptions apbt_needs_bracketing.

(* non-vacuity: the loop + try/except example above satisfies the hypotheses, and the model recomputes exactly the
   block_targets pytype computed for it (the witness carries them) *)
Example loop_try_except_apbt :
  apbt_okb loop_try_except [] = true /\
  add_pop_block_targets loop_try_except [] = Ok loop_try_except /\
  existsb (fun o => match block_target o with Some _ => true | None => false end) loop_try_except = true.
Proof. vm_compute. auto. Qed.

(* a marked jump into a protected range pushes the range's SETUP_EXCEPT_311 (found by walking .prev), so the
   POP_BLOCK at position 4 gets the handler 6 although the SETUP at position 2 is never executed on that path *)
Example marked_jump_example :
  let ops := [mkI 0 op_NOP None None None (Some 1%N) None;
              mkI 1 op_JUMP_FORWARD (Some 3%N) None None (Some 2%N) (Some 0%N);
              mkI 2 op_SETUP_EXCEPT_311 (Some 6%N) None None (Some 3%N) (Some 1%N);
              mkI 3 op_NOP None None None (Some 4%N) (Some 2%N);
              mkI 4 op_POP_BLOCK None None None (Some 5%N) (Some 3%N);
              mkI 5 op_RETURN_CONST None None None (Some 6%N) (Some 4%N);
              mkI 6 op_PUSH_EXC_INFO None None None (Some 7%N) (Some 5%N);
              mkI 7 op_RERAISE None None None None (Some 6%N)] in
  apbt_okb ops [1%N] = true /\
  option_map (map block_target) (match add_pop_block_targets ops [1%N] with Ok o => Some o | Err _ => None end)
  = Some [None; None; None; None; Some 6%N; None; None; None] /\
  add_pop_block_targets ops [] = Err 41.
Proof. vm_compute. auto. Qed.

(* ---- composition with the exception-table theorems --------------------------------------------------------- *)
From PV Require Import Blocks.BracketProofs.

(* every op of the table _add_setup_except returns is an original instruction or a synthetic op whose class matches
   the class of its key (this is what lets exception_ops_nested, a statement about keys, speak about opcodes) *)
Theorem exception_ops_shape : forall (items : list xitem) (entries : list exc_entry) (out : list xitem),
  wf_excb items entries = true -> add_setup_except entries items = Ok out ->
  forall h, In h out ->
    ((x_key h mod 4 = 1)%N /\ In h items) \/
    ((x_key h mod 4 = 0)%N /\ x_opc h = op_SETUP_EXCEPT_311) \/
    ((x_key h mod 4 = 2)%N /\ x_opc h = op_POP_BLOCK).
Proof. exact exception_ops_shape_lemma. Qed.
Print Assumptions exception_ops_shape.

(* exception_ops_nested carried through _make_opcode_list / _add_jump_targets (python_version <> (3, 11): nothing
   elided): the opcode list built from the output table - by ANY conversion [its] that keeps the class sequence - is
   bracketed in the sense add_pop_block_targets needs; no original instruction may be a SETUP_EXCEPT_311 / POP_BLOCK
   (true from 3.11 on, where an exception table exists) *)
Theorem exception_ops_bracket_the_opcode_list : forall (items : list xitem) (entries : list exc_entry) (out : list xitem)
    (minor : N) (its : list item) (ops : list instr),
  wf_excb items entries = true ->
  (forall h, In h items -> x_opc h <> op_SETUP_EXCEPT_311 /\ x_opc h <> op_POP_BLOCK) ->
  add_setup_except entries items = Ok out ->
  minor <> 11%N -> map iopc its = map x_opc out -> build_ops minor its = Ok ops ->
  brk_ops ops false = true.
Proof. exact bracket_composition_lemma. Qed.
Print Assumptions exception_ops_bracket_the_opcode_list.

(* end to end: on such a list add_pop_block_targets raises nothing as soon as the jump / mark clauses hold *)
Theorem apbt_total_from_exception_table : forall (items : list xitem) (entries : list exc_entry) (out : list xitem)
    (minor : N) (its : list item) (ops : list instr) (pxb : list N),
  wf_excb items entries = true ->
  (forall h, In h items -> x_opc h <> op_SETUP_EXCEPT_311 /\ x_opc h <> op_POP_BLOCK) ->
  add_setup_except entries items = Ok out ->
  minor <> 11%N -> map iopc its = map x_opc out -> build_ops minor its = Ok ops ->
  apbt_ok_from ops ops pxb 0 = true ->
  exists ops', add_pop_block_targets ops pxb = Ok ops'.
Proof. exact apbt_total_from_exception_table_lemma. Qed.
Print Assumptions apbt_total_from_exception_table.

(* non-vacuity: the adjacent-ranges table above, converted item by item, gives a bracketed 11-op list on which the
   walk returns (no jump is marked) *)
Example bracket_composition_example :
  let items := [mkX 1 op_RESUME 1 None; mkX 5 op_NOP 2 None; mkX 9 op_POP_TOP 2 None; mkX 13 op_NOP 3 None;
                mkX 17 op_PUSH_EXC_INFO 4 None; mkX 21 op_PUSH_EXC_INFO 5 None; mkX 25 op_RERAISE 5 None] in
  let entries := [mkE 2 4 8 false; mkE 6 6 10 false] in
  match add_setup_except entries items with
  | Ok out =>
    let its := map (fun x => mkItem (x_key x) (x_opc x) None (x_preset x)) out in
    match build_ops 12 its with
    | Ok ops => length ops = 11 /\ brk_ops ops false = true /\ apbt_ok_from ops ops [] 0 = true /\
                option_map (map block_target) (match add_pop_block_targets ops [] with Ok o => Some o | Err _ => None end)
                = Some [None; None; None; None; Some 8%N; None; None; Some 9%N; None; None; None]
    | Err _ => False
    end
  | Err _ => False
  end.
Proof. vm_compute. auto. Qed.
