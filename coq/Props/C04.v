(* C04 - analysis output is a pure function of the source and options.
   Property theorems only (each closed by [exact], followed by Print Assumptions) + non-vacuity.

   PARTIAL by nature: no Gallina model can exhibit hash-seed dependent iteration inside the VM.
   What is proved here is that the last two stages of the pipeline erase order:
     - the emitted declaration unit is a function of the SET of declarations
       (canonical_perm_invariant, canon_idempotent), provided sort keys separate siblings -
       a hypothesis about implementation outputs that the harness monitors on every emitted AST;
     - the error report is sorted, duplicate-free, bounded and a function of the SEQUENCE of logged
       errors' eight modelled fields (the errors_ theorems); it is NOT a function of the set (errors_order_sensitive).
   Everything upstream (set/dict iteration in the VM, id()-based ordering, loader caches) is covered
   by the differential search in harness/props/c04.py, not by these theorems. *)
From Coq Require Import List String Ascii Bool Arith ZArith Permutation Sorted.
From PV Require Import Canon.Model Canon.SortLemmas Canon.Proofs Canon.ErrorProofs.
From PV Require Loader.Model Loader.Proofs.
Import ListNotations.
Local Open Scope string_scope.

(* ---- (a) CanonicalOrderingVisitor ---------------------------------------------------------- *)

(* Two units that differ only by the order of the items of tuples the visitor sorts - at any depth
   the visitor reaches: module constants/type params/functions/classes/aliases, class
   methods/decorators/nested classes/slots/constants (unless dataclass-like or namedtuple),
   signature templates/exceptions, union members - canonicalise to the same unit, provided that
   wherever the visitor sorts, siblings with equal sort keys are equal. *)
Theorem canonical_perm_invariant : forall u u' : value,
  deep_perm u u' -> keys_separate u -> canon u = canon u'.
Proof. intros u u' H K. exact (canonical_perm_invariant_lemma u u' K H). Qed.
Print Assumptions canonical_perm_invariant.

(* the hypothesis cannot be dropped: key-equal but different siblings keep their input order
   (two constants `x` whose ClassType points to two different classes that are both called A) *)
Definition w_S (s : string) : value := VAtom "str" s ("'" ++ s ++ "'").
Definition w_C (body : string) : value :=
  VNode "Constant" [("name", w_S "x"); ("type", VClassType "A" (Some ("A", body)));
                    ("value", VAtom "NoneType" "None" "None")].
Definition w_U (cs : list value) : value :=
  VNode "TypeDeclUnit" [("name", w_S "m"); ("constants", VTup cs); ("type_params", VTup []);
                        ("classes", VTup []); ("functions", VTup []); ("aliases", VTup []);
                        ("_name2item", empty_dict)].
Definition w_u : value := w_U [w_C "Class(name='A', v=1)"; w_C "Class(name='A', v=2)"].
Definition w_u' : value := w_U [w_C "Class(name='A', v=2)"; w_C "Class(name='A', v=1)"].

Theorem canonical_perm_needs_keys_separate :
  exists u u' : value, deep_perm u u' /\ sets_normal u /\ canon u <> canon u'.
Proof.
  exists w_u, w_u'.
  split; [|split].
  - apply dp_node; [reflexivity|].
    constructor; [split; [reflexivity|left; apply dp_refl]|].
    constructor.
    { split; [reflexivity|right]. split; [reflexivity|].
      exists [w_C "Class(name='A', v=1)"; w_C "Class(name='A', v=2)"],
             [w_C "Class(name='A', v=1)"; w_C "Class(name='A', v=2)"],
             [w_C "Class(name='A', v=2)"; w_C "Class(name='A', v=1)"].
      split; [reflexivity|]. split; [repeat (constructor; try apply dp_refl)|].
      split; [apply perm_swap|reflexivity]. }
    repeat (constructor; [split; [reflexivity|left; apply dp_refl]|]). constructor.
  - apply okb_sound. vm_compute. reflexivity.
  - vm_compute. discriminate.
Qed.
Print Assumptions canonical_perm_needs_keys_separate.

(* canonicalising twice changes nothing.  Hypothesis: member lists of set-types are flat and
   ==-duplicate-free - what _SetOfTypes.__post_init__ establishes for every object the pytd
   constructors can build, and the condition under which the model's unconditional re-construction
   of visited nodes agrees with the real `changed` optimisation (monitored on every input tree) *)
Theorem canon_idempotent : forall u : value, sets_normal u -> canon (canon u) = canon u.
Proof. exact canon_idempotent_lemma. Qed.
Print Assumptions canon_idempotent.

(* keys_separate is the stronger hypothesis; the executable checker used by the harness is sound *)
Theorem keys_separate_sets_normal : forall u, keys_separate u -> sets_normal u.
Proof. exact ok_true_false. Qed.
Print Assumptions keys_separate_sets_normal.

Theorem hypothesis_checker_sound : forall k u, okb k u = true -> ok k u.
Proof. exact okb_sound. Qed.
Print Assumptions hypothesis_checker_sound.

(* the sort itself: Python's sorted() with Node.__lt__ yields a sorted permutation, and the result
   is a function of the multiset as soon as key-equal elements are equal *)
Theorem sorted_is_sorted_permutation : forall l : list value,
  Permutation (sort_vals l) l /\
  StronglySorted (fun a b => node_lt b a = false) (sort_vals l).
Proof.
  intros l. split; [apply sort_vals_perm|].
  exact (sort_sorted kcmp key good_kcmp l).
Qed.
Print Assumptions sorted_is_sorted_permutation.

(* ---- (b) ErrorLog.unique_sorted_errors ------------------------------------------------------ *)

(* the report is sorted by (filename or "", line): no reported error is strictly smaller than one
   reported before it *)
Theorem errors_sorted : forall es : list error,
  StronglySorted (fun a b => err_lt b a = false) (unique_sorted_errors es).
Proof. exact errors_sorted_lemma. Qed.
Print Assumptions errors_sorted.

(* what the code guarantees about uniqueness, precisely: two reported errors with the same unique
   representation (position, message, details, name) have tracebacks that
   _compare_traceback_strings cannot compare (neither equal nor one a suffix of the other) - the
   "several bad call sites" case; at most MAX_TRACEBACKS of them are kept *)
Theorem errors_unique : forall es : list error,
  ForallOrdPairs (fun a b => urepr a = urepr b -> compare_tb (e_tb a) (e_tb b) = None)
                 (unique_sorted_errors es).
Proof. exact errors_unique_lemma. Qed.
Print Assumptions errors_unique.

(* in particular nothing is reported twice *)
Theorem errors_nodup : forall es : list error, NoDup (unique_sorted_errors es).
Proof.
  intros es. pose proof (errors_unique_lemma es) as H.
  induction H as [|a l Ha Hl IH]; constructor; auto.
  intros Hin. rewrite Forall_forall in Ha. specialize (Ha a Hin eq_refl).
  unfold incomparable in Ha. rewrite compare_tb_refl in Ha. discriminate.
Qed.
Print Assumptions errors_nodup.

Theorem errors_bounded : forall (es : list error) u,
  (List.length (filter (fun e => urepr_eqb (urepr e) u) (unique_sorted_errors es)) <= MAX_TRACEBACKS)%nat.
Proof. exact errors_bounded_lemma. Qed.
Print Assumptions errors_bounded.

Theorem errors_from_log : forall (es : list error) e, In e (unique_sorted_errors es) -> In e es.
Proof. exact errors_from_log_lemma. Qed.
Print Assumptions errors_from_log.

(* The report is a function of the sequence of the logged errors' eight modelled fields: whatever
   else the logged objects carry (identity, hash, severity, source text, ...) cannot influence which
   are reported or in what order. *)
Theorem errors_function_of_sequence : forall (A : Type) (pe : A -> error) (xs : list A),
  map pe (unique_sorted_on pe xs) = unique_sorted_errors (map pe xs).
Proof. exact @errors_on_carrier_lemma. Qed.
Print Assumptions errors_function_of_sequence.

(* It is a function of the SET of logged errors only when errors on the same (file, line) are
   identical ... *)
Theorem errors_perm_invariant_partial : forall es es' : list error,
  Permutation es es' ->
  (forall a b, In a es -> In b es -> sort_key a = sort_key b -> a = b) ->
  unique_sorted_errors es = unique_sorted_errors es'.
Proof. exact errors_perm_lemma. Qed.
Print Assumptions errors_perm_invariant_partial.

(* ... and not in general: two different errors on one line are reported in logging order.  This is
   why the order in which the VM logs errors is watched by the differential search. *)
Definition mk (line : Z) (msg : string) (tb : option string) : error :=
  mkError (Some "f.py") line 0 (Some "g") msg None "attribute-error" tb.

Theorem errors_order_sensitive :
  exists es es' : list error, Permutation es es' /\ unique_sorted_errors es <> unique_sorted_errors es'.
Proof.
  exists [mk 3 "No attribute 'a'" None; mk 3 "No attribute 'b'" None],
         [mk 3 "No attribute 'b'" None; mk 3 "No attribute 'a'" None].
  split; [apply perm_swap|]. vm_compute. discriminate.
Qed.
Print Assumptions errors_order_sensitive.

(* ---- (c) history: load_pytd.Loader's caches (coq/Loader/Model.v) ------------------------------ *)
Module LoaderHistory.
Import Loader.Model Loader.Proofs.

(* The memo of import_name adds no history dependence of its own: if an uncached import from every reachable
   module map answers like one from the empty map (and keeps the map reachable), then every answer of every
   history of import_name calls is the answer of a fresh loader. *)
Theorem memo_layer_history_independent_partial :
  forall (fuel : nat) (U : universe) (Good : mods -> Prop),
  Good [] ->
  (forall n s, Good s -> Good (fst (import_slow fuel U n s)) /\
                         snd (import_slow fuel U n s) = snd (import_slow fuel U n [])) ->
  forall ops : list name, run fuel U fresh ops = fresh_answers fuel U ops.
Proof. exact memo_layer_history_independent_lemma. Qed.
Print Assumptions memo_layer_history_independent_partial.

(* ... and the full statement is refuted by the faithful model of the module map, three ways (each reproduced on
   the real Loader by the harness and listed as a finding): *)
(* a module loaded earlier shadows a class of the same name: fresh OK, reused BadDependencyError *)
Theorem loader_history_independent_refuted_shadowing :
  exists (U : universe) (ops : list name),
    Forall (fun r => r <> OOut) (run 10 U fresh ops) /\ run 10 U fresh ops <> fresh_answers 10 U ops.
Proof. exists U_shadow, [[0; 10]; [1]]. exact shadow_refuted. Qed.
Print Assumptions loader_history_independent_refuted_shadowing.

(* the dependency dropped by collect_dependencies: fresh BadDependencyError, reused OK *)
Theorem loader_history_independent_refuted_own_class :
  exists (U : universe) (ops : list name),
    Forall (fun r => r <> OOut) (run 10 U fresh ops) /\ run 10 U fresh ops <> fresh_answers 10 U ops.
Proof. exists U_own, [[0; 12]; [0]]. exact own_class_refuted. Qed.
Print Assumptions loader_history_independent_refuted_own_class.

(* a member of an import cycle linked inside a FAILED import stays cached: fresh BadDependencyError, reused OK *)
Theorem loader_history_independent_refuted_failed_cycle :
  Forall (fun r => r <> OOut) (run 10 U_cycle fresh [[0]; [1]]) /\
  run 10 U_cycle fresh [[0]; [1]] = [OErr; OOk (mkEntry false [] [(0, TCls [0] 12)])] /\
  fresh_answers 10 U_cycle [[0]; [1]] = [OErr; OErr].
Proof. exact cycle_refuted. Qed.
Print Assumptions loader_history_independent_refuted_failed_cycle.

(* what IS unconditional: a memoised answer (an AST or "no such module") is repeated verbatim whatever happens to
   the module map in between; errors are never memoised *)
Theorem cached_answer_is_repeated : forall fuel U st n st' r,
  import_name fuel U st n = (st', r) -> (r = ONone \/ exists e, r = OOk e) ->
  forall mods', import_name fuel U (mkState mods' (st_cache st')) n = (mkState mods' (st_cache st'), r).
Proof. exact cached_answer_is_repeated_lemma. Qed.
Print Assumptions cached_answer_is_repeated.

(* where history enters: an entry of _modules short-circuits the whole load *)
Theorem existing_entry_short_circuits_load : forall fuel U n s e,
  lookup n s = Some e -> load (Datatypes.S fuel) U n s = (s, ROk e).
Proof. exact load_existing_lemma. Qed.
Print Assumptions existing_entry_short_circuits_load.

(* non-vacuity: a cyclic three-module universe on which a history of five requests is answered like fresh loaders *)
Example ex_history_independent_instance :
  let U := [([0], mkRaw true [10] [(0, ([1], 11))]); ([0; 12], mkRaw false [11] [(0, ([0], 10))]);
            ([1], mkRaw false [11] [(0, ([0; 12], 11)); (1, ([0], 10))])] in
  run 10 U fresh [[1]; [0; 12]; [9]; [0]; [1]] = fresh_answers 10 U [[1]; [0; 12]; [9]; [0]; [1]] /\
  nth 0 (run 10 U fresh [[1]]) ONone = OOk (mkEntry false [11] [(0, TCls [0; 12] 11); (1, TCls [0] 10)]).
Proof. split; vm_compute; reflexivity. Qed.
End LoaderHistory.

(* ---- non-vacuity --------------------------------------------------------------------------- *)

Definition S (s : string) : value := VAtom "str" s ("'" ++ s ++ "'").
Definition NoneV : value := VAtom "NoneType" "None" "None".
Definition Named (n : string) : value := VNode "NamedType" [("name", S n)].
Definition Union (l : list value) : value := VNode "UnionType" [("type_list", VTup l)].
Definition Const (n : string) (t : value) : value :=
  VNode "Constant" [("name", S n); ("type", t); ("value", NoneV)].
Definition Unit (cs : list value) : value :=
  VNode "TypeDeclUnit" [("name", S "m"); ("constants", VTup cs); ("type_params", VTup []);
                        ("classes", VTup []); ("functions", VTup []); ("aliases", VTup []);
                        ("_name2item", VAtom "dict" "{'y': ...}" "{'y': ...}")].

(* y: Union[b, a]; x: int   versus   x: int; y: Union[a, b] *)
Definition ex_u : value := Unit [Const "y" (Union [Named "b"; Named "a"]); Const "x" (Named "int")].
Definition ex_u' : value := Unit [Const "x" (Named "int"); Const "y" (Union [Named "a"; Named "b"])].

Example ex_deep_perm : deep_perm ex_u ex_u'.
Proof.
  assert (Hrefl : forall l, Forall2 deep_perm l l) by (induction l; constructor; auto using dp_refl).
  apply dp_node; [reflexivity|].
  constructor; [split; [reflexivity|left; apply dp_refl]|].
  constructor.
  { split; [reflexivity|right]. split; [reflexivity|].
    exists [Const "y" (Union [Named "b"; Named "a"]); Const "x" (Named "int")],
           [Const "y" (Union [Named "a"; Named "b"]); Const "x" (Named "int")],
           [Const "x" (Named "int"); Const "y" (Union [Named "a"; Named "b"])].
    split; [reflexivity|]. split; [|split; [apply perm_swap|reflexivity]].
    constructor; [|apply Hrefl].
    apply dp_node; [reflexivity|].
    constructor; [split; [reflexivity|left; apply dp_refl]|].
    constructor; [|repeat (constructor; [split; [reflexivity|left; apply dp_refl]|]); constructor].
    split; [reflexivity|left].
    apply dp_node; [reflexivity|].
    constructor; [|constructor].
    split; [reflexivity|right]. split; [reflexivity|].
    exists [Named "b"; Named "a"], [Named "b"; Named "a"], [Named "a"; Named "b"].
    split; [reflexivity|]. split; [apply Hrefl|]. split; [apply perm_swap|reflexivity]. }
  repeat (constructor; [split; [reflexivity|left; apply dp_refl]|]). constructor.
Qed.

Example ex_keys_separate : keys_separate ex_u.
Proof. apply okb_sound. vm_compute. reflexivity. Qed.

Example ex_nontrivial : ex_u <> ex_u' /\ canon ex_u = canon ex_u' /\
  canon ex_u = VNode "TypeDeclUnit"
    [("name", S "m");
     ("constants", VTup [Const "x" (Named "int"); Const "y" (Union [Named "a"; Named "b"])]);
     ("type_params", VTup []); ("classes", VTup []); ("functions", VTup []); ("aliases", VTup []);
     ("_name2item", empty_dict)].
Proof.
  split; [discriminate|]. split.
  - apply canonical_perm_invariant; [apply ex_deep_perm|apply ex_keys_separate].
  - vm_compute. reflexivity.
Qed.

(* errors: same unique representation with nested tracebacks (the shorter one wins), with
   incomparable tracebacks (both kept), an exact duplicate (dropped), sorted by line *)
Definition tb (s : string) : option string := Some (TRACEBACK_MARKER ++ s).
Example ex_errors :
  unique_sorted_errors
    [mk 9 "late" None;
     mk 5 "m" (tb "\n  line 1, in current file\n  line 2, in f");
     mk 5 "m" (tb "\n  line 2, in f");
     mk 5 "m" (tb "\n  line 7, in h");
     mk 5 "m" (tb "\n  line 2, in f");
     mk 2 "early" None; mk 2 "early" None]
  = [mk 2 "early" None;
     mk 5 "m" (tb "\n  line 2, in f");
     mk 5 "m" (tb "\n  line 7, in h");
     mk 9 "late" None].
Proof. vm_compute. reflexivity. Qed.
