(* C07 — the typegraph solver decides binding visibility correctly.  (theorems added below) *)
From Coq Require Import List Arith Bool.
From PV Require Import Typegraph.Graph Typegraph.Solver.
Import ListNotations.
