(* C07 — the typegraph solver decides binding visibility correctly.
   Property theorems only; each is closed by [exact] and followed by Print Assumptions.
   Model: Typegraph/Graph.v + Solver.v (line-by-line transcription of solver.cc, validated against
   cfg.so on every run by harness/props/c07.py).  Spec: Typegraph/Spec.v. *)
From Coq Require Import List Arith Bool Relations.
From PV Require Import Typegraph.Graph Typegraph.Solver Typegraph.Spec Typegraph.SetLemmas
  Typegraph.RfgProofs Typegraph.PathProofs Typegraph.SearchProofs Typegraph.SolverProofs
  Typegraph.ResolveMono Typegraph.ExactProofs Typegraph.WalkProofs Typegraph.FuelProofs
  Typegraph.SolverReach.
From PV Require Typegraph.Reach.
Import ListNotations.

(* ---- building blocks ---------------------------------------------------------------------- *)

(* remove_finished_goals (the explicit action stack with its undo actions, the seen set, the
   origin-without-source-set dead end) returns exactly the outcomes of the recursive resolution
   relation: sound and complete for the resolution step, any goal set, any graph. *)
Theorem remove_finished_goals_exact : forall g pos fuel goals results,
  ssorted goals = true ->
  remove_finished_goals fuel g pos goals = Some results ->
  forall r, In r results <-> resolves_at g pos goals r.
Proof. exact rfg_correct. Qed.
Print Assumptions remove_finished_goals_exact.

(* every goal is either removed (then it originates at the position) or still a goal (then it does not) *)
Theorem resolution_partitions_goals : forall g pos goals R N,
  resolves_at g pos goals (R, N) ->
  (forall b, In b goals -> In b R \/ In b N) /\
  (forall b, In b R -> find_origin g b pos <> None) /\
  (forall b, In b N -> find_origin g b pos = None).
Proof. exact resolves_at_facts. Qed.
Print Assumptions resolution_partitions_goals.

(* FindShortestPathToNode returns a non-empty path iff a backward path exists whose nodes before
   the last one avoid `blocked` (finish is tested before blocked: the last node may be blocked). *)
Theorem shortest_path_exact : forall g start finish blocked sp,
  find_shortest_path g start finish blocked = Some sp ->
  (sp <> [] <-> creach g blocked start finish).
Proof. exact find_shortest_path_spec. Qed.
Print Assumptions shortest_path_exact.

(* FindNodeBackwards: path_exists iff such a path exists; every node it reports is a conditional
   node backward reachable from the start. *)
Theorem find_node_backwards_sound : forall g start finish blocked ex path,
  find_node_backwards_compute g start finish blocked = Some (ex, path) ->
  (ex = true <-> creach g blocked start finish) /\
  (forall x, In x path -> breach g start x /\ cond g x <> None).
Proof. exact fnb_compute_spec. Qed.
Print Assumptions find_node_backwards_sound.

(* ---- termination / fuel ------------------------------------------------------------------ *)

(* remove_finished_goals terminates on every position and goal set of every graph *)
Theorem remove_finished_goals_terminates : forall g pos goals, ssorted goals = true ->
  exists n results, forall fuel, remove_finished_goals (n + fuel) g pos goals = Some results.
Proof. exact rfg_terminates. Qed.
Print Assumptions remove_finished_goals_terminates.

(* FindNodeBackwards always returns on every graph: the worklist loops stay within the fuel the
   model gives them (number of edges), the shortest path is a simple path, and the `while (true)`
   loop over articulation points always finds a next node (no nullptr dereference) *)
Theorem find_node_backwards_total : forall g start finish blocked,
  find_node_backwards_compute g start finish blocked <> None.
Proof. exact fnb_compute_total. Qed.
Print Assumptions find_node_backwards_total.

(* fuel sufficiency: on an acyclic graph every sequence of queries is answered (never None) for
   every sufficiently large fuel - the `= Some` hypotheses of the theorems below are satisfiable *)
Theorem solve_fuel_sufficient_acyclic : forall g qs, acyclic g ->
  exists F, forall fuel, F <= fuel -> run_queries fuel g sstate_empty qs <> None.
Proof. exact run_queries_total_lemma. Qed.
Print Assumptions solve_fuel_sufficient_acyclic.

(* ---- clause (i): exactness on acyclic condition-free graphs ------------------------------- *)

(* DESIGN thm 1, full strength: on every acyclic graph without node conditions, for ANY sequence of
   queries answered by one solver (memo and path cache shared), every HasCombination answer is true
   exactly when the goal set has an explaining path.  (The memoised search is exact because the
   position strictly decreases in a topological rank, so provisional entries are never consulted; the
   CanHaveSolution short-circuit never changes an answer because Expl is monotone in the goal set.) *)
Theorem solver_exact_acyclic : forall g fuel qs st' answers,
  acyclic g -> no_conditions g = true ->
  run_queries fuel g sstate_empty qs = Some (st', answers) ->
  Forall2 (fun q a => a = true <-> Expl g (snd q) (sof_list (fst q))) qs answers.
Proof. exact solver_exact_acyclic_lemma. Qed.
Print Assumptions solver_exact_acyclic.

(* the search proper (RecallOrFindSolution from a fresh solver) on an arbitrary state *)
Theorem search_exact_acyclic : forall g fuel s st' r,
  acyclic g -> no_conditions g = true -> ssorted (snd s) = true ->
  recall_or_find fuel fuel g sstate_empty s [] = Some (st', r) ->
  (r = true <-> Expl g (fst s) (snd s)).
Proof. exact search_exact_acyclic_lemma. Qed.
Print Assumptions search_exact_acyclic.

(* the explanation relation is monotone: a subset of an explained goal set is explained *)
Theorem explained_subset_closed : forall g n S,
  Expl g n S -> forall S', ssorted S' = true -> (forall b, In b S' -> In b S) -> Expl g n S'.
Proof. exact Expl_mono. Qed.
Print Assumptions explained_subset_closed.

(* ---- clause (iii): accepted => every goal individually reachable -------------------------- *)

(* FULL STATEMENT (DESIGN thm 3): on EVERY graph, solve ... = Some true -> Reach1 g n S.
   The faithful model refutes it (next theorem), and the witness reproduces on cfg.so (corpus/C07,
   known finding iii:unreachable-goal-accepted:cyclic+cond).  Proved: it holds, for any sequence of
   queries sharing one solver, on every acyclic graph (conditions allowed) and on every graph
   without node conditions (cycles allowed); i.e. it can only fail on a graph that has BOTH a CFG
   cycle and a node condition. *)
Theorem accepted_individually_reachable_partial : forall g fuel qs st' answers,
  acyclic g \/ no_conditions g = true ->
  run_queries fuel g sstate_empty qs = Some (st', answers) ->
  Forall2 (fun q a => a = true -> Reach1 g (snd q) (fst q)) qs answers.
Proof. exact accepted_reachable_partial_lemma. Qed.
Print Assumptions accepted_individually_reachable_partial.

Theorem accepted_individually_reachable_refuted :
  exists g fuel n S, wf_graph g = true /\ solve_fresh fuel g S n = Some true /\ ~ Reach1 g n S.
Proof. exact accepted_reachable_refuted_lemma. Qed.
Print Assumptions accepted_individually_reachable_refuted.

(* ---- clause (iv): every subset of an accepted combination is accepted ----------------------- *)

(* FULL STATEMENT (DESIGN thm 4, accepted_subset_closed_full): on EVERY graph,
     solve g n S = Some true -> incl S' S -> solve g n S' = Some true.
   The faithful model REFUTES it on a cyclic graph without conditions (accepted_subset_closed_refuted;
   the witness reproduces on cfg.so: corpus/C07, known finding iv:subset-rejected:cyclic).
   Proved: it holds on acyclic condition-free graphs, for queries asked in any order within one
   solver session.  On acyclic graphs WITH conditions it is neither proved nor refuted here; it is
   decided on every run by the independent oracle on the implementation's answers. *)
Theorem accepted_subset_closed_refuted :
  exists g fuel n S S', wf_graph g = true /\ no_conditions g = true /\ incl S' S /\
    solve_fresh fuel g S n = Some true /\ solve_fresh fuel g S' n = Some false /\
    option_map snd (run_queries fuel g sstate_empty [(S, n); (S', n)]) = Some [true; true].
Proof. exact subset_closed_refuted_lemma. Qed.
Print Assumptions accepted_subset_closed_refuted.

Theorem accepted_subset_closed_partial : forall g fuel qs st' answers,
  acyclic g -> no_conditions g = true ->
  run_queries fuel g sstate_empty qs = Some (st', answers) ->
  forall q1 q2 a2,
    In (q1, true) (combine qs answers) -> In (q2, a2) (combine qs answers) ->
    snd q1 = snd q2 -> incl (fst q2) (fst q1) -> a2 = true.
Proof. exact accepted_subset_closed_acyclic_lemma. Qed.
Print Assumptions accepted_subset_closed_partial.

(* ---- clause (ii): with conditions, never reject a combination that has an explaining path ---- *)

(* FULL STATEMENT (DESIGN thm 2, solver_complete_with_conditions):
     acyclic g -> ExplC g n S -> solve g n S = Some true
   where ExplC is the strict reading (every condition on the walk is required).  The faithful
   model REFUTES it, and the witness reproduces on cfg.so (corpus/C07, known finding
   ii:rejected-but-explained:acyclic+cond): FindNodeBackwards takes node 1 of [refute_ii] for a
   conditional articulation point between nodes 5 and 0 although the condition-free walk 5,3,2,0
   avoids it.  Proved: the clause holds when the graph has no conditions, where the walk reading
   ExplC (the reading the Python oracle implements) and the jump reading Expl coincide. *)
Theorem solver_complete_with_conditions_refuted :
  exists g fuel n S, wf_graph g = true /\ acyclic g /\ ExplC g n S /\ solve_fresh fuel g S n = Some false.
Proof. exact complete_with_conditions_refuted_lemma. Qed.
Print Assumptions solver_complete_with_conditions_refuted.

Theorem solver_complete_with_conditions_partial : forall g fuel qs st' answers,
  acyclic g -> no_conditions g = true ->
  run_queries fuel g sstate_empty qs = Some (st', answers) ->
  Forall2 (fun q a => ExplC g (snd q) (sof_list (fst q)) -> a = true) qs answers.
Proof. exact complete_nocond_lemma. Qed.
Print Assumptions solver_complete_with_conditions_partial.

Theorem walk_and_jump_readings_agree : forall g, no_conditions g = true ->
  forall n S, Expl g n S <-> ExplC g n S.
Proof. exact Expl_iff_ExplC. Qed.
Print Assumptions walk_and_jump_readings_agree.

(* ---- non-vacuity --------------------------------------------------------------------------- *)
Ltac rank_id := apply topo_ids_acyclic; reflexivity.

(* diamond 0 -> {1,2} -> 3; variable 0 is bound at node 0 (binding 0) and RE-BOUND on the arm
   through node 1 (binding 1); binding 2 (variable 1) is computed at node 3 from binding 0. *)
Definition diamond : graph :=
  mkGraph [mkNode [] None; mkNode [0] None; mkNode [0] None; mkNode [1; 2] None]
          [mkBinding 0 [mkOrigin 0 [[]]]; mkBinding 0 [mkOrigin 1 [[]]]; mkBinding 1 [mkOrigin 3 [[0]]]].
Example diamond_hyps : wf_graph diamond = true /\ no_conditions diamond = true /\ acyclic diamond.
Proof. split; [reflexivity|]. split; [reflexivity|]. rank_id. Qed.
Example diamond_answers :
  option_map snd (run_queries 100 diamond sstate_empty
    [([0], 3); ([1], 3); ([0; 1], 3); ([0], 1); ([2], 3); ([1; 2], 3)])
  = Some [true; true; false; false; true; false].
Proof. vm_compute. reflexivity. Qed.

(* two-level source-set chain along 0 -> 1 -> 2: binding 2 (node 2) from binding 1 (node 1) from
   binding 0 (node 0); in [chain_rebound] node 1 also re-binds the variable of binding 0, which
   hides binding 0 from node 1 and with it the whole chain. *)
Definition chain : graph :=
  mkGraph [mkNode [] None; mkNode [0] None; mkNode [1] None]
          [mkBinding 0 [mkOrigin 0 [[]]]; mkBinding 1 [mkOrigin 1 [[0]]]; mkBinding 2 [mkOrigin 2 [[1]]]].
Definition chain_rebound : graph :=
  mkGraph [mkNode [] None; mkNode [0] None; mkNode [1] None]
          [mkBinding 0 [mkOrigin 0 [[]]]; mkBinding 1 [mkOrigin 1 [[0]]]; mkBinding 2 [mkOrigin 2 [[1]]];
           mkBinding 0 [mkOrigin 1 [[]]]].
Example chain_hyps : wf_graph chain = true /\ no_conditions chain = true /\ acyclic chain /\
                     wf_graph chain_rebound = true /\ acyclic chain_rebound.
Proof. split; [reflexivity|]. split; [reflexivity|]. split; [rank_id|]. split; [reflexivity|rank_id]. Qed.
Example chain_answers :
  solve_fresh 100 chain [2] 2 = Some true /\ solve_fresh 100 chain_rebound [2] 2 = Some false /\
  solve_fresh 100 chain_rebound [0] 0 = Some true.
Proof. vm_compute. repeat split; reflexivity. Qed.

(* a conflict: binding 2 needs bindings 0 and 1 of ONE variable together *)
Definition conflict : graph :=
  mkGraph [mkNode [] None; mkNode [0] None]
          [mkBinding 0 [mkOrigin 0 [[]]]; mkBinding 0 [mkOrigin 0 [[]]]; mkBinding 1 [mkOrigin 1 [[0; 1]]]].
Example conflict_hyps : wf_graph conflict = true /\ no_conditions conflict = true /\ acyclic conflict.
Proof. split; [reflexivity|]. split; [reflexivity|]. rank_id. Qed.
Example conflict_answers :
  solve_fresh 100 conflict [0] 1 = Some true /\ solve_fresh 100 conflict [1] 1 = Some true /\
  solve_fresh 100 conflict [2] 1 = Some false /\ solve_fresh 100 conflict [0; 1] 1 = Some false.
Proof. vm_compute. repeat split; reflexivity. Qed.

(* the exactness theorem applied: the `true` above is explained, the `false` is not *)
Example diamond_explained : Expl diamond 3 [0] /\ ~ Expl diamond 1 [0].
Proof.
  pose proof (search_exact_acyclic diamond 100 (3, [0])) as H3.
  pose proof (search_exact_acyclic diamond 100 (1, [0])) as H1.
  destruct diamond_hyps as [_ [Hn Ha]]. split.
  - eapply H3; [exact Ha | exact Hn | reflexivity | vm_compute; reflexivity | reflexivity].
  - intros He. eapply H1 in He; [| exact Ha | exact Hn | reflexivity | vm_compute; reflexivity]. discriminate.
Qed.

(* subset closure applied to a session on the diamond: [0;2] is accepted at node 3, so are [0] and [2] *)
Example diamond_subsets :
  option_map snd (run_queries 100 diamond sstate_empty [([0; 2], 3); ([0], 3); ([2], 3)])
  = Some [true; true; true].
Proof. vm_compute. reflexivity. Qed.

(* an origin without any source set (not constructible from Python, reachable from C++) is a dead
   end of remove_finished_goals: the goal is neither explained nor kept *)
Example origin_without_source_set :
  remove_finished_goals 100 (mkGraph [mkNode [] None] [mkBinding 0 [mkOrigin 0 []]]) 0 [0] = Some [].
Proof. vm_compute. reflexivity. Qed.

(* a cyclic graph without conditions meets the hypotheses of accepted_individually_reachable_partial *)
Definition loop_nocond : graph :=
  mkGraph [mkNode [1] None; mkNode [0] None] [mkBinding 0 [mkOrigin 0 [[]]]; mkBinding 1 []].
Example loop_nocond_hyps :
  wf_graph loop_nocond = true /\ no_conditions loop_nocond = true /\ acyclicb loop_nocond = false /\
  option_map snd (run_queries 100 loop_nocond sstate_empty [([0], 1); ([1], 1); ([0; 1], 0)])
  = Some [true; false; false].
Proof. vm_compute. repeat split; reflexivity. Qed.

(* the clause (iv) witness is cyclic *)
Example refute_iv_class : acyclicb refute_iv = false.
Proof. vm_compute. reflexivity. Qed.

(* the clause (ii) witness is acyclic and has a condition *)
Example refute_ii_class : acyclicb refute_ii = true /\ no_conditions refute_ii = false.
Proof. vm_compute. split; reflexivity. Qed.

(* the refutation witness is cyclic and conditional, as the partial theorem demands *)
Example refute_iii_class : acyclicb refute_iii = false /\ no_conditions refute_iii = false.
Proof. vm_compute. split; reflexivity. Qed.

(* ---- CanHaveCombination: the abstraction "graph reachability" is the C09 bit matrix -------------- *)
(* CFGNode::CanHaveCombination asks reachable.cc's bit matrix (backward_reachability_->is_reachable(
   this->id(), origin->where->id()), which is Reach.is_reachable (Reach.run h) where this).  The C07
   model computes backward reachability over the incoming lists instead (Solver.back_reach, used by
   Solver.can_have_combination).  For every solver graph whose incoming lists were built by a history h
   of NewCFGNode/ConnectTo operations (any conditions, any bindings), the two agree - by C09's theorem
   that the bit matrix is the reflexive-transitive closure of the inserted edges.  So the
   "modelled as graph reachability" item of the level note is proved, not assumed. *)
Theorem can_have_combination_uses_bit_matrix : forall g h,
  Reach.wf_hist h = true -> built_by g h ->
  forall attrs this, this < n_nodes g ->
  (forall b o, In b attrs -> In o (origins g b) -> o_where o < n_nodes g) ->
  can_have_combination g attrs this =
  forallb (fun b => existsb (fun o => Reach.is_reachable (Reach.run h) (o_where o) this) (origins g b)) attrs.
Proof. exact can_have_combination_bit_matrix_lemma. Qed.
Print Assumptions can_have_combination_uses_bit_matrix.

Theorem back_reach_is_the_bit_matrix : forall g h,
  Reach.wf_hist h = true -> built_by g h ->
  forall this where_, this < n_nodes g -> where_ < n_nodes g ->
  smem where_ (back_reach g this) = Reach.is_reachable (Reach.run h) where_ this.
Proof. exact back_reach_is_bit_matrix. Qed.
Print Assumptions back_reach_is_the_bit_matrix.

(* non-vacuity: the diamond is built by a history (with a self edge and a duplicate edge thrown in) *)
Definition diamond_hist : list Reach.op :=
  [Reach.NewNode; Reach.NewNode; Reach.NewNode; Reach.NewNode; Reach.Connect 0 1; Reach.Connect 0 2;
   Reach.Connect 1 3; Reach.Connect 2 2; Reach.Connect 2 3; Reach.Connect 0 1].
Example diamond_built : Reach.wf_hist diamond_hist = true /\ built_by diamond diamond_hist /\
  can_have_combination diamond [0; 1] 3 = true /\ can_have_combination diamond [1] 2 = false.
Proof. vm_compute. repeat split; reflexivity. Qed.

(* ---- clause (iv) on acyclic graphs WITH conditions: refuted --------------------------------------- *)
(* The case left open above (accepted_subset_closed_partial covers acyclic condition-free graphs,
   accepted_subset_closed_refuted cyclic ones): on an acyclic graph with one node condition a fresh
   solver - and equally a solver that answered the superset first - accepts {0,2,4} and rejects {0,2}.
   Found by a directed search built on the false-articulation-point defect (clause ii): the pending
   goal set decides the blocked set, the blocked set decides the shortest path, and the shortest path
   decides which conditional node FindNodeBackwards (wrongly) takes for an articulation point.
   Reproduces on cfg.so (corpus/C07/iv_subset_rejected_acyclic_cond.json, proposed known finding
   iv:subset-rejected:acyclic+cond).  With this, clause (iv) is settled on every graph class: proved
   on acyclic condition-free graphs, refuted as soon as the graph has a cycle or a condition. *)
Theorem accepted_subset_closed_acyclic_cond_refuted :
  exists g fuel n S S', wf_graph g = true /\ acyclic g /\ incl S' S /\
    solve_fresh fuel g S n = Some true /\ solve_fresh fuel g S' n = Some false /\
    option_map snd (run_queries fuel g sstate_empty [(S, n); (S', n)]) = Some [true; false].
Proof. exact subset_closed_acyclic_cond_refuted_lemma. Qed.
Print Assumptions accepted_subset_closed_acyclic_cond_refuted.

Example refute_iv_acyc_class :
  acyclicb refute_iv_acyc = true /\ no_conditions refute_iv_acyc = false /\
  option_map snd (run_queries 100 refute_iv_acyc sstate_empty [([0], 10); ([2], 10); ([4], 10)])
  = Some [true; true; true].
Proof. vm_compute. repeat split; reflexivity. Qed.

(* ---- EVERY graph, cycles and node conditions included: what the memoised search does guarantee ---- *)
From PV Require Import Typegraph.CyclicMemo.

(* Whatever is accepted - by a fresh solver or by one that has answered any number of queries before - is
   CIRCULARLY explained: the state (n, S) lies in a set of search states each of which is a leaf of
   FindSolution or has a FindSolution successor in the set (the greatest-fixpoint reading of the explanation
   relation; the provisional `true` entry of RecallOrFindSolution is sound for exactly this reading, and the
   clause (iii)/(iv) findings on cyclic graphs are the gap between it and the least fixpoint). *)
Theorem accepted_circularly_explained : forall g fuel qs st' answers,
  run_queries fuel g sstate_empty qs = Some (st', answers) ->
  Forall2 (fun q a => a = true -> GExpl g (snd q, sof_list (fst q))) qs answers.
Proof.
  intros g fuel qs st' answers H.
  exact (proj2 (run_queries_gexpl g fuel qs _ _ _ H (st_okG_empty g))).
Qed.
Print Assumptions accepted_circularly_explained.

(* Within one solver, the same query asked again - whatever was asked in between - gets the answer it got the
   first time: solved_states_ only grows and a finished entry never changes (every graph, every fuel). *)
Theorem answers_sticky_within_one_solver : forall g fuel pre attrs n mid post st st' answers,
  run_queries fuel g st (pre ++ (attrs, n) :: mid ++ (attrs, n) :: post) = Some (st', answers) ->
  exists a, nth_error answers (length pre) = Some a /\
            nth_error answers (length pre + S (length mid)) = Some a.
Proof. exact run_queries_sticky. Qed.
Print Assumptions answers_sticky_within_one_solver.

(* GExpl is not vacuous: a goal without any origin is not circularly explained ... *)
Definition g_no_origin : graph := mkGraph [mkNode [] None] [mkBinding 0 []].
Example gexpl_can_fail : ~ GExpl g_no_origin (0, [0]).
Proof.
  assert (Hor : forall b, origins g_no_origin b = []) by (intros [|[|b]]; reflexivity).
  intros [T [HT Hcl]].
  destruct (Hcl _ HT) as [[removed [Hr Hc]]|[t' [[removed [new [Hr [Hc [Hne [Hp Hs]]]]]] _]]].
  - destruct (resolves_at_facts _ _ _ _ _ Hr) as [A [B _]].
    destruct (A 0 (or_introl eq_refl)) as [H0|[]]. apply (B 0 H0). reflexivity.
  - destruct Hp as [fin [path [Hf _]]]. apply In_finish_nodes in Hf.
    destruct Hf as [b [o [_ [Ho _]]]]. rewrite Hor in Ho. destruct Ho.
Qed.
(* ... and the theorem applies to runs on cyclic graphs: loop_nocond_hyps above is one (answers true/false/false) *)
