(* C19 — the whole-project build plan orders every analysis after the stubs it reads.
   Property theorems only; each is closed by [exact] and followed by Print Assumptions.
   Model: Plan/Model.v (pytype/tools/analyze_project/pytype_runner.py as written).  [req] is
   self.filenames, [ss] is sorted_sources, [setup_build req ss = Some s] means setup_build returned
   (None = KeyError) having written the statements [plan s] and the imports files [store s]. *)
From Coq Require Import List NArith Bool Arith Relations.
From PV Require Import Plan.Model Plan.Proofs Plan.StmtProofs Plan.CoverProofs Plan.GraphProofs.
From PV Require Import Plan.Text Plan.ReaderProofs Plan.CommandProofs Plan.NamesProofs.
Import ListNotations.

(* ---- 1. every requested file that is analysed at all is checked exactly once ------------- *)
(* get_module_action req m = CHECK  <->  m's file is requested and m is not a Builtin/System module
   outside pytype_extensions.  Any sorted_sources in which each file occurs once: any size, any
   cycles, any requested subset, whatever the early `files >= filenames` skip does. *)
Theorem checked_once : forall req ss s m,
  setup_build req ss = Some s -> NoDup (map m_full (members ss)) ->
  In m (members ss) -> get_module_action req m = CHECK ->
  checks_of (m_full m) (plan s) = 1.
Proof. exact checked_once_lemma. Qed.
Print Assumptions checked_once.

(* ... and nothing else is: a CHECK statement is for a requested file and is never a first pass *)
Theorem check_only_requested : forall req ss s t,
  setup_build req ss = Some s -> In t (plan s) -> s_action t = CHECK ->
  In (s_input t) req /\ exists k, s_out t = PPyi k false.
Proof. exact check_only_requested_lemma. Qed.
Print Assumptions check_only_requested.

(* ---- 2. imports maps ---------------------------------------------------------------------- *)
(* every entry of every imports map is the default stub or the declared output of a statement that
   is a transitive declared-dependency ancestor of the reader (no hypothesis on ss at all) *)
Theorem imports_entries_produced : forall req ss s,
  setup_build req ss = Some s ->
  forall t k p, In t (plan s) -> In (k, p) (s_imports t) ->
  p = PDefault \/ exists t', In t' (plan s) /\ s_out t' = p /\ clos_trans step (dep_edge (plan s)) t' t.
Proof. exact imports_entries_produced_lemma. Qed.
Print Assumptions imports_entries_produced.

(* completeness: every statement is the one written for some yielded item, and its map has an entry
   (keyed by _module_to_output_path) for each module the item was given as a dependency ... *)
Theorem imports_cover_deps : forall req ss s,
  setup_build req ss = Some s ->
  forall t, In t (plan s) -> exists i, In i (yield_sorted_modules req ss) /\ written_for t i.
Proof. exact imports_cover_deps_lemma. Qed.
Print Assumptions imports_cover_deps.

(* ... where a single-pass or first-pass item is given its group's direct deps, and a second-pass item
   the direct deps plus every member of its import cycle (the first-pass outputs feed the second pass) *)
Theorem item_deps : forall req ss i, In i (yield_sorted_modules req ss) ->
  exists g d, In (g, d) ss /\ In (it_mod i) g /\
  match it_stage i with
  | SECOND_PASS => it_deps i = d ++ g /\ length g <> 1
  | FIRST_PASS => it_deps i = d /\ length g <> 1
  | SINGLE_PASS => it_deps i = d /\ length g = 1
  end.
Proof. exact item_deps_lemma. Qed.
Print Assumptions item_deps.

(* what a statement wrote is what its .imports file holds at the end, when module names are distinct
   (monitored hypothesis: the file is named after module.name) *)
Theorem imports_files_stable : forall req ss s,
  setup_build req ss = Some s -> NoDup (map m_name (members ss)) ->
  forall t, In t (plan s) -> store_get (s_impfile t) (store s) = Some (s_imports t).
Proof. exact imports_files_stable_lemma. Qed.
Print Assumptions imports_files_stable.

(* ---- 3. schedules ------------------------------------------------------------------------- *)
(* any parallel schedule (start/finish times) in which a statement starts only after the producers of
   its declared inputs have finished: every non-default stub a statement reads has been produced *)
Theorem any_schedule_safe : forall req ss s (start finish : step -> nat),
  setup_build req ss = Some s -> respects (plan s) start finish ->
  forall t k p, In t (plan s) -> In (k, p) (s_imports t) -> p <> PDefault ->
  exists t', In t' (plan s) /\ s_out t' = p /\ finish t' <= start t.
Proof. exact any_schedule_safe_lemma. Qed.
Print Assumptions any_schedule_safe.

(* the same for every sequential order that puts declared dependencies first *)
Theorem any_linear_schedule_safe : forall req ss s sigma,
  setup_build req ss = Some s -> topological (plan s) sigma ->
  forall l1 t l2 k p, sigma = l1 ++ t :: l2 -> In t (plan s) -> In (k, p) (s_imports t) -> p <> PDefault ->
  exists t', In t' l1 /\ s_out t' = p.
Proof. exact any_linear_schedule_safe_lemma. Qed.
Print Assumptions any_linear_schedule_safe.

(* ---- 4. the plan is a DAG with unique outputs (monitored hypothesis: _module_to_output_path is
        injective on the modules, each occurring once) ------------------------------------------- *)
Theorem outputs_unique : forall req ss s,
  setup_build req ss = Some s -> NoDup (map m_key (members ss)) -> NoDup (map s_out (plan s)).
Proof. exact outputs_unique_lemma. Qed.
Print Assumptions outputs_unique.

Theorem plan_acyclic : forall req ss s,
  setup_build req ss = Some s -> NoDup (map m_key (members ss)) ->
  forall t, ~ clos_trans step (dep_edge (plan s)) t t.
Proof.
  exact (fun req ss s H Hk => plan_acyclic_lemma req ss s H (outputs_unique_lemma req ss s H Hk)).
Qed.
Print Assumptions plan_acyclic.

(* the hypothesis of any_schedule_safe is satisfiable: the order of the file, sequentially or with
   unit-length jobs, is such a schedule *)
Theorem file_order_is_a_schedule : forall req ss s,
  setup_build req ss = Some s -> NoDup (map m_key (members ss)) ->
  respects (plan s) (file_rank (plan s)) (fun t => S (file_rank (plan s) t)) /\
  respects (plan s) (fun t => 2 * file_rank (plan s) t) (fun t => 2 * file_rank (plan s) t + 1).
Proof.
  exact (fun req ss s H Hk => file_order_respects_lemma req ss s H (outputs_unique_lemma req ss s H Hk)).
Qed.
Print Assumptions file_order_is_a_schedule.

(* ---- 5. well-formed sorted_sources never hit a missing dictionary key ---------------------- *)
Theorem no_keyerror : forall req ss, wf ss -> setup_build req ss <> None.
Proof. exact (fun req ss H => no_keyerror_lemma req ss (proj2 H)). Qed.
Print Assumptions no_keyerror.

(* ---- 6. names survive: escape_ninja_path then ninja's lexer ------------------------------- *)
(* exact classes: a path survives iff it contains no newline, CR, '|' or NUL (space, colon, dollar
   and everything else do); a variable value iff no newline, CR or NUL *)
Theorem escape_roundtrip : forall s t rest,
  (forall c, In c s -> path_char c) -> path_terminator t ->
  lex_path (escape s ++ t :: rest) = LDone (lits s) (t :: rest).
Proof. exact escape_roundtrip_lemma. Qed.
Print Assumptions escape_roundtrip.

Theorem escape_roundtrip_value : forall s rest,
  (forall c, In c s -> value_char c) ->
  lex_value (escape s ++ c_nl :: rest) = LDone (lits s) rest.
Proof. exact escape_roundtrip_value_lemma. Qed.
Print Assumptions escape_roundtrip_value.

(* the token lists above are all-literal: the evaluated string does not depend on any variable *)
Theorem lits_evaluate_to_the_name : forall env s, eval_toks env (lits s) = s.
Proof. exact eval_lits. Qed.
Print Assumptions lits_evaluate_to_the_name.

(* `module = <module.name>` is written WITHOUT escaping (code as found): refuted for '$' ... *)
Theorem module_binding_roundtrip_refuted : exists name rest,
  (forall c, In c name -> value_char c) /\
  lex_value (name ++ c_nl :: rest) <> LDone (lits name) rest.
Proof. exists [97; 36; 98]%N, []. split; [intros c [<-|[<-|[<-|[]]]]; repeat split; discriminate | discriminate]. Qed.
Print Assumptions module_binding_roundtrip_refuted.

(* ... and holds for names without '$' *)
Theorem module_binding_roundtrip_partial : forall s rest,
  (forall c, In c s -> value_char c /\ c <> c_dollar) ->
  lex_value (s ++ c_nl :: rest) = LDone (lits s) rest.
Proof. exact raw_value_lemma. Qed.
Print Assumptions module_binding_roundtrip_partial.

(* the whole build statement as write_build_statement writes it (output, rule, input, `| deps`, the two
   indented bindings), read by the model of ninja's manifest parser: exactly the strings that went in.
   good_path = non-empty, no newline/CR/'|'/NUL; ident = rule name over [a-zA-Z0-9_.-];
   module_ok: with esc_mod = true (fixed tree) any value; with esc_mod = false (code as found) additionally
   no '$' and no leading space. *)
Theorem build_statement_roundtrip : forall esc_mod t rest,
  good_path (t_out t) -> good_path (t_input t) -> (forall d, In d (t_deps t) -> good_path d) ->
  ident (t_action t) -> good_value (t_imports t) -> module_ok esc_mod (t_module t) ->
  parse_build (render esc_mod t ++ rest) =
  Some (Parsed [lits (t_out t)] (t_action t) [lits (t_input t)] (map lits (t_deps t))
               [(kw_imports, lits (t_imports t)); (kw_module, lits (t_module t))], rest).
Proof. exact build_statement_roundtrip_lemma. Qed.
Print Assumptions build_statement_roundtrip.

(* without the restriction on the raw module name it is refuted: module "x$y" (file x$y.py) *)
Definition st_dollar : stmt :=
  Stmt [111]%N [99; 104; 101; 99; 107]%N [105]%N [] [109]%N [120; 36; 121]%N.   (* build o: check i / imports = m / module = x$y *)
Theorem build_statement_roundtrip_raw_module_refuted : exists t,
  good_path (t_out t) /\ good_path (t_input t) /\ ident (t_action t) /\ good_value (t_imports t) /\ good_value (t_module t) /\
  parse_build (render false t ++ []) <>
  Some (Parsed [lits (t_out t)] (t_action t) [lits (t_input t)] (map lits (t_deps t))
               [(kw_imports, lits (t_imports t)); (kw_module, lits (t_module t))], []).
Proof.
  exists st_dollar.
  assert (C : forall l : list N, forallb (fun c => negb ((c =? c_nl) || (c =? c_cr) || (c =? c_pipe) || (c =? c_nul))%N) l = true ->
              forall c, In c l -> path_char c /\ value_char c).
  { intros l Hl c Hc. rewrite forallb_forall in Hl. specialize (Hl c Hc).
    rewrite negb_true_iff, !orb_false_iff, !N.eqb_neq in Hl. unfold path_char, value_char. tauto. }
  split; [split; [discriminate | intros c H; apply (C [111]%N eq_refl c H)]|].
  split; [split; [discriminate | intros c H; apply (C [105]%N eq_refl c H)]|].
  split; [split; [discriminate | intros c H; simpl in H; repeat (destruct H as [<-|H]; [reflexivity|]); destruct H]|].
  split; [intros c H; apply (C [109]%N eq_refl c H)|].
  split; [intros c H; apply (C [120; 36; 121]%N eq_refl c H)|].
  vm_compute. discriminate.
Qed.
Print Assumptions build_statement_roundtrip_raw_module_refuted.

(* ---- 7. the two hypotheses are needed (findings on the unchanged code) ---------------------- *)
Definition mk (p t n : N) (k : kind) (f key : N) : module := Module p t n k f key false.
(* /p/d1/x.py and /p/d2/x.py, both requested, both named x -> one output path *)
Definition dup_ss : sources :=
  [([mk 1 2 3 Local 4 5], []); ([mk 6 7 8 Local 9 10], []);
   ([mk 11 12 13 Direct 14 15], [mk 1 2 3 Local 4 5]);
   ([mk 16 12 13 Direct 17 15], [mk 6 7 8 Local 9 10])].
Theorem outputs_unique_without_injectivity_refuted : exists req ss s t1 t2,
  wf ss /\ setup_build req ss = Some s /\
  nth_error (plan s) 2 = Some t1 /\ nth_error (plan s) 3 = Some t2 /\ s_out t1 = s_out t2.
Proof.
  exists [14; 17]%N, dup_ss.
  destruct (setup_build [14; 17]%N dup_ss) as [s|] eqn:E; [|vm_compute in E; discriminate].
  exists s. vm_compute in E. inversion E; subst; clear E.
  eexists; eexists. split; [apply wfb_wf; vm_compute; reflexivity|].
  split; [reflexivity|]. split; [reflexivity|]. split; reflexivity.
Qed.
Print Assumptions outputs_unique_without_injectivity_refuted.

(* two requested scripts outside the pythonpath: importlab names both '' -> both write imports/.imports;
   output paths are distinct, yet the first statement's file ends up holding the second's map *)
Definition ovw_ss : sources :=
  [([mk 1 2 3 Local 4 5], []); ([mk 6 7 8 Local 9 10], []);
   ([mk 11 12 20 Direct 14 15], [mk 1 2 3 Local 4 5]);
   ([mk 11 16 20 Direct 17 18], [mk 6 7 8 Local 9 10])].
Theorem imports_files_stable_without_distinct_names_refuted : exists req ss s t,
  wf ss /\ NoDup (map m_key (members ss)) /\ setup_build req ss = Some s /\ In t (plan s) /\
  store_get (s_impfile t) (store s) <> Some (s_imports t).
Proof.
  exists [14; 17]%N, ovw_ss.
  destruct (setup_build [14; 17]%N ovw_ss) as [s|] eqn:E; [|vm_compute in E; discriminate].
  exists s. vm_compute in E. inversion E; subst; clear E.
  eexists. split; [apply wfb_wf; vm_compute; reflexivity|].
  split; [apply nodupN_NoDup; vm_compute; reflexivity|].
  split; [reflexivity|]. split; [right; right; left; reflexivity|]. vm_compute. discriminate.
Qed.
Print Assumptions imports_files_stable_without_distinct_names_refuted.

(* ---- non-vacuity --------------------------------------------------------------------------- *)
(* a 3-cycle {a, b, sys} below d, a requested: first pass a-1 b-1 (sys: default), second pass a (CHECK),
   then the early skip drops b's second pass *)
Definition ex_d := mk 1 1 1 Local 1 1.
Definition ex_a := mk 1 2 2 Local 2 2.
Definition ex_b := mk 1 3 3 Local 3 3.
Definition ex_s := mk 9 4 4 System 4 4.
Definition ex_ss : sources := [([ex_d], []); ([ex_a; ex_b; ex_s], [ex_d])].
Example ex_wf : wfb ex_ss = true /\ nodupN (map m_key (members ex_ss)) = true /\
                nodupN (map m_name (members ex_ss)) = true.
Proof. vm_compute. repeat split; reflexivity. Qed.
Example ex_plan :
  option_map (fun s => map (fun t => (s_out t, s_action t, s_deps t, s_imports t)) (plan s))
             (setup_build [2%N] ex_ss) =
  Some [ (PPyi 1 false, INFER, [], []);
         (PPyi 2 true, INFER, [PPyi 1 false], [(1%N, PPyi 1 false)]);
         (PPyi 3 true, INFER, [PPyi 1 false], [(1%N, PPyi 1 false)]);
         (PPyi 2 false, CHECK, [PPyi 1 false; PPyi 2 true; PPyi 3 true],
          [(1%N, PPyi 1 false); (2%N, PPyi 2 true); (3%N, PPyi 3 true); (4%N, PDefault)]) ].
Proof. vm_compute. reflexivity. Qed.
Example ex_checked : get_module_action [2%N] ex_a = CHECK /\
  option_map (fun s => checks_of 2 (plan s)) (setup_build [2%N] ex_ss) = Some 1.
Proof. vm_compute. split; reflexivity. Qed.
(* everything requested: b's second pass is written and reads a's final stub *)
Example ex_plan_all :
  option_map (fun s => map (fun t => (s_out t, s_action t, s_deps t)) (plan s))
             (setup_build [1; 2; 3; 4]%N ex_ss) =
  Some [ (PPyi 1 false, CHECK, []);
         (PPyi 2 true, INFER, [PPyi 1 false]); (PPyi 3 true, INFER, [PPyi 1 false]);
         (PPyi 2 false, CHECK, [PPyi 1 false; PPyi 2 true; PPyi 3 true]);
         (PPyi 3 false, CHECK, [PPyi 1 false; PPyi 2 false; PPyi 3 true]) ].
Proof. vm_compute. reflexivity. Qed.
(* "a b:c$d" escaped, lexed as a path up to the ':' that follows an output *)
Example ex_escape :
  escape [97; 32; 98; 58; 99; 36; 100]%N = [97; 36; 32; 98; 36; 58; 99; 36; 36; 100]%N /\
  lex_path (escape [97; 32; 98; 58; 99; 36; 100]%N ++ [58; 32; 120]%N) =
  LDone (lits [97; 32; 98; 58; 99; 36; 100]%N) [58; 32; 120]%N.
Proof. vm_compute. split; reflexivity. Qed.
(* the lexer model does treat '|' and an unescaped '$x' the way ninja does *)
Example ex_lexer :
  lex_path [97; 124; 98; 10]%N = LDone [TLit 97] [124; 98; 10]%N /\
  lex_value [97; 36; 120; 45; 121; 36; 123; 122; 125; 10]%N = LDone [TLit 97; TVar [120; 45; 121]%N; TVar [122]%N] [].
Proof. vm_compute. split; reflexivity. Qed.
(* a statement with space, colon and dollar in every path, two dependencies, escaped module name *)
Example ex_statement :
  let t := Stmt [47; 111; 32; 36; 120; 58; 121]%N [105; 110; 102; 101; 114]%N [47; 112; 32; 113; 47; 97; 36; 98; 46; 112; 121]%N
                [[100; 32; 49]; [100; 58; 36; 50]]%N [47; 105; 32; 58; 36]%N [97; 36; 98]%N in
  parse_build (render true t ++ [120]%N) =
  Some (Parsed [lits (t_out t)] (t_action t) [lits (t_input t)] (map lits (t_deps t))
               [(kw_imports, lits (t_imports t)); (kw_module, lits (t_module t))], [120]%N).
Proof. vm_compute. reflexivity. Qed.

(* ---- 8. deps_from_import_graph: the wf hypothesis above is discharged for every well-formed import graph --- *)
(* Input: reversed(import_graph.deps_list()) as [(files of the node, [files of each dependency node])]; a node is
   one file or a collapsed import cycle; files are stub or source, of any kind.  wf_graph g :=
   graph_closed [] g (every file of every dependency node occurs in an EARLIER node - the order importlab's
   topological sort of the collapsed graph yields) /\ NoDup of the full paths of the source files. *)
Theorem deps_output_wf : forall g, wf_graph g -> wf (deps_from_import_graph g).
Proof. exact deps_output_wf_lemma. Qed.
Print Assumptions deps_output_wf.

(* characterisation: the members of the produced groups are exactly the source files of the graph, in order and
   with multiplicity - a file is in two groups iff the input lists it twice; stubs are in none *)
Theorem deps_members : forall g, graph_closed [] g ->
  members (deps_from_import_graph g) = graph_sources g.
Proof. exact deps_members_lemma. Qed.
Print Assumptions deps_members.

(* nothing is silently dropped: every source file of every node of the graph is in some group *)
Theorem deps_complete : forall g node deps f,
  graph_closed [] g -> In (node, deps) g -> In f node -> g_stub f = false ->
  In (g_mod f) (members (deps_from_import_graph g)).
Proof. exact deps_complete_lemma. Qed.
Print Assumptions deps_complete.

(* Builtin/System modules outside pytype_extensions never get CHECK or INFER, whatever was requested ... *)
Theorem sys_action : forall req m,
  is_sys (m_kind m) = true -> m_ext m = false -> get_module_action req m = GENERATE_DEFAULT.
Proof. exact sys_action_lemma. Qed.
Print Assumptions sys_action.

Theorem check_action : forall req m,
  get_module_action req m = CHECK -> In (m_full m) req /\ (is_sys (m_kind m) = false \/ m_ext m = true).
Proof. exact check_action_lemma. Qed.
Print Assumptions check_action.

(* ... and no build statement is ever written for one *)
Theorem sys_never_analysed : forall req ss s t,
  setup_build req ss = Some s -> In t (plan s) ->
  exists i, In i (yield_sorted_modules req ss) /\ written_for t i /\
            (is_sys (m_kind (it_mod i)) = false \/ m_ext (it_mod i) = true).
Proof. exact sys_never_analysed_lemma. Qed.
Print Assumptions sys_never_analysed.

(* the composition setup_build . deps_from_import_graph, hypotheses discharged: it returns (no KeyError); every
   requested analysable source file of the graph gets exactly one CHECK statement; imports entries are produced
   by declared ancestors; every schedule respecting the declared dependencies is safe *)
Theorem composed_plan_correct : forall req g, wf_graph g ->
  exists s, setup_build req (deps_from_import_graph g) = Some s /\
  (forall node deps f, In (node, deps) g -> In f node -> g_stub f = false ->
     get_module_action req (g_mod f) = CHECK -> checks_of (m_full (g_mod f)) (plan s) = 1) /\
  (forall t k p, In t (plan s) -> In (k, p) (s_imports t) ->
     p = PDefault \/ exists t', In t' (plan s) /\ s_out t' = p /\ clos_trans step (dep_edge (plan s)) t' t) /\
  (forall start finish, respects (plan s) start finish ->
     forall t k p, In t (plan s) -> In (k, p) (s_imports t) -> p <> PDefault ->
     exists t', In t' (plan s) /\ s_out t' = p /\ finish t' <= start t).
Proof. exact composed_lemma. Qed.
Print Assumptions composed_plan_correct.

(* both halves of wf_graph are needed (importlab produces neither input; see the monitored hypothesis): *)
Definition gf (id : N) (stub : bool) (m : module) : gfile := GFile id stub m.
Definition ga := gf 1 false (mk 1 2 2 Local 2 2).
Definition gb := gf 2 false (mk 1 3 3 Local 3 3).
(* a dependency listed AFTER its user: the output is not in dependency order and setup_build raises KeyError *)
Theorem deps_output_wf_without_order_refuted : exists g,
  NoDup (map m_full (graph_sources g)) /\ ~ deps_closed [] (deps_from_import_graph g) /\
  setup_build [2%N] (deps_from_import_graph g) = None.
Proof.
  exists [([ga], [[gb]]); ([gb], [])]. split; [apply nodupN_NoDup; vm_compute; reflexivity|]. split.
  - vm_compute. intros [H _]. destruct (H _ (or_introl eq_refl)).
  - vm_compute. reflexivity.
Qed.
Print Assumptions deps_output_wf_without_order_refuted.

(* a source file listed in two nodes ends up in two groups and is checked twice (while another request is pending) *)
Theorem deps_file_listed_twice_refuted : exists g s,
  graph_closed [] g /\ setup_build [2; 3]%N (deps_from_import_graph g) = Some s /\ checks_of 2 (plan s) = 2.
Proof.
  exists [([ga], []); ([ga], []); ([gb], [])].
  destruct (setup_build [2; 3]%N (deps_from_import_graph [([ga], []); ([ga], []); ([gb], [])])) as [s|] eqn:E; [|vm_compute in E; discriminate].
  exists s. vm_compute in E. inversion E; subst; clear E.
  split; [simpl; tauto|]. split; reflexivity.
Qed.
Print Assumptions deps_file_listed_twice_refuted.

(* non-vacuity: a System leaf, a stub that depends on a source, a 2-cycle containing a stub, and a requested
   source that reaches the first source only through the stub *)
Definition g_sys := gf 1 false (mk 9 1 1 System 1 1).
Definition g_src := gf 2 false (mk 1 2 2 Local 2 2).
Definition g_stub1 := gf 3 true (mk 1 3 3 Local 3 3).
Definition g_c1 := gf 4 false (mk 1 4 4 Local 4 4).
Definition g_c2 := gf 5 true (mk 1 5 5 Local 5 5).
Definition g_top := gf 6 false (mk 1 6 6 Direct 6 6).
Definition ex_graph : graph :=
  [([g_sys], []); ([g_src], [[g_sys]]); ([g_stub1], [[g_src]]); ([g_c1; g_c2], [[g_stub1]]);
   ([g_top], [[g_c1; g_c2]; [g_stub1]])].
Example ex_graph_wf : wf_graphb ex_graph = true.
Proof. vm_compute. reflexivity. Qed.
Example ex_graph_sources :
  map (fun gd => (map m_name (fst gd), map m_name (snd gd))) (deps_from_import_graph ex_graph) =
  [([1], []); ([2], [1]); ([4], [2]); ([6], [4; 2; 2])]%N.
Proof. vm_compute. reflexivity. Qed.

(* ============================================================================================ *)
(* ---- 9. the *.imports files: PytypeRunner.write_imports then imports_map_loader (Plan/Text.v) ---- *)
Local Open Scope N_scope.
(* Strings are lists of code points.  items_ok: every key is non-empty, does not start with a str.isspace()
   character and contains no ' ', "\n", "\r"; every value is non-empty, does not end with a str.isspace()
   character and contains no "\n", "\r".  Spaces, colons, dollars (and leading blanks) in VALUES survive. *)
Theorem imports_file_roundtrip : forall im : items,
  items_ok im = true -> read_from_file (write_imports im) = Some im.
Proof. exact imports_file_roundtrip_lemma. Qed.
Print Assumptions imports_file_roundtrip.

(* the values the plan writes - join(pyi_dir, key + '.pyi' [+ '-1']) and join(imports_dir, 'default.pyi') -
   always meet the value condition when the two directories and the keys contain no line break: any other
   character (space, colon, dollar, ...) in the output directory survives *)
Theorem plan_imports_roundtrip : forall pyi_dir imports_dir kstr (im : imports),
  clean pyi_dir = true -> clean imports_dir = true ->
  (forall k p, In (k, p) im -> key_ok (kstr k) = true) ->
  (forall k p k' f, In (k, p) im -> p = PPyi k' f -> clean (kstr k') = true) ->
  read_from_file (write_imports (render_imports pyi_dir imports_dir kstr im)) =
  Some (render_imports pyi_dir imports_dir kstr im).
Proof. exact plan_imports_roundtrip_lemma. Qed.
Print Assumptions plan_imports_roundtrip.

(* the whole reader (build_from_file = _read_from_file, _build_multimap, _finalize): for distinct keys without
   an extension (splitext leaves them alone) other than "%", the map it returns is exactly the written one with
   os.path.abspath applied to the values, plus `dir/__init__ -> os.devnull` entries under keys that were not
   written; nothing is reported unused.  abspath/devnull are parameters (any function / string). *)
Theorem reader_returns_exactly_the_map : forall (abspath : str -> str) devnull (its : items),
  its <> [] -> items_ok its = true ->
  (forall kv, In kv its -> no_ext (fst kv) = true) -> NoDup (map fst its) -> ~ In [c_pct] (map fst its) ->
  exists extra,
    build_from_file abspath devnull (write_imports its) =
      Some (Some (map (fun kv => (fst kv, abspath (snd kv))) its ++ extra, [])) /\
    forall e, In e extra -> snd e = devnull /\ ~ In (fst e) (map fst its).
Proof. exact build_from_file_exact_lemma. Qed.
Print Assumptions reader_returns_exactly_the_map.

(* each hypothesis is needed.  "a b" -> the reader returns key "a", path "b /o/a b.pyi" *)
Definition v_pyi : str := [47; 111; 47; 97; 46; 112; 121; 105].                    (* "/o/a.pyi" *)
Theorem imports_key_with_space_refuted : exists k v,
  val_ok v = true /\ read_from_file (write_imports [(k, v)]) = Some [([97], 98 :: 32 :: v)] /\
  read_from_file (write_imports [(k, v)]) <> Some [(k, v)].
Proof. exists [97; 32; 98], v_pyi. vm_compute. repeat split; discriminate. Qed.
Print Assumptions imports_key_with_space_refuted.

(* a key starting with a tab (or U+00A0, U+2028, ...) loses it to line.strip() *)
Theorem imports_key_leading_blank_refuted : exists k v,
  val_ok v = true /\ no_char c_sp k = true /\ clean k = true /\
  read_from_file (write_imports [(k, v)]) <> Some [(k, v)].
Proof. exists [160; 97], v_pyi. vm_compute. repeat split; discriminate. Qed.
Print Assumptions imports_key_leading_blank_refuted.

(* a carriage return anywhere is a line break for the reader (universal newlines): one entry becomes a
   ValueError (the second half has no space) *)
Theorem imports_carriage_return_refuted : exists k v,
  key_ok k = true /\ no_char c_nl v = true /\ read_from_file (write_imports [(k, v)]) = None.
Proof. exists [97], [47; 111; 13; 112]. vm_compute. repeat split. Qed.
Print Assumptions imports_carriage_return_refuted.

(* a value ending in white space loses it; cannot arise from the plan (plan_imports_roundtrip) *)
Theorem imports_value_trailing_blank_refuted : exists k v,
  key_ok k = true /\ clean v = true /\ read_from_file (write_imports [(k, v)]) <> Some [(k, v)].
Proof. exists [97], [47; 111; 32]. vm_compute. repeat split; discriminate. Qed.
Print Assumptions imports_value_trailing_blank_refuted.

(* a key whose last component has an extension (module_to_output_path of a file "b.c.py") is filed under the
   stem, and the key "%" is diverted to the unused list *)
Theorem reader_key_with_extension_refuted : exists k v,
  items_ok [(k, v)] = true /\
  build_from_file (fun x => x) [] (write_imports [(k, v)]) = Some (Some ([([97; 47; 98], v); ([97; 47; 95; 95; 105; 110; 105; 116; 95; 95], [])], [])).
Proof. exists [97; 47; 98; 46; 99], v_pyi. vm_compute. split; reflexivity. Qed.
Print Assumptions reader_key_with_extension_refuted.

Theorem reader_percent_key_refuted : exists v,
  items_ok [([c_pct], v)] = true /\ no_ext [c_pct] = true /\
  build_from_file (fun x => x) [] (write_imports [([c_pct], v)]) = Some (Some ([], [v])).
Proof. exists v_pyi. vm_compute. repeat split. Qed.
Print Assumptions reader_percent_key_refuted.

(* non-vacuity: output directory "/my dir/$x:y" - two entries, one the default stub *)
Example ex_imports_roundtrip :
  let pyi := [47; 109; 121; 32; 100; 105; 114; 47; 36; 120; 58; 121; 47; 112; 121; 105] in   (* "/my dir/$x:y/pyi" *)
  let imp := [47; 109; 121; 32; 100; 105; 114; 47; 36; 120; 58; 121; 47; 105] in              (* "/my dir/$x:y/i" *)
  let kstr := fun k : N => if (k =? 1)%N then [112; 47; 97] else [98] in                  (* "p/a", "b" *)
  let im := render_imports pyi imp kstr [(1%N, PPyi 1 true); (2%N, PDefault)] in
  items_ok im = true /\ read_from_file (write_imports im) = Some im /\
  map snd im = [pyi ++ [47; 112; 47; 97; 46; 112; 121; 105; 45; 49]; imp ++ [47; 100; 101; 102; 97; 117; 108; 116; 46; 112; 121; 105]].
Proof. vm_compute. repeat split; reflexivity. Qed.

(* ---- 10. the rule block and the command handed to /bin/sh -------------------------------------- *)
(* the command line get_pytype_command_for_ninja joins with ' ' is a list of words: literal words and the
   four references $imports $out $module $in *)
Theorem command_text_of_words : forall words, command_text (map classify words) = join_sp words.
Proof. exact command_text_classify. Qed.
Print Assumptions command_text_of_words.

(* the rule block as written, read by the model of ninja's parser: the command is the word list with TVar
   tokens for the references *)
Theorem rule_block_roundtrip : forall action ws rest,
  ident action -> sh_plain_str action -> ws <> [] -> (forall w, In w ws -> cmd_word_ok w) ->
  parse_rule (render_rule action (map cword_text ws) ++ rest) =
  Some (action, [(kw_command, join_toks (map cword_toks ws));
                 (kw_description, lits action ++ [TLit c_sp; TVar kw_module])], rest).
Proof. exact rule_block_roundtrip_lemma. Qed.
Print Assumptions rule_block_roundtrip.

(* ninja's evaluation of the command for the edge of statement t ($in/$out shell-escaped by
   GetShellEscapedString, $imports/$module inserted raw) followed by the shell's word splitting yields exactly
   the words with the references replaced by the statement's input file, output path, imports file and module
   name - for ANY non-empty input/output path (spaces, colons, dollars, quotes), and for imports paths and
   module names made of characters the shell leaves alone (sh_plain: everything except blank ' \ $ NUL \n \r
   double quote ` ; & | < > ( ) * ? [ ] # ~ { } !  - colons are fine, spaces and dollars are not) *)
Theorem command_names_the_step : forall env ws t rest,
  (forall w, In w ws -> cmd_word_ok w) ->
  t_input t <> [] -> t_out t <> [] -> sh_plain_str (t_imports t) -> sh_plain_str (t_module t) ->
  exists cmd, lex_value (command_text ws ++ c_nl :: rest) = LDone cmd rest /\
              sh_words env (edge_command cmd t) = Some (map (subst t) ws).
Proof. exact command_argv_lemma. Qed.
Print Assumptions command_names_the_step.

(* "x --imports_info $imports -o $out --module-name $module $in" *)
Definition ex_words : list cword :=
  [WLit [120]; WLit [45; 45; 105; 109; 112; 111; 114; 116; 115; 95; 105; 110; 102; 111]; WVar kw_imports;
   WLit [45; 111]; WVar kw_out; WLit [45; 45; 109; 111; 100; 117; 108; 101; 45; 110; 97; 109; 101]; WVar kw_module;
   WVar kw_in].
Definition ex_cmd : list tok := join_toks (map cword_toks ex_words).
Example ex_words_ok : forall w, In w ex_words -> cmd_word_ok w.
Proof.
  intros w H. simpl in H.
  repeat (destruct H as [<-|H];
          [ first [ split; [discriminate | intros c Hc; simpl in Hc; repeat (destruct Hc as [<-|Hc]; [reflexivity|]); destruct Hc]
                  | unfold cmd_word_ok, is_plan_var; tauto ] |]).
  destruct H.
Qed.

Ltac chars := intros c H; simpl in H;
  repeat (destruct H as [<-|H]; [unfold path_char, value_char; repeat split; discriminate|]); destruct H.

(* an output directory with a space: the imports file path is split in two by the shell *)
Theorem command_space_in_imports_refuted : exists t,
  good_path (t_out t) /\ good_path (t_input t) /\ good_value (t_imports t) /\ sh_plain_str (t_module t) /\
  sh_words (fun _ => []) (edge_command ex_cmd t) =
    Some [[120]; [45; 45; 105; 109; 112; 111; 114; 116; 115; 95; 105; 110; 102; 111]; [47; 111]; [112; 47; 109];
          [45; 111]; t_out t; [45; 45; 109; 111; 100; 117; 108; 101; 45; 110; 97; 109; 101]; t_module t; t_input t] /\
  sh_words (fun _ => []) (edge_command ex_cmd t) <> Some (map (subst t) ex_words).
Proof.
  exists (Stmt [47; 111; 32; 112; 47; 97] [] [47; 115; 32; 36; 58; 39; 47; 97] [] [47; 111; 32; 112; 47; 109] [97]).
  cbn [t_out t_input t_imports t_module].
  split; [split; [discriminate | chars]|].
  split; [split; [discriminate | chars]|].
  split; [chars|].
  split; [split; [discriminate | intros c [<-|[]]; reflexivity]|].
  split; [vm_compute; reflexivity | vm_compute; discriminate].
Qed.
Print Assumptions command_space_in_imports_refuted.

(* a dollar sign in the module name (file a$b.py): the shell expands $b (here: unset) in both the imports
   path and the module name *)
Theorem command_dollar_in_module_refuted : exists t,
  t_input t <> [] /\ t_out t <> [] /\ good_value (t_imports t) /\ good_value (t_module t) /\
  sh_words (fun _ => []) (edge_command ex_cmd t) =
    Some [[120]; [45; 45; 105; 109; 112; 111; 114; 116; 115; 95; 105; 110; 102; 111]; [47; 105; 47; 97; 46; 105];
          [45; 111]; t_out t; [45; 45; 109; 111; 100; 117; 108; 101; 45; 110; 97; 109; 101]; [97]; t_input t] /\
  sh_words (fun _ => []) (edge_command ex_cmd t) <> Some (map (subst t) ex_words).
Proof.
  exists (Stmt [47; 111; 47; 97; 36; 98] [] [47; 115; 47; 97; 36; 98] [] [47; 105; 47; 97; 36; 98; 46; 105] [97; 36; 98]).
  cbn [t_out t_input t_imports t_module].
  split; [discriminate|]. split; [discriminate|].
  split; [chars|]. split; [chars|].
  split; [vm_compute; reflexivity | vm_compute; discriminate].
Qed.
Print Assumptions command_dollar_in_module_refuted.

(* non-vacuity: input "/s $:'/a" and output "/o p/a" (space, dollar, colon, quote) with a plain imports path
   and module name: all four survive *)
Example ex_command :
  let t := Stmt [47; 111; 32; 112; 47; 97] [] [47; 115; 32; 36; 58; 39; 47; 97] [] [47; 105; 58; 47; 109] [112; 46; 97] in
  edge_command ex_cmd t =
    [120; 32; 45; 45; 105; 109; 112; 111; 114; 116; 115; 95; 105; 110; 102; 111; 32; 47; 105; 58; 47; 109; 32; 45; 111; 32;
     39; 47; 111; 32; 112; 47; 97; 39; 32; 45; 45; 109; 111; 100; 117; 108; 101; 45; 110; 97; 109; 101; 32; 112; 46; 97; 32;
     39; 47; 115; 32; 36; 58; 39; 92; 39; 39; 47; 97; 39] /\
  sh_words (fun _ => [120]) (edge_command ex_cmd t) = Some (map (subst t) ex_words).
Proof. vm_compute. split; reflexivity. Qed.

(* ---- 11. module names and keys (module_utils, _module_to_output_path, the loader's lookup) -------- *)
(* plain_comp: non-empty, no '/' and no '.'.  For a file c1/.../cn.py below its pythonpath entry, named
   c1.....cn: the key written into the imports maps is c1/.../cn, which is the path the module loader of
   pytype-single looks up for that name, has no extension for the reader to strip, and (when the name has no
   ".__init__" inside) path_to_module_name maps it back to the name *)
Theorem key_link : forall cs, cs <> [] -> (forall c, In c cs -> plain_comp c) ->
  let target := join_c c_slash cs ++ c_dot :: s_py in
  let name := join_c c_dot cs in
  let key := module_to_output_path target name in
  key = join_c c_slash cs /\ key = loader_path name /\ no_ext key = true /\
  (no_init name = true -> path_to_module_name key = Some name).
Proof. exact key_link_lemma. Qed.
Print Assumptions key_link.

(* ... and is a key the *.imports reader returns unchanged when no component contains ' ', "\n", "\r" and the
   first character is not white space *)
Theorem key_survives_the_imports_file : forall cs, cs <> [] -> (forall c, In c cs -> plain_comp c) ->
  (forall c x, In c cs -> In x c -> x <> c_sp /\ x <> c_nl /\ x <> c_cr) ->
  (forall c r x, cs = (x :: c) :: r -> py_space x = false) ->
  key_ok (join_c c_slash cs) = true.
Proof. exact key_ok_comps_lemma. Qed.
Print Assumptions key_survives_the_imports_file.

(* module_utils.path_to_module_name on the file name, and infer_module's split at the pythonpath entry *)
Theorem path_to_module_name_file : forall cs, cs <> [] -> (forall c, In c cs -> plain_comp c) ->
  no_init (join_c c_dot cs) = true ->
  starts_with s_pardir (dirname (join_c c_slash cs ++ c_dot :: s_py)) = false ->
  path_to_module_name (join_c c_slash cs ++ c_dot :: s_py) = Some (join_c c_dot cs).
Proof. exact path_to_module_name_file_lemma. Qed.
Print Assumptions path_to_module_name_file.

Theorem infer_module_split : forall pythonpath filename,
  let m := infer_module filename pythonpath in
  filename = cm_path m ++ cm_target m /\ cm_name m = path_to_module_name (cm_target m) /\
  (cm_path m = [] \/ (ends_with_slash (cm_path m) = true /\
                      exists p, In p pythonpath /\ (cm_path m = p \/ cm_path m = p ++ [c_slash]))).
Proof. exact infer_module_split_lemma. Qed.
Print Assumptions infer_module_split.

(* a directory with a dot in its name: file "a.b/c.py" is named a.b.c, its key is "a.b/c", but the loader
   looks up "a/b/c" *)
Theorem dotted_directory_key_refuted : exists target name,
  path_to_module_name target = Some name /\ module_to_output_path target name <> loader_path name.
Proof. exists [97; 46; 98; 47; 99; 46; 112; 121], [97; 46; 98; 46; 99]. vm_compute. split; [reflexivity | discriminate]. Qed.
Print Assumptions dotted_directory_key_refuted.

(* non-vacuity and two quirks kept by the model: "/src/pkg/mod.py" under pythonpath ["/x"; "/src"];
   str.partition cuts at the first ".__init__" even inside a component ("a/__init__x.py" is named "a");
   pkg/__init__.py: resolved_file_to_module appends ".__init__", the key is "pkg/__init__", which is what the
   loader tries first for `import pkg` *)
Example ex_names :
  infer_module [47; 115; 114; 99; 47; 112; 107; 103; 47; 109; 111; 100; 46; 112; 121] [[47; 120]; []; [47; 115; 114; 99]] =
    CModule [47; 115; 114; 99; 47] [112; 107; 103; 47; 109; 111; 100; 46; 112; 121] (Some [112; 107; 103; 46; 109; 111; 100]) /\
  path_to_module_name [97; 47; 95; 95; 105; 110; 105; 116; 95; 95; 120; 46; 112; 121] = Some [97] /\
  path_to_module_name [46; 46; 47; 97; 46; 112; 121] = None /\
  path_to_module_name [97; 46; 116; 120; 116] = None /\
  (let '(p, t, n) := resolved_file_to_module [47; 115; 47; 112; 107; 103; 47; 95; 95; 105; 110; 105; 116; 95; 95; 46; 112; 121]
                        [112; 107; 103; 47; 95; 95; 105; 110; 105; 116; 95; 95; 46; 112; 121] [112; 107; 103] in
   p = [47; 115; 47] /\ n = [112; 107; 103; 46; 95; 95; 105; 110; 105; 116; 95; 95] /\
   module_to_output_path t n = loader_init_path [112; 107; 103]).
Proof. vm_compute. repeat split; reflexivity. Qed.
Example ex_key_link_hyp : plain_comp [112; 107; 103] /\ plain_comp [109; 111; 100] /\
  no_init (join_c c_dot [[112; 107; 103]; [109; 111; 100]]) = true.
Proof.
  assert (P : forall c : str, c <> [] ->
              forallb (fun y => negb (y =? c_slash) && negb (y =? c_dot)) c = true -> plain_comp c).
  { intros c Hn Hb. split; auto. intros y Hy. rewrite forallb_forall in Hb. specialize (Hb y Hy).
    rewrite andb_true_iff, !negb_true_iff, !N.eqb_neq in Hb. exact Hb. }
  split; [apply P; [discriminate | reflexivity]|]. split; [apply P; [discriminate | reflexivity]|].
  vm_compute. reflexivity.
Qed.
