(* C08 — solver answers do not depend on what was asked or built before.
   Property theorems only.  [tbl_repo] is regenerated from /repo's typegraph sources on every run. *)
From Coq Require Import List Arith Bool.
From PV Require Import Typegraph.History Typegraph.HistoryProofs Generated.C08_Invalidation.
Import ListNotations.

(* Obligation over the regenerated table: every graph-changing primitive of the current source drops the
   solver.  (False for the tree before the two fix: commits — see old_tree_* below.) *)
Theorem repo_table_safe : tbl_safe tbl_repo = true.
Proof. vm_compute. reflexivity. Qed.
Print Assumptions repo_table_safe.

(* For every history of API operations and queries, starting from any graph, with ANY solver whose memo obeys
   the memo laws, each query returns what a fresh solver on the current graph returns. *)
Theorem history_independent :
  forall (S : Type) (fresh : S)
         (ask : list gnode * list gbinding -> S -> query -> S * bool)
         (Good : list gnode * list gbinding -> S -> Prop),
    (forall v, Good v fresh) ->
    (forall v s q, Good v s -> Good v (fst (ask v s q)) /\ snd (ask v s q) = snd (ask v fresh q)) ->
    forall (ops : list hop) (g : graph), ops_wf ops ->
      hrun tbl_repo fresh ask (mkSt g None) ops = href fresh ask g ops.
Proof.
  intros S fresh ask Good Hf Ha ops g Hwf.
  exact (history_independent_generic tbl_repo fresh ask Good Hf Ha repo_table_safe ops g Hwf).
Qed.
Print Assumptions history_independent.

(* The memo laws are satisfiable: a cache of whole-query answers in front of ANY solver that reads only the
   solver-visible graph; every cached run equals the run in which every query is solved from scratch. *)
Theorem history_independent_query_cache :
  forall (solve : list gnode * list gbinding -> query -> bool) (ops : list hop) (g : graph),
    ops_wf ops ->
    hrun tbl_repo [] (qask solve) (mkSt g None) ops =
    (fix ref g ops := match ops with
       | [] => []
       | Api ms :: t => None :: ref (apply_all g ms) t
       | Ask q :: t => Some (solve (view g) q) :: ref g t
       end) g ops.
Proof.
  intros solve ops g Hwf. rewrite <- href_is_fresh_solve.
  exact (history_independent_qcache solve tbl_repo ops g repo_table_safe Hwf).
Qed.
Print Assumptions history_independent_query_cache.

(* Repeated queries never flip. *)
Theorem repeat_stable :
  forall (S : Type) (fresh : S)
         (ask : list gnode * list gbinding -> S -> query -> S * bool)
         (Good : list gnode * list gbinding -> S -> Prop),
    (forall v, Good v fresh) ->
    (forall v s q, Good v s -> Good v (fst (ask v s q)) /\ snd (ask v s q) = snd (ask v fresh q)) ->
    forall (pre : list hop) (q : query) (g : graph), ops_wf pre ->
      exists b, skipn (length pre) (hrun tbl_repo fresh ask (mkSt g None) (pre ++ [Ask q; Ask q])) = [Some b; Some b].
Proof.
  intros S fresh ask Good Hf Ha pre q g Hwf.
  exact (repeat_stable_generic tbl_repo fresh ask Good Hf Ha repo_table_safe pre q g Hwf).
Qed.
Print Assumptions repeat_stable.

(* The tree before the two fix: commits (Binding::AddOrigin(node, SourceSet) and CFGNode::set_condition did not
   invalidate): the obligation is false and a stale answer exists. *)
Theorem old_tree_table_unsafe : tbl_safe tbl_before_fixes = false.
Proof. vm_compute. reflexivity. Qed.
Print Assumptions old_tree_table_unsafe.

Theorem old_tree_history_dependent :
  let ops := [Ask (0, [0]); Api [MSetCondition 0 (Some 0)]; Ask (0, [0])] in
  ops_wf ops /\
  hrun tbl_before_fixes [] (qask solve_nocond) (mkSt g_one_node None) ops <>
  href [] (qask solve_nocond) g_one_node ops.
Proof. exact history_dependent_before_fixes. Qed.
Print Assumptions old_tree_history_dependent.

(* Non-vacuity: a well-formed history mixing API operations (incl. AddBinding(data, source_set, where), which is
   AddOrigin followed by a bare AddSourceSet) and queries. *)
Example ops_wf_example :
  ops_wf [Api [MNewNode None]; Api [MNewVariable]; Api [MFindOrAddBinding 0 0; MAddOrigin 0 0; MAddSourceSet 0 0 []];
          Ask (0, [0]); Api [MNewNode None; MConnect 0 1]; Ask (1, [0]); Api [MSetCondition 1 (Some 0)]; Ask (1, [0])].
Proof. repeat constructor. Qed.

(* ------------------------------------------------------------------------------------------------
   The same statement with the REAL memoised solver of solver.cc (coq/Typegraph/Solver.v: state memo with
   provisional entries, path cache, cycle rule) in place of the abstract memo laws: for every history all of
   whose queried graphs are acyclic and condition-free, the long-lived solver's run equals the fresh-solver
   reference run, and every answer is the declarative Expl truth of C07 on the graph at that point.
   (On cyclic or conditional graphs the memo laws fail for the real memo — C07's refuted clauses — and the
   property is decided by the replica differential only.) *)
From PV Require Import Typegraph.HistorySolver.

Theorem history_independent_real_solver :
  forall (ops : list hop) (g : graph),
    ops_wf ops -> asks_ok g ops ->
    hrun tbl_repo Solver.sstate_empty ask (mkSt g None) ops = href Solver.sstate_empty ask g ops
    /\ exact_run g ops (hrun tbl_repo Solver.sstate_empty ask (mkSt g None) ops).
Proof. intros ops g H H0. exact (history_independent_solver tbl_repo ops g repo_table_safe H H0). Qed.
Print Assumptions history_independent_real_solver.
