(* C08 — solver answers do not depend on what was asked or built before.
   Property theorems only.  [tbl_repo] is regenerated from /repo's typegraph sources on every run. *)
From Coq Require Import List Arith Bool.
From PV Require Import Typegraph.History Typegraph.HistoryProofs Generated.C08_Invalidation.
Import ListNotations.

(* Obligation over the regenerated table: every graph-changing primitive of the current source drops the
   solver.  (False for the tree before the two fix: commits — see old_tree_* below.) *)
Theorem repo_table_safe : tbl_safe tbl_repo = true.
Proof. vm_compute. reflexivity. Qed.
Print Assumptions repo_table_safe.

(* For every history of API operations and queries, starting from any graph, with ANY solver whose memo obeys
   the memo laws, each query returns what a fresh solver on the current graph returns. *)
Theorem history_independent :
  forall (S : Type) (fresh : S)
         (ask : list gnode * list gbinding -> S -> query -> S * bool)
         (Good : list gnode * list gbinding -> S -> Prop),
    (forall v, Good v fresh) ->
    (forall v s q, Good v s -> Good v (fst (ask v s q)) /\ snd (ask v s q) = snd (ask v fresh q)) ->
    forall (ops : list hop) (g : graph), ops_wf ops ->
      hrun tbl_repo fresh ask (mkSt g None) ops = href fresh ask g ops.
Proof.
  intros S fresh ask Good Hf Ha ops g Hwf.
  exact (history_independent_generic tbl_repo fresh ask Good Hf Ha repo_table_safe ops g Hwf).
Qed.
Print Assumptions history_independent.

(* The memo laws are satisfiable: a cache of whole-query answers in front of ANY solver that reads only the
   solver-visible graph; every cached run equals the run in which every query is solved from scratch. *)
Theorem history_independent_query_cache :
  forall (solve : list gnode * list gbinding -> query -> bool) (ops : list hop) (g : graph),
    ops_wf ops ->
    hrun tbl_repo [] (qask solve) (mkSt g None) ops =
    (fix ref g ops := match ops with
       | [] => []
       | Api ms :: t => None :: ref (apply_all g ms) t
       | Ask q :: t => Some (solve (view g) q) :: ref g t
       end) g ops.
Proof.
  intros solve ops g Hwf. rewrite <- href_is_fresh_solve.
  exact (history_independent_qcache solve tbl_repo ops g repo_table_safe Hwf).
Qed.
Print Assumptions history_independent_query_cache.

(* Repeated queries never flip. *)
Theorem repeat_stable :
  forall (S : Type) (fresh : S)
         (ask : list gnode * list gbinding -> S -> query -> S * bool)
         (Good : list gnode * list gbinding -> S -> Prop),
    (forall v, Good v fresh) ->
    (forall v s q, Good v s -> Good v (fst (ask v s q)) /\ snd (ask v s q) = snd (ask v fresh q)) ->
    forall (pre : list hop) (q : query) (g : graph), ops_wf pre ->
      exists b, skipn (length pre) (hrun tbl_repo fresh ask (mkSt g None) (pre ++ [Ask q; Ask q])) = [Some b; Some b].
Proof.
  intros S fresh ask Good Hf Ha pre q g Hwf.
  exact (repeat_stable_generic tbl_repo fresh ask Good Hf Ha repo_table_safe pre q g Hwf).
Qed.
Print Assumptions repeat_stable.

(* The tree before the two fix: commits (Binding::AddOrigin(node, SourceSet) and CFGNode::set_condition did not
   invalidate): the obligation is false and a stale answer exists. *)
Theorem old_tree_table_unsafe : tbl_safe tbl_before_fixes = false.
Proof. vm_compute. reflexivity. Qed.
Print Assumptions old_tree_table_unsafe.

Theorem old_tree_history_dependent :
  let ops := [Ask (0, [0]); Api [MSetCondition 0 (Some 0)]; Ask (0, [0])] in
  ops_wf ops /\
  hrun tbl_before_fixes [] (qask solve_nocond) (mkSt g_one_node None) ops <>
  href [] (qask solve_nocond) g_one_node ops.
Proof. exact history_dependent_before_fixes. Qed.
Print Assumptions old_tree_history_dependent.

(* Non-vacuity: a well-formed history mixing API operations (incl. AddBinding(data, source_set, where), which is
   AddOrigin followed by a bare AddSourceSet) and queries. *)
Example ops_wf_example :
  ops_wf [Api [MNewNode None]; Api [MNewVariable]; Api [MFindOrAddBinding 0 0; MAddOrigin 0 0; MAddSourceSet 0 0 []];
          Ask (0, [0]); Api [MNewNode None; MConnect 0 1]; Ask (1, [0]); Api [MSetCondition 1 (Some 0)]; Ask (1, [0])].
Proof. repeat constructor. Qed.

(* ------------------------------------------------------------------------------------------------
   The same statement with the REAL memoised solver of solver.cc (coq/Typegraph/Solver.v: state memo with
   provisional entries, path cache, cycle rule) in place of the abstract memo laws: for every history all of
   whose queried graphs are acyclic and condition-free, the long-lived solver's run equals the fresh-solver
   reference run, and every answer is the declarative Expl truth of C07 on the graph at that point.
   (On cyclic or conditional graphs the memo laws fail for the real memo — C07's refuted clauses — and the
   property is decided by the replica differential only.) *)
From PV Require Import Typegraph.HistorySolver.

Theorem history_independent_real_solver :
  forall (ops : list hop) (g : graph),
    ops_wf ops -> asks_ok g ops ->
    hrun tbl_repo Solver.sstate_empty ask (mkSt g None) ops = href Solver.sstate_empty ask g ops
    /\ exact_run g ops (hrun tbl_repo Solver.sstate_empty ask (mkSt g None) ops).
Proof. intros ops g H H0. exact (history_independent_solver tbl_repo ops g repo_table_safe H H0). Qed.
Print Assumptions history_independent_real_solver.

(* ------------------------------------------------------------------------------------------------
   CYCLIC graphs (and graphs with node conditions).  The statement above without "acyclic" is FALSE for the
   solver as written, already on a condition-free 4-node loop, with two queries and no mutation in between,
   in both directions (a stale `true` and a stale `false`); the same two query sequences give the same
   answers on cfg.so (corpus/C08/cyclic_memo_*.json, listed finding history-dependent:cyclic:memo-as-modelled).
   What DOES hold on every graph follows. *)
From PV Require Import Typegraph.CyclicMemo Typegraph.HistoryCyclic.

Theorem history_independent_cyclic_refuted : exists ops g,
  ops_wf ops /\
  (fix nocond_asks (g : graph) (ops : list hop) : Prop :=
     match ops with
     | [] => True
     | Api ms :: t => nocond_asks (apply_all g ms) t
     | Ask _ :: t => Graph.no_conditions (to_solver_graph (view g)) = true /\ nocond_asks g t
     end) g ops /\
  hrun tbl_repo Solver.sstate_empty ask (mkSt g None) ops <> href Solver.sstate_empty ask g ops.
Proof. exact (history_independent_cyclic_refuted_lemma tbl_repo). Qed.
Print Assumptions history_independent_cyclic_refuted.

(* both directions, spelled out: loop n0 -> n1 -> n2 -> n1, n1 -> n3; e at n0; c at the head n1 from {e, b};
   b at the body n2 from {e, c}.  "b at n1?" then "c at n1?": live true/true, fresh true/false;
   "c at n1?" then "b at n1?": live false/false, fresh false/true. *)
Theorem history_dependence_on_a_loop_both_directions :
  (skipn 13 (hrun tbl_repo Solver.sstate_empty ask (mkSt graph0 None) cyc_ops_true) = [Some true; Some true] /\
   skipn 13 (href Solver.sstate_empty ask graph0 cyc_ops_true) = [Some true; Some false]) /\
  (skipn 13 (hrun tbl_repo Solver.sstate_empty ask (mkSt graph0 None) cyc_ops_false) = [Some false; Some false] /\
   skipn 13 (href Solver.sstate_empty ask graph0 cyc_ops_false) = [Some false; Some true]).
Proof. split; [exact (cyc_dep_true tbl_repo) | exact (cyc_dep_false tbl_repo)]. Qed.
Print Assumptions history_dependence_on_a_loop_both_directions.

Example cyclic_witness_class :
  ops_wf cyc_ops_true /\ ops_wf cyc_ops_false /\
  Graph.no_conditions (to_solver_graph (view cyc_graph)) = true /\
  Graph.wf_graph (to_solver_graph (view cyc_graph)) = true /\
  Graph.acyclicb (to_solver_graph (view cyc_graph)) = false.
Proof. exact cyc_facts. Qed.

(* "Repeated queries never flip" for the REAL memoised solver: every history, every graph - cyclic and
   conditional included - no hypothesis on the history, the graph or the memo. *)
Theorem repeat_stable_real_solver : forall (pre : list hop) (q : query) (g : graph),
  exists b, skipn (length pre) (hrun tbl_repo Solver.sstate_empty ask (mkSt g None) (pre ++ [Ask q; Ask q]))
            = [Some b; Some b].
Proof. intros pre q g. exact (repeat_stable_solver tbl_repo pre q (mkSt g None)). Qed.
Print Assumptions repeat_stable_real_solver.

(* The invariant of one solver lifetime, on every graph: solved_states_ only grows and a finished entry never
   changes ... *)
Theorem memo_monotone_real_solver : forall g fuel st attrs n st' r,
  Solver.solve fuel g st attrs n = Some (st', r) ->
  forall s b, Solver.memo_get s (Solver.s_memo st) = Some b -> Solver.memo_get s (Solver.s_memo st') = Some b.
Proof. intros g fuel st attrs n st' r H. exact (solve_mono g fuel st attrs n st' r H). Qed.
Print Assumptions memo_monotone_real_solver.

(* ... hence an answered query keeps its answer for the rest of the lifetime, whatever is asked in between,
   and answering it again does not change the solver *)
Theorem answer_sticky_real_solver : forall g fuel f' st attrs n st1 r st2,
  Solver.solve fuel g st attrs n = Some (st1, r) ->
  (forall s b, Solver.memo_get s (Solver.s_memo st1) = Some b -> Solver.memo_get s (Solver.s_memo st2) = Some b) ->
  Solver.solve (S f') g st2 attrs n = Some (st2, r).
Proof. exact solve_sticky. Qed.
Print Assumptions answer_sticky_real_solver.

(* ... and every `true` in the memo, hence every `true` answer of a long-lived solver, is circularly explained
   (CyclicMemo.GExpl): a stale `true` is never worse than what SOME fresh search could justify by going
   round a loop. *)
Theorem live_true_answers_circularly_explained : forall g fuel st attrs n st' r,
  Solver.solve fuel g st attrs n = Some (st', r) -> st_okG g st ->
  st_okG g st' /\ (r = true -> GExpl g (n, Graph.sof_list attrs)).
Proof. exact solve_gexpl. Qed.
Print Assumptions live_true_answers_circularly_explained.

Example memo_invariant_initially : forall g, st_okG g Solver.sstate_empty.
Proof. exact st_okG_empty. Qed.

(* ------------------------------------------------------------------------------------------------
   History independence on CYCLIC condition-free graphs for the queries whose search cannot run into a cycle.
   clean_query g attrs n: no infinite FindSolution descent starts at the query's start states (accessibility
   for the successor relation of the search).  In ANY sequence of queries sharing one solver - whatever else,
   clean or not, was asked before or in between - a clean query gets the declarative answer, i.e. the answer of
   a fresh solver.  On an acyclic graph every query is clean, so this contains the acyclic statement. *)
From PV Require Import Typegraph.CleanExact.

Theorem history_independent_clean_queries : forall g fuel fuel' qs st' answers,
  Graph.no_conditions g = true ->
  Spec.run_queries fuel g Solver.sstate_empty qs = Some (st', answers) ->
  Forall2 (fun q a => clean_query g (fst q) (snd q) ->
                      forall a', Solver.solve_fresh fuel' g (fst q) (snd q) = Some a' -> a = a') qs answers.
Proof. exact clean_query_fresh_answer. Qed.
Print Assumptions history_independent_clean_queries.

Theorem clean_queries_get_the_declarative_answer : forall g, Graph.no_conditions g = true ->
  forall fuel qs st st' answers,
  Spec.run_queries fuel g st qs = Some (st', answers) -> st_okW g st ->
  st_okW g st' /\
  Forall2 (fun q a => clean_query g (fst q) (snd q) -> (a = true <-> Spec.Expl g (snd q) (Graph.sof_list (fst q))))
          qs answers.
Proof. exact run_queries_exact_wf. Qed.
Print Assumptions clean_queries_get_the_declarative_answer.

Theorem every_query_clean_on_acyclic_graphs : forall g rank, Graph.ranked g rank -> forall s, WFS g s.
Proof. exact all_clean_acyclic. Qed.
Print Assumptions every_query_clean_on_acyclic_graphs.

(* non-vacuity: a graph with a CFG cycle on which queries are clean *)
Example clean_on_a_cyclic_graph :
  Graph.wf_graph loop2 = true /\ Graph.no_conditions loop2 = true /\ Graph.acyclicb loop2 = false /\
  clean_query loop2 [0] 1 /\ clean_query loop2 [0; 1] 0.
Proof. exact loop2_facts. Qed.
