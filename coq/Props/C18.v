(* C18 — flow conditions and block-state merging preserve meaning (rewrite engine).
   Property theorems only; each is closed by [exact] and followed by Print Assumptions.
   Model: Flow/Model.v (conditions.py, variables.py, state.py); proofs: Flow/Proofs.v. *)
From Coq Require Import List Bool Arith PeanoNat.
From PV Require Import Flow.Model Flow.Proofs.
Import ListNotations.

(* ---- condition constructors: equivalent to not/and/or under every truth assignment, for all
        condition terms (any depth, any number of arguments, any atoms) ---- *)

Theorem not_equiv : forall rho c, holds rho (NotC c) = negb (holds rho c).
Proof. exact not_equiv_lemma. Qed.
Print Assumptions not_equiv.

Theorem and_equiv : forall rho args, holds rho (AndC args) = forallb (holds rho) args.
Proof. exact and_equiv_lemma. Qed.
Print Assumptions and_equiv.

Theorem or_equiv : forall rho args, holds rho (OrC args) = existsb (holds rho) args.
Proof. exact or_equiv_lemma. Qed.
Print Assumptions or_equiv.

(* the dataclass/frozenset equality used by the constructors ([negation in conditions]) and by
   merge_into ([var == other._locals[name]]) only identifies equivalent conditions *)
Theorem cond_eq_sound : forall rho a b, cond_eqb a b = true -> holds rho a = holds rho b.
Proof. exact cond_eqb_sound. Qed.
Print Assumptions cond_eq_sound.

(* ---- adding a condition restricts each binding by exactly that condition ---- *)

Theorem var_with_condition_exact : forall v c,
  Forall2 (fun b b' => bval b' = bval b /\
                       forall rho, holds rho (bcond b') = holds rho (bcond b) && holds rho c)
          (vbindings v) (vbindings (var_with_condition v c))
  /\ vname (var_with_condition v c) = vname v.
Proof. exact var_with_condition_exact_lemma. Qed.
Print Assumptions var_with_condition_exact.

Theorem state_with_condition_exact : forall rho s c x, Inv s ->
  vals rho (with_condition s c) x = (if holds rho c then vals rho s x else []) /\
  holds rho (scond (with_condition s c)) = holds rho (scond s) && holds rho c.
Proof. exact state_with_condition_exact_lemma. Qed.
Print Assumptions state_with_condition_exact.

(* ---- merging: under every truth assignment every local name has exactly the union ---- *)

Theorem merge_union : forall rho s1 s2 x, Inv s1 -> Inv s2 ->
  (forall val, In val (vals rho (merge_into s1 (Some s2)) x) <->
               In val (vals rho s1 x) \/ In val (vals rho s2 x)) /\
  holds rho (scond (merge_into s1 (Some s2))) = holds rho (scond s1) || holds rho (scond s2).
Proof. exact merge_union_lemma. Qed.
Print Assumptions merge_union.

Theorem merge_none : forall s, merge_into s None = s.
Proof. exact merge_none_lemma. Qed.
Print Assumptions merge_none.

(* ---- "built through the state's own operations": every public operation preserves Inv ---- *)

Theorem Inv_init : forall l c,
  NoDup (map fst l) -> (forall x v, In (x, v) l -> wfvar v) -> Inv (new_state l c None).
Proof. exact Inv_init_lemma. Qed.
Print Assumptions Inv_init.

Theorem Inv_store : forall s x v, Inv s -> wfvar v -> Inv (store_local s x v).
Proof. exact Inv_store_lemma. Qed.
Print Assumptions Inv_store.

(* what load_local hands out can be stored again *)
Theorem load_local_distinct : forall s x v, Inv s -> load_local s x = Some v -> wfvar v.
Proof. exact load_local_wf. Qed.
Print Assumptions load_local_distinct.

Theorem Inv_with_condition : forall s c, Inv s -> Inv (with_condition s c).
Proof. exact Inv_with_condition_lemma. Qed.
Print Assumptions Inv_with_condition.

Theorem Inv_merge : forall s1 s2, Inv s1 -> Inv s2 -> Inv (merge_into s1 (Some s2)).
Proof. exact Inv_merge_lemma. Qed.
Print Assumptions Inv_merge.

(* every history of public operations (any length, any nesting of merges) ends in an Inv state ... *)
Theorem run_Inv : forall p s, run p = Some s -> Inv s.
Proof. exact run_Inv_lemma. Qed.
Print Assumptions run_Inv.

(* ... so the union property holds for every pair of states built by histories *)
Theorem merge_union_run : forall p q s t rho x,
  run p = Some s -> run q = Some t ->
  forall val, In val (vals rho (merge_into s (Some t)) x) <->
              In val (vals rho s x) \/ In val (vals rho t x).
Proof. exact merge_union_run_lemma. Qed.
Print Assumptions merge_union_run.

(* ---- the clauses of Inv are needed (hand-built objects, outside the property's quantifier) ---- *)

(* a Variable with two bindings of the same value loses a condition in merge_into (dict overwrite) *)
Theorem merge_union_needs_distinct_values :
  exists s1 s2 rho x val,
    Inv_weak s1 /\ Inv s2 /\
    In val (vals rho s1 x) /\ ~ In val (vals rho (merge_into s1 (Some s2)) x).
Proof. exact merge_union_needs_distinct_values_lemma. Qed.
Print Assumptions merge_union_needs_distinct_values.

(* a state constructed with an explicit (non-default) locals_with_block_condition whose binding
   conditions do not imply the block condition is not restricted exactly by with_condition *)
Theorem with_condition_needs_implication :
  exists s c rho x,
    NoDup (map fst (locals s)) /\ (forall y v, dget y (locals s) = Some v -> wfvar v) /\
    holds rho c = true /\ vals rho (with_condition s c) x <> vals rho s x.
Proof. exact with_condition_needs_implication_lemma. Qed.
Print Assumptions with_condition_needs_implication.

(* ---- non-vacuity: a diamond.  x = 1; if a0: x = 2 (and y = 1); join; then a nested one. ---- *)
Definition p_entry : prog := PStore (PInit [] CT) 0 1 None.
Definition p_then : prog := PStore (PStore (PWith p_entry (Atom 0)) 0 2 None) 1 1 None.
Definition p_else : prog := PWith p_entry (CNot (Atom 0)).
Definition p_join : prog := PMerge p_then p_else.
Definition rho_t (a : nat) : bool := true.
Definition rho_f (a : nat) : bool := false.

Example diamond_runs : exists s, run p_join = Some s /\ Inv s /\
  wbc s = [] /\ length (locals s) = 2 /\
  vals rho_t s 0 = [2] /\ vals rho_f s 0 = [1] /\ vals rho_t s 1 = [1] /\ vals rho_f s 1 = [].
Proof.
  destruct (run p_join) as [s|] eqn:E; [|vm_compute in E; discriminate].
  exists s. split; [reflexivity|]. split; [exact (run_Inv_lemma _ _ E)|].
  vm_compute in E. inversion E. vm_compute. repeat split; reflexivity.
Qed.

(* the constructors really simplify: And(a, Or(b, c), not a) = FALSE, Or(a, FALSE, a) = a,
   no flattening of nested composites of the same kind *)
Example constructors_simplify :
  AndC [Atom 0; OrC [Atom 1; Atom 2]; NotC (Atom 0)] = CF /\
  OrC [Atom 0; CF; Atom 0] = Atom 0 /\
  AndC [AndC [Atom 0; Atom 1]; Atom 1] = CAnd [CAnd [Atom 0; Atom 1]; Atom 1] /\
  NotC (NotC (Atom 0)) = Atom 0 /\ NotC CT = CNot CT.
Proof. vm_compute. repeat split; reflexivity. Qed.

(* merging the join with a further conditioned copy of itself: both the "same variable" case
   (explicit on both sides) and the binding-merge case occur, and Inv still holds *)
Example nested_merge : exists s,
  run (PMerge (PWith p_join (Atom 1)) (PStore (PWith p_join (CNot (Atom 1))) 1 2 None)) = Some s /\
  Inv s /\ vals rho_t s 1 = [1] /\ vals rho_f s 1 = [2] /\ vals rho_f s 0 = [1].
Proof.
  match goal with |- exists s, run ?p = _ /\ _ => destruct (run p) as [s|] eqn:E; [|vm_compute in E; discriminate] end.
  exists s. split; [reflexivity|]. split; [exact (run_Inv_lemma _ _ E)|].
  vm_compute in E. inversion E. vm_compute. repeat split; reflexivity.
Qed.

(* ==== extension: frame_base.py — which state merges into which (Flow/Frame.v) ================== *)
From PV Require Import Flow.Frame Flow.FrameProofs.

(* For every ACYCLIC block graph processed in the order of code.order (wf_code: distinct block ids, every
   jump target / fall-through lies strictly later; any number of blocks, stores, atoms, repeated atoms),
   every initial locals, every block position p: the state with which FrameBase enters the block satisfies
   Inv, and under every valuation rho
   - a local x can have value v in it  iff  some control path from the entry block that is enabled under
     rho reaches the block with an environment (built by the straight-line stores along the path) in
     which x = v;
   - its block condition holds  iff  some enabled path reaches the block. *)
Theorem frame_join_exact : forall code init, wf_code code = true ->
  forall p b s, nth_error code p = Some b -> entry_state code init p = Some s ->
  Inv s /\
  forall rho,
    (forall x v, In v (vals rho s x) <->
                 exists e, arrives code init rho (bid b) e /\ dget x e = Some v) /\
    (holds rho (scond s) = true <-> exists e, arrives code init rho (bid b) e).
Proof. exact frame_join_exact_lemma. Qed.
Print Assumptions frame_join_exact.

(* a block that some enabled path reaches has a recorded state when its turn comes (no KeyError there) *)
Theorem frame_reached_has_state : forall code init p b f rho e,
  wf_code code = true -> nth_error code p = Some b -> run_prefix code init p = Some f ->
  arrives code init rho (bid b) e -> exists s, entry_state code init p = Some s.
Proof. exact frame_reached_has_state_lemma. Qed.
Print Assumptions frame_reached_has_state.

(* ---- non-vacuity: a diamond, and a nested if followed by a join ---- *)
(*  B0: if not a0 jump B3      B1: x = 1; jump B5      B3: x = 2 (fall)      B5: ret  *)
Definition code_diamond : list block :=
  [mkBlk 0 [] (TCond 0 3 1); mkBlk 1 [(0, 1)] (TJump 5); mkBlk 3 [(0, 2)] (TFall 5); mkBlk 5 [] TRet].

Example diamond_frame : wf_code code_diamond = true /\
  exists s, entry_state code_diamond [] 3 = Some s /\
    vals rho_t s 0 = [1] /\ vals rho_f s 0 = [2] /\ holds rho_f (scond s) = true.
Proof.
  split; [reflexivity|].
  destruct (entry_state code_diamond [] 3) as [s|] eqn:E; [|vm_compute in E; discriminate].
  exists s. split; [reflexivity|]. vm_compute in E. inversion E. vm_compute. repeat split; reflexivity.
Qed.

Example diamond_path : arrives code_diamond [] rho_f 5 [(0, 2)].
Proof.
  unfold arrives. change [(0, 2)] with (apply_stores [(0, 2)] (apply_stores [] (init_env []))).
  apply (ak_step code_diamond [] rho_f _ 2 (mkBlk 3 [(0, 2)] (TFall 5))); [simpl; auto | reflexivity | | left; reflexivity].
  apply (ak_step code_diamond [] rho_f _ 0 (mkBlk 0 [] (TCond 0 3 1))); [simpl; auto | reflexivity | | left; reflexivity].
  apply (ak_entry code_diamond [] rho_f _ (mkBlk 0 [] (TCond 0 3 1))). reflexivity.
Qed.

(*  x = 9 initially.
    B0: if not a0 jump B6    B1: if not a1 jump B4    B2: x = 1; jump B8    B4: x = 2; jump B8
    B6: x = 3 (fall)         B8: y = 1; ret *)
Definition code_nested : list block :=
  [mkBlk 0 [] (TCond 0 6 1); mkBlk 1 [] (TCond 1 4 2); mkBlk 2 [(0, 1)] (TJump 8);
   mkBlk 4 [(0, 2)] (TJump 8); mkBlk 6 [(0, 3)] (TFall 8); mkBlk 8 [(1, 1)] TRet].
Definition rho_10 (a : nat) : bool := Nat.eqb a 0.

Example nested_frame : wf_code code_nested = true /\
  exists s, entry_state code_nested [(0, 9)] 5 = Some s /\
    vals rho_t s 0 = [1] /\ vals rho_10 s 0 = [2] /\ vals rho_f s 0 = [3] /\
    exists s4, entry_state code_nested [(0, 9)] 3 = Some s4 /\
      vals rho_10 s4 0 = [9] /\ vals rho_t s4 0 = [] /\ holds rho_t (scond s4) = false.
Proof.
  split; [reflexivity|].
  destruct (entry_state code_nested [(0, 9)] 5) as [s|] eqn:E; [|vm_compute in E; discriminate].
  exists s. split; [reflexivity|]. vm_compute in E. inversion E.
  split; [vm_compute; reflexivity|]. split; [vm_compute; reflexivity|]. split; [vm_compute; reflexivity|].
  destruct (entry_state code_nested [(0, 9)] 3) as [s4|] eqn:E4; [|vm_compute in E4; discriminate].
  exists s4. split; [reflexivity|]. vm_compute in E4. inversion E4. vm_compute. repeat split; reflexivity.
Qed.

(* ==== extension 2a: frame_base.py on block graphs WITH back edges (Flow/Loop.v) ================ *)
From PV Require Import Flow.Loop Flow.LoopProofs.

(* For EVERY block graph with distinct block ids (back edges, self loops, jumps to ids that are no block,
   unreachable blocks; any sizes): each block is executed once, in the order of code.order; a state merged
   into an already executed block is never consumed.  The state with which FrameBase enters the block at
   position p satisfies Inv and denotes exactly the join over the enabled paths made of FORWARD edges
   (arrivesF: every edge goes to a block at a strictly later position). *)
Theorem frame_loop_join_exact : forall code init, NoDup (map bid code) ->
  forall p b s, nth_error code p = Some b -> entry_state code init p = Some s ->
  Inv s /\
  forall rho,
    (forall x v, In v (vals rho s x) <->
                 exists e, arrivesF code init rho (bid b) e /\ dget x e = Some v) /\
    (holds rho (scond s) = true <-> exists e, arrivesF code init rho (bid b) e).
Proof. exact frame_loop_join_exact_lemma. Qed.
Print Assumptions frame_loop_join_exact.

(* on an acyclic graph in topological order every path is forward: frame_join_exact is the special case *)
Theorem forward_paths_are_all_paths_when_acyclic : forall code init rho k j e,
  wf_code code = true -> (arrivesFK code init rho k j e <-> arrivesK code init rho k j e).
Proof. exact arrivesF_acyclic. Qed.
Print Assumptions forward_paths_are_all_paths_when_acyclic.

(* soundness direction with loops: whatever an entry state allows is allowed by some real (all-edges) path *)
Theorem frame_loop_sound : forall code init, NoDup (map bid code) ->
  forall p b s rho x v, nth_error code p = Some b -> entry_state code init p = Some s ->
  In v (vals rho s x) -> exists e, arrives code init rho (bid b) e /\ dget x e = Some v.
Proof. exact frame_loop_sound_lemma. Qed.
Print Assumptions frame_loop_sound.

(* the stronger reading "every value a local can have on entry along ANY path, around the loop included, is
   in the entry state" is FALSE: code_while, the header after one turn of the loop has x = 2, the entry state
   only x = 1.  (Outside C18's quantifier, which is about merge_into on states built by the state's own
   operations: recorded, not a finding.) *)
Theorem frame_loop_all_paths_refuted :
  exists code init p b s rho x v e,
    NoDup (map bid code) /\ nth_error code p = Some b /\ entry_state code init p = Some s /\
    arrives code init rho (bid b) e /\ dget x e = Some v /\ ~ In v (vals rho s x).
Proof. exact frame_loop_all_paths_refuted_lemma. Qed.
Print Assumptions frame_loop_all_paths_refuted.

(* a block reached by an enabled forward path has a state when its turn comes ... *)
Theorem frame_loop_reached_has_state : forall code init, NoDup (map bid code) ->
  forall p b f rho e, nth_error code p = Some b -> run_prefix code init p = Some f ->
  arrivesF code init rho (bid b) e -> exists s, entry_state code init p = Some s.
Proof. exact frame_loop_reached_has_state_lemma. Qed.
Print Assumptions frame_loop_reached_has_state.

(* ... but one that is reachable through a back edge only has none: step() raises KeyError *)
Theorem frame_back_edge_only_block_dies :
  (exists e, arrives code_back_only [] rho_all 1 e) /\
  entry_state code_back_only [] 1 = None /\ run_frame code_back_only [] = None.
Proof. exact back_only_dies_lemma. Qed.
Print Assumptions frame_back_edge_only_block_dies.

(* the frame's final state (whose get_locals() is _final_locals) denotes exactly the exit environments of
   the forward paths that end in a NO_NEXT opcode - RETURN-like, and also plain JUMP_FORWARD-like (quirk) *)
Theorem frame_final_exact : forall code init, NoDup (map bid code) ->
  forall f fl, run_frame code init = Some (f, fl) ->
  exists s, ffinal f = Some s /\ fl = get_locals s /\ Inv s /\
    forall rho,
      (forall x v, In v (vals rho s x) <->
                   exists e, finalF code init rho e /\ dget x e = Some v) /\
      (holds rho (scond s) = true <-> exists e, finalF code init rho e).
Proof. exact frame_final_exact_lemma. Qed.
Print Assumptions frame_final_exact.

(* non-vacuity: the while loop runs, its exit block B5 sees x = 1 under "not a0" and nothing under a0 (under
   a fixed valuation the loop is never left), and the frame has a final state *)
Example while_frame : NoDup (map bid code_while) /\
  exists s, entry_state code_while [] 3 = Some s /\
    vals rho_f s 0 = [1] /\ vals rho_t s 0 = [] /\
    exists f fl, run_frame code_while [] = Some (f, fl) /\ length fl = 1.
Proof.
  split. { simpl. repeat constructor; simpl; intuition discriminate. }
  destruct (entry_state code_while [] 3) as [s|] eqn:E; [|vm_compute in E; discriminate].
  exists s. split; [reflexivity|]. vm_compute in E. inversion E.
  split; [vm_compute; reflexivity|]. split; [vm_compute; reflexivity|].
  destruct (run_frame code_while []) as [[f fl]|] eqn:E2; [|vm_compute in E2; discriminate].
  exists f, fl. split; [reflexivity|]. vm_compute in E2. inversion E2. reflexivity.
Qed.

(* ==== extension 2b: the rest of the public API of variables.py / state.py (Flow/Api.v) ========= *)
From PV Require Import Flow.Api Flow.ApiProofs.

Theorem get_atomic_value_ok : forall v t x,
  get_atomic_value v t = inl x <->
  exists c, vbindings v = [mkB x c] /\ forall isinst, t = Some isinst -> isinst x = true.
Proof. exact get_atomic_value_ok_lemma. Qed.
Print Assumptions get_atomic_value_ok.

Theorem get_atomic_value_errors : forall v t,
  (get_atomic_value v t = inr TooFew <-> vbindings v = []) /\
  (get_atomic_value v t = inr TooMany <-> 2 <= length (vbindings v)) /\
  (get_atomic_value v t = inr WrongType <->
     exists b isinst, vbindings v = [b] /\ t = Some isinst /\ isinst (bval b) = false).
Proof. exact get_atomic_value_errors_lemma. Qed.
Print Assumptions get_atomic_value_errors.

Theorem get_atomic_value_only_value : forall v t x rho,
  get_atomic_value v t = inl x -> forall y, In y (var_vals rho v) -> y = x.
Proof. exact get_atomic_value_only_value_lemma. Qed.
Print Assumptions get_atomic_value_only_value.

Theorem is_atomic_iff_get : forall v t,
  is_atomic v t = true <-> exists x, get_atomic_value v t = inl x.
Proof. exact is_atomic_iff_get_lemma. Qed.
Print Assumptions is_atomic_iff_get.

Theorem has_atomic_value_spec : forall v x,
  has_atomic_value v x = true <-> get_atomic_value v None = inl x.
Proof. exact has_atomic_value_spec_lemma. Qed.
Print Assumptions has_atomic_value_spec.

Theorem with_value_spec : forall v x v',
  with_value v x = Some v' <-> exists b, vbindings v = [b] /\ v' = mkV [mkB x (bcond b)] (vname v).
Proof. exact with_value_spec_lemma. Qed.
Print Assumptions with_value_spec.

Theorem with_value_none : forall v x, with_value v x = None <-> length (vbindings v) <> 1.
Proof. exact with_value_none_lemma. Qed.
Print Assumptions with_value_none.

Theorem with_value_vals : forall v x v' rho,
  with_value v x = Some v' ->
  var_vals rho v' = map (fun _ => x) (var_vals rho v) /\ wfvar v' /\ vname v' = vname v.
Proof. exact with_value_vals_lemma. Qed.
Print Assumptions with_value_vals.

Theorem with_name_spec : forall v n rho,
  vbindings (with_name v n) = vbindings v /\ vname (with_name v n) = n /\
  var_vals rho (with_name v n) = var_vals rho v.
Proof. exact with_name_spec_lemma. Qed.
Print Assumptions with_name_spec.

Theorem load_local_spec : forall s x v,
  load_local s x = Some v <-> exists v0, dget x (get_locals s) = Some v0 /\ v = with_name v0 (Some x).
Proof. exact load_local_spec_lemma. Qed.
Print Assumptions load_local_spec.

Theorem load_local_none : forall s x, load_local s x = None <-> dget x (get_locals s) = None.
Proof. exact load_local_none_lemma. Qed.
Print Assumptions load_local_none.

(* load_local hands the variable out without the lazily tracked block condition *)
Theorem load_local_vals : forall s x v rho,
  load_local s x = Some v -> vals rho s x = if blk rho s x then var_vals rho v else [].
Proof. exact load_local_vals_lemma. Qed.
Print Assumptions load_local_vals.

Theorem store_then_load : forall s x v y,
  load_local (store_local s x v) y = if Nat.eqb y x then Some (with_name v (Some x)) else load_local s y.
Proof. exact store_then_load_lemma. Qed.
Print Assumptions store_then_load.

Theorem get_locals_store : forall s x v y,
  dget y (get_locals (store_local s x v)) = if Nat.eqb y x then Some v else dget y (get_locals s).
Proof. exact get_locals_store_lemma. Qed.
Print Assumptions get_locals_store.

(* with_condition on a state whose own condition is not TRUE: explicit locals get the COMBINED condition *)
Theorem with_condition_shape : forall s c, NoDup (map fst (locals s)) ->
  scond (with_condition s c) = AndC [scond s; c] /\
  wbc (with_condition s c) = wbc s /\
  forall x, dget x (get_locals (with_condition s c)) =
            match dget x (get_locals s) with
            | None => None
            | Some v => Some (if nmem x (wbc s) then v else var_with_condition v (AndC [scond s; c]))
            end.
Proof. exact with_condition_shape_lemma. Qed.
Print Assumptions with_condition_shape.

Theorem with_condition_keys : forall s c, NoDup (map fst (locals s)) ->
  map fst (get_locals (with_condition s c)) = map fst (get_locals s).
Proof. exact with_condition_keys_lemma. Qed.
Print Assumptions with_condition_keys.

(* so with_condition(TRUE) is not the identity on such a state (the terms grow), only an equivalence *)
Theorem with_condition_true_grows :
  Inv grow_s /\
  get_locals (with_condition grow_s CT) = [(0, mkV [mkB 1 (CAnd [CAnd [Atom 0; Atom 1]; Atom 0])] None)] /\
  forall rho x, vals rho (with_condition grow_s CT) x = vals rho grow_s x.
Proof. exact with_condition_true_grows_lemma. Qed.
Print Assumptions with_condition_true_grows.

Example api_nonvacuous :
  get_atomic_value (from_value 7 None) (Some (fun v => Nat.leb v 9)) = inl 7 /\
  get_atomic_value (from_value 7 None) (Some (fun v => Nat.leb v 3)) = inr WrongType /\
  get_atomic_value (mkV [mkB 1 (Atom 0); mkB 2 (CNot (Atom 0))] None) None = inr TooMany /\
  get_atomic_value (mkV [] (Some 0)) None = inr TooFew /\
  with_value (mkV [mkB 1 (Atom 0)] (Some 3)) 5 = Some (mkV [mkB 5 (Atom 0)] (Some 3)) /\
  has_atomic_value (mkV [mkB 1 (Atom 0)] None) 1 = true.
Proof. repeat split. Qed.

(* ==== extension 2c: the normal form of the terms conditions.py builds (Flow/Api.v cond_wfb) ===== *)
From PV Require Import Flow.CondWfProofs.

(* invariant: TRUE / FALSE / atoms are well formed, and every constructor maps well-formed arguments to a
   well-formed term: a negation is never doubled; a composite has >= 2 members, each well formed, none
   TRUE/FALSE, no two equal, none the negation of another *)
Theorem cond_wf_not : forall c, cond_wfb c = true -> cond_wfb (NotC c) = true.
Proof. exact notc_wf_lemma. Qed.
Print Assumptions cond_wf_not.

Theorem cond_wf_make : forall k args,
  (forall a, In a args -> cond_wfb a = true) -> cond_wfb (make k args) = true.
Proof. exact make_wf_lemma. Qed.
Print Assumptions cond_wf_make.

(* what IS guaranteed, spelled out *)
Theorem cond_wf_composite : forall c, is_composite c = true -> cond_wfb c = true ->
  2 <= length (members c) /\
  (forall x, In x (members c) -> cond_wfb x = true /\ x <> CT /\ x <> CF) /\
  nodupb (members c) = true /\
  (forall x y, In x (members c) -> In y (members c) -> cond_eqb (NotC x) y = false).
Proof. exact wf_composite_lemma. Qed.
Print Assumptions cond_wf_composite.

(* no flattening, no new subterms: the result of And/Or is an argument, a constant, or a composite of the
   called kind whose members are arguments *)
Theorem make_result_shape : forall k args,
  (forall a, In a args -> cond_wfb a = true) ->
  In (make k args) args \/ is_const (make k args) = true \/
  exists s, make k args = mk k s /\ 2 <= length s /\ set_ok s /\ forall x, In x s -> In x args.
Proof. exact make_result_lemma. Qed.
Print Assumptions make_result_shape.

Theorem no_flattening :
  make KAnd [make KAnd [Atom 0; Atom 1]; Atom 2] = CAnd [CAnd [Atom 0; Atom 1]; Atom 2] /\
  cond_wfb (CAnd [CAnd [Atom 0; Atom 1]; Atom 2]) = true /\
  cond_eqb (make KAnd [make KAnd [Atom 0; Atom 1]; Atom 2]) (make KAnd [Atom 0; Atom 1; Atom 2]) = false.
Proof. exact no_flattening_lemma. Qed.
Print Assumptions no_flattening.

(* laws for all terms *)
Theorem make_single : forall k a, make k [a] = a.
Proof. exact make_single_lemma. Qed.
Print Assumptions make_single.

Theorem make_idem : forall k a, make k [a; a] = a.
Proof. exact make_idem_lemma. Qed.
Print Assumptions make_idem.

Theorem make_unit : forall k a, make k [ignore k; a] = a /\ make k [a; ignore k] = a.
Proof. exact make_unit_lemma. Qed.
Print Assumptions make_unit.

Theorem make_zero : forall k a, make k [accept k; a] = accept k /\ make k [a; accept k] = accept k.
Proof. exact make_zero_lemma. Qed.
Print Assumptions make_zero.

(* laws that need the normal form *)
Theorem not_involutive : forall a, cond_wfb a = true -> NotC (NotC a) = a.
Proof. intros a H. apply notc_involutive_lemma. apply wf_nn. exact H. Qed.
Print Assumptions not_involutive.

Theorem not_involutive_needs_wf : exists a, NotC (NotC a) <> a /\ cond_wfb a = false.
Proof. exact notc_not_involutive_lemma. Qed.
Print Assumptions not_involutive_needs_wf.

Theorem make_complement : forall k a,
  cond_wfb a = true -> is_const a = false -> is_const (NotC a) = false ->
  make k [a; NotC a] = accept k /\ make k [NotC a; a] = accept k.
Proof. intros k a H. apply make_complement_lemma. apply wf_nn. exact H. Qed.
Print Assumptions make_complement.

Theorem make_complement_needs_wf :
  exists a b, cond_wfb a = false /\ cond_wfb b = true /\
              (forall rho, holds rho a = negb (holds rho b)) /\ make KAnd [a; b] = CAnd [a; b].
Proof. exact make_complement_needs_wf_lemma. Qed.
Print Assumptions make_complement_needs_wf.

(* equality of terms is symmetric (used by the set reasoning; Python's == on the dataclasses is) *)
Theorem cond_eq_sym : forall a b, cond_eqb a b = cond_eqb b a.
Proof. exact cond_eqb_sym. Qed.
Print Assumptions cond_eq_sym.

Example wf_nonvacuous :
  cond_wfb (OrC [AndC [Atom 0; NotC (Atom 1)]; NotC (AndC [Atom 0; Atom 2]); Atom 1]) = true /\
  is_composite (OrC [AndC [Atom 0; NotC (Atom 1)]; NotC (AndC [Atom 0; Atom 2]); Atom 1]) = true /\
  cond_wfb (CAnd [Atom 0]) = false /\ cond_wfb (CAnd [Atom 0; CT]) = false /\
  cond_wfb (COr [Atom 0; CNot (Atom 0)]) = false /\ cond_wfb (CNot (CNot (Atom 0))) = false.
Proof. repeat split. Qed.
