(* C18 — flow conditions and block-state merging preserve meaning (rewrite engine).
   Property theorems only; each is closed by [exact] and followed by Print Assumptions.
   Model: Flow/Model.v (conditions.py, variables.py, state.py); proofs: Flow/Proofs.v. *)
From Coq Require Import List Bool Arith PeanoNat.
From PV Require Import Flow.Model Flow.Proofs.
Import ListNotations.

(* ---- condition constructors: equivalent to not/and/or under every truth assignment, for all
        condition terms (any depth, any number of arguments, any atoms) ---- *)

Theorem not_equiv : forall rho c, holds rho (NotC c) = negb (holds rho c).
Proof. exact not_equiv_lemma. Qed.
Print Assumptions not_equiv.

Theorem and_equiv : forall rho args, holds rho (AndC args) = forallb (holds rho) args.
Proof. exact and_equiv_lemma. Qed.
Print Assumptions and_equiv.

Theorem or_equiv : forall rho args, holds rho (OrC args) = existsb (holds rho) args.
Proof. exact or_equiv_lemma. Qed.
Print Assumptions or_equiv.

(* the dataclass/frozenset equality used by the constructors ([negation in conditions]) and by
   merge_into ([var == other._locals[name]]) only identifies equivalent conditions *)
Theorem cond_eq_sound : forall rho a b, cond_eqb a b = true -> holds rho a = holds rho b.
Proof. exact cond_eqb_sound. Qed.
Print Assumptions cond_eq_sound.

(* ---- adding a condition restricts each binding by exactly that condition ---- *)

Theorem var_with_condition_exact : forall v c,
  Forall2 (fun b b' => bval b' = bval b /\
                       forall rho, holds rho (bcond b') = holds rho (bcond b) && holds rho c)
          (vbindings v) (vbindings (var_with_condition v c))
  /\ vname (var_with_condition v c) = vname v.
Proof. exact var_with_condition_exact_lemma. Qed.
Print Assumptions var_with_condition_exact.

Theorem state_with_condition_exact : forall rho s c x, Inv s ->
  vals rho (with_condition s c) x = (if holds rho c then vals rho s x else []) /\
  holds rho (scond (with_condition s c)) = holds rho (scond s) && holds rho c.
Proof. exact state_with_condition_exact_lemma. Qed.
Print Assumptions state_with_condition_exact.

(* ---- merging: under every truth assignment every local name has exactly the union ---- *)

Theorem merge_union : forall rho s1 s2 x, Inv s1 -> Inv s2 ->
  (forall val, In val (vals rho (merge_into s1 (Some s2)) x) <->
               In val (vals rho s1 x) \/ In val (vals rho s2 x)) /\
  holds rho (scond (merge_into s1 (Some s2))) = holds rho (scond s1) || holds rho (scond s2).
Proof. exact merge_union_lemma. Qed.
Print Assumptions merge_union.

Theorem merge_none : forall s, merge_into s None = s.
Proof. exact merge_none_lemma. Qed.
Print Assumptions merge_none.

(* ---- "built through the state's own operations": every public operation preserves Inv ---- *)

Theorem Inv_init : forall l c,
  NoDup (map fst l) -> (forall x v, In (x, v) l -> wfvar v) -> Inv (new_state l c None).
Proof. exact Inv_init_lemma. Qed.
Print Assumptions Inv_init.

Theorem Inv_store : forall s x v, Inv s -> wfvar v -> Inv (store_local s x v).
Proof. exact Inv_store_lemma. Qed.
Print Assumptions Inv_store.

(* what load_local hands out can be stored again *)
Theorem load_local_distinct : forall s x v, Inv s -> load_local s x = Some v -> wfvar v.
Proof. exact load_local_wf. Qed.
Print Assumptions load_local_distinct.

Theorem Inv_with_condition : forall s c, Inv s -> Inv (with_condition s c).
Proof. exact Inv_with_condition_lemma. Qed.
Print Assumptions Inv_with_condition.

Theorem Inv_merge : forall s1 s2, Inv s1 -> Inv s2 -> Inv (merge_into s1 (Some s2)).
Proof. exact Inv_merge_lemma. Qed.
Print Assumptions Inv_merge.

(* every history of public operations (any length, any nesting of merges) ends in an Inv state ... *)
Theorem run_Inv : forall p s, run p = Some s -> Inv s.
Proof. exact run_Inv_lemma. Qed.
Print Assumptions run_Inv.

(* ... so the union property holds for every pair of states built by histories *)
Theorem merge_union_run : forall p q s t rho x,
  run p = Some s -> run q = Some t ->
  forall val, In val (vals rho (merge_into s (Some t)) x) <->
              In val (vals rho s x) \/ In val (vals rho t x).
Proof. exact merge_union_run_lemma. Qed.
Print Assumptions merge_union_run.

(* ---- the clauses of Inv are needed (hand-built objects, outside the property's quantifier) ---- *)

(* a Variable with two bindings of the same value loses a condition in merge_into (dict overwrite) *)
Theorem merge_union_needs_distinct_values :
  exists s1 s2 rho x val,
    Inv_weak s1 /\ Inv s2 /\
    In val (vals rho s1 x) /\ ~ In val (vals rho (merge_into s1 (Some s2)) x).
Proof. exact merge_union_needs_distinct_values_lemma. Qed.
Print Assumptions merge_union_needs_distinct_values.

(* a state constructed with an explicit (non-default) locals_with_block_condition whose binding
   conditions do not imply the block condition is not restricted exactly by with_condition *)
Theorem with_condition_needs_implication :
  exists s c rho x,
    NoDup (map fst (locals s)) /\ (forall y v, dget y (locals s) = Some v -> wfvar v) /\
    holds rho c = true /\ vals rho (with_condition s c) x <> vals rho s x.
Proof. exact with_condition_needs_implication_lemma. Qed.
Print Assumptions with_condition_needs_implication.

(* ---- non-vacuity: a diamond.  x = 1; if a0: x = 2 (and y = 1); join; then a nested one. ---- *)
Definition p_entry : prog := PStore (PInit [] CT) 0 1 None.
Definition p_then : prog := PStore (PStore (PWith p_entry (Atom 0)) 0 2 None) 1 1 None.
Definition p_else : prog := PWith p_entry (CNot (Atom 0)).
Definition p_join : prog := PMerge p_then p_else.
Definition rho_t (a : nat) : bool := true.
Definition rho_f (a : nat) : bool := false.

Example diamond_runs : exists s, run p_join = Some s /\ Inv s /\
  wbc s = [] /\ length (locals s) = 2 /\
  vals rho_t s 0 = [2] /\ vals rho_f s 0 = [1] /\ vals rho_t s 1 = [1] /\ vals rho_f s 1 = [].
Proof.
  destruct (run p_join) as [s|] eqn:E; [|vm_compute in E; discriminate].
  exists s. split; [reflexivity|]. split; [exact (run_Inv_lemma _ _ E)|].
  vm_compute in E. inversion E. vm_compute. repeat split; reflexivity.
Qed.

(* the constructors really simplify: And(a, Or(b, c), not a) = FALSE, Or(a, FALSE, a) = a,
   no flattening of nested composites of the same kind *)
Example constructors_simplify :
  AndC [Atom 0; OrC [Atom 1; Atom 2]; NotC (Atom 0)] = CF /\
  OrC [Atom 0; CF; Atom 0] = Atom 0 /\
  AndC [AndC [Atom 0; Atom 1]; Atom 1] = CAnd [CAnd [Atom 0; Atom 1]; Atom 1] /\
  NotC (NotC (Atom 0)) = Atom 0 /\ NotC CT = CNot CT.
Proof. vm_compute. repeat split; reflexivity. Qed.

(* merging the join with a further conditioned copy of itself: both the "same variable" case
   (explicit on both sides) and the binding-merge case occur, and Inv still holds *)
Example nested_merge : exists s,
  run (PMerge (PWith p_join (Atom 1)) (PStore (PWith p_join (CNot (Atom 1))) 1 2 None)) = Some s /\
  Inv s /\ vals rho_t s 1 = [1] /\ vals rho_f s 1 = [2] /\ vals rho_f s 0 = [1].
Proof.
  match goal with |- exists s, run ?p = _ /\ _ => destruct (run p) as [s|] eqn:E; [|vm_compute in E; discriminate] end.
  exists s. split; [reflexivity|]. split; [exact (run_Inv_lemma _ _ E)|].
  vm_compute in E. inversion E. vm_compute. repeat split; reflexivity.
Qed.

(* ==== extension: frame_base.py — which state merges into which (Flow/Frame.v) ================== *)
From PV Require Import Flow.Frame Flow.FrameProofs.

(* For every ACYCLIC block graph processed in the order of code.order (wf_code: distinct block ids, every
   jump target / fall-through lies strictly later; any number of blocks, stores, atoms, repeated atoms),
   every initial locals, every block position p: the state with which FrameBase enters the block satisfies
   Inv, and under every valuation rho
   - a local x can have value v in it  iff  some control path from the entry block that is enabled under
     rho reaches the block with an environment (built by the straight-line stores along the path) in
     which x = v;
   - its block condition holds  iff  some enabled path reaches the block. *)
Theorem frame_join_exact : forall code init, wf_code code = true ->
  forall p b s, nth_error code p = Some b -> entry_state code init p = Some s ->
  Inv s /\
  forall rho,
    (forall x v, In v (vals rho s x) <->
                 exists e, arrives code init rho (bid b) e /\ dget x e = Some v) /\
    (holds rho (scond s) = true <-> exists e, arrives code init rho (bid b) e).
Proof. exact frame_join_exact_lemma. Qed.
Print Assumptions frame_join_exact.

(* a block that some enabled path reaches has a recorded state when its turn comes (no KeyError there) *)
Theorem frame_reached_has_state : forall code init p b f rho e,
  wf_code code = true -> nth_error code p = Some b -> run_prefix code init p = Some f ->
  arrives code init rho (bid b) e -> exists s, entry_state code init p = Some s.
Proof. exact frame_reached_has_state_lemma. Qed.
Print Assumptions frame_reached_has_state.

(* ---- non-vacuity: a diamond, and a nested if followed by a join ---- *)
(*  B0: if not a0 jump B3      B1: x = 1; jump B5      B3: x = 2 (fall)      B5: ret  *)
Definition code_diamond : list block :=
  [mkBlk 0 [] (TCond 0 3 1); mkBlk 1 [(0, 1)] (TJump 5); mkBlk 3 [(0, 2)] (TFall 5); mkBlk 5 [] TRet].

Example diamond_frame : wf_code code_diamond = true /\
  exists s, entry_state code_diamond [] 3 = Some s /\
    vals rho_t s 0 = [1] /\ vals rho_f s 0 = [2] /\ holds rho_f (scond s) = true.
Proof.
  split; [reflexivity|].
  destruct (entry_state code_diamond [] 3) as [s|] eqn:E; [|vm_compute in E; discriminate].
  exists s. split; [reflexivity|]. vm_compute in E. inversion E. vm_compute. repeat split; reflexivity.
Qed.

Example diamond_path : arrives code_diamond [] rho_f 5 [(0, 2)].
Proof.
  unfold arrives. change [(0, 2)] with (apply_stores [(0, 2)] (apply_stores [] (init_env []))).
  apply (ak_step code_diamond [] rho_f _ 2 (mkBlk 3 [(0, 2)] (TFall 5))); [simpl; auto | reflexivity | | left; reflexivity].
  apply (ak_step code_diamond [] rho_f _ 0 (mkBlk 0 [] (TCond 0 3 1))); [simpl; auto | reflexivity | | left; reflexivity].
  apply (ak_entry code_diamond [] rho_f _ (mkBlk 0 [] (TCond 0 3 1))). reflexivity.
Qed.

(*  x = 9 initially.
    B0: if not a0 jump B6    B1: if not a1 jump B4    B2: x = 1; jump B8    B4: x = 2; jump B8
    B6: x = 3 (fall)         B8: y = 1; ret *)
Definition code_nested : list block :=
  [mkBlk 0 [] (TCond 0 6 1); mkBlk 1 [] (TCond 1 4 2); mkBlk 2 [(0, 1)] (TJump 8);
   mkBlk 4 [(0, 2)] (TJump 8); mkBlk 6 [(0, 3)] (TFall 8); mkBlk 8 [(1, 1)] TRet].
Definition rho_10 (a : nat) : bool := Nat.eqb a 0.

Example nested_frame : wf_code code_nested = true /\
  exists s, entry_state code_nested [(0, 9)] 5 = Some s /\
    vals rho_t s 0 = [1] /\ vals rho_10 s 0 = [2] /\ vals rho_f s 0 = [3] /\
    exists s4, entry_state code_nested [(0, 9)] 3 = Some s4 /\
      vals rho_10 s4 0 = [9] /\ vals rho_t s4 0 = [] /\ holds rho_t (scond s4) = false.
Proof.
  split; [reflexivity|].
  destruct (entry_state code_nested [(0, 9)] 5) as [s|] eqn:E; [|vm_compute in E; discriminate].
  exists s. split; [reflexivity|]. vm_compute in E. inversion E.
  split; [vm_compute; reflexivity|]. split; [vm_compute; reflexivity|]. split; [vm_compute; reflexivity|].
  destruct (entry_state code_nested [(0, 9)] 3) as [s4|] eqn:E4; [|vm_compute in E4; discriminate].
  exists s4. split; [reflexivity|]. vm_compute in E4. inversion E4. vm_compute. repeat split; reflexivity.
Qed.
